(* C17: a whole read never panics -- for EVERY input stream (any characters, undecodable bytes, chunking, messages
   from other threads), BOTH modes, any key bindings -- when no helper is installed and the history is empty (the
   completion and search sub-loops are then never entered; with them the invariant J is not preserved in general:
   known finding K9). *)
From RL Require Import UData Uax29 LineBuffer LineBufferOps LineBufferProofs LineBufferTotal LineBufferAll LineBufferGrow
     Undo KillRing History Render Keys Editor EditorRun EditorProofs UndoProofs UndoEditor KillRingProofs RecallProofs
     HistoryProofs NoPanic ReadNoPanic.

(* the pending numeric argument is only touched by the keymap *)
Definition kna {A} (m : E A) : Prop := forall s a s', m s = EOk a s' -> i_num_args s' = i_num_args s.
Lemma kna_bind {A B} (m : E A) (f : A -> E B) : kna m -> (forall a, kna (f a)) -> kna (ebind m f).
Proof.
  intros Hm Hf s b s2 H. apply ebind_inv in H. destruct H as [a [s1 [H1 H2]]].
  rewrite (Hf _ _ _ _ H2). eapply Hm; eauto.
Qed.
Ltac kna_leaf := let Hx := fresh "Hx" in intros ? ? ? Hx; first [discriminate | (inversion Hx; subst; reflexivity)].
Ltac kna_auto :=
  repeat (first [ match goal with |- kna (ebind _ _) => apply kna_bind; [|intros] end
                | (kna_leaf; fail) ] ||
          match goal with
          | |- kna (if ?c then _ else _) => destruct c
          | |- kna (match ?x with _ => _ end) => destruct x
          | |- kna (let '(_, _) := ?x in _) => destruct x
          | |- kna (let _ := _ in _) => cbv zeta
          end).

Section MainLoop.
  Variable U : UData.
  Variable cfg : config.

  Theorem execute_kna c : kna (execute U cfg c).
  Proof.
    unfold execute, complete_hint_line, edit_insert, edit_yank, edit_yank_pop, edit_kill, edit_insert_text,
      edit_replace_char, edit_overwrite_char, grouped, moved, edit_move_line_up, edit_move_line_down,
      edit_history_next, edit_history, edit_history_search, validate, restore, backup, beep,
      refresh_line, refresh_line_with_msg, refresh_prompt_and_line, refresh, update_hint, move_cursor,
      move_cursor_to_end, lb_changes, lb_quiet, lb_kill, changes_begin, changes_end.
    destruct c; kna_auto.
  Qed.
  Lemma edit_insert_kna ch n : kna (edit_insert U cfg ch n).
  Proof. unfold edit_insert, lb_changes, refresh_line, refresh, update_hint. kna_auto. Qed.
  Lemma edit_insert_kh ch n : keeps_hist (edit_insert U cfg ch n).
  Proof. unfold edit_insert, lb_changes, refresh_line, refresh, update_hint. kh_auto. Qed.

  Section Loop.
  Variable H : list str.          (* the stored history: fixed during a read (C07) *)

  (* the loop invariant *)
  Definition P (s : est) : Prop := R cfg s /\ e_hist s = H.

  Definition rp {A} (m : E A) : Prop :=
    forall s, P s -> match m s with EPanic => False | EOk _ s' => P s' | _ => True end.

  Lemma rp_bind {A B} (m : E A) (f : A -> E B) : rp m -> (forall a, rp (f a)) -> rp (ebind m f).
  Proof.
    intros Hm Hf s HP. specialize (Hm s HP). unfold ebind. destruct (m s) as [a s1| | |]; auto. apply Hf. exact Hm.
  Qed.
  Lemma rp_of_kq {A} (m : E A) : kq cfg m -> keeps_hist m -> rp m.
  Proof.
    intros Hk Hh s [HR He]. specialize (Hk s HR). destruct (m s) as [a s'| | |] eqn:E; auto.
    destruct Hk as [HR' _]. split; [exact HR'|]. rewrite (Hh _ _ _ E). exact He.
  Qed.
  Lemma rp_of_np {A} (m : E A) : np m -> kna m -> keeps_hist m -> rp m.
  Proof.
    intros Hn Hk Hh s [[HJ HN] He]. specialize (Hn s HJ). unfold npr in Hn. destruct (m s) as [a s'| | |] eqn:E; auto.
    split; [split; [exact Hn|unfold Nv; rewrite (Hk _ _ _ E); exact HN]|]. rewrite (Hh _ _ _ E). exact He.
  Qed.
  Lemma rp_ret {A} (a : A) : rp (eret a).
  Proof. intros s HP. exact HP. Qed.
  Lemma rp_get_bind {A} (f : est -> E A) : (forall s0, P s0 -> rp (f s0)) -> rp (ebind eget f).
  Proof. intros Hf s HP. unfold ebind, eget. apply Hf; exact HP. Qed.

  Lemma q5_external_print m : quiet5 (external_print U cfg m).
  Proof. unfold external_print. q5_auto; apply q5_refresh_line. Qed.
  Lemma q5_drain_prints fuel : quiet5 (drain_prints U cfg fuel).
  Proof.
    induction fuel as [|f IH]; cbn [drain_prints]; [apply q5_ret|].
    apply quiet5_bind; [apply q5_get|]. intros s. destruct (peek_print (e_inp s)) as [[m i]|]; [|apply q5_ret].
    apply quiet5_bind; [apply q5_set_inp|]. intros _. apply quiet5_bind; [apply q5_external_print|]. intros _. exact IH.
  Qed.

  Lemma rp_reset c0 : rp (if should_reset_kill_ring c0 then (edo s <- eget; set_kr (kr_reset (e_kr s))) else eret tt).
  Proof.
    destruct (should_reset_kill_ring c0); [|apply rp_ret].
    apply rp_of_np; [apply np_forget_yank| |]; intros s a s' Hx; inversion Hx; reflexivity.
  Qed.

  Lemma rp_execute c : rp (execute U cfg c).
  Proof. apply rp_of_np; [apply execute_never_panics|apply execute_kna|apply execute_keeps_history]. Qed.

  Lemma rp_quoted_insert (k : E unit) : rp k -> rp (edo ch <- next_char; edit_insert U cfg ch 1 ;;; k).
  Proof.
    intros Hk. apply rp_bind; [apply rp_of_kq; [apply kq_of_q5, q5_next_char|apply kh_next_char]|]. intros ch.
    apply rp_bind; [|intros _; exact Hk].
    apply rp_of_np; [apply np_edit_insert|apply edit_insert_kna|apply edit_insert_kh].
  Qed.

  (* what the loop needs from the two sub-loops *)
  Hypothesis search_rp : forall f, rp (incremental_search U cfg f).
  Hypothesis complete_rp : c_has_helper cfg = true -> forall f, rp (complete_line U cfg f).

  (* THE LOOP: from any state with the invariant, for every amount of fuel, no panic *)
  Theorem main_loop_rp fuel : rp (main_loop U cfg fuel).
  Proof.
    induction fuel as [|f IH]; cbn [main_loop]; [intros s _; exact Logic.I|].
    apply rp_get_bind. intros s00 _.
    apply rp_bind; [apply rp_of_kq; [apply kq_of_q5, q5_drain_prints|apply kh_drain_prints]|]. intros _.
    apply rp_bind; [apply rp_of_kq; [apply kq_next_cmd|apply kh_next_cmd]|]. intros c0.
    apply rp_bind; [apply rp_reset|]. intros _.
    apply rp_bind with (m := match c0 with
                             | CComplete => if c_has_helper cfg then complete_line U cfg f else eret (Some c0)
                             | _ => eret (Some c0)
                             end).
    { destruct c0; try apply rp_ret. destruct (c_has_helper cfg) eqn:Eh; [apply complete_rp; reflexivity|apply rp_ret]. }
    intros oc. destruct oc as [c1|]; [|exact IH].
    apply rp_bind with (m := match c1 with
                             | CReverseSearchHistory => incremental_search U cfg f
                             | _ => eret (Some c1)
                             end).
    { destruct c1; try apply rp_ret. apply search_rp. }
    intros oc2. destruct oc2 as [c2|]; [|exact IH].
    destruct c2; try (apply rp_bind; [apply rp_execute|]; intros st; destruct st; [exact IH|apply rp_ret]).
    - apply rp_quoted_insert. exact IH.
    - apply rp_bind; [apply rp_of_kq; [apply kq_of_q5, q5_refresh_line|apply kh_refresh_line]|]. intros _. exact IH.
  Qed.

  (* A WHOLE READ over the history H *)
  Theorem read_rp prompt initial kr inp :
    kr_inv kr -> fst (read_line U cfg prompt initial H kr inp) <> OPanic.
  Proof.
    intros Hk. unfold read_line.
    set (s0 := initial_state U cfg prompt H (kr_reset kr) inp).
    assert (HP0 : P s0).
    { split; [split; [apply initial_J; exact Hk|intros _; cbn; lia]|reflexivity]. }
    match goal with |- fst (match ?prog s0 with _ => _ end) <> _ => assert (Hrp : rp prog) end.
    { apply rp_bind.
      - destruct initial as [[l r]|]; [|apply rp_ret].
        apply rp_of_np; [apply np_lb_changes; [apply (update_total (l ++ r) (blen l)); apply bd_mid|apply good_update|apply kg_update]| |].
        + unfold lb_changes. kna_auto.
        + apply kh_lb_changes.
      - intros _. apply rp_bind; [apply rp_of_kq; [apply kq_of_q5, q5_refresh_line|apply kh_refresh_line]|]. intros _.
        apply rp_bind; [apply main_loop_rp|]. intros _.
        apply rp_of_np; [apply np_moved; [apply move_buffer_end_total|unfold LineBuffer.move_buffer_end; repeat (first [apply pure_ret | apply pure_get | apply pure_put | (apply pure_bind; [|intros])] || match goal with |- pure (if ?c then _ else _) => destruct c end)|apply kg_move_buffer_end]| |].
        + unfold moved, lb_quiet, move_cursor. kna_auto.
        + unfold moved, lb_quiet, move_cursor. kh_auto. }
    specialize (Hrp s0 HP0).
    match goal with |- fst (match ?x with _ => _ end) <> _ => destruct x as [u s1|e s1| |] end;
      try (destruct e); cbn; try discriminate. exfalso. exact Hrp.
  Qed.
  End Loop.

  (* with an empty history the search returns at once: both modes *)
  Theorem read_never_panics prompt initial kr inp :
    c_has_helper cfg = false -> kr_inv kr -> fst (read_line U cfg prompt initial [] kr inp) <> OPanic.
  Proof.
    intros no_helper. apply read_rp; [|intros Hx; congruence]. intros f s HP. unfold incremental_search, ebind, eget. destruct HP as [HR He]. unfold hlen_e. rewrite He. cbn.
    split; [exact HR|exact He].
  Qed.

  (* ---------- Emacs mode: any history ---------- *)
  Section EmacsSearch.
    Hypothesis Hem : is_emacs cfg = true.
    Variable H : list str.

    Lemma quiet_of_q5 {A} (m : E A) : quiet5 m -> quiet m.
    Proof. intros Hq s. specialize (Hq s). destruct (m s); auto. apply Hq. Qed.

    Ltac q_known :=
      first [ apply quiet_of_q5, q5_next_key | apply quiet_of_q5, q5_next_char | apply quiet_of_q5, q5_read_pasted
            | apply q_refresh_line | apply quiet_of_q5, q5_refresh_prompt_and_line | apply q_beep | apply q_update_hint ].
    Ltac q_em := q_auto; try q_known.

    Lemma q_custom_binding k n p : quiet (custom_binding cfg k n p). Proof. unfold custom_binding. q_em. Qed.
    Lemma q_custom_seq_binding fuel : forall ks, quiet (custom_seq_binding U cfg fuel ks).
    Proof. induction fuel as [|f IH]; intros ks; cbn [custom_seq_binding]; q_em; apply IH. Qed.
    Lemma q_term_binding k : quiet (term_binding cfg k). Proof. unfold term_binding. q_em. Qed.
    Lemma q_cmd_redo c new : is_repeatable c = true -> quiet (cmd_redo c new).
    Proof. intros Hr. destruct c; try discriminate; cbn [cmd_redo]; unfold last_insert; q_em. Qed.
    Lemma q_redo_if c new : quiet (if is_repeatable c then cmd_redo c new else eret c).
    Proof. destruct (is_repeatable c) eqn:E; [apply q_cmd_redo; exact E|q_em]. Qed.
    Lemma q_common fuel k n p : quiet (common U cfg fuel k n p).
    Proof. unfold common. q_em; try apply q_custom_seq_binding. Qed.
    Lemma q_emacs_digit_loop fuel : forall mo, quiet (emacs_digit_loop U cfg fuel mo).
    Proof.
      induction fuel as [|f IH]; intros mo; cbn [emacs_digit_loop]; [q_em|].
      apply quiet_bind; [apply q_get|]. intros s0. apply quiet_bind; [apply quiet_of_q5, q5_refresh_prompt_and_line|]. intros _.
      apply quiet_bind; [apply quiet_of_q5, q5_next_key|]. intros k.
      destruct k as [[] m]; try (q_em; fail).
      match goal with |- quiet (if ?c then _ else _) => destruct c end.
      - apply quiet_bind; [apply q_get|]. intros s1. cbv zeta. destruct mo.
        + apply quiet_bind; [apply q_set_num_args|]. intros _. apply IH.
        + match goal with |- quiet (if ?c then _ else _) => destruct c end; [|apply IH].
          apply quiet_bind; [apply q_set_num_args|]. intros _. apply IH.
      - match goal with |- quiet (if ?c then _ else _) => destruct c end; [apply IH|q_em].
    Qed.
    Lemma q_emacs fuel k0 : quiet (emacs U cfg fuel k0).
    Proof.
      unfold emacs. apply quiet_bind.
      { destruct k0 as [[] m]; try (q_em; fail).
        match goal with |- quiet (if ?c then _ else _) => destruct c end; [|q_em].
        unfold emacs_digit_argument. apply quiet_bind; [destruct (c =? 45)%N; apply q_set_num_args|]. intros _.
        apply q_emacs_digit_loop. }
      intros k. apply quiet_bind; [unfold emacs_num_args, take_num_args; q_em|]. intros [n positive].
      apply quiet_bind; [apply q_custom_binding|]. intros cb. destruct cb as [c|]; [apply q_redo_if|].
      apply quiet_bind; [apply q_term_binding|]. intros tb. destruct tb as [c|]; [q_em|].
      cbv zeta. unfold has_hint_at_end.
      repeat (first [ apply q_common | apply q_custom_seq_binding | q_known
                    | match goal with |- quiet (ebind _ _) => apply quiet_bind; [|intros] end
                    | apply q_ret | apply q_get ] ||
              match goal with
              | |- quiet (if ?c then _ else _) => destruct c
              | |- quiet (match ?x with _ => _ end) => destruct x
              | |- quiet (let _ := _ in _) => cbv zeta
              end).
    Qed.

    (* in Emacs mode reading a command leaves the undo stack alone, except for the group opened for Replace *)
    Lemma nc_changes fuel sea s c s' :
      next_cmd U cfg fuel sea s = EOk c s' ->
      match c with CReplace _ _ => True | _ => e_changes s' = e_changes s end.
    Proof.
      unfold next_cmd. rewrite Hem. intros Hx.
      apply ebind_inv in Hx. destruct Hx as [k [s1 [H1 Hx]]].
      apply ebind_inv in Hx. destruct Hx as [s1' [s1'' [H2 Hx]]]. inversion H2; subst s1' s1''.
      apply ebind_inv in Hx. destruct Hx as [c' [s2 [H3 Hx]]].
      apply ebind_inv in Hx. destruct Hx as [u [s3 [H4 Hx]]]. inversion Hx; subst c' s3. clear Hx.
      pose proof (quiet_of_q5 _ (q5_next_key U cfg (sea && true)) s) as Q1. rewrite H1 in Q1.
      pose proof (q_emacs fuel k s1) as Q2. rewrite H3 in Q2.
      destruct Q1 as [_ [C1 _]]. destruct Q2 as [_ [C2 _]].
      destruct c; try (inversion H4; subst; congruence). exact Logic.I.
    Qed.

    (* what lb_changes does to the state, spelled out *)
    Lemma lb_changes_spec {A} (m : M A) s a b' ev :
      m (e_line s) = Ok (a, b', ev) ->
      exists s', lb_changes U m s = EOk a s' /\ e_line s' = b'
                 /\ e_changes s' = cs_notify_all U (useg U) (e_changes s) ev
                 /\ e_kr s' = e_kr s /\ e_saved s' = e_saved s /\ e_hist s' = e_hist s /\ i_num_args s' = i_num_args s.
    Proof.
      intros Hm. unfold lb_changes. unfold ebind at 1. cbn [eget]. rewrite Hm. cbn. eexists. split; [reflexivity|].
      repeat split.
    Qed.

    (* the search loop: entered with the undo stack c0 (valid for the text t0 being typed, cursor p0), which
       changes_begin marks; inside the loop only notifications are added on top of the mark *)
    Section SearchLoop.
    Variable c0 : changeset.
    Variable t0 : str.
    Variable p0 : nat.
    Hypothesis Hv0 : valid (cs_undos c0) t0.
    Hypothesis Hbd0 : bd t0 p0.

    Definition SInv (s : est) : Prop :=
      P H s /\ exists es, e_changes s = cs_notify_all U (useg U) (fst (cs_begin c0)) es.
    (* what a sub-loop promises: the invariant, and -- when it ends with no command to execute (an abort) -- the typed
       line, its cursor and the undo stack exactly as they were when the sub-loop began *)
    Definition Qs (r : option cmd) (s' : est) : Prop :=
      P H s' /\ (r = None -> e_changes s' = c0 /\ buf (e_line s') = t0 /\ pos (e_line s') = p0).
    Definition sp (m : E (option cmd)) : Prop :=
      forall s, SInv s -> match m s with EPanic => False | EOk r s' => Qs r s' | _ => True end.

    (* showing a hit: the line is replaced, the notifications go on top *)
    Lemma show_hit entry p s :
      SInv s -> bd entry p ->
      exists s1, lb_changes U (update entry p) s = EOk tt s1 /\ SInv s1.
    Proof.
      intros [[[HJ HN] Hh] [es Hes]] Hbd. pose proof HJ as [Hw [Hi [Hk [Hs Hg]]]].
      destruct (update_total entry p Hbd (e_line s) Hw) as [a [b' [ev [Hu Hw']]]]. destruct a.
      destruct (lb_changes_spec (update entry p) s tt b' ev Hu) as [s1 [H1 [L [C [K [S [Hh1 N1]]]]]]].
      exists s1. split; [exact H1|].
      pose proof (np_lb_changes_at U (update entry p) s HJ (ex_intro _ tt (ex_intro _ b' (ex_intro _ ev (conj Hu Hw')))) (good_update _ _) (kg_update _ _)) as Hn.
      rewrite H1 in Hn. cbn in Hn.
      split; [split; [split; [exact Hn|unfold Nv; rewrite N1; exact HN]|rewrite Hh1; exact Hh]|].
      exists (es ++ ev). rewrite C, Hes. unfold cs_notify_all. rewrite fold_left_app. reflexivity.
    Qed.

    (* aborting: the typed line comes back and the stack is cut at the mark: exactly c0 again *)
    Lemma abort_ok s :
      SInv s ->
      match (lb_changes U (update t0 p0) ;;; refresh_line U cfg ;;;
             (edo s1 <- eget; set_changes (cs_truncate (e_changes s1) (snd (cs_begin c0))) ;;; eret (@None cmd))) s with
      | EPanic => False | EOk r s' => Qs r s' | _ => True end.
    Proof.
      intros HS. pose proof HS as [[[HJ HN] Hh] [es Hes]]. pose proof HJ as [Hw [Hi [Hk [Hs Hg]]]].
      destruct (RecallProofs.update_spec (e_line s) t0 p0 Hg (bd_le _ _ Hbd0)) as [ev Hu].
      destruct (lb_changes_spec (update t0 p0) s tt _ ev Hu) as [s1 [H1 [L [C [K [S [Hh1 N1]]]]]]].
      unfold ebind at 1. rewrite H1. unfold ebind at 1.
      pose proof (q5_refresh_line U cfg s1) as Hq. destruct (refresh_line U cfg s1) as [u s2| | |] eqn:E2; auto.
      destruct Hq as [[L2 [C2 [K2 S2]]] N2].
      pose proof (kh_refresh_line U cfg _ _ _ E2) as Hh2.
      assert (Htr : cs_truncate (e_changes s2) (snd (cs_begin c0)) = c0).
      { rewrite C2, C, Hes. unfold cs_notify_all. rewrite <- fold_left_app.
        pose proof (abort_is_noop U (useg U) c0 (es ++ ev)) as Ha. destruct (cs_begin c0) as [c1 mk]. exact Ha. }
      unfold ebind, eget, set_changes, eret. rewrite Htr.
      split; [|intros _; cbn; rewrite L2, L; repeat split].
      split; [split|].
      - (* J *)
        split; [rewrite L2, L; exists (firstn 0 t0 ++ match bsplit t0 p0 with Some (l, _) => l | None => [] end),
                                      (match bsplit t0 p0 with Some (_, r) => r | None => [] end);
                destruct Hbd0 as [l [r [-> ->]]]; rewrite bsplit_app; cbn; split; reflexivity|].
        split; [unfold I; cbn; rewrite L2, L; exact Hv0|].
        split; [cbn; rewrite K2, K; exact Hk|].
        split; [unfold saved_ok; cbn; rewrite S2, S; exact Hs|cbn; rewrite L2, L; exact Hg].
      - unfold Nv. cbn. rewrite N2, N1. exact HN.
      - cbn. rewrite Hh2, Hh1. exact Hh.
    Qed.

    Lemma hit_bd h term idx d i p entry : h_search h term idx d = Some (i, p, entry) -> bd entry p.
    Proof.
      unfold h_search. intros Hx. apply search_match_some in Hx. destruct Hx as [_ [_ [_ [Ht _]]]].
      destruct (find_sub_some _ _ _ Ht) as [l [r [-> [<- _]]]]. apply bd_mid.
    Qed.

    Section Branch.
      Variable rec : str -> nat -> sdir -> bool -> E (option cmd).
      Hypothesis rec_sp : forall t i d su, sp (rec t i d su).

      Lemma do_search_sp (h : hist) term' idx' d' :
        sp (match h_search h term' idx' d' with
            | Some (i, p, entry) => lb_changes U (update entry p) ;;; rec term' i d' true
            | None => rec term' idx' d' false
            end).
      Proof.
        destruct (h_search h term' idx' d') as [[[i p] entry]|] eqn:E; [|apply rec_sp].
        intros s HS. destruct (show_hit entry p s HS (hit_bd _ _ _ _ _ _ _ E)) as [s1 [H1 HS1]].
        unfold ebind. rewrite H1. apply rec_sp. exact HS1.
      Qed.

      Lemma exit_rp (c : cmd) : rp H (edo _ <- changes_end; eret (Some c)).
      Proof.
        apply rp_bind; [apply rp_of_kq; [apply kq_changes_end|]|intros _; apply rp_ret].
        unfold changes_end. kh_auto.
      Qed.

      (* leaving the loop with a command to execute *)
      Lemma exit_q (c : cmd) s :
        P H s -> match (edo _ <- changes_end; eret (Some c)) s with EPanic => False | EOk r s' => Qs r s' | _ => True end.
      Proof.
        intros HP. pose proof (exit_rp c s HP) as Hx. unfold ebind in *. destruct (changes_end s) as [u s1| | |]; auto.
        cbn in *. split; [exact Hx|discriminate].
      Qed.

      Lemma branch_ok backup_ok term idx d success c s :
        P H s ->
        match c with CReplace _ _ => True | _ => exists es, e_changes s = cs_notify_all U (useg U) (fst (cs_begin c0)) es end ->
        backup_ok = (t0, p0) ->
        match isearch_branch U cfg rec backup_ok (snd (cs_begin c0)) term idx d success c s with
        | EPanic => False | EOk r s' => Qs r s' | _ => True end.
      Proof.
        intros HP Hc ->. unfold isearch_branch. unfold ebind at 1. cbn [eget]. cbv zeta.
        assert (Hexit : forall c', match (edo _ <- changes_end; eret (Some c')) s with EPanic => False | EOk r s' => Qs r s' | _ => True end)
          by (intros c'; apply exit_q; exact HP).
        assert (Hmove : forall m, match (refresh_line U cfg ;;; (edo _ <- changes_end; eret (Some (CMove m)))) s with
                                  | EPanic => False | EOk r s' => Qs r s' | _ => True end).
        { intros m. unfold ebind at 1.
          pose proof (rp_of_kq H _ (kq_of_q5 cfg _ (q5_refresh_line U cfg)) (kh_refresh_line U cfg) s HP) as Hx.
          destruct (refresh_line U cfg s) as [u s1| | |]; auto. apply exit_q. exact Hx. }
        destruct c; try apply Hexit; try apply Hmove;
          try match goal with
              | m : movement |- _ => destruct m; try apply Hexit; apply rec_sp; split; assumption
              end;
          try match goal with
              | |- match (if ?cnd then _ else _) s with _ => _ end =>
                destruct cnd; [apply do_search_sp; split; assumption|apply rec_sp; split; assumption]
              | |- match (match h_search _ _ _ _ with _ => _ end) s with _ => _ end =>
                apply do_search_sp; split; assumption
              | |- _ => cbn [fst snd]; apply abort_ok; split; assumption
              end.
      Qed.
    End Branch.

    Theorem isearch_loop_sp fuel : forall term idx d success,
      sp (isearch_loop U cfg fuel (t0, p0) (snd (cs_begin c0)) term idx d success).
    Proof.
      induction fuel as [|f IH]; intros term idx d success; cbn [isearch_loop]; [intros s _; exact Logic.I|].
      intros s [HP [es Hes]].
      (* the search prompt *)
      unfold ebind at 1. pose proof (q5_refresh_prompt_and_line U cfg (search_prompt success term) s) as Hq.
      destruct (refresh_prompt_and_line U cfg (search_prompt success term) s) as [u s1| | |] eqn:E1; auto.
      destruct Hq as [[L1 [C1 [K1 S1]]] N1].
      assert (HP1 : P H s1).
      { pose proof (rp_of_kq H _ (kq_of_q5 cfg _ (q5_refresh_prompt_and_line U cfg (search_prompt success term)))
                             (kh_refresh_prompt_and_line U cfg _) s HP) as Hx. rewrite E1 in Hx. exact Hx. }
      (* the next command *)
      unfold ebind at 1.
      pose proof (rp_of_kq H _ (kq_next_cmd U cfg f true) (kh_next_cmd U cfg f true) s1 HP1) as Hn.
      destruct (next_cmd U cfg f true s1) as [c s2| | |] eqn:E2; auto.
      pose proof (nc_changes f true s1 c s2 E2) as Hc.
      apply (branch_ok (fun t i d' su => isearch_loop U cfg f (t0, p0) (snd (cs_begin c0)) t i d' su) IH (t0, p0));
        [exact Hn| |reflexivity].
      destruct c; try exact Logic.I; exists es; rewrite Hc, C1; exact Hes.
    Qed.
    End SearchLoop.

    (* THE SEARCH SESSION: no panic, the invariant again, and -- if it ends without a command to execute (aborted,
       or nothing to search) -- the line, its cursor and the undo stack are exactly those from before *)
    Theorem search_result_emacs f s :
      P H s ->
      match incremental_search U cfg f s with
      | EPanic => False
      | EOk r s' => P H s' /\ (r = None -> e_changes s' = e_changes s /\ buf (e_line s') = buf (e_line s)
                                           /\ pos (e_line s') = pos (e_line s))
      | _ => True
      end.
    Proof.
      intros HP. unfold incremental_search. unfold ebind at 1. cbn [eget].
      destruct (Nat.eqb (hlen_e s) 0); [cbn; split; [exact HP|intros _; repeat split]|].
      destruct HP as [[HJ HN] Hh]. pose proof HJ as [Hw [Hi [Hk [Hs Hg]]]].
      unfold ebind at 1. unfold changes_begin. unfold ebind at 1. cbn [eget].
      destruct (cs_begin (e_changes s)) as [c1 mk] eqn:Eb. cbn [ebind set_changes eret].
      replace mk with (snd (cs_begin (e_changes s))) by (rewrite Eb; reflexivity).
      apply (isearch_loop_sp (e_changes s) (buf (e_line s)) (pos (e_line s)) Hi Hw f).
      split.
      - split; [split|exact Hh]; [|exact HN].
        split; [exact Hw|]. split; [|split; [exact Hk|split; [exact Hs|exact Hg]]].
        unfold I. cbn [e_changes e_line]. replace c1 with (fst (cs_begin (e_changes s))) by (rewrite Eb; reflexivity).
        apply valid_begin. exact Hi.
      - exists []. unfold cs_notify_all. cbn [fold_left e_changes]. rewrite Eb. reflexivity.
    Qed.

    Theorem search_rp_emacs f : rp H (incremental_search U cfg f).
    Proof.
      intros s HP. pose proof (search_result_emacs f s HP) as Hx.
      destruct (incremental_search U cfg f s); auto. apply Hx.
    Qed.

    (* ---------- completion (the completer keeps its contract) ---------- *)

    Lemma ebind_assoc {A B C} (m : E A) (f : A -> E B) (g : B -> E C) s :
      ebind (ebind m f) g s = ebind m (fun a => ebind (f a) g) s.
    Proof. unfold ebind. destruct (m s); reflexivity. Qed.

    (* what reading a command inside a sub-loop guarantees *)
    Lemma next_cmd_facts f sea s :
      P H s ->
      match next_cmd U cfg f sea s with
      | EPanic => False
      | EOk c s' => P H s' /\ e_line s' = e_line s
                    /\ match c with CReplace _ _ => True | _ => e_changes s' = e_changes s end
      | _ => True
      end.
    Proof.
      intros HP. pose proof HP as [HR Hh].
      pose proof (kq_next_cmd U cfg f sea s HR) as Hk.
      destruct (next_cmd U cfg f sea s) as [c s'| | |] eqn:E; auto.
      destruct Hk as [HR' [L _]]. split; [split; [exact HR'|rewrite (kh_next_cmd U cfg f sea _ _ _ E); exact Hh]|].
      split; [exact L|]. exact (nc_changes f sea s c s' E).
    Qed.

    Section Circular.
      Variable c0 : changeset.
      Variable t0 : str.
      Variable p0 start : nat.
      Variable cands : list str.
      Hypothesis Hv0 : valid (cs_undos c0) t0.
      Hypothesis Hbd0 : bd t0 p0.
      Hypothesis Hst0 : bd t0 start /\ start <= p0.

      (* the loop invariant: the search-loop one, and the replaced span still starts on a boundary before the cursor *)
      Definition LInv (s : est) : Prop :=
        SInv c0 s /\ bd (buf (e_line s)) start /\ start <= pos (e_line s).
      Definition lp (m : E (option cmd)) : Prop :=
        forall s, LInv s -> match m s with EPanic => False | EOk r s' => Qs c0 t0 p0 r s' | _ => True end.

      (* showing candidate i, or (i = number of candidates) the original line again *)
      Lemma show_candidate_ok i s :
        LInv s ->
        match show_candidate U start cands (t0, p0) i s with
        | EPanic => False
        | EOk _ s' => LInv s' /\ (length cands <= i -> buf (e_line s') = t0 /\ pos (e_line s') = p0)
        | _ => True
        end.
      Proof.
        intros [HS [Hbs Hle]]. pose proof HS as [[[HJ HN] Hh] [es Hes]]. pose proof HJ as [Hw [Hi [Hk [Hsv Hg]]]].
        unfold show_candidate. destruct (Nat.ltb i (length cands)) eqn:Ei.
        - apply Nat.ltb_lt in Ei. destruct (nth_error cands i) as [c|] eqn:En.
          2:{ cbn. split; [split; [exact HS|split; assumption]|lia]. }
          unfold completer_update. unfold ebind at 1. cbn [eget].
          destruct (bd2 _ _ _ Hbs Hw Hle) as [l [m [r [Hb [Hs1 Hp1]]]]].
          assert (Hrep : replace start (pos (e_line s)) c (e_line s)
                         = Ok (tt, mkLb (l ++ c ++ r) (start + blen c) (cap (e_line s)) (grow (e_line s)), [EReplace start m c])).
          { unfold replace, replace_range. rewrite Hb, Hs1, Hp1, slice_app. unfold str_drain.
            replace (Nat.ltb (blen l + blen m) (blen l)) with false by (symmetry; apply Nat.ltb_ge; lia).
            rewrite bsplit_app. replace (blen l + blen m - blen l) with (blen m) by lia. rewrite bsplit_app.
            unfold str_insert. rewrite bsplit_app. reflexivity. }
          destruct (lb_changes_spec (replace start (pos (e_line s)) c) s tt _ _ Hrep) as [s1 [H1 [L [C [K [S [Hh1 N1]]]]]]].
          rewrite H1.
          assert (Hw' : wf (mkLb (l ++ c ++ r) (start + blen c) (cap (e_line s)) (grow (e_line s)))).
          { exists (l ++ c), r. cbn. split; [rewrite <- app_assoc; reflexivity|rewrite blen_app, Hs1; reflexivity]. }
          pose proof (np_lb_changes_at U (replace start (pos (e_line s)) c) s HJ
                        (ex_intro _ tt (ex_intro _ _ (ex_intro _ _ (conj Hrep Hw')))) (good_replace _ _ _) (kg_replace _ _ _)) as Hn.
          rewrite H1 in Hn. cbn in Hn.
          split; [|intros Hx; lia].
          split; [split; [split; [split; [exact Hn|unfold Nv; rewrite N1; exact HN]|rewrite Hh1; exact Hh]|]|].
          + exists (es ++ [EReplace start m c]). rewrite C, Hes. unfold cs_notify_all. rewrite fold_left_app. reflexivity.
          + rewrite L. cbn. split; [rewrite Hs1; apply bd_mid|lia].
        - apply Nat.ltb_ge in Ei. cbn [fst snd].
          destruct (RecallProofs.update_spec (e_line s) t0 p0 Hg (bd_le _ _ Hbd0)) as [ev Hu].
          destruct (show_hit c0 t0 p0 s HS Hbd0) as [s1 [H1 HS1]].
          destruct (lb_changes_spec (update t0 p0) s tt _ ev Hu) as [s1' [H1' [L _]]]. rewrite H1 in H1'. inversion H1'; subst s1'.
          rewrite H1. split; [split; [exact HS1|rewrite L; cbn; exact Hst0]|]. intros _. rewrite L. split; reflexivity.
      Qed.

      Section CBranch.
        Variable rec : nat -> E (option cmd).
        Hypothesis rec_lp : forall j, lp (rec j).

        Lemma beep_rec (b : bool) j s :
          P H s -> bd (buf (e_line s)) start /\ start <= pos (e_line s) ->
          (exists es, e_changes s = cs_notify_all U (useg U) (fst (cs_begin c0)) es) ->
          match ((if b then beep cfg else eret tt) ;;; rec j) s with EPanic => False | EOk r s' => Qs c0 t0 p0 r s' | _ => True end.
        Proof.
          intros HP Hline [es Hes]. unfold ebind at 1. destruct b.
          - pose proof (q5_beep cfg s) as Hq. destruct (beep cfg s) as [u s1| | |] eqn:Eb; auto.
            destruct Hq as [[L1 [C1 [K1 S1]]] N1]. apply rec_lp.
            assert (HP1 : P H s1).
            { pose proof (rp_of_kq H _ (kq_of_q5 cfg _ (q5_beep cfg)) ltac:(unfold beep; kh_auto) s HP) as Hx. rewrite Eb in Hx. exact Hx. }
            split; [split; [exact HP1|exists es; rewrite C1; exact Hes]|rewrite L1; exact Hline].
          - cbn [eret]. apply rec_lp. split; [split; [exact HP|exists es; exact Hes]|exact Hline].
        Qed.

        Lemma circular_branch_ok i c s :
          P H s -> bd (buf (e_line s)) start /\ start <= pos (e_line s) ->
          (length cands <= i -> buf (e_line s) = t0 /\ pos (e_line s) = p0) ->
          match c with CReplace _ _ => True | _ => exists es, e_changes s = cs_notify_all U (useg U) (fst (cs_begin c0)) es end ->
          match circular_branch U cfg rec cands (t0, p0) (snd (cs_begin c0)) i c s with
          | EPanic => False | EOk r s' => Qs c0 t0 p0 r s' | _ => True end.
        Proof.
          intros HP Hline Horig Hc. unfold circular_branch.
          assert (Hexit : forall c' : cmd, match (edo _ <- changes_end; eret (Some c')) s with EPanic => False | EOk r s' => Qs c0 t0 p0 r s' | _ => True end)
            by (intros c'; apply exit_q; exact HP).
          destruct c; try apply Hexit; try (apply beep_rec; assumption).
          (* Abort *)
          assert (HS : SInv c0 s) by (split; assumption). cbn [fst snd].
          destruct (Nat.ltb i (length cands)) eqn:Ei.
          + rewrite ebind_assoc. apply (abort_ok c0 t0 p0 Hv0 Hbd0 s HS).
          + apply Nat.ltb_ge in Ei. specialize (Horig Ei).
            pose proof HS as [[[HJ HN] Hh] [es Hes]]. pose proof HJ as [Hw [Hi [Hk [Hsv Hg]]]].
            unfold ebind, eget, set_changes, eret.
            assert (Htr : cs_truncate (e_changes s) (snd (cs_begin c0)) = c0).
            { rewrite Hes. pose proof (abort_is_noop U (useg U) c0 es) as Ha. destruct (cs_begin c0) as [c1 mk]. exact Ha. }
            rewrite Htr. destruct Horig as [Hob Hop].
            split; [|intros _; cbn; repeat split; assumption].
            split; [split|exact Hh]; [|exact HN].
            split; [exact Hw|]. split; [unfold I; cbn; rewrite Hob; exact Hv0|]. split; [exact Hk|split; [exact Hsv|exact Hg]].
        Qed.
      End CBranch.

      Theorem complete_circular_lp fuel : forall i,
        lp (complete_circular U cfg fuel start cands (t0, p0) (snd (cs_begin c0)) i).
      Proof.
        induction fuel as [|f IH]; intros i; cbn [complete_circular]; [intros s _; exact Logic.I|].
        intros s HL. unfold ebind at 1.
        pose proof (show_candidate_ok i s HL) as Hsc.
        destruct (show_candidate U start cands (t0, p0) i s) as [u s1| | |]; auto.
        destruct Hsc as [[HS1 Hline1] Horig1]. pose proof HS1 as [HP1 [es1 Hes1]].
        unfold ebind at 1.
        pose proof (q5_refresh_line U cfg s1) as Hq. destruct (refresh_line U cfg s1) as [u2 s2| | |] eqn:E2; auto.
        destruct Hq as [[L2 [C2 [K2 S2]]] N2].
        assert (HP2 : P H s2).
        { pose proof (rp_of_kq H _ (kq_of_q5 cfg _ (q5_refresh_line U cfg)) (kh_refresh_line U cfg) s1 HP1) as Hx.
          rewrite E2 in Hx. exact Hx. }
        unfold ebind at 1.
        pose proof (next_cmd_facts f true s2 HP2) as Hn.
        destruct (next_cmd U cfg f true s2) as [c s3| | |]; auto. destruct Hn as [HP3 [L3 C3]].
        apply (circular_branch_ok (fun i' => complete_circular U cfg f start cands (t0, p0) (snd (cs_begin c0)) i') IH i c s3 HP3).
        - rewrite L3, L2. exact Hline1.
        - intros Hx. rewrite L3, L2. apply Horig1. exact Hx.
        - destruct c; try exact Logic.I; exists es1; rewrite C3, C2; exact Hes1.
      Qed.
    End Circular.

    (* the completer's contract: the span it asks to replace starts on a character boundary at or before the cursor *)
    Hypothesis completer_ok : forall text p, bd text p ->
      bd text (fst (c_complete cfg text p)) /\ fst (c_complete cfg text p) <= p.

    (* the window has at least one column (get_win_size never answers 0: it substitutes 80) *)
    Hypothesis cols_ok : 1 <= c_cols cfg.

    Lemma rp_wait_yn fuel : forall c, rp H (wait_yn U cfg fuel c).
    Proof.
      induction fuel as [|f IH]; intros c; cbn [wait_yn]; [intros s _; exact Logic.I|].
      assert (Hn : rp H (edo c' <- next_cmd U cfg f false; wait_yn U cfg f c')).
      { apply rp_bind; [apply rp_of_kq; [apply kq_next_cmd|apply kh_next_cmd]|]. intros c'. apply IH. }
      destruct c; try exact Hn; try apply rp_ret.
      - destruct m; try exact Hn. destruct n as [|[|n]]; try exact Hn. apply rp_ret.
      - destruct n as [|[|n]]; try exact Hn.
        repeat match goal with |- rp H (match ?x with _ => _ end) => destruct x; try exact Hn; try apply rp_ret end.
    Qed.

    Lemma q5_rows (row_text : nat -> str) : forall k row,
      quiet5 ((fix rows (k : nat) (row : nat) : E unit :=
                 match k with 0 => eret tt | S k' => write [10%N] ;;; write (row_text row) ;;; rows k' (S row) end) k row).
    Proof. induction k as [|k IHk]; intros row; [apply q5_ret|]. q5_auto. apply IHk. Qed.

    Lemma rp_page cs : rp H (page_completions_simple U cfg cs).
    Proof.
      apply rp_of_kq; [|apply kh_page].
      apply kq_of_q5. unfold page_completions_simple. cbv zeta.
      (* neither division has a zero divisor *)
      set (mw := Nat.min (cols cfg) (fold_left Nat.max (map (layout_w U) cs) 0 + 2)).
      assert (Hmw : 1 <= mw /\ mw <= cols cfg) by (unfold mw, cols; lia).
      replace (Nat.eqb mw 0) with false by (symmetry; apply Nat.eqb_neq; lia).
      assert (Hnc : 1 <= cols cfg / mw) by (apply Nat.div_le_lower_bound; lia).
      replace (Nat.eqb (cols cfg / mw) 0) with false by (symmetry; apply Nat.eqb_neq; lia).
      apply quiet5_bind; [apply q5_rows|]. intros _. q5_auto. apply q5_refresh_line.
    Qed.

    Theorem complete_rp_emacs f : rp H (complete_line U cfg f).
    Proof.
      intros s HP. unfold complete_line. unfold ebind at 1. cbn [eget].
      pose proof HP as [[HJ HN] Hh]. pose proof HJ as [Hw [Hi [Hk [Hsv Hg]]]].
      destruct (completer_ok (buf (e_line s)) (pos (e_line s)) Hw) as [Hbs Hle].
      destruct (c_complete cfg (buf (e_line s)) (pos (e_line s))) as [start cands]. cbn [fst] in Hbs, Hle.
      destruct cands as [|cd cds].
      { assert (Hr : rp H (beep cfg ;;; eret (@None cmd))).
        { apply rp_bind; [apply rp_of_kq; [apply kq_of_q5, q5_beep|unfold beep; kh_auto]|]. intros _. apply rp_ret. }
        apply Hr. exact HP. }
      destruct (c_completion cfg).
      - (* circular *)
        unfold ebind at 1. unfold changes_begin. unfold ebind at 1. cbn [eget].
        destruct (cs_begin (e_changes s)) as [c1 mk] eqn:Eb. cbn [ebind set_changes eret].
        replace mk with (snd (cs_begin (e_changes s))) by (rewrite Eb; reflexivity).
        match goal with |- match ?m ?st with _ => _ end =>
          assert (HL : LInv (e_changes s) start st); [|pose proof (complete_circular_lp (e_changes s) (buf (e_line s)) (pos (e_line s)) start (cd :: cds) Hi Hw (conj Hbs Hle) f 0 st HL) as Hx; destruct (m st); auto; apply Hx] end.
        split; [split|cbn; split; assumption].
        + split; [split|exact Hh]; [|exact HN].
          split; [exact Hw|]. split; [|split; [exact Hk|split; [exact Hsv|exact Hg]]].
          unfold I. cbn [e_changes e_line]. replace c1 with (fst (cs_begin (e_changes s))) by (rewrite Eb; reflexivity).
          apply valid_begin. exact Hi.
        + exists []. unfold cs_notify_all. cbn [fold_left e_changes]. rewrite Eb. reflexivity.
      - (* list *)
        (* the common prefix replaces the span the completer named: the state is still the one it looked at *)
        assert (Hstep1 : match list_span_step U cfg start (cd :: cds) s with EPanic => False | EOk _ s' => P H s' | _ => True end).
        { unfold list_span_step. unfold ebind at 1. cbn [eget].
          destruct (lcp_all (cd :: cds)) as [lcp|]; [|exact HP].
          match goal with |- match (if ?c then _ else _) s with _ => _ end => destruct c end; [|exact HP].
          unfold ebind at 1. unfold completer_update. unfold ebind at 1. cbn [eget].
          destruct (replace_total start (pos (e_line s)) lcp (e_line s) (conj Hbs (conj Hw Hle))) as [a [b' [ev [Hrep Hw']]]]. destruct a.
          destruct (lb_changes_spec (replace start (pos (e_line s)) lcp) s tt b' ev Hrep) as [s1 [H1 [L [C [K [S [Hh1 N1]]]]]]].
          rewrite H1.
          pose proof (np_lb_changes_at U (replace start (pos (e_line s)) lcp) s HJ
                        (ex_intro _ tt (ex_intro _ _ (ex_intro _ _ (conj Hrep Hw')))) (good_replace _ _ _) (kg_replace _ _ _)) as Hn.
          rewrite H1 in Hn. cbn in Hn.
          assert (HP1 : P H s1) by (split; [split; [exact Hn|unfold Nv; rewrite N1; exact HN]|rewrite Hh1; exact Hh]).
          apply (rp_of_kq H _ (kq_of_q5 cfg _ (q5_refresh_line U cfg)) (kh_refresh_line U cfg) s1 HP1). }
        unfold ebind at 1.
        match goal with |- match match ?x with _ => _ end with _ => _ end => destruct x as [u s1| | |] end; auto.
        revert s1 Hstep1. clear - cols_ok.
        match goal with |- forall s1, P H s1 -> match ?m s1 with _ => _ end => change (rp H m) end.
        destruct (Nat.ltb 1 (length (cd :: cds))); [|apply rp_ret].
        apply rp_bind; [apply rp_of_kq; [apply kq_of_q5, q5_beep|unfold beep; kh_auto]|]. intros _.
        apply rp_bind; [destruct (c_show_all cfg); [apply rp_ret|apply rp_of_kq; [apply kq_next_cmd|apply kh_next_cmd]]|]. intros c.
        destruct c; try apply rp_ret.
        (* Tab again (or show-all): the candidates are listed; the cursor goes to the end and back *)
        intros s1 HP1. unfold ebind at 1. cbn [eget]. cbv zeta.
        pose proof HP1 as [[HJ1 HN1] Hh1]. pose proof HJ1 as [Hw1 _].
        assert (Hme : rp H (moved U cfg move_end)).
        { apply rp_of_np; [apply np_moved; [apply move_end_total|apply pure_move_end|apply kg_move_end]| |].
          - unfold moved, lb_quiet, move_cursor. kna_auto.
          - unfold moved, lb_quiet, move_cursor. kh_auto. }
        unfold ebind at 1. pose proof (Hme s1 HP1) as Hm.
        destruct (moved U cfg move_end s1) as [u s2| | |] eqn:E2; auto.
        pose proof (kb_moved U cfg move_end pure_move_end _ _ _ E2) as Hb2.
        unfold ebind at 1.
        assert (Hsp : match lb_quiet (set_pos (pos (e_line s1))) s2 with EPanic => False | EOk _ s' => P H s' | _ => True end).
        { pose proof Hm as [[HJ2 HN2] Hh2].
          assert (Hbd : bd (buf (e_line s2)) (pos (e_line s1))) by (rewrite Hb2; exact Hw1).
          destruct (set_pos_total (pos (e_line s1)) (e_line s2) Hbd) as [a [b' [ev [Hsp Hw']]]].
          assert (Hpure : pure (set_pos (pos (e_line s1)))).
          { unfold set_pos. apply pure_bind; [apply pure_get|]. intros b0. destruct (Nat.ltb (lb_len b0) (pos (e_line s1))); [apply pure_fail|apply pure_put]. }
          pose proof (np_lb_quiet_at (set_pos (pos (e_line s1))) s2 HJ2 (ex_intro _ a (ex_intro _ b' (ex_intro _ ev (conj Hsp Hw')))) Hpure (kg_set_pos _)) as Hn.
          unfold lb_quiet in *. unfold ebind at 1 in Hn. unfold ebind at 1. cbn [eget] in *. rewrite Hsp in *.
          cbn [ebind set_line upd_line eret] in *. unfold eret in *. cbn in Hn |- *.
          split; [split; [exact Hn|exact HN2]|exact Hh2]. }
        destruct (lb_quiet (set_pos (pos (e_line s1))) s2) as [u3 s3| | |]; auto.
        revert s3 Hsp. clear - cols_ok.
        match goal with |- forall s3, P H s3 -> match ?m s3 with _ => _ end => change (rp H m) end.
        destruct (Nat.ltb (c_prompt_limit cfg) (length (cd :: cds))); [|apply rp_page].
        apply rp_bind; [apply rp_of_kq; [apply kq_of_q5, q5_write|intros ? ? ? Hx; inversion Hx; reflexivity]|]. intros _.
        apply rp_get_bind. intros s2 _. cbv zeta.
        apply rp_bind; [apply rp_of_kq; [apply kq_of_q5, q5_set_layout|intros ? ? ? Hx; inversion Hx; reflexivity]|]. intros _.
        apply rp_bind; [apply rp_wait_yn|]. intros c2.
        assert (Hno : rp H (refresh_line U cfg ;;; eret (@None cmd))).
        { apply rp_bind; [apply rp_of_kq; [apply kq_of_q5, q5_refresh_line|apply kh_refresh_line]|]. intros _. apply rp_ret. }
        destruct c2; try exact Hno.
        destruct n as [|[|n]]; try exact Hno.
        repeat match goal with |- rp H (match ?x with _ => _ end) => destruct x; try exact Hno; try apply rp_page end.
    Qed.

    (* THE CIRCULAR COMPLETION SESSION: if it ends without a command to execute (aborted, or nothing to complete), the
       line, its cursor and the undo stack are exactly those from before *)
    Theorem circular_result_emacs f s :
      P H s -> c_completion cfg = CTCircular ->
      match complete_line U cfg f s with
      | EPanic => False
      | EOk r s' => P H s' /\ (r = None -> e_changes s' = e_changes s /\ buf (e_line s') = buf (e_line s)
                                           /\ pos (e_line s') = pos (e_line s))
      | _ => True
      end.
    Proof.
      intros HP Hct. unfold complete_line, list_span_step. unfold ebind at 1. cbn [eget].
      pose proof HP as [[HJ HN] Hh]. pose proof HJ as [Hw [Hi [Hk [Hsv Hg]]]].
      destruct (completer_ok (buf (e_line s)) (pos (e_line s)) Hw) as [Hbs Hle].
      destruct (c_complete cfg (buf (e_line s)) (pos (e_line s))) as [start cands]. cbn [fst] in Hbs, Hle.
      destruct cands as [|cd cds].
      { unfold ebind. pose proof (q5_beep cfg s) as Hq.
        pose proof (rp_of_kq H _ (kq_of_q5 cfg _ (q5_beep cfg)) ltac:(unfold beep; kh_auto) s HP) as Hx.
        destruct (beep cfg s) as [u s1| | |]; auto. destruct Hq as [[L1 [C1 _]] _]. cbn.
        split; [exact Hx|intros _; rewrite L1, C1; repeat split]. }
      rewrite Hct.
      unfold ebind at 1. unfold changes_begin. unfold ebind at 1. cbn [eget].
      destruct (cs_begin (e_changes s)) as [c1 mk] eqn:Eb. cbn [ebind set_changes eret].
      replace mk with (snd (cs_begin (e_changes s))) by (rewrite Eb; reflexivity).
      apply (complete_circular_lp (e_changes s) (buf (e_line s)) (pos (e_line s)) start (cd :: cds) Hi Hw (conj Hbs Hle) f 0).
      split; [split|cbn; split; assumption].
      + split; [split|exact Hh]; [|exact HN].
        split; [exact Hw|]. split; [|split; [exact Hk|split; [exact Hsv|exact Hg]]].
        unfold I. cbn [e_changes e_line]. replace c1 with (fst (cs_begin (e_changes s))) by (rewrite Eb; reflexivity).
        apply valid_begin. exact Hi.
      + exists []. unfold cs_notify_all. cbn [fold_left e_changes]. rewrite Eb. reflexivity.
    Qed.

    (* A WHOLE READ IN EMACS MODE, any history, with or without a helper *)
    Theorem read_never_panics_emacs prompt initial kr inp :
      kr_inv kr -> fst (read_line U cfg prompt initial H kr inp) <> OPanic.
    Proof. apply read_rp; [exact search_rp_emacs|intros _; exact complete_rp_emacs]. Qed.
  End EmacsSearch.
End MainLoop.

(* the two session theorems in the form C05 states them *)
Theorem search_abort_is_noop (U : UData) (cfg : config) :
  is_emacs cfg = true ->
  forall (f : nat) (s : est), J s -> Nv cfg s ->
  match incremental_search U cfg f s with
  | EPanic => False
  | EOk r s' => r = None -> e_changes s' = e_changes s /\ buf (e_line s') = buf (e_line s) /\ pos (e_line s') = pos (e_line s)
  | _ => True
  end.
Proof.
  intros He f s HJ HN. pose proof (search_result_emacs U cfg He (e_hist s) f s (conj (conj HJ HN) eq_refl)) as Hx.
  destruct (incremental_search U cfg f s); auto. apply Hx.
Qed.

Theorem completion_abort_is_noop (U : UData) (cfg : config) :
  is_emacs cfg = true -> c_completion cfg = CTCircular ->
  (forall text p, bd text p -> bd text (fst (c_complete cfg text p)) /\ fst (c_complete cfg text p) <= p) ->
  forall (f : nat) (s : est), J s -> Nv cfg s ->
  match complete_line U cfg f s with
  | EPanic => False
  | EOk r s' => r = None -> e_changes s' = e_changes s /\ buf (e_line s') = buf (e_line s) /\ pos (e_line s') = pos (e_line s)
  | _ => True
  end.
Proof.
  intros He Hct Hc f s HJ HN.
  pose proof (circular_result_emacs U cfg He (e_hist s) Hc f s (conj (conj HJ HN) eq_refl) Hct) as Hx.
  destruct (complete_line U cfg f s); auto. apply Hx.
Qed.

(* the contract is satisfiable: the scripted completer of the correspondence check keeps it *)
Lemma script_complete_ok cands text p :
  bd text p -> bd text (fst (script_complete cands text p)) /\ fst (script_complete cands text p) <= p.
Proof.
  intros [l [r [-> ->]]]. unfold script_complete. rewrite bsplit_app. cbn [fst].
  destruct (rfind_char 32%N l) as [k|] eqn:E; [|split; [apply bd_0|lia]].
  destruct (rfind_char_spec _ _ _ E) as [a [b [-> ->]]].
  replace (blen a + 1) with (blen (a ++ [32%N])) by (rewrite blen_app; reflexivity).
  split.
  - replace ((a ++ 32%N :: b) ++ r) with ((a ++ [32%N]) ++ b ++ r) by (rewrite <- !app_assoc; reflexivity). apply bd_mid.
  - replace (a ++ 32%N :: b) with ((a ++ [32%N]) ++ b) by (rewrite <- app_assoc; reflexivity). rewrite (blen_app (a ++ [32%N]) b). lia.
Qed.
