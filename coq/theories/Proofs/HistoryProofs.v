(* C09: the in-memory history store against a ghost log; search truthfulness. *)
From RL Require Import UData History.

(* ---------- ghost log ---------- *)

Definition lastn {A} (n : nat) (l : list A) : list A := skipn (length l - n) l.

Record ghost := mkG { g_acc : list str; g_k : nat }.

Definition refused (U : UData) (h : hist) (l : str) : Prop :=
  l = [] \/ h_max h = 0
  \/ (h_ign_space h = true /\ exists c t, l = c :: t /\ u_is_whitespace U c = true)
  \/ (h_ign_dups h = true /\ last_opt (h_entries h) = Some l).

(* the ghost follows only the answers of [add] and the setting changes *)
Definition g_step (U : UData) (h : hist) (g : ghost) (o : hop) : ghost :=
  match o with
  | HAdd l | HAddOwned l =>
    if snd (h_add U h l) then mkG (g_acc g ++ [l]) (Nat.min (S (g_k g)) (h_max h)) else g
  | HSetMax n => mkG (g_acc g) (Nat.min (g_k g) n)
  | HClear => mkG [] 0
  | _ => g
  end.

Definition Inv (h : hist) (g : ghost) : Prop :=
  h_entries h = lastn (g_k g) (g_acc g) /\ g_k g <= length (g_acc g) /\ g_k g <= h_max h.

Lemma lastn_length {A} n (l : list A) : n <= length l -> length (lastn n l) = n.
Proof. intros H. unfold lastn. rewrite skipn_length. lia. Qed.

Lemma lastn_snoc {A} n (l : list A) x : n <= length l -> lastn (S n) (l ++ [x]) = lastn n l ++ [x].
Proof.
  intros H. unfold lastn. rewrite app_length. cbn [length].
  replace (length l + 1 - S n) with (length l - n) by lia.
  rewrite skipn_app. replace (length l - n - length l) with 0 by lia. reflexivity.
Qed.

Lemma tl_skipn {A} n (l : list A) : tl (skipn n l) = skipn (S n) l.
Proof.
  revert l; induction n as [|n IH]; intros l.
  - destruct l; reflexivity.
  - destruct l as [|a l]; [reflexivity|]. cbn [skipn]. rewrite IH. reflexivity.
Qed.

Lemma lastn_snoc_full {A} n (l : list A) x :
  0 < n -> n <= length l -> lastn n (l ++ [x]) = tl (lastn n l) ++ [x].
Proof.
  intros H0 H. unfold lastn. rewrite app_length. cbn [length].
  rewrite tl_skipn. replace (length l + 1 - n) with (S (length l - n)) by lia.
  rewrite skipn_app. replace (S (length l - n) - length l) with 0 by lia. reflexivity.
Qed.

Lemma skipn_skipn {A} a b (l : list A) : skipn a (skipn b l) = skipn (a + b) l.
Proof.
  revert l; induction b as [|b IH]; intros l.
  - rewrite Nat.add_0_r. reflexivity.
  - destruct l as [|x l]; [rewrite !skipn_nil; reflexivity|].
    replace (a + S b) with (S (a + b)) by lia. cbn [skipn]. apply IH.
Qed.

Lemma lastn_lastn {A} a b (l : list A) : a <= b -> b <= length l -> lastn a (lastn b l) = lastn a l.
Proof.
  intros H1 H2. unfold lastn at 1. rewrite lastn_length by assumption. unfold lastn.
  rewrite skipn_skipn. f_equal. lia.
Qed.

Lemma h_add_true_entries U h l :
  snd (h_add U h l) = true -> fst (h_add U h l) = h_insert h l.
Proof. unfold h_add. destruct (h_ignore U h l); [discriminate|reflexivity]. Qed.
Lemma h_add_false_same U h l :
  snd (h_add U h l) = false -> fst (h_add U h l) = h.
Proof. unfold h_add. destruct (h_ignore U h l); [reflexivity|discriminate]. Qed.

Lemma h_add_true_max U h l : snd (h_add U h l) = true -> h_max h <> 0.
Proof.
  unfold h_add, h_ignore. destruct (Nat.eqb (h_max h) 0) eqn:E; [discriminate|].
  intros _. apply Nat.eqb_neq in E. exact E.
Qed.

Lemma step_inv U h g o : Inv h g -> Inv (fst (h_step U h o)) (g_step U h g o).
Proof.
  intros [He [Hk Hm]].
  assert (Hadd : forall l, Inv (fst (h_add U h l))
      (if snd (h_add U h l) then mkG (g_acc g ++ [l]) (Nat.min (S (g_k g)) (h_max h)) else g)).
  { intros l. destruct (snd (h_add U h l)) eqn:Ea.
    - rewrite (h_add_true_entries _ _ _ Ea). pose proof (h_add_true_max _ _ _ Ea) as Hmax.
      unfold Inv, h_insert, hlen. cbn [h_entries h_max g_acc g_k].
      rewrite app_length. cbn [length]. split; [|split; lia].
      rewrite He, lastn_length by assumption.
      destruct (Nat.eqb (g_k g) (h_max h)) eqn:Efull.
      + apply Nat.eqb_eq in Efull. rewrite Nat.min_r by lia. rewrite <- Efull.
        symmetry. apply lastn_snoc_full; lia.
      + apply Nat.eqb_neq in Efull. rewrite Nat.min_l by lia. symmetry. apply lastn_snoc. assumption.
    - rewrite (h_add_false_same _ _ _ Ea). split; auto. }
  destruct o as [l|l|n|b|b| |i|t s d|t s d| ]; cbn [h_step g_step];
    try (destruct (h_add U h l) as [h' b'] eqn:E; specialize (Hadd l); rewrite E in Hadd; cbn [fst snd] in *; exact Hadd);
    cbn [fst]; try (split; auto; fail).
  - (* set_max_len *)
    unfold Inv, h_set_max_len, hlen. cbn [h_entries h_max g_acc g_k]. split; [|split; lia].
    rewrite He, lastn_length by assumption.
    destruct (Nat.ltb n (g_k g)) eqn:E.
    + apply Nat.ltb_lt in E. rewrite Nat.min_r by lia.
      change (skipn (g_k g - n) (lastn (g_k g) (g_acc g))) with
          (skipn (g_k g - n) (lastn (g_k g) (g_acc g))).
      replace (skipn (g_k g - n) (lastn (g_k g) (g_acc g))) with (lastn n (lastn (g_k g) (g_acc g))).
      * apply lastn_lastn; lia.
      * unfold lastn at 1. rewrite lastn_length by assumption. reflexivity.
    + apply Nat.ltb_ge in E. rewrite Nat.min_l by lia. reflexivity.
  - (* clear *)
    unfold Inv. cbn. repeat split; lia.
Qed.

(* run the ghost along an op list *)
Fixpoint g_run (U : UData) (h : hist) (g : ghost) (ops : list hop) : hist * ghost :=
  match ops with
  | [] => (h, g)
  | o :: t => g_run U (fst (h_step U h o)) (g_step U h g o) t
  end.

Lemma g_run_inv U ops : forall h g, Inv h g -> Inv (fst (g_run U h g ops)) (snd (g_run U h g ops)).
Proof.
  induction ops as [|o ops IH]; intros h g H; [exact H|]. cbn [g_run]. apply IH. apply step_inv. exact H.
Qed.

Lemma g_run_hist U ops : forall h g, fst (g_run U h g ops) = fst (h_run U h ops).
Proof.
  induction ops as [|o ops IH]; intros h g; [reflexivity|]. cbn [g_run h_run].
  destruct (h_step U h o) as [h1 r] eqn:E. cbn [fst]. rewrite IH.
  destruct (h_run U h1 ops) as [h2 rs]. reflexivity.
Qed.

(* C09 main invariant, for every op list from a fresh history *)
Theorem hist_log U max igs igd ops :
  let h := fst (h_run U (hist_new max igs igd) ops) in
  let g := snd (g_run U (hist_new max igs igd) (mkG [] 0) ops) in
  h_entries h = lastn (g_k g) (g_acc g) /\ g_k g <= length (g_acc g)
  /\ length (h_entries h) <= h_max h.
Proof.
  intros h g.
  assert (H0 : Inv (hist_new max igs igd) (mkG [] 0)) by (unfold Inv; cbn; repeat split; lia).
  pose proof (g_run_inv U ops _ _ H0) as [He [Hk Hm]].
  rewrite g_run_hist in He, Hm. fold h g in He, Hk, Hm.
  split; [exact He|]. split; [exact Hk|]. rewrite He, lastn_length; assumption.
Qed.

(* add answers truthfully *)
Theorem hist_accept U h l : snd (h_add U h l) = false <-> refused U h l.
Proof.
  unfold h_add, h_ignore, refused.
  destruct (Nat.eqb (h_max h) 0) eqn:Emax.
  { apply Nat.eqb_eq in Emax. split; [intros _; right; left; exact Emax|reflexivity]. }
  apply Nat.eqb_neq in Emax.
  destruct l as [|c l].
  { split; [intros _; left; reflexivity|reflexivity]. }
  destruct (h_ign_space h && u_is_whitespace U c) eqn:Ews.
  { apply andb_true_iff in Ews. destruct Ews as [E1 E2].
    split; [intros _; right; right; left; split; [exact E1|exists c, l; auto]|reflexivity]. }
  destruct (h_ign_dups h) eqn:Edup.
  - destruct (last_opt (h_entries h)) as [s|] eqn:El.
    + destruct (str_eqb s (c :: l)) eqn:Eeq; cbn [snd].
      * apply str_eqb_eq in Eeq. subst s. split; [intros _; right; right; right; auto|reflexivity].
      * split; [discriminate|]. intros [H|[H|[[H1 [c' [t [H2 H3]]]]|[_ H]]]]; try discriminate; try contradiction.
        -- inversion H2; subst. rewrite H1, H3 in Ews. discriminate.
        -- inversion H; subst. rewrite str_eqb_refl in Eeq. discriminate.
    + cbn [snd]. split; [discriminate|]. intros [H|[H|[[H1 [c' [t [H2 H3]]]]|[_ H]]]]; try discriminate; try contradiction.
      inversion H2; subst. rewrite H1, H3 in Ews. discriminate.
  - cbn [snd]. split; [discriminate|]. intros [H|[H|[[H1 [c' [t [H2 H3]]]]|[H _]]]]; try discriminate; try contradiction.
    inversion H2; subst. rewrite H1, H3 in Ews. discriminate.
Qed.

Theorem hist_get h i : h_get h i = nth_error (h_entries h) i.
Proof. reflexivity. Qed.

(* ---------- searches ---------- *)

Lemma find_first_spec test l : forall i0 i c e,
  find_first test l i0 = Some (i, c, e) ->
  i0 <= i /\ nth_error l (i - i0) = Some e /\ test e = Some c
  /\ forall j e', j < i - i0 -> nth_error l j = Some e' -> test e' = None.
Proof.
  induction l as [|x l IH]; intros i0 i c e H; [discriminate|]. cbn [find_first] in H.
  destruct (test x) as [c'|] eqn:E.
  - inversion H; subst. rewrite Nat.sub_diag. repeat split; auto. intros j e' Hj; lia.
  - apply IH in H. destruct H as [H1 [H2 [H3 H4]]].
    replace (i - i0) with (S (i - S i0)) by lia. repeat split; try lia; auto.
    intros j e' Hj Hn. destruct j as [|j]; [cbn in Hn; inversion Hn; subst; exact E|].
    cbn in Hn. eapply H4; [|exact Hn]. lia.
Qed.

Lemma find_first_none test l : forall i0,
  find_first test l i0 = None -> forall j e', nth_error l j = Some e' -> test e' = None.
Proof.
  induction l as [|x l IH]; intros i0 H j e' Hn; [destruct j; discriminate|]. cbn [find_first] in H.
  destruct (test x) as [c'|] eqn:E; [discriminate|].
  destruct j as [|j]; [cbn in Hn; inversion Hn; subst; exact E|]. cbn in Hn. eapply IH; eauto.
Qed.

Lemma nth_error_skipn {A} n (l : list A) i : nth_error (skipn n l) i = nth_error l (n + i).
Proof.
  revert l; induction n as [|n IH]; intros l; [reflexivity|].
  destruct l as [|a l]; [destruct i; reflexivity|]. cbn [skipn plus nth_error]. apply IH.
Qed.

Lemma nth_error_rev {A} (l : list A) i :
  i < length l -> nth_error (rev l) i = nth_error l (length l - 1 - i).
Proof.
  intros H. destruct (nth_error l (length l - 1 - i)) as [x|] eqn:E.
  - rewrite <- E. pose proof (rev_nth l x H) as Hr.
    replace (length l - S i) with (length l - 1 - i) in Hr by lia.
    rewrite (nth_error_nth' _ x) by (rewrite rev_length; assumption).
    rewrite (nth_error_nth' _ x) by lia. f_equal. exact Hr.
  - apply nth_error_None in E. lia.
Qed.

Definition test_at (test : str -> option nat) (h : hist) (j : nat) : option nat :=
  match nth_error (h_entries h) j with Some e => test e | None => None end.

Theorem search_match_some h t s d test i c e :
  h_search_match h t s d test = Some (i, c, e) ->
  t <> [] /\ s < hlen h /\ nth_error (h_entries h) i = Some e /\ test e = Some c
  /\ match d with
     | Forward => s <= i /\ forall j, s <= j < i -> test_at test h j = None
     | Reverse => i <= s /\ forall j, i < j <= s -> test_at test h j = None
     end.
Proof.
  unfold h_search_match. destruct t as [|t0 t]; [discriminate|].
  destruct (Nat.leb (hlen h) s) eqn:Es; [discriminate|]. apply Nat.leb_gt in Es.
  intros H. split; [discriminate|]. split; [exact Es|]. unfold hlen in *.
  destruct d.
  - destruct (find_first test (skipn s (h_entries h)) 0) as [[[i' c'] e']|] eqn:E; [|discriminate].
    inversion H; subst. apply find_first_spec in E. destruct E as [_ [H2 [H3 H4]]].
    rewrite Nat.sub_0_r in *. rewrite nth_error_skipn in H2.
    replace (i' + s) with (s + i') by lia. repeat split; auto; try lia.
    intros j Hj. unfold test_at. destruct (nth_error (h_entries h) j) as [ej|] eqn:En; [|reflexivity].
    apply (H4 (j - s) ej); [lia|]. rewrite nth_error_skipn. replace (s + (j - s)) with j by lia. exact En.
  - destruct (find_first test (skipn (length (h_entries h) - 1 - s) (rev (h_entries h))) 0)
      as [[[i' c'] e']|] eqn:E; [|discriminate].
    inversion H; subst. apply find_first_spec in E. destruct E as [_ [H2 [H3 H4]]].
    rewrite Nat.sub_0_r in *. rewrite nth_error_skipn in H2.
    assert (Hi : length (h_entries h) - 1 - s + i' < length (h_entries h)).
    { destruct (Nat.lt_ge_cases (length (h_entries h) - 1 - s + i') (length (h_entries h))) as [Hlt|Hge]; [exact Hlt|].
      exfalso. assert (Hn : nth_error (rev (h_entries h)) (length (h_entries h) - 1 - s + i') = None)
        by (apply nth_error_None; rewrite rev_length; exact Hge).
      rewrite Hn in H2. discriminate. }
    rewrite nth_error_rev in H2 by assumption.
    replace (length (h_entries h) - 1 - (length (h_entries h) - 1 - s + i')) with (s - i') in H2 by lia.
    repeat split; auto; try lia.
    intros j Hj. unfold test_at. destruct (nth_error (h_entries h) j) as [ej|] eqn:En; [|reflexivity].
    apply (H4 (s - j) ej); [lia|]. rewrite nth_error_skipn.
    rewrite nth_error_rev by lia.
    replace (length (h_entries h) - 1 - (length (h_entries h) - 1 - s + (s - j))) with j by lia. exact En.
Qed.

Theorem search_match_none h t s d test :
  h_search_match h t s d test = None ->
  t = [] \/ hlen h <= s
  \/ match d with
     | Forward => forall j, s <= j -> test_at test h j = None
     | Reverse => forall j, j <= s -> test_at test h j = None
     end.
Proof.
  unfold h_search_match. destruct t as [|t0 t]; [left; reflexivity|].
  destruct (Nat.leb (hlen h) s) eqn:Es; [apply Nat.leb_le in Es; right; left; exact Es|].
  apply Nat.leb_gt in Es. unfold hlen in *. intros H. right. right. destruct d.
  - destruct (find_first test (skipn s (h_entries h)) 0) as [[[i' c'] e']|] eqn:E; [discriminate|].
    intros j Hj. unfold test_at. destruct (nth_error (h_entries h) j) as [ej|] eqn:En; [|reflexivity].
    eapply (find_first_none _ _ _ E (j - s)). rewrite nth_error_skipn.
    replace (s + (j - s)) with j by lia. exact En.
  - destruct (find_first test (skipn (length (h_entries h) - 1 - s) (rev (h_entries h))) 0)
      as [[[i' c'] e']|] eqn:E; [discriminate|].
    intros j Hj. unfold test_at. destruct (nth_error (h_entries h) j) as [ej|] eqn:En; [|reflexivity].
    eapply (find_first_none _ _ _ E (s - j)). rewrite nth_error_skipn.
    rewrite nth_error_rev by lia.
    replace (length (h_entries h) - 1 - (length (h_entries h) - 1 - s + (s - j))) with j by lia. exact En.
Qed.

(* str::find: first occurrence, as a byte offset *)
Theorem find_sub_some t s k :
  find_sub t s = Some k ->
  exists l r, s = l ++ t ++ r /\ blen l = k
              /\ forall l' r', s = l' ++ t ++ r' -> length l <= length l'.
Proof.
  revert k. induction s as [|c s IH]; intros k H; cbn [find_sub] in H.
  - destruct (prefix_b t []) eqn:E; [|discriminate]. inversion H; subst.
    apply prefix_b_spec in E. destruct E as [r E]. exists [], r. repeat split; auto. intros; cbn; lia.
  - destruct (prefix_b t (c :: s)) eqn:E.
    + inversion H; subst. apply prefix_b_spec in E. destruct E as [r E].
      exists [], r. repeat split; auto. intros; cbn; lia.
    + destruct (find_sub t s) as [k'|] eqn:Ef; [|discriminate]. inversion H; subst.
      destruct (IH _ eq_refl) as [l [r [H1 [H2 H3]]]].
      exists (c :: l), r. split; [cbn; rewrite H1; reflexivity|]. split; [cbn [blen]; lia|].
      intros l' r' Hs. destruct l' as [|c' l'].
      * exfalso. cbn [app] in Hs. assert (prefix_b t (c :: s) = true) by (apply prefix_b_spec; eexists; exact Hs).
        congruence.
      * cbn [app] in Hs. inversion Hs; subst. cbn [length]. apply le_n_S. eapply H3. eassumption.
Qed.

Theorem find_sub_none t s : find_sub t s = None -> forall l r, s <> l ++ t ++ r.
Proof.
  induction s as [|c s IH]; intros H l r Hs; cbn [find_sub] in H.
  - destruct (prefix_b t []) eqn:E; [discriminate|].
    destruct l; [|discriminate]. cbn [app] in Hs.
    assert (prefix_b t [] = true) by (apply prefix_b_spec; eexists; exact Hs). congruence.
  - destruct (prefix_b t (c :: s)) eqn:E; [discriminate|].
    destruct (find_sub t s) eqn:Ef; [discriminate|].
    destruct l as [|c' l].
    + cbn [app] in Hs. assert (prefix_b t (c :: s) = true) by (apply prefix_b_spec; eexists; exact Hs). congruence.
    + cbn [app] in Hs. inversion Hs; subst. eapply IH; eauto.
Qed.
