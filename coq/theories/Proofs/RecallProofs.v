(* C07: history recall. *)
From RL Require Import UData LineBuffer LineBufferTotal Undo KillRing Render Keys Editor EditorRun EditorProofs.

Lemma update_spec (b : lb) (s : str) (p : nat) :
  grow b = true -> p <= blen s ->
  exists ev, update s p b = Ok (tt, mkLb s p (cap b) (grow b), ev).
Proof.
  intros Hg Hp. unfold update.
  replace (Nat.ltb (blen s) p) with false by (symmetry; apply Nat.ltb_ge; exact Hp).
  unfold bind at 1. cbn [get]. unfold bind at 1.
  assert (Hb : buf b = [] ++ buf b ++ []) by (rewrite app_nil_r; reflexivity).
  pose proof (drain_ok b [] (buf b) [] DForward Hb) as Hd. cbn [blen app Nat.add] in Hd.
  unfold lb_len. rewrite Hd. unfold must_truncate. rewrite Hg. cbn [negb andb].
  unfold bind at 1.
  assert (Hb2 : buf (set_buf b []) = [] ++ []) by reflexivity.
  pose proof (insert_str_ok (set_buf b []) [] [] s Hb2) as Hi. cbn [blen app] in Hi. rewrite Hi.
  cbn [put_pos]. unfold set_pos', set_buf. cbn [buf pos cap grow app]. rewrite app_nil_r, Hg. eexists. reflexivity.
Qed.

(* ---------- nothing an editor command does changes the stored history ---------- *)

Definition keeps_hist {A} (m : E A) : Prop := forall s a s', m s = EOk a s' -> e_hist s' = e_hist s.
Lemma kh_bind {A B} (m : E A) (f : A -> E B) : keeps_hist m -> (forall a, keeps_hist (f a)) -> keeps_hist (ebind m f).
Proof.
  intros Hm Hf s b s2 H. apply ebind_inv in H. destruct H as [a [s1 [H1 H2]]].
  rewrite (Hf _ _ _ _ H2). eapply Hm; eauto.
Qed.
Lemma kh_ret {A} (a : A) : keeps_hist (eret a). Proof. intros s a' s' H. inversion H; auto. Qed.
Lemma kh_get : keeps_hist eget. Proof. intros s a' s' H. inversion H; auto. Qed.
Lemma kh_fail {A} e : keeps_hist (@efail A e). Proof. intros s a' s' H. discriminate. Qed.
Lemma kh_panic {A} : keeps_hist (@epanic A). Proof. intros s a' s' H. discriminate. Qed.
Lemma kh_fuel {A} : keeps_hist (@efuel A). Proof. intros s a' s' H. discriminate. Qed.
Lemma kh_write b : keeps_hist (write b). Proof. intros s a' s' H. inversion H; auto. Qed.
Lemma kh_set_layout l : keeps_hist (set_layout l). Proof. intros s a' s' H. inversion H; auto. Qed.
Lemma kh_set_hint h : keeps_hist (set_hint h). Proof. intros s a' s' H. inversion H; auto. Qed.
Lemma kh_set_kr k : keeps_hist (set_kr k). Proof. intros s a' s' H. inversion H; auto. Qed.
Lemma kh_set_hidx k : keeps_hist (set_hidx k). Proof. intros s a' s' H. inversion H; auto. Qed.
Lemma kh_set_saved k : keeps_hist (set_saved k). Proof. intros s a' s' H. inversion H; auto. Qed.
Lemma kh_set_changes k : keeps_hist (set_changes k). Proof. intros s a' s' H. inversion H; auto. Qed.
Lemma kh_set_line k : keeps_hist (set_line k). Proof. intros s a' s' H. inversion H; auto. Qed.
Lemma kh_observe o : keeps_hist (observe o). Proof. intros s a' s' H. inversion H; auto. Qed.
Lemma kh_set_input_mode m : keeps_hist (set_input_mode m). Proof. intros s a' s' H. inversion H; auto. Qed.
Lemma kh_set_num_args z : keeps_hist (set_num_args z). Proof. intros s a' s' H. inversion H; auto. Qed.
Lemma kh_set_last_cmd c : keeps_hist (set_last_cmd c). Proof. intros s a' s' H. inversion H; auto. Qed.
Lemma kh_set_last_cs c : keeps_hist (set_last_cs c). Proof. intros s a' s' H. inversion H; auto. Qed.
Lemma kh_set_inp i : keeps_hist (set_inp i). Proof. intros s a' s' H. inversion H; auto. Qed.

Ltac kh_auto :=
  repeat (first [ apply kh_ret | apply kh_get | apply kh_fail | apply kh_panic | apply kh_fuel | apply kh_write
                | apply kh_set_layout | apply kh_set_hint | apply kh_set_kr | apply kh_set_hidx | apply kh_set_saved
                | apply kh_set_changes | apply kh_set_line
                | apply kh_observe | apply kh_set_input_mode | apply kh_set_num_args | apply kh_set_last_cmd
                | apply kh_set_last_cs | apply kh_set_inp
                | match goal with |- keeps_hist (ebind _ _) => apply kh_bind; [|intros] end ] ||
          match goal with
          | |- keeps_hist (if ?c then _ else _) => destruct c
          | |- keeps_hist (match ?x with _ => _ end) => destruct x
          | |- keeps_hist (let '(_, _) := ?x in _) => destruct x
          | |- keeps_hist (let _ := _ in _) => cbv zeta
          end).

Section Recall.
  Variable U : UData.
  Variable cfg : config.

  (* every command: the whole of execute is built from the state accessors above, none of which
     writes the history field *)
  Theorem execute_keeps_history c : keeps_hist (execute U cfg c).
  Proof.
    unfold execute, complete_hint_line, edit_insert, edit_yank, edit_yank_pop, edit_kill, edit_insert_text,
      edit_replace_char, edit_overwrite_char, grouped, moved, edit_move_line_up, edit_move_line_down,
      edit_history_next, edit_history, edit_history_search, validate, restore, backup, beep,
      refresh_line, refresh_line_with_msg, refresh_prompt_and_line, refresh, update_hint, move_cursor,
      move_cursor_to_end, lb_changes, lb_quiet, lb_kill, changes_begin, changes_end.
    destruct c; kh_auto.
  Qed.

  (* ---------- what recall shows ---------- *)

  Ltac run_e :=
    unfold set_hidx, set_saved, changes_begin, changes_end, cs_begin, cs_end, lb_changes, refresh_line, update_hint,
      refresh, set_hint, set_changes, set_line, upd_line, set_layout, write, backup, restore, ebind, eget, eret;
    cbn [e_line e_changes e_kr e_hist e_hidx e_saved e_hint e_layout e_prompt e_prompt_size i_input_mode
         i_num_args i_last_cmd i_last_cs e_inp e_out e_obs cs_level cs_undos fst snd].

  (* installing a text (a history entry, or the saved line) as the line: inside one undo group, cursor given *)
  Lemma install_spec s idx entry p :
    grow (e_line s) = true -> p <= blen entry ->
    exists s', (set_hidx idx ;;; (edo _ <- changes_begin; lb_changes U (update entry p) ;;; (edo _ <- changes_end; refresh_line U cfg))) s
               = EOk tt s'
      /\ buf (e_line s') = entry /\ pos (e_line s') = p /\ e_hidx s' = idx
      /\ e_hist s' = e_hist s /\ e_saved s' = e_saved s /\ grow (e_line s') = true.
  Proof.
    intros Hg Hp. destruct (update_spec (e_line s) entry p Hg Hp) as [ev Hu].
    run_e. rewrite Hu. run_e.
    match goal with |- context [cs_end_loop ?a ?b ?c] => destruct (cs_end_loop a b c) as [u t] end.
    run_e. destruct (c_has_helper cfg); run_e; eexists; (split; [reflexivity|]); cbn; rewrite ?Hg; repeat split.
  Qed.

  (* ---------- ... nor does anything else a read can do: the reader, the keymaps, the sub-loops ---------- *)

  Lemma kh_next_char : keeps_hist next_char.
  Proof.
    intros s a s' H. unfold next_char in H.
    destruct (take_char (in_cur (e_inp s)) (in_rest (e_inp s))) as [[[c| |pm] i]|]; try discriminate;
      cbn in H; inversion H; reflexivity.
  Qed.
  Lemma kh_poll t : keeps_hist (poll t). Proof. unfold poll. kh_auto. Qed.
  Lemma kh_escape_o : keeps_hist escape_o. Proof. unfold escape_o. kh_auto; apply kh_next_char. Qed.
  Lemma kh_extended_escape c : keeps_hist (extended_escape c).
  Proof. unfold extended_escape. kh_auto; try apply kh_next_char. Qed.
  Lemma kh_escape_csi : keeps_hist escape_csi.
  Proof. unfold escape_csi. kh_auto; try apply kh_next_char; try apply kh_extended_escape. Qed.
  Lemma kh_do_escape_sequence r : keeps_hist (do_escape_sequence U cfg r).
  Proof.
    unfold do_escape_sequence. kh_auto; try apply kh_next_char; try apply kh_escape_csi; try apply kh_escape_o;
      try apply kh_poll.
  Qed.
  Lemma kh_next_key sea : keeps_hist (next_key U cfg sea).
  Proof. unfold next_key. kh_auto; try apply kh_next_char; try apply kh_poll; try apply kh_do_escape_sequence. Qed.
  Lemma kh_read_pasted fuel : forall acc, keeps_hist (read_pasted U cfg fuel acc).
  Proof.
    induction fuel as [|f IH]; intros acc; cbn [read_pasted]; [apply kh_fuel|].
    kh_auto; try apply kh_next_char; try apply kh_do_escape_sequence; apply IH.
  Qed.

  Ltac kh_display :=
    unfold refresh_line, refresh_line_with_msg, refresh_prompt_and_line, refresh, update_hint, move_cursor,
      move_cursor_to_end, lb_changes, lb_quiet, lb_kill, changes_begin, changes_end, beep, backup, restore,
      completer_update, moved, doing_insert, done_inserting.

  Lemma kh_lb_changes {A} (m : M A) : keeps_hist (lb_changes U m). Proof. unfold lb_changes. kh_auto. Qed.
  Lemma kh_lb_quiet {A} (m : M A) : keeps_hist (lb_quiet m). Proof. unfold lb_quiet. kh_auto. Qed.
  Lemma kh_lb_kill {A} (m : M A) : keeps_hist (lb_kill U m). Proof. unfold lb_kill. kh_auto. Qed.

  Lemma kh_move_cursor : keeps_hist (move_cursor U cfg). Proof. unfold move_cursor. kh_auto. Qed.
  Lemma kh_refresh_line : keeps_hist (refresh_line U cfg). Proof. kh_display. kh_auto. Qed.
  Lemma kh_refresh_prompt_and_line p : keeps_hist (refresh_prompt_and_line U cfg p). Proof. kh_display. kh_auto. Qed.

  Lemma kh_custom_seq_binding fuel : forall ks, keeps_hist (custom_seq_binding U cfg fuel ks).
  Proof.
    induction fuel as [|f IH]; intros ks; cbn [custom_seq_binding]; [apply kh_ret|].
    kh_auto; try apply kh_next_key; apply IH.
  Qed.
  Lemma kh_emacs_digit_loop fuel : forall m, keeps_hist (emacs_digit_loop U cfg fuel m).
  Proof.
    induction fuel as [|f IH]; intros m; cbn [emacs_digit_loop]; [apply kh_fuel|].
    kh_auto; try apply kh_next_key; try apply kh_refresh_line; try apply kh_refresh_prompt_and_line; apply IH.
  Qed.
  Lemma kh_vi_arg_digit_loop fuel : keeps_hist (vi_arg_digit_loop U cfg fuel).
  Proof.
    induction fuel as [|f IH]; cbn [vi_arg_digit_loop]; [apply kh_fuel|].
    kh_auto; try apply kh_next_key; try apply kh_refresh_line; try apply kh_refresh_prompt_and_line; apply IH.
  Qed.
  Lemma kh_common fuel k n p : keeps_hist (common U cfg fuel k n p).
  Proof. unfold common. kh_auto; try apply kh_read_pasted; try apply kh_custom_seq_binding. Qed.
  Lemma kh_cmd_redo c n : keeps_hist (cmd_redo c n).
  Proof. unfold cmd_redo, last_insert. kh_auto. Qed.
  Lemma kh_term_binding k : keeps_hist (term_binding cfg k). Proof. unfold term_binding. kh_auto. Qed.
  Lemma kh_custom_binding k n p : keeps_hist (custom_binding cfg k n p). Proof. unfold custom_binding. kh_auto. Qed.

  Ltac kh_keymap :=
    try apply kh_emacs_digit_loop; try apply kh_vi_arg_digit_loop; try apply kh_custom_binding; try apply kh_cmd_redo;
    try apply kh_term_binding; try apply kh_common; try apply kh_custom_seq_binding; try apply kh_next_key.

  Lemma kh_emacs fuel k : keeps_hist (emacs U cfg fuel k).
  Proof.
    unfold emacs, emacs_digit_argument, emacs_num_args, take_num_args, has_hint_at_end. kh_auto; kh_keymap.
  Qed.
  Lemma kh_vi_char_search c : keeps_hist (vi_char_search U cfg c).
  Proof. unfold vi_char_search. kh_auto; kh_keymap. Qed.
  Lemma kh_vi_cmd_motion fuel k n : keeps_hist (vi_cmd_motion U cfg fuel k n).
  Proof.
    unfold vi_cmd_motion, vi_arg_digit, vi_num_args, take_num_args. kh_auto; kh_keymap; try apply kh_vi_char_search.
  Qed.
  Lemma kh_vi_command fuel k : keeps_hist (vi_command U cfg fuel k).
  Proof.
    unfold vi_command, vi_arg_digit, vi_num_args, take_num_args, doing_insert, changes_begin.
    kh_auto; kh_keymap; try apply kh_vi_char_search; try apply kh_vi_cmd_motion.
  Qed.
  Lemma kh_vi_insert fuel k : keeps_hist (vi_insert U cfg fuel k).
  Proof.
    unfold vi_insert, has_hint_at_end, done_inserting, changes_end. kh_auto; kh_keymap; try apply kh_vi_command.
  Qed.
  Lemma kh_next_cmd fuel sea : keeps_hist (next_cmd U cfg fuel sea).
  Proof.
    unfold next_cmd, changes_begin. kh_auto; kh_keymap; try apply kh_emacs; try apply kh_vi_command; try apply kh_vi_insert.
  Qed.

  Lemma kh_circular_branch rec cands backup mark i c :
    (forall j, keeps_hist (rec j)) -> keeps_hist (circular_branch U cfg rec cands backup mark i c).
  Proof.
    intros Hr. unfold circular_branch. kh_display.
    destruct c; kh_auto; try apply Hr; try apply kh_lb_changes; try apply kh_refresh_line.
  Qed.
  Lemma kh_complete_circular fuel : forall start cands backup mark i,
    keeps_hist (complete_circular U cfg fuel start cands backup mark i).
  Proof.
    induction fuel as [|f IH]; intros start cands backup mark i; cbn [complete_circular]; [apply kh_fuel|].
    apply kh_bind; [unfold show_candidate; kh_display; kh_auto; apply kh_lb_changes|]. intros _.
    apply kh_bind; [apply kh_refresh_line|]. intros _.
    apply kh_bind; [apply kh_next_cmd|]. intros c.
    apply kh_circular_branch. intros j. apply IH.
  Qed.
  Lemma kh_wait_yn fuel : forall c, keeps_hist (wait_yn U cfg fuel c).
  Proof.
    induction fuel as [|f IH]; intros c; cbn [wait_yn]; [apply kh_fuel|].
    kh_auto; try apply kh_next_cmd; try apply IH.
  Qed.
  Lemma kh_rows (row_text : nat -> str) : forall k row,
    keeps_hist ((fix rows (k : nat) (row : nat) : E unit :=
                   match k with 0 => eret tt | S k' => write [10%N] ;;; write (row_text row) ;;; rows k' (S row) end) k row).
  Proof. induction k as [|k IH]; intros row; [apply kh_ret|]. kh_auto. apply IH. Qed.
  Lemma kh_page cands : keeps_hist (page_completions_simple U cfg cands).
  Proof.
    unfold page_completions_simple. cbv zeta.
    destruct (Nat.eqb _ 0); [apply kh_panic|]. destruct (Nat.eqb _ 0); [apply kh_panic|].
    apply kh_bind; [apply kh_rows|]. intros _. kh_display. kh_auto.
  Qed.
  Lemma kh_complete_line fuel : keeps_hist (complete_line U cfg fuel).
  Proof.
    unfold complete_line, list_span_step. kh_display.
    kh_auto; try apply kh_complete_circular; try apply kh_next_cmd; try apply kh_wait_yn; try apply kh_page;
      try apply kh_lb_changes; try apply kh_lb_quiet; try apply kh_move_cursor; try apply kh_refresh_line.
  Qed.
  Lemma kh_isearch_branch rec backup mark term idx d success c :
    (forall t i d' su, keeps_hist (rec t i d' su)) ->
    keeps_hist (isearch_branch U cfg rec backup mark term idx d success c).
  Proof.
    intros Hr. unfold isearch_branch. kh_display.
    apply kh_bind; [apply kh_get|]. intros s. cbv zeta.
    destruct c; kh_auto; try apply Hr; try apply kh_lb_changes; try apply kh_refresh_line.
  Qed.
  Lemma kh_isearch_loop fuel : forall backup mark term idx d success,
    keeps_hist (isearch_loop U cfg fuel backup mark term idx d success).
  Proof.
    induction fuel as [|f IH]; intros backup mark term idx d success; cbn [isearch_loop]; [apply kh_fuel|].
    apply kh_bind; [apply kh_refresh_prompt_and_line|]. intros _.
    apply kh_bind; [apply kh_next_cmd|]. intros c.
    apply kh_isearch_branch. intros t i d' su. apply IH.
  Qed.
  Lemma kh_incremental_search fuel : keeps_hist (incremental_search U cfg fuel).
  Proof. unfold incremental_search, changes_begin. kh_auto; apply kh_isearch_loop. Qed.

  Lemma kh_external_print m : keeps_hist (external_print U cfg m).
  Proof. unfold external_print. kh_display. kh_auto. Qed.
  Lemma kh_drain_prints fuel : keeps_hist (drain_prints U cfg fuel).
  Proof.
    induction fuel as [|f IH]; cbn [drain_prints]; [apply kh_ret|].
    apply kh_bind; [apply kh_get|]. intros s. destruct (peek_print (e_inp s)) as [[m i]|]; [|apply kh_ret].
    apply kh_bind; [apply kh_set_inp|]. intros _. apply kh_bind; [apply kh_external_print|]. intros _. exact IH.
  Qed.

  (* C07: NO input whatsoever makes a read change the stored history *)
  Theorem main_loop_keeps_history fuel : keeps_hist (main_loop U cfg fuel).
  Proof.
    induction fuel as [|f IH]; cbn [main_loop]; [apply kh_fuel|].
    apply kh_bind; [apply kh_get|]. intros s00. apply kh_bind; [apply kh_drain_prints|]. intros _.
    apply kh_bind; [apply kh_next_cmd|]. intros c0.
    apply kh_bind; [kh_auto|]. intros _.
    apply kh_bind; [destruct c0; kh_auto; apply kh_complete_line|]. intros oc.
    destruct oc as [c1|]; [|apply IH].
    apply kh_bind; [destruct c1; kh_auto; apply kh_incremental_search|]. intros oc2.
    destruct oc2 as [c2|]; [|apply IH].
    assert (Hex : keeps_hist (edo st <- execute U cfg c2; match st with Proceed => main_loop U cfg f | Submit => eret tt end)).
    { apply kh_bind; [apply execute_keeps_history|]. intros st. destruct st; [apply IH|apply kh_ret]. }
    destruct c2; try exact Hex.
    2:{ apply kh_bind; [apply kh_refresh_line|]. intros _. apply IH. }
    apply kh_bind; [apply kh_next_char|]. intros ch.
    apply kh_bind; [|intros; apply IH].
    unfold edit_insert. kh_display. kh_auto.
  Qed.
End Recall.
