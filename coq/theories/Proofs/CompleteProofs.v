(* C14: completion rewrites only the span [start, cursor), cycles, aborts and undoes cleanly. *)
From RL Require Import UData LineBuffer LineBufferTotal LineBufferProofs Undo KillRing Render Keys Editor EditorRun
     EditorProofs UndoProofs RecallProofs SearchProofs.

Lemma replace_spec (b : lb) l w r t :
  buf b = l ++ w ++ r ->
  replace (blen l) (blen l + blen w) t b
  = Ok (tt, mkLb (l ++ t ++ r) (blen l + blen t) (cap b) (grow b), [EReplace (blen l) w t]).
Proof.
  intros Hb. unfold replace, replace_range, slice, str_drain, str_insert.
  replace (Nat.ltb (blen l + blen w) (blen l)) with false by (symmetry; apply Nat.ltb_ge; lia).
  rewrite Hb, bsplit_app. replace (blen l + blen w - blen l) with (blen w) by lia.
  rewrite bsplit_app. rewrite bsplit_app. reflexivity.
Qed.

(* a valid script determines its text *)
Lemma valid_unique undos : forall t1 t2, valid undos t1 -> valid undos t2 -> t1 = t2.
Proof.
  induction undos as [|ch rest IH]; intros t1 t2 H1 H2; cbn [valid] in *.
  - congruence.
  - destruct ch as [| |i s|i s|i o n]; try (apply IH; assumption).
    + destruct H1 as [l1 [r1 [E1 [L1 V1]]]]. destruct H2 as [l2 [r2 [E2 [L2 V2]]]].
      pose proof (IH _ _ V1 V2) as Heq.
      assert (Hs : bsplit (l1 ++ r1) i = Some (l1, r1)) by (rewrite <- L1; apply bsplit_app).
      rewrite Heq in Hs. rewrite <- L2 in Hs. rewrite bsplit_app in Hs. inversion Hs; subst. reflexivity.
    + destruct H1 as [l1 [r1 [E1 [L1 V1]]]]. destruct H2 as [l2 [r2 [E2 [L2 V2]]]].
      pose proof (IH _ _ V1 V2) as Heq.
      assert (Hs : bsplit (l1 ++ s ++ r1) i = Some (l1, s ++ r1)) by (rewrite <- L1; apply bsplit_app).
      rewrite Heq in Hs. rewrite <- L2 in Hs. rewrite bsplit_app in Hs. inversion Hs as [[Hl Hr]].
      apply app_inv_head in Hr. subst. reflexivity.
    + destruct H1 as [l1 [r1 [E1 [L1 V1]]]]. destruct H2 as [l2 [r2 [E2 [L2 V2]]]].
      pose proof (IH _ _ V1 V2) as Heq.
      assert (Hs : bsplit (l1 ++ o ++ r1) i = Some (l1, o ++ r1)) by (rewrite <- L1; apply bsplit_app).
      rewrite Heq in Hs. rewrite <- L2 in Hs. rewrite bsplit_app in Hs. inversion Hs as [[Hl Hr]].
      apply app_inv_head in Hr. subst. reflexivity.
Qed.

Section Complete.
  Variable U : UData.
  Variable cfg : config.

  Ltac run_c :=
    unfold show_candidate, completer_update, lb_changes, refresh_line, update_hint, refresh, set_hint, set_changes,
      set_line, upd_line, set_layout, write, changes_end, cs_end, beep, ebind, eget, eret;
    cbn [e_line e_changes e_kr e_hist e_hidx e_saved e_hint e_layout e_prompt e_prompt_size i_input_mode
         i_num_args i_last_cmd i_last_cs e_inp e_out e_obs cs_level cs_undos fst snd].

  (* Tab shows candidate i: only the span between the reported start and the cursor is rewritten *)
  Theorem shows_candidate s start cands backup i c l w r :
    i < length cands -> nth_error cands i = Some c ->
    buf (e_line s) = l ++ w ++ r -> start = blen l -> pos (e_line s) = blen l + blen w ->
    exists s', show_candidate U start cands backup i s = EOk tt s'
               /\ buf (e_line s') = l ++ c ++ r /\ pos (e_line s') = blen l + blen c
               /\ e_hist s' = e_hist s /\ grow (e_line s') = grow (e_line s).
  Proof.
    intros Hi Hn Hb Hs Hp. subst start. run_c.
    replace (Nat.ltb i (length cands)) with true by (symmetry; apply Nat.ltb_lt; exact Hi).
    rewrite Hn. run_c. rewrite Hp, (replace_spec (e_line s) l w r c Hb). run_c.
    eexists. split; [reflexivity|]. cbn. repeat split.
  Qed.

  (* LIST MODE, first step: the span becomes the longest common prefix when that is longer than the span (in bytes)
     or there is exactly one candidate; only the span is rewritten *)
  Theorem list_span_extends s start cands lcp l w r :
    lcp_all cands = Some lcp -> blen w < blen lcp \/ length cands = 1 ->
    buf (e_line s) = l ++ w ++ r -> start = blen l -> pos (e_line s) = blen l + blen w ->
    exists s', list_span_step U cfg start cands s = EOk tt s'
               /\ buf (e_line s') = l ++ lcp ++ r /\ pos (e_line s') = blen l + blen lcp
               /\ e_hist s' = e_hist s /\ grow (e_line s') = grow (e_line s).
  Proof.
    intros Hl Hc Hb Hs Hp. subst start. unfold list_span_step. run_c. rewrite Hl.
    assert (Hcond : Nat.ltb (pos (e_line s) - blen l) (blen lcp) || Nat.eqb (length cands) 1 = true).
    { destruct Hc as [Hlt|H1]; apply Bool.orb_true_iff; [left; apply Nat.ltb_lt; lia|right; apply Nat.eqb_eq; exact H1]. }
    rewrite Hcond. run_c. rewrite Hp, (replace_spec (e_line s) l w r lcp Hb). run_c.
    destruct (c_has_helper cfg); run_c; eexists; (split; [reflexivity|]); cbn; repeat split.
  Qed.

  (* ... and otherwise nothing at all happens in that step *)
  Theorem list_span_keeps s start cands :
    (lcp_all cands = None
     \/ exists lcp, lcp_all cands = Some lcp /\ blen lcp <= pos (e_line s) - start /\ length cands <> 1) ->
    list_span_step U cfg start cands s = EOk tt s.
  Proof.
    intros H. unfold list_span_step. unfold ebind at 1. cbn [eget].
    destruct H as [Hn|[lcp [Hl [Hle Hne]]]]; [rewrite Hn; reflexivity|]. rewrite Hl.
    replace (Nat.ltb (pos (e_line s) - start) (blen lcp)) with false by (symmetry; apply Nat.ltb_ge; exact Hle).
    replace (Nat.eqb (length cands) 1) with false by (symmetry; apply Nat.eqb_neq; exact Hne).
    reflexivity.
  Qed.

  (* after the last candidate: the original text and cursor *)
  Theorem shows_original s start cands backup i :
    length cands <= i -> grow (e_line s) = true -> snd backup <= blen (fst backup) ->
    exists s', show_candidate U start cands backup i s = EOk tt s'
               /\ buf (e_line s') = fst backup /\ pos (e_line s') = snd backup /\ e_hist s' = e_hist s.
  Proof.
    intros Hi Hg Hp. destruct (update_spec (e_line s) (fst backup) (snd backup) Hg Hp) as [ev Hu]. run_c.
    replace (Nat.ltb i (length cands)) with false by (symmetry; apply Nat.ltb_ge; exact Hi).
    run_c. rewrite Hu. run_c. eexists. split; [reflexivity|]. cbn. repeat split.
  Qed.

  Variable rec : nat -> E (option cmd).

  (* Tab again: the next index modulo n+1 (index n = the original text); Shift-Tab: the previous one *)
  Theorem tab_advances s cands backup mark i :
    exists s', circular_branch U cfg rec cands backup mark i CComplete s = rec ((i + 1) mod (length cands + 1)) s'
               /\ e_line s' = e_line s /\ e_changes s' = e_changes s /\ e_hist s' = e_hist s.
  Proof.
    unfold circular_branch. run_c. destruct (c_bell cfg); destruct (Nat.eqb ((i + 1) mod (length cands + 1)) (length cands));
      eexists; (split; [reflexivity|]); repeat split.
  Qed.
  Theorem backtab_goes_back s cands backup mark i :
    exists s', circular_branch U cfg rec cands backup mark i CCompleteBackward s
               = rec (if Nat.eqb i 0 then length cands else (i - 1) mod (length cands + 1)) s'
               /\ e_line s' = e_line s /\ e_changes s' = e_changes s /\ e_hist s' = e_hist s.
  Proof.
    unfold circular_branch. run_c. destruct (c_bell cfg); destruct (Nat.eqb i 0); eexists; (split; [reflexivity|]); repeat split.
  Qed.

  (* Escape / Ctrl-G: the original text and cursor, and the undo stack truncated to the mark taken when the
     completion began (C05_abort_is_noop: that is the changeset from before) *)
  Theorem abort_restores_original s cands backup mark i :
    i < length cands -> grow (e_line s) = true -> snd backup <= blen (fst backup) ->
    exists s', circular_branch U cfg rec cands backup mark i CAbort s = EOk None s'
               /\ buf (e_line s') = fst backup /\ pos (e_line s') = snd backup /\ e_hist s' = e_hist s
               /\ exists c1, e_changes s' = cs_truncate c1 mark.
  Proof.
    intros Hi Hg Hp. destruct (update_spec (e_line s) (fst backup) (snd backup) Hg Hp) as [ev Hu].
    unfold circular_branch. run_c.
    replace (Nat.ltb i (length cands)) with true by (symmetry; apply Nat.ltb_lt; exact Hi).
    run_c. rewrite Hu. run_c.
    destruct (c_has_helper cfg); cbn; eexists; (split; [reflexivity|]); cbn; repeat split; eexists; reflexivity.
  Qed.
  Theorem abort_on_original s cands backup mark i :
    length cands <= i ->
    exists s', circular_branch U cfg rec cands backup mark i CAbort s = EOk None s'
               /\ e_line s' = e_line s /\ e_hist s' = e_hist s /\ e_changes s' = cs_truncate (e_changes s) mark.
  Proof.
    intros Hi. unfold circular_branch. run_c.
    replace (Nat.ltb i (length cands)) with false by (symmetry; apply Nat.ltb_ge; exact Hi).
    run_c. eexists. split; [reflexivity|]. repeat split.
  Qed.

  (* any other key keeps the shown candidate, closes the undo group, and is handed back to be executed *)
  Definition ends_completion (c : cmd) : bool :=
    match c with CComplete | CCompleteBackward | CAbort => false | _ => true end.
  Theorem other_key_accepts s cands backup mark i c :
    ends_completion c = true ->
    exists s', circular_branch U cfg rec cands backup mark i c s = EOk (Some c) s'
               /\ e_line s' = e_line s /\ e_hist s' = e_hist s /\ e_changes s' = fst (cs_end (e_changes s)).
  Proof.
    intros Hc. unfold circular_branch.
    destruct c; try discriminate; unfold changes_end, set_changes, ebind, eget, eret;
      destruct (cs_end (e_changes s)) as [c2 tt2]; eexists; (split; [reflexivity|]); repeat split.
  Qed.
End Complete.

(* ---------- one Undo after an accepted completion ---------- *)

Section AcceptUndo.
  Variable U : UData.
  Variable seg : str -> list str.

  (* begin; notifications (at least one change recorded); end  -- then Undo 1 gives back the stack from
     before AND (a valid script determines its text) the text from before *)
  Theorem group_then_undo c es (b0 b : lb) :
    cs_level c = 0 -> valid (cs_undos c) (buf b0) ->
    let c2 := cs_notify_all U seg (fst (cs_begin c)) es in
    valid (cs_undos c2) (buf b) ->
    cs_undos c2 <> UBegin :: cs_undos c ->
    exists b' d, cs_undo (fst (cs_end c2)) b 1 = Ok (mkCs 0 (cs_undos c), b', d) /\ buf b' = buf b0.
  Proof.
    intros Hl Hv0 c2 Hv2 Hne.
    assert (Hshape : exists new, c2 = mkCs 1 (new ++ UBegin :: cs_undos c) /\ forallb no_marker new = true).
    { unfold c2, cs_begin. cbn [fst]. rewrite Hl.
      assert (G : forall es new, forallb no_marker new = true ->
                exists new', cs_notify_all U seg (mkCs 1 (new ++ UBegin :: cs_undos c)) es
                             = mkCs 1 (new' ++ UBegin :: cs_undos c) /\ forallb no_marker new' = true).
      { clear. induction es as [|e es IH]; intros new Hn; cbn [cs_notify_all fold_left].
        - exists new. auto.
        - destruct (cs_notify_above U seg c new e 1 Hn) as [new' [-> Hn']]. apply IH. exact Hn'. }
      apply (G es []). reflexivity. }
    destruct Hshape as [new [Hc2 Hnew]].
    destruct new as [|ch new].
    { exfalso. apply Hne. rewrite Hc2. reflexivity. }
    assert (Hend : fst (cs_end c2) = mkCs 0 (UEnd :: (ch :: new) ++ UBegin :: cs_undos c)).
    { rewrite Hc2. unfold cs_end. cbn [cs_level cs_undos cs_end_loop app].
      cbn in Hnew. apply andb_true_iff in Hnew. destruct Hnew as [Hch _].
      destruct ch; try discriminate; reflexivity. }
    rewrite Hend. unfold cs_undo. cbn [cs_undos cs_level].
    assert (Hv : valid (UEnd :: (ch :: new) ++ UBegin :: cs_undos c) (buf b)).
    { cbn [valid]. rewrite Hc2 in Hv2. exact Hv2. }
    destruct (undo_one_group (ch :: new) (cs_undos c) b Hnew Hv) as [b' [d [Hu Hvb]]].
    rewrite Hu. exists b', d. split; [reflexivity|]. eapply valid_unique; eauto.
  Qed.
End AcceptUndo.

(* ---------- list mode: the longest common prefix of the candidates ---------- *)

Definition is_prefix (p s : str) : Prop := exists r, s = p ++ r.

Lemma lcp2_prefix_l a : forall b, is_prefix (lcp2 a b) a.
Proof.
  induction a as [|x a IH]; intros b; cbn [lcp2]; [exists []; reflexivity|].
  destruct b as [|y b]; [exists (x :: a); reflexivity|].
  destruct (x =? y)%N; [|exists (x :: a); reflexivity].
  destruct (IH b) as [r Hr]. exists r. cbn. rewrite <- Hr. reflexivity.
Qed.
Lemma lcp2_prefix_r a : forall b, is_prefix (lcp2 a b) b.
Proof.
  induction a as [|x a IH]; intros b; cbn [lcp2]; [exists b; reflexivity|].
  destruct b as [|y b]; [exists []; reflexivity|].
  destruct (x =? y)%N eqn:E; [|exists (y :: b); reflexivity].
  apply N.eqb_eq in E. subst y. destruct (IH b) as [r Hr]. exists r. cbn. rewrite <- Hr. reflexivity.
Qed.
Lemma lcp2_greatest q : forall a b, is_prefix q a -> is_prefix q b -> is_prefix q (lcp2 a b).
Proof.
  induction q as [|x q IH]; intros a b [ra Ha] [rb Hb]; [eexists; reflexivity|].
  subst a b. cbn [app lcp2]. rewrite N.eqb_refl.
  destruct (IH (q ++ ra) (q ++ rb)) as [r Hr]; [eexists; reflexivity|eexists; reflexivity|].
  exists r. cbn. rewrite <- Hr. reflexivity.
Qed.
Lemma is_prefix_trans p q s : is_prefix p q -> is_prefix q s -> is_prefix p s.
Proof. intros [r1 ->] [r2 ->]. exists (r1 ++ r2). rewrite app_assoc. reflexivity. Qed.

Lemma fold_lcp_prefix rest : forall c, is_prefix (fold_left lcp2 rest c) c
                                        /\ forall x, In x rest -> is_prefix (fold_left lcp2 rest c) x.
Proof.
  induction rest as [|y rest IH]; intros c; cbn [fold_left].
  - split; [exists []; rewrite app_nil_r; reflexivity|intros x []].
  - destruct (IH (lcp2 c y)) as [H1 H2]. split.
    + eapply is_prefix_trans; [exact H1|apply lcp2_prefix_l].
    + intros x [<-|Hx]; [eapply is_prefix_trans; [exact H1|apply lcp2_prefix_r]|apply H2; exact Hx].
Qed.
Lemma fold_lcp_greatest q rest : forall c,
  is_prefix q c -> (forall x, In x rest -> is_prefix q x) -> is_prefix q (fold_left lcp2 rest c).
Proof.
  induction rest as [|y rest IH]; intros c Hc Hr; cbn [fold_left]; [exact Hc|].
  apply IH; [apply lcp2_greatest; [exact Hc|apply Hr; left; reflexivity]|intros x Hx; apply Hr; right; exact Hx].
Qed.

(* the text list mode puts in the span: a prefix of every candidate, and the longest such *)
Theorem lcp_all_spec cands p :
  lcp_all cands = Some p ->
  (forall c, In c cands -> is_prefix p c)
  /\ (forall q, (forall c, In c cands -> is_prefix q c) -> is_prefix q p).
Proof.
  unfold lcp_all. destruct cands as [|c rest]; [discriminate|].
  destruct rest as [|c2 rest].
  - intros H. inversion H; subst. split.
    + intros x [<-|[]]. exists []. rewrite app_nil_r. reflexivity.
    + intros q Hq. apply Hq. left. reflexivity.
  - intros H. destruct (fold_left lcp2 (c2 :: rest) c) as [|x0 p0] eqn:E; [discriminate|]. inversion H; subst p.
    destruct (fold_lcp_prefix (c2 :: rest) c) as [H1 H2]. rewrite E in H1, H2. split.
    + intros x [<-|Hx]; [exact H1|apply H2; exact Hx].
    + intros q Hq. rewrite <- E. apply fold_lcp_greatest; [apply Hq; left; reflexivity|].
      intros x Hx. apply Hq. right. exact Hx.
Qed.
