(* C07: whole walks. Any sequence of Previous / Next steps from the line being typed shows exactly what walking
   an index over the stored list shows, and coming back past the newest entry restores the typed line and its
   cursor exactly. *)
From RL Require Import UData Uax29 LineBuffer LineBufferOps LineBufferProofs LineBufferTotal LineBufferAll
     Undo KillRing History Render Keys Editor EditorRun EditorProofs RecallProofs RecallSpec UndoEditor NoPanic.

Section RecallWalk.
  Variable U : UData.
  Variable cfg : config.

  (* true = Previous (Up / C-p), false = Next (Down / C-n) *)
  Fixpoint walk_m (ks : list bool) : E unit :=
    match ks with
    | [] => eret tt
    | prev :: r => edit_history_next U cfg prev ;;; walk_m r
    end.
  (* the reference: an index into the list, [len] = the line being typed *)
  Definition step_i (len : nat) (prev : bool) (i : nat) : nat :=
    if prev then (if Nat.eqb i 0 then 0 else i - 1) else (if Nat.ltb i len then S i else i).
  Fixpoint walk_i (ks : list bool) (len i : nat) : nat :=
    match ks with [] => i | k :: r => walk_i r len (step_i len k i) end.

  Definition shows (s0 s : est) : Prop :=
    J s /\ e_hist s = e_hist s0 /\ e_hidx s <= hlen s0
    /\ (e_hidx s = hlen s0 -> buf (e_line s) = buf (e_line s0) /\ pos (e_line s) = pos (e_line s0))
    /\ (e_hidx s < hlen s0 ->
        e_saved s = (buf (e_line s0), pos (e_line s0))
        /\ exists entry, nth_error (e_hist s0) (e_hidx s) = Some entry
                         /\ buf (e_line s) = entry /\ pos (e_line s) = blen entry).

  Lemma J_grow s : J s -> grow (e_line s) = true.
  Proof. intros [_ [_ [_ [_ Hg]]]]. exact Hg. Qed.

  Lemma step_shows s0 s prev :
    wf (e_line s0) -> shows s0 s ->
    exists s', edit_history_next U cfg prev s = EOk tt s' /\ shows s0 s' /\ e_hidx s' = step_i (hlen s0) prev (e_hidx s).
  Proof.
    intros Hw0 Hsh. pose proof Hsh as [HJ [Hh [Hle [Hend Hmid]]]].
    pose proof (np_edit_history_next U cfg prev s HJ) as Hnp. unfold npr in Hnp.
    assert (Hlen : hlen s = hlen s0) by (unfold hlen; rewrite Hh; reflexivity).
    destruct (Nat.eqb (hlen s0) 0) eqn:E0.
    { (* empty history: nothing happens *)
      apply Nat.eqb_eq in E0. assert (Hi : e_hidx s = 0) by lia.
      assert (Hr : edit_history_next U cfg prev s = EOk tt s).
      { unfold edit_history_next. unfold ebind at 1. cbn [eget]. unfold hlen_e. fold (hlen s). rewrite Hlen, E0. reflexivity. }
      exists s. split; [exact Hr|]. split; [exact Hsh|].
      unfold step_i. rewrite Hi, E0. destruct prev; reflexivity. }
    apply Nat.eqb_neq in E0. destruct prev.
    - (* Previous *)
      destruct (Nat.eqb (e_hidx s) 0) eqn:Ei.
      + apply Nat.eqb_eq in Ei. rewrite (previous_stops_at_oldest U cfg s ltac:(lia) Ei).
        exists s. split; [reflexivity|]. split; [exact Hsh|]. unfold step_i. rewrite Ei. reflexivity.
      + apply Nat.eqb_neq in Ei.
        destruct (nth_error (e_hist s) (e_hidx s - 1)) as [entry|] eqn:En.
        2:{ apply nth_error_None in En. fold (hlen s) in En. lia. }
        destruct (previous_shows_entry U cfg s entry ltac:(lia) En (J_grow s HJ)) as [s' [Hr [H1 [H2 [H3 [H4 H5]]]]]].
        rewrite Hr in Hnp. exists s'. split; [exact Hr|]. split.
        * split; [exact Hnp|]. split; [congruence|]. split; [lia|]. split; [intros Hx; lia|]. intros _.
          split.
          -- rewrite H5, Hlen. destruct (Nat.eqb (e_hidx s) (hlen s0)) eqn:Ee.
             ++ apply Nat.eqb_eq in Ee. destruct (Hend Ee) as [-> ->]. reflexivity.
             ++ apply Nat.eqb_neq in Ee. apply Hmid. lia.
          -- exists entry. rewrite H3, <- Hh. repeat split; assumption.
        * unfold step_i. rewrite H3. replace (Nat.eqb (e_hidx s) 0) with false by (symmetry; apply Nat.eqb_neq; exact Ei). reflexivity.
    - (* Next *)
      destruct (Nat.ltb (e_hidx s) (hlen s0)) eqn:Ei.
      2:{ apply Nat.ltb_ge in Ei. assert (He : e_hidx s = hlen s) by lia.
          rewrite (next_stops_at_newest U cfg s He). exists s. split; [reflexivity|]. split; [exact Hsh|].
          unfold step_i. replace (Nat.ltb (e_hidx s) (hlen s0)) with false by (symmetry; apply Nat.ltb_ge; lia). reflexivity. }
      apply Nat.ltb_lt in Ei. destruct (Hmid Ei) as [Hsv _].
      destruct (Nat.eqb (S (e_hidx s)) (hlen s0)) eqn:Ee.
      + apply Nat.eqb_eq in Ee.
        assert (Hp : snd (e_saved s) <= blen (fst (e_saved s))) by (rewrite Hsv; cbn; apply bd_le; exact Hw0).
        destruct (next_restores_line U cfg s ltac:(lia) Hp (J_grow s HJ)) as [s' [Hr [H1 [H2 [H3 H4]]]]].
        rewrite Hr in Hnp. exists s'. split; [exact Hr|]. split.
        * split; [exact Hnp|]. split; [congruence|]. split; [lia|]. split; [|intros Hx; lia].
          intros _. rewrite H1, H2, Hsv. split; reflexivity.
        * unfold step_i. replace (Nat.ltb (e_hidx s) (hlen s0)) with true by (symmetry; apply Nat.ltb_lt; exact Ei). lia.
      + apply Nat.eqb_neq in Ee.
        destruct (nth_error (e_hist s) (S (e_hidx s))) as [entry|] eqn:En.
        2:{ apply nth_error_None in En. fold (hlen s) in En. lia. }
        destruct (next_shows_entry U cfg s entry ltac:(lia) En (J_grow s HJ)) as [s' [Hr [H1 [H2 [H3 [H4 H5]]]]]].
        rewrite Hr in Hnp. exists s'. split; [exact Hr|]. split.
        * split; [exact Hnp|]. split; [congruence|]. split; [lia|]. split; [intros Hx; lia|]. intros _.
          split; [rewrite H5; exact Hsv|]. exists entry. rewrite H3, <- Hh. repeat split; assumption.
        * unfold step_i. rewrite H3. replace (Nat.ltb (e_hidx s) (hlen s0)) with true by (symmetry; apply Nat.ltb_lt; exact Ei). reflexivity.
  Qed.

  Lemma walk_shows s0 : wf (e_line s0) -> forall ks s,
    shows s0 s ->
    exists s', walk_m ks s = EOk tt s' /\ shows s0 s' /\ e_hidx s' = walk_i ks (hlen s0) (e_hidx s).
  Proof.
    intros Hw0. induction ks as [|k ks IH]; intros s Hs; cbn [walk_m walk_i].
    - exists s. split; [reflexivity|]. split; [exact Hs|reflexivity].
    - destruct (step_shows s0 s k Hw0 Hs) as [s1 [H1 [Hs1 Hi1]]].
      destruct (IH s1 Hs1) as [s' [H2 [Hs' Hi']]]. exists s'. unfold ebind. rewrite H1. split; [exact H2|].
      split; [exact Hs'|]. rewrite Hi', Hi1. reflexivity.
  Qed.

  (* THE WALK THEOREM *)
  Theorem recall_walk s ks :
    J s -> e_hidx s = hlen s ->
    exists s', walk_m ks s = EOk tt s'
      /\ e_hist s' = e_hist s
      /\ let i := walk_i ks (hlen s) (hlen s) in
         e_hidx s' = i
         /\ (i = hlen s -> buf (e_line s') = buf (e_line s) /\ pos (e_line s') = pos (e_line s))
         /\ (i < hlen s -> exists entry, nth_error (e_hist s) i = Some entry
                                         /\ buf (e_line s') = entry /\ pos (e_line s') = blen entry).
  Proof.
    intros HJ Hi. assert (Hs : shows s s).
    { split; [exact HJ|]. split; [reflexivity|]. split; [lia|]. split; [intros _; split; reflexivity|intros Hx; lia]. }
    destruct (walk_shows s ltac:(apply HJ) ks s Hs) as [s' [Hr [[HJ' [Hh [Hle [Hend Hmid]]]] Hi']]].
    exists s'. split; [exact Hr|]. split; [exact Hh|]. cbv zeta. rewrite Hi in Hi'. rewrite <- Hi'.
    split; [reflexivity|]. split; [exact Hend|]. intros Hlt. destruct (Hmid Hlt) as [_ H]. exact H.
  Qed.
End RecallWalk.
