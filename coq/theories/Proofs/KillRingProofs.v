(* C06: the kill ring. *)
From RL Require Import UData LineBuffer LineBufferOps KillRing LineBufferTotal.

Definition kr_ok (k : killring) : Prop :=
  0 < kr_cap k /\ length (kr_slots k) <= kr_cap k
  /\ (kr_slots k = [] -> kr_index k = 0)
  /\ (kr_slots k <> [] -> kr_index k < length (kr_slots k))
  /\ (kr_slots k = [] -> kr_newest k = 0)
  /\ (kr_slots k <> [] -> kr_newest k < length (kr_slots k)).

Lemma kr_new_ok n : 0 < n -> kr_ok (kr_new n).
Proof. intros H. repeat split; cbn; auto; try lia; congruence. Qed.

Lemma list_set_length {A} (l : list A) i x : length (list_set l i x) = length l.
Proof. revert i; induction l as [|a l IH]; intros [|i]; cbn; auto. Qed.

Lemma nth_list_set {A} (l : list A) i x : i < length l -> nth_error (list_set l i x) i = Some x.
Proof.
  revert i; induction l as [|a l IH]; intros i H.
  - cbn in H. lia.
  - destruct i as [|i]; cbn [list_set nth_error]; [reflexivity|]. apply IH. cbn in H. lia.
Qed.

Lemma nth_list_set_other {A} (l : list A) i j x : i <> j -> nth_error (list_set l i x) j = nth_error l j.
Proof.
  revert i j; induction l as [|a l IH]; intros i j H.
  - destruct i, j; reflexivity.
  - destruct i as [|i], j as [|j]; cbn [list_set nth_error]; try reflexivity; try congruence.
    apply IH. congruence.
Qed.

Definition cur_slot (k : killring) : option str := nth_error (kr_slots k) (kr_index k).

(* a kill after anything but a kill starts a new slot holding exactly the killed text *)
Definition new_index (k : killring) : nat :=
  if Nat.eqb (kr_newest k) (kr_cap k - 1) then 0
  else if negb (Nat.eqb (length (kr_slots k)) 0) then S (kr_newest k) else kr_newest k.

Lemma kr_kill_not_kill k text m :
  kr_last k <> KAKill -> 0 < kr_cap k ->
  kr_kill k text m =
  if Nat.eqb (new_index k) (length (kr_slots k)) then
    Ok (mkKr (kr_slots k ++ [text]) (kr_cap k) (new_index k) KAKill (kr_killing k) (new_index k))
  else if Nat.ltb (new_index k) (length (kr_slots k)) then
    Ok (mkKr (list_set (kr_slots k) (new_index k) text) (kr_cap k) (new_index k) KAKill (kr_killing k) (new_index k))
  else Panic.
Proof.
  intros Hl Hc. unfold kr_kill, new_index.
  replace (Nat.eqb (kr_cap k) 0) with false by (symmetry; apply Nat.eqb_neq; lia).
  destruct (kr_last k); try congruence; reflexivity.
Qed.

Lemma new_index_bound k : kr_ok k -> new_index k <= length (kr_slots k) /\ new_index k < kr_cap k.
Proof.
  intros [Hc [Hl [_ [_ [He Hn]]]]]. unfold new_index.
  destruct (Nat.eqb (kr_newest k) (kr_cap k - 1)) eqn:E1; [lia|]. apply Nat.eqb_neq in E1.
  destruct (kr_slots k) as [|s0 sl] eqn:Es.
  - cbn [length negb Nat.eqb]. rewrite (He eq_refl). lia.
  - assert (kr_newest k < length (s0 :: sl)) by (apply Hn; discriminate). cbn [length negb Nat.eqb] in *. lia.
Qed.

Theorem kr_kill_new k text m :
  kr_ok k -> kr_last k <> KAKill ->
  exists k', kr_kill k text m = Ok k' /\ cur_slot k' = Some text /\ kr_last k' = KAKill /\ kr_ok k'
             /\ kr_killing k' = kr_killing k.
Proof.
  intros Hok Hlast. pose proof Hok as [Hc [Hl [He [Hn [He2 Hn2]]]]].
  destruct (new_index_bound k Hok) as [Hb1 Hb2].
  rewrite kr_kill_not_kill by assumption.
  destruct (Nat.eqb (new_index k) (length (kr_slots k))) eqn:E2.
  - apply Nat.eqb_eq in E2. eexists. split; [reflexivity|]. unfold cur_slot. cbn [kr_slots kr_index kr_last kr_cap kr_killing].
    split; [rewrite E2, nth_error_app2, Nat.sub_diag by lia; reflexivity|]. split; [reflexivity|]. split; [|reflexivity].
    unfold kr_ok. cbn [kr_slots kr_index kr_cap kr_newest]. rewrite app_length. cbn [length]. repeat split; try lia;
      intros Hx; destruct (kr_slots k); discriminate.
  - apply Nat.eqb_neq in E2.
    replace (Nat.ltb (new_index k) (length (kr_slots k))) with true by (symmetry; apply Nat.ltb_lt; lia).
    eexists. split; [reflexivity|]. unfold cur_slot. cbn [kr_slots kr_index kr_last kr_cap kr_killing].
    split; [apply nth_list_set; lia|]. split; [reflexivity|]. split; [|reflexivity].
    unfold kr_ok. cbn [kr_slots kr_index kr_cap kr_newest]. rewrite list_set_length. repeat split; try lia;
      intros Hx; apply (f_equal (@length str)) in Hx; rewrite list_set_length in Hx; cbn in Hx; lia.
Qed.

(* consecutive kills accumulate in the same slot: forward kills append, backward kills prepend *)
Theorem kr_kill_more k text m s :
  kr_last k = KAKill -> 0 < kr_cap k -> cur_slot k = Some s ->
  exists k', kr_kill k text m = Ok k'
             /\ cur_slot k' = Some (match m with KAppend => s ++ text | KPrepend => text ++ s end)
             /\ kr_last k' = KAKill /\ kr_index k' = kr_index k /\ kr_cap k' = kr_cap k
             /\ length (kr_slots k') = length (kr_slots k) /\ kr_killing k' = kr_killing k
             /\ (forall j, j <> kr_index k -> nth_error (kr_slots k') j = nth_error (kr_slots k) j).
Proof.
  intros Hl Hc Hs. unfold kr_kill, cur_slot in *. rewrite Hl.
  replace (Nat.eqb (kr_cap k) 0) with false by (symmetry; apply Nat.eqb_neq; lia). rewrite Hs.
  eexists. split; [reflexivity|]. cbn [kr_slots kr_index kr_last kr_cap kr_killing].
  assert (Hi : kr_index k < length (kr_slots k)) by (apply nth_error_Some; rewrite Hs; discriminate).
  repeat split; auto.
  - apply nth_list_set. exact Hi.
  - apply list_set_length.
  - intros j Hj. apply nth_list_set_other. congruence.
Qed.

(* ... in the slot after the MOST RECENT kill -- not after wherever yank-pop has rotated the index to -- and no other
   slot is touched (repair of finding K1: a kill after a yank-pop used to overwrite a recent kill) *)
Theorem kr_kill_new_others k text m k' :
  kr_ok k -> kr_last k <> KAKill -> kr_kill k text m = Ok k' ->
  kr_index k' = new_index k /\ kr_newest k' = new_index k
  /\ forall j, j <> new_index k -> j < length (kr_slots k) -> nth_error (kr_slots k') j = nth_error (kr_slots k) j.
Proof.
  intros Hok Hlast. pose proof Hok as [Hc _]. rewrite kr_kill_not_kill by assumption.
  destruct (Nat.eqb (new_index k) (length (kr_slots k))) eqn:E2.
  - intros H; inversion H; subst k'. cbn [kr_slots kr_index kr_newest]. repeat split.
    intros j _ Hj. rewrite nth_error_app1 by exact Hj. reflexivity.
  - destruct (Nat.ltb (new_index k) (length (kr_slots k))); [|discriminate].
    intros H; inversion H; subst k'. cbn [kr_slots kr_index kr_newest]. repeat split.
    intros j Hj _. apply nth_list_set_other. congruence.
Qed.

Lemma kr_kill_more_newest k text m s k' :
  kr_last k = KAKill -> 0 < kr_cap k -> cur_slot k = Some s -> kr_kill k text m = Ok k' -> kr_newest k' = kr_newest k.
Proof.
  intros Hl Hc Hs. unfold kr_kill, cur_slot in *. rewrite Hl.
  replace (Nat.eqb (kr_cap k) 0) with false by (symmetry; apply Nat.eqb_neq; lia). rewrite Hs.
  intros H. inversion H; subst. reflexivity.
Qed.

(* yank returns the current slot; yank-pop steps to the previous slot, cyclically, and tells
   how many bytes the previous yank inserted *)
Theorem kr_yank_spec k s :
  cur_slot k = Some s ->
  kr_yank k = (mkKr (kr_slots k) (kr_cap k) (kr_index k) (KAYank (blen s)) (kr_killing k) (kr_newest k), Some s).
Proof. intros H. unfold kr_yank, cur_slot in *. rewrite H. reflexivity. Qed.

Theorem kr_yank_pop_spec k size :
  kr_last k = KAYank size -> kr_slots k <> [] -> kr_index k < length (kr_slots k) ->
  let idx := if Nat.eqb (kr_index k) 0 then length (kr_slots k) - 1 else kr_index k - 1 in
  exists s, nth_error (kr_slots k) idx = Some s
            /\ kr_yank_pop k = (mkKr (kr_slots k) (kr_cap k) idx (KAYank (blen s)) (kr_killing k) (kr_newest k), Some (size, s)).
Proof.
  intros Hl Hn Hi idx. unfold kr_yank_pop. rewrite Hl.
  destruct (kr_slots k) as [|s0 sl] eqn:Es; [congruence|]. fold idx.
  assert (Hidx : idx < length (s0 :: sl)).
  { unfold idx. destruct (Nat.eqb (kr_index k) 0); cbn [length] in *; lia. }
  destruct (nth_error (s0 :: sl) idx) as [s|] eqn:E; [|apply nth_error_None in E; lia].
  exists s. split; reflexivity.
Qed.

Theorem kr_yank_pop_not_after_yank k :
  (forall size, kr_last k <> KAYank size) -> kr_yank_pop k = (k, None).
Proof. intros H. unfold kr_yank_pop. destruct (kr_last k); try reflexivity. exfalso. eapply H; reflexivity. Qed.

(* the listener: deletions outside start_killing/stop_killing never reach the ring *)
Definition no_start (e : event) : bool := match e with EStartKill => false | _ => true end.

Theorem kr_ignores_plain_deletes es : forall k,
  kr_killing k = false -> forallb no_start es = true ->
  exists k', kr_notify_all k es = Ok k' /\ kr_slots k' = kr_slots k /\ kr_index k' = kr_index k
             /\ kr_last k' = kr_last k /\ kr_killing k' = false.
Proof.
  induction es as [|e es IH]; intros k Hk Hn.
  - exists k. repeat split; auto.
  - cbn in Hn. apply andb_true_iff in Hn. destruct Hn as [He Hn]. cbn [kr_notify_all].
    destruct e; try discriminate; cbn [kr_notify]; try rewrite Hk; try (apply IH; assumption).
    destruct (IH (mkKr (kr_slots k) (kr_cap k) (kr_index k) (kr_last k) false (kr_newest k)) eq_refl Hn)
      as [k' [H1 [H2 [H3 [H4 H5]]]]].
    exists k'. repeat split; auto.
Qed.

(* a run of kills: [dirs_texts] in command order; the slot ends up holding the backward kills
   in reverse order followed by the forward kills in order, i.e. the original left-to-right
   text around a fixed cursor *)
Fixpoint run_text (ks : list (direction * str)) (acc : str) : str :=
  match ks with
  | [] => acc
  | (DForward, t) :: r => run_text r (acc ++ t)
  | (DBackward, t) :: r => run_text r (t ++ acc)
  end.

Fixpoint kill_events (ks : list (direction * str)) : list event :=
  match ks with
  | [] => []
  | (d, t) :: r => EStartKill :: EDelete 0 t d :: EStopKill :: kill_events r
  end.

Theorem kr_kill_run ks : forall k s,
  kr_last k = KAKill -> 0 < kr_cap k -> cur_slot k = Some s -> kr_killing k = false ->
  exists k', kr_notify_all k (kill_events ks) = Ok k' /\ cur_slot k' = Some (run_text ks s)
             /\ kr_last k' = KAKill /\ kr_index k' = kr_index k /\ kr_killing k' = false.
Proof.
  induction ks as [|[d t] ks IH]; intros k s Hl Hc Hs Hk.
  - exists k. repeat split; auto.
  - cbn [kill_events kr_notify_all kr_notify].
    set (k1 := mkKr (kr_slots k) (kr_cap k) (kr_index k) (kr_last k) true (kr_newest k)).
    cbn [kr_killing]. 
    destruct (kr_kill_more k1 t (match d with DForward => KAppend | DBackward => KPrepend end) s Hl Hc Hs)
      as [k2 [H1 [H2 [H3 [H4 [H5 [H6 [H7 H8]]]]]]]].
    change (kr_killing k1) with true. cbn match. rewrite H1.
    cbn [kr_notify_all kr_notify].
    set (k3 := mkKr (kr_slots k2) (kr_cap k2) (kr_index k2) (kr_last k2) false (kr_newest k2)).
    destruct (IH k3 (match d with DForward => s ++ t | DBackward => t ++ s end)) as [k' [G1 [G2 [G3 [G4 G5]]]]];
      try (unfold k3; cbn; auto; fail).
    + unfold k3; cbn. rewrite H5. exact Hc.
    + unfold k3, cur_slot in *; cbn. destruct d; exact H2.
    + exists k'. split; [exact G1|]. split; [destruct d; exact G2|]. repeat split; auto.
      rewrite G4. unfold k3; cbn. exact H4.
Qed.

(* ---------- a run of kills around a fixed cursor, then one yank: the original text ---------- *)

(* [kills_from ks L R L' R']: starting with L before and R after the cursor, the kills ks (in command
   order) each remove a piece ending at the cursor (backward) or starting at it (forward); L', R' remain *)
Inductive kills_from : list (direction * str) -> str -> str -> str -> str -> Prop :=
| kf_nil L R : kills_from [] L R L R
| kf_fwd t ks L R1 L' R' : kills_from ks L R1 L' R' -> kills_from ((DForward, t) :: ks) L (t ++ R1) L' R'
| kf_bwd t ks L1 R L' R' : kills_from ks L1 R L' R' -> kills_from ((DBackward, t) :: ks) (L1 ++ t) R L' R'.

Theorem kill_run_restores ks L R L' R' :
  kills_from ks L R L' R' -> forall acc, L' ++ run_text ks acc ++ R' = L ++ acc ++ R.
Proof.
  induction 1 as [L R|t ks L R1 L' R' _ IH|t ks L1 R L' R' _ IH]; intros acc; cbn [run_text].
  - reflexivity.
  - rewrite IH. rewrite <- !app_assoc. reflexivity.
  - rewrite IH. rewrite <- !app_assoc. reflexivity.
Qed.

(* ---------- what yank and yank-pop do to the line ---------- *)

Lemma yank_once_spec (b : lb) l r t :
  buf b = l ++ r -> pos b = blen l -> grow b = true -> t <> [] ->
  yank t 1 b = Ok (Some (Nat.eqb (pos b) (lb_len b)),
                   mkLb (l ++ t ++ r) (blen l + blen t) (cap b) (grow b), [EInsertStr (blen l) t]).
Proof.
  intros Hb Hp Hg Ht. destruct t as [|c t]; [congruence|].
  unfold yank. unfold bind at 1. cbn [get]. unfold must_truncate. rewrite Hg. cbn [Nat.eqb]. rewrite Hp.
  cbn [negb andb]. unfold bind. rewrite (LineBufferTotal.insert_str_ok b l r (c :: t) Hb).
  cbn [ret put_pos app]. unfold set_pos', set_buf. cbn [buf pos cap grow]. rewrite Nat.mul_1_r, Hg. reflexivity.
Qed.

(* yank-pop replaces exactly the bytes the previous yank inserted *)
Theorem yank_pop_replaces (b : lb) l old r new :
  buf b = l ++ old ++ r -> pos b = blen l + blen old -> grow b = true -> new <> [] ->
  exists ev p, yank_pop (blen old) new b = Ok (Some p, mkLb (l ++ new ++ r) (blen l + blen new) (cap b) (grow b), ev).
Proof.
  intros Hb Hp Hg Hn. unfold yank_pop. unfold bind at 1. cbn [get]. rewrite Hp.
  replace (Nat.ltb (blen l + blen old) (blen old)) with false by (symmetry; apply Nat.ltb_ge; lia).
  replace (blen l + blen old - blen old) with (blen l) by lia.
  replace (is_boundary (buf b) (blen l)) with true by (unfold is_boundary; rewrite Hb, bsplit_app; reflexivity).
  cbn [negb].
  unfold bind at 1. rewrite (LineBufferTotal.drain_ok b l old r DForward Hb).
  unfold bind at 1. cbn [put_pos].
  set (b1 := set_pos' (set_buf b (l ++ r)) (blen l)).
  assert (H1 : buf b1 = l ++ r) by reflexivity.
  assert (H2 : pos b1 = blen l) by reflexivity.
  assert (H3 : grow b1 = true) by exact Hg.
  rewrite (yank_once_spec b1 l r new H1 H2 H3 Hn). eexists _, _. reflexivity.
Qed.

(* ---------- a kill command, then yank ---------- *)

(* the notifications of one kill command that removed t (C04: one Delete between start/stop) reach
   the ring; the next yank hands back exactly t when this kill started a run ... *)
Theorem kill_then_yank k i t d :
  kr_ok k -> kr_killing k = false -> kr_last k <> KAKill ->
  exists k1 k2, kr_notify_all k [EStartKill; EDelete i t d; EStopKill] = Ok k1
                /\ kr_yank k1 = (k2, Some t) /\ kr_last k2 = KAYank (blen t) /\ kr_killing k1 = false /\ kr_ok k1.
Proof.
  intros Hok Hk Hl. cbn [kr_notify_all kr_notify]. cbn [kr_killing].
  set (k0 := mkKr (kr_slots k) (kr_cap k) (kr_index k) (kr_last k) true (kr_newest k)).
  assert (Hok0 : kr_ok k0) by exact Hok.
  destruct (kr_kill_new k0 t (match d with DForward => KAppend | DBackward => KPrepend end) Hok0 Hl)
    as [k' [H1 [H2 [H3 [H4 H5]]]]].
  rewrite H1. cbn [kr_notify_all kr_notify].
  set (k1 := mkKr (kr_slots k') (kr_cap k') (kr_index k') (kr_last k') false (kr_newest k')).
  assert (Hs : cur_slot k1 = Some t) by exact H2.
  exists k1. eexists. split; [reflexivity|]. split; [apply kr_yank_spec; exact Hs|].
  split; [reflexivity|]. split; [reflexivity|exact H4].
Qed.

(* ... and, after a run of kills, the whole run (kr_kill_run + kill_run_restores): inserting the slot at
   the cursor gives back the text from before the first kill of the run *)
Theorem kill_run_then_yank ks L R L' R' k :
  kills_from ks L R L' R' ->
  kr_last k = KAKill -> 0 < kr_cap k -> cur_slot k = Some [] -> kr_killing k = false ->
  exists k' s, kr_notify_all k (kill_events ks) = Ok k' /\ cur_slot k' = Some s /\ L' ++ s ++ R' = L ++ R.
Proof.
  intros Hk Hl Hc Hs Hkk. destruct (kr_kill_run ks k [] Hl Hc Hs Hkk) as [k' [H1 [H2 _]]].
  exists k', (run_text ks []). split; [exact H1|]. split; [exact H2|].
  rewrite (kill_run_restores ks L R L' R' Hk []). reflexivity.
Qed.
