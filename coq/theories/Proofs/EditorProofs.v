(* Theorems about the interactive read (Model/Editor.v). *)
From RL Require Import UData LineBuffer LineBufferOps LineBufferTotal Undo KillRing Render Keys Editor EditorRun.

Lemma ebind_inv {A B} (m : E A) (f : A -> E B) s b s2 :
  ebind m f s = EOk b s2 -> exists a s1, m s = EOk a s1 /\ f a s1 = EOk b s2.
Proof.
  unfold ebind. destruct (m s) as [a s1|e s1| |] eqn:E; try discriminate. intros H. exists a, s1. auto.
Qed.

(* ---------- what rendering and bookkeeping never touch: the text and the cursor ---------- *)

Definition keeps_line {A} (m : E A) : Prop := forall s a s', m s = EOk a s' -> e_line s' = e_line s.

Lemma kl_ret {A} (a : A) : keeps_line (eret a).
Proof. intros s a' s' H. inversion H; reflexivity. Qed.
Lemma kl_get : keeps_line eget.
Proof. intros s a' s' H. inversion H; reflexivity. Qed.
Lemma kl_fail {A} e : keeps_line (@efail A e).
Proof. intros s a' s' H. discriminate. Qed.
Lemma kl_panic {A} : keeps_line (@epanic A).
Proof. intros s a' s' H. discriminate. Qed.
Lemma kl_bind {A B} (m : E A) (f : A -> E B) : keeps_line m -> (forall a, keeps_line (f a)) -> keeps_line (ebind m f).
Proof.
  intros Hm Hf s b s2 H. apply ebind_inv in H. destruct H as [a [s1 [H1 H2]]].
  rewrite (Hf _ _ _ _ H2). eapply Hm; eauto.
Qed.
Lemma kl_write b : keeps_line (write b).
Proof. intros s a' s' H. inversion H; reflexivity. Qed.
Lemma kl_set_layout l : keeps_line (set_layout l).
Proof. intros s a' s' H. inversion H; reflexivity. Qed.
Lemma kl_set_hint h : keeps_line (set_hint h).
Proof. intros s a' s' H. inversion H; reflexivity. Qed.
Lemma kl_set_changes c : keeps_line (set_changes c).
Proof. intros s a' s' H. inversion H; reflexivity. Qed.
Lemma kl_set_kr k : keeps_line (set_kr k).
Proof. intros s a' s' H. inversion H; reflexivity. Qed.
Lemma kl_set_hidx k : keeps_line (set_hidx k).
Proof. intros s a' s' H. inversion H; reflexivity. Qed.
Lemma kl_set_saved k : keeps_line (set_saved k).
Proof. intros s a' s' H. inversion H; reflexivity. Qed.
Lemma kl_observe o : keeps_line (observe o).
Proof. intros s a' s' H. inversion H; reflexivity. Qed.

Ltac kl_auto :=
  repeat (first [ apply kl_ret | apply kl_get | apply kl_fail | apply kl_panic | apply kl_write | apply kl_set_layout
                | apply kl_set_hint | apply kl_set_changes | apply kl_set_kr | apply kl_set_hidx | apply kl_set_saved
                | apply kl_observe | (apply kl_bind; [|intros]) ] ||
          match goal with
          | |- keeps_line (if ?c then _ else _) => destruct c
          | |- keeps_line (match ?x with _ => _ end) => destruct x
          | |- keeps_line (let '(_, _) := ?x in _) => destruct x
          | |- keeps_line (let _ := _ in _) => cbv zeta
          end).

Section EditorFacts.
  Variable U : UData.
  Variable cfg : config.

  Lemma kl_update_hint : keeps_line (update_hint cfg). Proof. unfold update_hint. kl_auto. Qed.
  Lemma kl_refresh p ps d i : keeps_line (refresh U cfg p ps d i). Proof. unfold refresh. kl_auto. Qed.
  Lemma kl_refresh_line : keeps_line (refresh_line U cfg).
  Proof. unfold refresh_line. kl_auto; try apply kl_update_hint; apply kl_refresh. Qed.
  Lemma kl_refresh_line_with_msg m : keeps_line (refresh_line_with_msg U cfg m).
  Proof. unfold refresh_line_with_msg. kl_auto; apply kl_refresh. Qed.
  Lemma kl_changes_begin : keeps_line changes_begin. Proof. unfold changes_begin. kl_auto. Qed.
  Lemma kl_changes_end : keeps_line changes_end. Proof. unfold changes_end. kl_auto. Qed.

  Lemma kl_validate : keeps_line (validate U cfg).
  Proof.
    unfold validate. kl_auto; try apply kl_changes_begin; try apply kl_changes_end;
      try apply kl_refresh_line_with_msg.
  Qed.

  (* the validator is asked about exactly the current text *)
  Lemma validate_result s r s' :
    validate U cfg s = EOk r s' ->
    r = (if c_has_helper cfg then c_validate cfg (buf (e_line s)) else VRValid None) /\ r <> VRError.
  Proof.
    unfold validate. destruct (c_has_helper cfg); [|intros H; inversion H; split; [reflexivity|discriminate]].
    intros H. apply ebind_inv in H. destruct H as [mk [s1 [H1 H2]]].
    pose proof (kl_changes_begin _ _ _ H1) as L1.
    apply ebind_inv in H2. destruct H2 as [s1' [s1'' [H2 H3]]]. inversion H2; subst s1' s1''.
    rewrite L1 in H3.
    destruct (c_validate cfg (buf (e_line s))) eqn:Ev; try discriminate.
    all: apply ebind_inv in H3; destruct H3 as [co [s2 [H3 H4]]];
         apply ebind_inv in H4; destruct H4 as [s2' [s2'' [H4 H5]]];
         apply ebind_inv in H5; destruct H5 as [u [s3 [H5 H6]]]; inversion H6; subst;
         split; [reflexivity|discriminate].
  Qed.

  (* C13: on Enter / C-j / C-m (AcceptOrInsertLine) and on AcceptLine bound by the application,
     the read is submitted only if the validator's verdict on the current text is Valid -- and
     the text submitted is that text *)
  Theorem enter_valid_only s aim s' :
    execute U cfg (CAcceptOrInsertLine aim) s = EOk Submit s' ->
    e_line s' = e_line s
    /\ (c_has_helper cfg = true -> exists msg, c_validate cfg (buf (e_line s)) = VRValid msg).
  Proof.
    unfold execute. intros H.
    apply ebind_inv in H. destruct H as [s0 [s0' [H0 H]]]. inversion H0; subst s0 s0'.
    apply ebind_inv in H. destruct H as [u [s1 [H1 H]]].
    assert (K : keeps_line (if match e_hint s with Some _ => true | None => false end || negb (is_default_prompt s)
                            then refresh_line_with_msg U cfg None else eret tt)).
    { kl_auto; try apply kl_refresh_line_with_msg. }
    pose proof (K _ _ _ H1) as L1.
    apply ebind_inv in H. destruct H as [vr [s2 [H2 H]]].
    pose proof (kl_validate _ _ _ H2) as L2.
    destruct (validate_result _ _ _ H2) as [Hvr _].
    apply ebind_inv in H. destruct H as [s2' [s2'' [H3 H]]]. inversion H3; subst s2' s2''.
    destruct vr as [msg|msg| |].
    - (* Valid *)
      cbn match in H.
      destruct ((is_end_of_input U (e_line s2) || aim)) eqn:Ee; cbn [andb] in H.
      + inversion H; subst. split; [congruence|]. intros Hh. rewrite Hh, L1 in Hvr. eauto.
      + apply ebind_inv in H. destruct H as [u2 [s3 [_ H]]]. inversion H.
    - cbn [andb] in H. apply ebind_inv in H. destruct H as [u2 [s3 [_ H]]]. inversion H.
    - cbn [andb] in H. apply ebind_inv in H. destruct H as [u2 [s3 [_ H]]]. inversion H.
    - cbn [andb] in H. apply ebind_inv in H. destruct H as [u2 [s3 [_ H]]]. inversion H.
  Qed.

  (* a validator error ends the read with that error, never with a line *)
  Theorem validator_error_is_error s aim :
    c_has_helper cfg = true -> c_validate cfg (buf (e_line s)) = VRError ->
    exists s', execute U cfg (CAcceptOrInsertLine aim) s = EErr EValidator s'.
  Proof.
    intros Hh Hv. unfold execute, ebind at 1. cbn [eget].
    assert (Hpre : exists s1, (if match e_hint s with Some _ => true | None => false end || negb (is_default_prompt s)
                               then refresh_line_with_msg U cfg None else eret tt) s = EOk tt s1 /\ e_line s1 = e_line s).
    { destruct (match e_hint s with Some _ => true | None => false end || negb (is_default_prompt s)).
      - unfold refresh_line_with_msg, ebind, set_hint, eget, refresh, write, set_layout. cbn. eexists. split; reflexivity.
      - eexists. split; reflexivity. }
    destruct Hpre as [s1 [Hp L1]]. unfold ebind at 1. rewrite Hp.
    unfold ebind at 1. unfold validate. rewrite Hh. unfold ebind at 1.
    unfold changes_begin, ebind, eget. cbn. rewrite L1, Hv. eexists. reflexivity.
  Qed.
End EditorFacts.

(* ---------- motions never change the text (C01) ---------- *)

Definition keeps_buf {A} (m : E A) : Prop := forall s a s', m s = EOk a s' -> buf (e_line s') = buf (e_line s).

Lemma kb_of_kl {A} (m : E A) : keeps_line m -> keeps_buf m.
Proof. intros H s a s' E. rewrite (H _ _ _ E). reflexivity. Qed.
Lemma kb_bind {A B} (m : E A) (f : A -> E B) : keeps_buf m -> (forall a, keeps_buf (f a)) -> keeps_buf (ebind m f).
Proof.
  intros Hm Hf s b s2 H. apply ebind_inv in H. destruct H as [a [s1 [H1 H2]]].
  rewrite (Hf _ _ _ _ H2). eapply Hm; eauto.
Qed.

Section Motions.
  Variable U : UData.
  Variable cfg : config.
  Let seg := useg U.

  Lemma kb_lb_quiet {A} (m : M A) : LineBufferProofs.pure m -> keeps_buf (lb_quiet m).
  Proof.
    intros Hp s a s' H. unfold lb_quiet in H. apply ebind_inv in H. destruct H as [s0 [s0' [H0 H]]].
    inversion H0; subst s0 s0'. destruct (m (e_line s)) as [[[a' b'] ev]|] eqn:E; [|discriminate].
    apply ebind_inv in H. destruct H as [u [s1 [H1 H2]]]. inversion H1; subst. inversion H2; subst.
    cbn [e_line]. destruct (Hp _ _ _ _ E) as [Hb _]. exact Hb.
  Qed.

  Lemma kl_move_cursor : keeps_line (move_cursor U cfg).
  Proof. unfold move_cursor. kl_auto. Qed.

  Lemma kb_moved (m : M bool) : LineBufferProofs.pure m -> keeps_buf (moved U cfg m).
  Proof.
    intros Hp. unfold moved. apply kb_bind; [apply kb_lb_quiet; exact Hp|].
    intros r. destruct r; apply kb_of_kl; [apply kl_move_cursor|apply kl_ret].
  Qed.

  Ltac pure_op :=
    unfold LineBuffer.move_home, LineBuffer.move_end, LineBuffer.move_backward, LineBuffer.move_forward,
      LineBuffer.move_buffer_start, LineBuffer.move_buffer_end, LineBuffer.move_to_prev_word,
      LineBuffer.move_to_next_word, LineBuffer.move_to, LineBuffer.move_to_line_up, LineBuffer.move_to_line_down;
    repeat (first [ apply LineBufferProofs.pure_ret | apply LineBufferProofs.pure_get | apply LineBufferProofs.pure_put
                  | apply LineBufferProofs.pure_fail | apply LineBufferProofs.pure_lift
                  | (apply LineBufferProofs.pure_bind; [|intros]) ] ||
            match goal with
            | |- LineBufferProofs.pure (if ?c then _ else _) => destruct c
            | |- LineBufferProofs.pure (match ?x with _ => _ end) => destruct x
            | |- LineBufferProofs.pure (let '(_, _) := ?x in _) => destruct x
            | |- LineBufferProofs.pure (let _ := _ in _) => cbv zeta
            end).

  Lemma kb_line_up n : keeps_buf (edit_move_line_up U cfg n).
  Proof.
    unfold edit_move_line_up. apply kb_bind; [apply kb_of_kl, kl_get|]. intros s.
    apply kb_bind; [apply kb_lb_quiet; pure_op|]. intros r.
    destruct r; [apply kb_bind; [apply kb_of_kl, kl_move_cursor|intros; apply kb_of_kl, kl_ret]|apply kb_of_kl, kl_ret].
  Qed.
  Lemma kb_line_down n : keeps_buf (edit_move_line_down U cfg n).
  Proof.
    unfold edit_move_line_down. apply kb_bind; [apply kb_of_kl, kl_get|]. intros s.
    apply kb_bind; [apply kb_lb_quiet; pure_op|]. intros r.
    destruct r; [apply kb_bind; [apply kb_of_kl, kl_move_cursor|intros; apply kb_of_kl, kl_ret]|apply kb_of_kl, kl_ret].
  Qed.

  (* every Move command, whatever the movement, count and state, leaves the text as it was *)
  Theorem motions_preserve_text m s st s' :
    execute U cfg (CMove m) s = EOk st s' -> buf (e_line s') = buf (e_line s).
  Proof.
    revert s st s'. change (keeps_buf (execute U cfg (CMove m))).
    unfold execute. apply kb_bind; [apply kb_of_kl, kl_get|]. intros s0.
    apply kb_bind; [apply kb_of_kl, kl_ret|]. intros _.
    destruct m; try (apply kb_bind; [apply kb_moved; pure_op|intros; apply kb_of_kl, kl_ret]);
      try (apply kb_of_kl, kl_ret).
    - (* ViFirstPrint *)
      apply kb_bind; [apply kb_moved; pure_op|]. intros _.
      apply kb_bind; [apply kb_of_kl, kl_get|]. intros s1.
      apply kb_bind; [|intros; apply kb_of_kl, kl_ret].
      destruct (starts_with_ws U (buf (e_line s1))); [apply kb_moved; pure_op|apply kb_of_kl, kl_ret].
    - apply kb_bind; [apply kb_line_up|intros; apply kb_of_kl, kl_ret].
    - apply kb_bind; [apply kb_line_down|intros; apply kb_of_kl, kl_ret].
  Qed.
End Motions.

(* ---------- a typed character is inserted exactly once at the cursor (C01) ---------- *)

Section SelfInsert.
  Variable U : UData.
  Variable cfg : config.

  Lemma insert_one_spec (b : lb) l r c :
    buf b = l ++ r -> pos b = blen l -> must_truncate b (lb_len b + clen c * 1) = false ->
    insert c 1 b = Ok (Some (Nat.eqb (pos b) (lb_len b)),
                       mkLb (l ++ [c] ++ r) (blen l + clen c * 1) (cap b) (grow b),
                       [EInsertChar (blen l) c]).
  Proof.
    intros Hb Hp Hm. unfold insert, bind, get. rewrite Hm. cbn [Nat.eqb].
    unfold insert_char_at, str_insert. rewrite (wf_bsplit b l r Hb Hp). cbn [put_pos ret app].
    unfold set_pos', set_buf. cbn [buf pos cap grow]. rewrite Hp. reflexivity.
  Qed.

  (* whatever happens to the display afterwards (fast path or full refresh), the text is the
     old text with the character inserted at the cursor, and the cursor is just after it *)
  Theorem self_insert_once s c l r :
    buf (e_line s) = l ++ r -> pos (e_line s) = blen l -> grow (e_line s) = true ->
    exists s', execute U cfg (CSelfInsert 1 c) s = EOk Proceed s'
               /\ buf (e_line s') = l ++ [c] ++ r /\ pos (e_line s') = blen l + clen c.
  Proof.
    intros Hb Hp Hg.
    assert (Hm : must_truncate (e_line s) (lb_len (e_line s) + clen c * 1) = false)
      by (unfold must_truncate; rewrite Hg; reflexivity).
    pose proof (insert_one_spec (e_line s) l r c Hb Hp Hm) as Hi.
    unfold execute, edit_insert, lb_changes.
    unfold ebind at 1. cbn [eget]. unfold ebind at 1. cbn [eret].
    unfold ebind at 1. unfold ebind at 1. unfold ebind at 1. cbn [eget]. rewrite Hi.
    unfold ebind at 1, set_line, upd_line. unfold ebind at 1, set_changes. cbn [eret].
    (* from here on only the display is touched: run it symbolically *)
    match goal with |- context [Nat.eqb (pos (e_line s)) (lb_len (e_line s))] =>
      destruct (Nat.eqb (pos (e_line s)) (lb_len (e_line s))) end.
    - unfold ebind at 1. cbn [eget]. unfold ebind at 1.
      unfold update_hint, ebind at 1. cbn [eget].
      destruct (c_has_helper cfg).
      + unfold set_hint. unfold ebind at 1. cbn [eget].
        match goal with |- context [if ?cond then _ else _] => destruct cond end.
        * unfold ebind, set_layout, write. cbn. rewrite Nat.mul_1_r. eexists. split; [reflexivity|]. split; reflexivity.
        * unfold refresh, ebind, eget, write, set_layout. cbn. rewrite Nat.mul_1_r. eexists. split; [reflexivity|]. split; reflexivity.
      + unfold set_hint. unfold ebind at 1. cbn [eget].
        match goal with |- context [if ?cond then _ else _] => destruct cond end.
        * unfold ebind, set_layout, write. cbn. rewrite Nat.mul_1_r. eexists. split; [reflexivity|]. split; reflexivity.
        * unfold refresh, ebind, eget, write, set_layout. cbn. rewrite Nat.mul_1_r. eexists. split; [reflexivity|]. split; reflexivity.
    - unfold refresh_line, update_hint, refresh, ebind, eget, set_hint, write, set_layout.
      destruct (c_has_helper cfg); cbn; rewrite Nat.mul_1_r; eexists; (split; [reflexivity|]); split; reflexivity.
  Qed.
End SelfInsert.
