(* C15: quoting read back intact. *)
From RL Require Import Utf8 Completion.

Local Open Scope N_scope.

Definition unit_of (esc : N) (brk : N -> bool) (c : N) : list N := if brk c then [esc; c] else [c].

Lemma escape_flat esc brk q s : q <> QSingle -> escape esc brk q s = flat_map (unit_of esc brk) s.
Proof. destruct q; [reflexivity|congruence|reflexivity]. Qed.

(* escaping then unescaping is the identity (the escape char is itself escaped) *)
Theorem unescape_escape esc brk q s :
  brk esc = true -> q <> QSingle -> unescape esc (escape esc brk q s) = s.
Proof.
  intros Hb Hq. rewrite escape_flat by assumption.
  induction s as [|c s IH]; [reflexivity|]. cbn [flat_map]. unfold unit_of at 1.
  destruct (brk c) eqn:Ec.
  - cbn [app unescape]. rewrite N.eqb_refl. rewrite IH. reflexivity.
  - cbn [app unescape]. destruct (c =? esc) eqn:E.
    + apply N.eqb_eq in E. subst. congruence.
    + rewrite IH. reflexivity.
Qed.

Theorem escape_single esc brk s : escape esc brk QSingle s = s.
Proof. reflexivity. Qed.

(* ---------- extract_word walks back over an escaped word ---------- *)

Lemma blen_unit esc brk c : blen (unit_of esc brk c) = ((if brk c then clen esc else 0) + clen c)%nat.
Proof. unfold unit_of. destruct (brk c); cbn [blen]; lia. Qed.

Lemma extract_go_escaped esc brk w : forall tail acc,
  brk esc = true ->
  extract_go esc brk (rev (flat_map (unit_of esc brk) w) ++ tail) None acc
  = extract_go esc brk tail None (acc + blen (flat_map (unit_of esc brk) w)).
Proof.
  induction w as [|c w IH] using rev_ind; intros tail acc Hb.
  - cbn. rewrite Nat.add_0_r. reflexivity.
  - rewrite flat_map_app. cbn [flat_map]. rewrite app_nil_r, rev_app_distr, <- app_assoc, blen_app.
    unfold unit_of at 1. destruct (brk c) eqn:Ec.
    + cbn [rev app extract_go]. rewrite Ec. rewrite N.eqb_refl.
      rewrite IH by assumption. f_equal. unfold unit_of. rewrite Ec. cbn [blen]. lia.
    + cbn [rev app extract_go]. rewrite Ec.
      rewrite IH by assumption. f_equal. unfold unit_of. rewrite Ec. cbn [blen]. lia.
Qed.

(* the text before the word: empty, or ending in a break char that is not itself escaped *)
Definition word_boundary (esc : N) (brk : N -> bool) (p : str) : Prop :=
  p = [] \/ exists p' c0, p = p' ++ [c0] /\ brk c0 = true
                          /\ (p' = [] \/ exists p'' x, p' = p'' ++ [x] /\ x <> esc).

Theorem extract_word_escaped esc brk p w :
  brk esc = true -> word_boundary esc brk p ->
  extract_word esc brk (p ++ flat_map (unit_of esc brk) w) = (blen p, flat_map (unit_of esc brk) w).
Proof.
  intros Hb Hp. unfold extract_word. rewrite rev_app_distr.
  rewrite extract_go_escaped by assumption. cbn [plus].
  set (e := flat_map (unit_of esc brk) w).
  assert (Hn : extract_go esc brk (rev p) None (blen e) = blen e).
  { destruct Hp as [->|[p' [c0 [-> [Hc0 Hp']]]]]; [reflexivity|].
    rewrite rev_app_distr. cbn [rev app extract_go]. rewrite Hc0.
    destruct Hp' as [->|[p'' [x [-> Hx]]]]; [reflexivity|].
    rewrite rev_app_distr. cbn [rev app extract_go].
    destruct (x =? esc) eqn:E; [apply N.eqb_eq in E; contradiction|reflexivity]. }
  rewrite Hn. rewrite blen_app. replace (blen p + blen e - blen e)%nat with (blen p) by lia.
  rewrite bsplit_app. reflexivity.
Qed.

(* ---------- find_unclosed_quote over quoted text ---------- *)

Lemma scan_app a : forall b m i q,
  scan (a ++ b) m i q = scan b (fst (scan a m i q)) (i + blen a) (snd (scan a m i q)).
Proof.
  induction a as [|c a IH]; intros b m i q.
  - cbn. rewrite Nat.add_0_r. reflexivity.
  - cbn [app scan blen]. replace (i + (clen c + blen a))%nat with (i + clen c + blen a)%nat by lia.
    destruct m; repeat (destruct (_ =? _)); apply IH.
Qed.

Lemma scan_escaped_normal brk w : forall i q,
  brk 34 = true -> brk 92 = true -> brk 39 = true ->
  scan (flat_map (unit_of 92 brk) w) MNormal i q = (MNormal, q).
Proof.
  induction w as [|c w IH]; intros i q H34 H92 H39; [reflexivity|].
  cbn [flat_map]. unfold unit_of at 1. destruct (brk c) eqn:Ec.
  - cbn [app scan]. change (92 =? 34) with false. change (92 =? 92) with true. cbn match. apply IH; assumption.
  - cbn [app scan].
    destruct (c =? 34) eqn:E1; [apply N.eqb_eq in E1; subst; congruence|].
    destruct (c =? 92) eqn:E2; [apply N.eqb_eq in E2; subst; congruence|].
    destruct (c =? 39) eqn:E3; [apply N.eqb_eq in E3; subst; congruence|].
    apply IH; assumption.
Qed.

Lemma scan_escaped_double brk w : forall i q,
  brk 34 = true -> brk 92 = true ->
  scan (flat_map (unit_of 92 brk) w) MDouble i q = (MDouble, q).
Proof.
  induction w as [|c w IH]; intros i q H34 H92; [reflexivity|].
  cbn [flat_map]. unfold unit_of at 1. destruct (brk c) eqn:Ec.
  - cbn [app scan]. change (92 =? 34) with false. change (92 =? 92) with true. cbn match. apply IH; assumption.
  - cbn [app scan].
    destruct (c =? 34) eqn:E1; [apply N.eqb_eq in E1; subst; congruence|].
    destruct (c =? 92) eqn:E2; [apply N.eqb_eq in E2; subst; congruence|].
    apply IH; assumption.
Qed.

Lemma scan_single w : forall i q, ~ In 39 w -> scan w MSingle i q = (MSingle, q).
Proof.
  induction w as [|c w IH]; intros i q Hn; [reflexivity|]. cbn [scan].
  destruct (c =? 39) eqn:E; [apply N.eqb_eq in E; subst; exfalso; apply Hn; left; reflexivity|].
  apply IH. intros H; apply Hn; right; exact H.
Qed.

Definition ends_normal (p : str) : Prop := fst (scan p MNormal 0 0) = MNormal.

(* ---------- complete_path re-reads its own replacements ---------- *)

Section Reparse.
  Hypothesis esc_is_bs : escape_char = 92.
  Hypothesis dq_esc_is_bs : double_quotes_escape_char = 92.
  Hypothesis brk_esc : is_break 92 = true.
  Hypothesis brk_dq : is_break 34 = true.
  Hypothesis brk_sq : is_break 39 = true.
  Hypothesis dq_dq : is_dq_special 34 = true.
  Hypothesis dq_bs : is_dq_special 92 = true.

  Theorem reparse_bare root p path :
    ends_normal p -> word_boundary 92 is_break p ->
    complete_path root (p ++ escape escape_char is_break QNone path)
    = (blen p, filename_complete root path (Some escape_char) is_break QNone).
  Proof.
    intros Hn Hw. unfold complete_path, find_unclosed_quote.
    rewrite esc_is_bs, escape_flat by discriminate.
    rewrite scan_app. unfold ends_normal in Hn. rewrite Hn.
    rewrite scan_escaped_normal by assumption.
    rewrite extract_word_escaped by assumption.
    rewrite <- (escape_flat 92 is_break QNone) by discriminate.
    rewrite unescape_escape; [reflexivity|assumption|discriminate].
  Qed.

  Theorem reparse_double root p path :
    ends_normal p ->
    complete_path root (p ++ [34] ++ escape double_quotes_escape_char is_dq_special QDouble path)
    = (blen p + 1, filename_complete root path (Some double_quotes_escape_char) is_dq_special QDouble)%nat.
  Proof.
    intros Hn. unfold complete_path, find_unclosed_quote.
    rewrite dq_esc_is_bs, escape_flat by discriminate.
    rewrite scan_app. unfold ends_normal in Hn. rewrite Hn. cbn [app scan].
    change (34 =? 34) with true. cbn match.
    rewrite scan_escaped_double by assumption.
    replace (p ++ 34 :: flat_map (unit_of 92 is_dq_special) path)
      with ((p ++ [34]) ++ flat_map (unit_of 92 is_dq_special) path) by (rewrite <- app_assoc; reflexivity).
    replace (0 + blen p + 1)%nat with (blen (p ++ [34])) by (rewrite blen_app; cbn [blen]; change (clen 34) with 1%nat; lia).
    rewrite bsplit_app.
    rewrite <- (escape_flat 92 is_dq_special QDouble) by discriminate.
    rewrite unescape_escape; [|assumption|discriminate].
    rewrite blen_app. cbn [blen]. change (clen 34) with 1%nat. rewrite Nat.add_0_r. reflexivity.
  Qed.

  Theorem reparse_single root p path :
    ends_normal p -> ~ In 39 path ->
    complete_path root (p ++ [39] ++ path)
    = (blen p + 1, filename_complete root path None is_break QSingle)%nat.
  Proof.
    intros Hn Hq. unfold complete_path, find_unclosed_quote.
    rewrite scan_app. unfold ends_normal in Hn. rewrite Hn. cbn [app scan].
    change (39 =? 34) with false. change (39 =? 92) with false. change (39 =? 39) with true. cbn match.
    rewrite scan_single by assumption.
    replace (p ++ 39 :: path) with ((p ++ [39]) ++ path) by (rewrite <- app_assoc; reflexivity).
    replace (0 + blen p + 1)%nat with (blen (p ++ [39])) by (rewrite blen_app; cbn [blen]; change (clen 39) with 1%nat; lia).
    rewrite bsplit_app. rewrite blen_app. cbn [blen]. change (clen 39) with 1%nat. rewrite Nat.add_0_r. reflexivity.
  Qed.
End Reparse.

(* ---------- candidates: exactly the entries starting with the partial name ---------- *)

Lemma rsplit_sep_nosep d f :
  ~ In sep f -> (d = [] \/ exists d', d = d' ++ [sep]) -> rsplit_sep (d ++ f) = (d, f).
Proof.
  intros Hf Hd.
  assert (Hf' : rsplit_sep f = ([], f)).
  { clear Hd. induction f as [|c f IH]; [reflexivity|]. cbn [rsplit_sep].
    rewrite IH by (intros H; apply Hf; right; exact H).
    destruct (c =? sep) eqn:E; [apply N.eqb_eq in E; subst; exfalso; apply Hf; left; reflexivity|reflexivity]. }
  destruct Hd as [->|[d' ->]]; [exact Hf'|].
  rewrite <- app_assoc. cbn [app].
  assert (Hs : rsplit_sep (sep :: f) = ([sep], f)).
  { cbn [rsplit_sep]. rewrite Hf'. rewrite N.eqb_refl. reflexivity. }
  induction d' as [|c d' IH]; [exact Hs|]. cbn [app rsplit_sep]. rewrite IH.
  destruct (d' ++ [sep]) eqn:E; [destruct d'; discriminate|reflexivity].
Qed.

Theorem candidates_exact root d f ents esc brk q :
  ~ In sep f -> (d = [] \/ exists d', d = d' ++ [sep]) -> lookup_dir root d = Some ents ->
  map fst (filename_complete root (d ++ f) esc brk q)
  = map fst (filter (fun e : str * bool => prefix_b f (fst e)) ents).
Proof.
  intros Hf Hd Hl. unfold filename_complete. rewrite rsplit_sep_nosep by assumption. rewrite Hl. clear Hl.
  induction ents as [|[name isdir] ents IH]; [reflexivity|]. cbn [flat_map filter fst].
  destruct (prefix_b f name); cbn [app map fst]; rewrite IH; reflexivity.
Qed.

(* a file candidate, once its path is read back, is offered again *)
Theorem candidate_again root d name ents esc brk q :
  ~ In sep name -> (d = [] \/ exists d', d = d' ++ [sep]) -> lookup_dir root d = Some ents ->
  In (name, false) ents ->
  In name (map fst (filename_complete root (d ++ name) esc brk q)).
Proof.
  intros Hn Hd Hl Hin. rewrite (candidates_exact root d name ents) by assumption.
  apply in_map_iff. exists (name, false). split; [reflexivity|].
  apply filter_In. split; [exact Hin|]. cbn [fst]. apply prefix_b_spec. exists []. rewrite app_nil_r. reflexivity.
Qed.
