(* C02 (partial chain, continued): the FAST PATH of self-insert. When a character of width 1 is appended at the end of the
   line, no hint is or was shown, and the cursor column + 1 stays inside the window, rustyline writes just that character and
   adds 1 to the columns of the layout's cursor and end (src/edit.rs edit_insert; Model/Editor.v edit_insert). On a screen that
   shows exactly prompt + line with the cursor at its end (what a full redraw leaves: C02_refresh_ok_partial), the result
   shows exactly prompt + line + the character, the cursor after it, no wrap pending, and the updated layout's bookkeeping is
   right again -- so fast-path steps and full redraws can follow one another in any order. *)
From Coq Require Import List Bool Arith NArith Lia.
From RL Require Import UData Render Vt VtProofs VtRefresh.
Import ListNotations.

Section FastPath.
  Variable W : nat.
  Hypothesis HW : 1 <= W.

  (* the layout after the fast path: both columns one further *)
  Definition fast_layout (lay : layout) : layout :=
    mkLay (l_prompt_size lay) (l_default_prompt lay)
          (mkP (p_col (l_cursor lay) + 1) (p_row (l_cursor lay)))
          (mkP (p_col (l_end lay) + 1) (p_row (l_end lay))).

  Theorem fast_append_ok (shown_text : str) (ch : N) (lay : layout) (v : vt) :
    (forall r c, v_cells v r c = shown W shown_text r c) ->
    cursor_cell v = next_cell (print W shown_text vt0) ->
    v_pending v = false ->
    tracks lay v ->
    v_col v + 1 < W ->                       (* layout.cursor.col + width < columns *)
    let v' := run W [OPrint [ch]] v in
    (forall r c, v_cells v' r c = shown W (shown_text ++ [ch]) r c)
    /\ cursor_cell v' = next_cell (print W (shown_text ++ [ch]) vt0)
    /\ v_pending v' = false
    /\ tracks (fast_layout lay) v'.
  Proof.
    intros Hcells Hcur Hpend [Hrow [Hle Hblank]] Hcol v'.
    set (pv := print W shown_text vt0).
    assert (Hsame : same v (nstate pv)).
    { unfold same, nstate. unfold cursor_cell, next_cell in Hcur. fold pv in Hcur.
      destruct (v_pending pv) eqn:Ep; cbn [v_row v_col v_pending v_cells]; inversion Hcur as [[Hr Hc]];
        repeat split; try assumption; try (rewrite Hpend; symmetry; assumption); intros r c; apply Hcells. }
    assert (Hv' : v' = put1 W ch v) by reflexivity.
    pose proof (put1_same W ch v (nstate pv) Hsame) as Hs'.
    rewrite put1_nstate in Hs'. fold pv in Hs'.
    assert (Hlast : put1 W ch pv = print W (shown_text ++ [ch]) vt0) by (unfold pv; rewrite print_last; reflexivity).
    rewrite Hlast in Hs'. rewrite <- Hv' in Hs'.
    destruct Hs' as [Sr [Sc [Sp Scells]]].
    (* what put1 does to v: pending is off, the column is inside the window *)
    assert (Hput : v' = mkVt (v_row v) (S (v_col v)) false (upd (v_cells v) (v_row v) (v_col v) (Some ch))).
    { rewrite Hv'. unfold put1. rewrite Hpend.
      replace (Nat.eqb (S (v_col v)) W) with false by (symmetry; apply Nat.eqb_neq; lia). reflexivity. }
    assert (Hp' : v_pending v' = false) by (rewrite Hput; reflexivity).
    split; [intros r c; rewrite Scells; reflexivity|].
    split.
    { unfold cursor_cell, next_cell. rewrite <- Sp, Hp', Sr, Sc. reflexivity. }
    split; [exact Hp'|].
    unfold tracks, fast_layout. cbn [l_cursor l_end p_row]. rewrite Hput. cbn [v_row].
    split; [exact Hrow|]. split; [exact Hle|].
    intros r c Hr. cbn [v_cells]. unfold upd.
    replace (Nat.eqb (v_row v) r) with false by (symmetry; apply Nat.eqb_neq; lia). cbn [andb]. apply Hblank. exact Hr.
  Qed.
End FastPath.
