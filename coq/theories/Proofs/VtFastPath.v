(* C02 (partial chain, continued): the FAST PATH of self-insert. When a character of width 1 is appended at the end of the
   line, no hint is or was shown, and the cursor column + 1 stays inside the window, rustyline writes just that character and
   adds 1 to the columns of the layout's cursor and end (src/edit.rs edit_insert; Model/Editor.v edit_insert). On a screen that
   shows exactly prompt + line with the cursor at its end (what a full redraw leaves: C02_refresh_ok_partial), the result
   shows exactly prompt + line + the character, the cursor after it, no wrap pending, and the updated layout's bookkeeping is
   right again -- so fast-path steps and full redraws can follow one another in any order. *)
From Coq Require Import List Bool Arith NArith Lia.
From RL Require Import UData Render Vt VtProofs VtRefresh.
Import ListNotations.

Section FastPath.
  Variable W : nat.
  Hypothesis HW : 1 <= W.

  (* the layout after the fast path: both columns one further *)
  Definition fast_layout (lay : layout) : layout :=
    mkLay (l_prompt_size lay) (l_default_prompt lay)
          (mkP (p_col (l_cursor lay) + 1) (p_row (l_cursor lay)))
          (mkP (p_col (l_end lay) + 1) (p_row (l_end lay))).

  Theorem fast_append_ok (shown_text : str) (ch : N) (lay : layout) (v : vt) :
    (forall r c, v_cells v r c = shown W shown_text r c) ->
    cursor_cell v = next_cell (print W shown_text vt0) ->
    v_pending v = false ->
    tracks lay v ->
    v_col v + 1 < W ->                       (* layout.cursor.col + width < columns *)
    let v' := run W [OPrint [ch]] v in
    (forall r c, v_cells v' r c = shown W (shown_text ++ [ch]) r c)
    /\ cursor_cell v' = next_cell (print W (shown_text ++ [ch]) vt0)
    /\ v_pending v' = false
    /\ tracks (fast_layout lay) v'.
  Proof.
    intros Hcells Hcur Hpend [Hrow [Hle Hblank]] Hcol v'.
    set (pv := print W shown_text vt0).
    assert (Hsame : same v (nstate pv)).
    { unfold same, nstate. unfold cursor_cell, next_cell in Hcur. fold pv in Hcur.
      destruct (v_pending pv) eqn:Ep; cbn [v_row v_col v_pending v_cells]; inversion Hcur as [[Hr Hc]];
        repeat split; try assumption; try (rewrite Hpend; symmetry; assumption); intros r c; apply Hcells. }
    assert (Hv' : v' = put1 W ch v) by reflexivity.
    pose proof (put1_same W ch v (nstate pv) Hsame) as Hs'.
    rewrite put1_nstate in Hs'. fold pv in Hs'.
    assert (Hlast : put1 W ch pv = print W (shown_text ++ [ch]) vt0) by (unfold pv; rewrite print_last; reflexivity).
    rewrite Hlast in Hs'. rewrite <- Hv' in Hs'.
    destruct Hs' as [Sr [Sc [Sp Scells]]].
    (* what put1 does to v: pending is off, the column is inside the window *)
    assert (Hput : v' = mkVt (v_row v) (S (v_col v)) false (upd (v_cells v) (v_row v) (v_col v) (Some ch))).
    { rewrite Hv'. unfold put1. rewrite Hpend.
      replace (Nat.eqb (S (v_col v)) W) with false by (symmetry; apply Nat.eqb_neq; lia). reflexivity. }
    assert (Hp' : v_pending v' = false) by (rewrite Hput; reflexivity).
    split; [intros r c; rewrite Scells; reflexivity|].
    split.
    { unfold cursor_cell, next_cell. rewrite <- Sp, Hp', Sr, Sc. reflexivity. }
    split; [exact Hp'|].
    unfold tracks, fast_layout. cbn [l_cursor l_end p_row]. rewrite Hput. cbn [v_row].
    split; [exact Hrow|]. split; [exact Hle|].
    intros r c Hr. cbn [v_cells]. unfold upd.
    replace (Nat.eqb (v_row v) r) with false by (symmetry; apply Nat.eqb_neq; lia). cbn [andb]. apply Hblank. exact Hr.
  Qed.
End FastPath.

(* ---------- the OTHER fast path: a cursor motion without redraw (State::move_cursor -> Renderer::move_cursor) ---------- *)
(* When only the cursor moves (no hint, no highlighter) rustyline writes the relative motion from the old cursor cell to the new
   one. The bytes are the standard encoding of at most two terminal operations; on a terminal whose cursor is on the old
   cell, they put the cursor on the new cell and change nothing on the screen. *)
Definition move_ops (old new : pos2) : list op :=
  (if Nat.ltb (p_row old) (p_row new) then [if Nat.eqb (p_row new - p_row old) 1 then ODown1 else ODown (p_row new - p_row old)]
   else if Nat.ltb (p_row new) (p_row old) then [if Nat.eqb (p_row old - p_row new) 1 then OUp1 else OUp (p_row old - p_row new)]
   else [])
  ++ (if Nat.ltb (p_col old) (p_col new) then [if Nat.eqb (p_col new - p_col old) 1 then ORight1 else ORight (p_col new - p_col old)]
      else if Nat.ltb (p_col new) (p_col old) then [if Nat.eqb (p_col old - p_col new) 1 then OLeft1 else OLeft (p_col old - p_col new)]
      else []).

Theorem move_bytes_encode old new : move_cursor_bytes old new = encode_all (move_ops old new).
Proof.
  unfold move_cursor_bytes, move_ops, move_one_or_n. rewrite encode_all_app.
  f_equal.
  - destruct (Nat.ltb (p_row old) (p_row new)); [destruct (Nat.eqb (p_row new - p_row old) 1); cbn; rewrite ?app_nil_r; reflexivity|].
    destruct (Nat.ltb (p_row new) (p_row old)); [destruct (Nat.eqb (p_row old - p_row new) 1); cbn; rewrite ?app_nil_r; reflexivity|reflexivity].
  - destruct (Nat.ltb (p_col old) (p_col new)); [destruct (Nat.eqb (p_col new - p_col old) 1); cbn; rewrite ?app_nil_r; reflexivity|].
    destruct (Nat.ltb (p_col new) (p_col old)); [destruct (Nat.eqb (p_col old - p_col new) 1); cbn; rewrite ?app_nil_r; reflexivity|reflexivity].
Qed.

Section MoveCursor.
  Variable W : nat.
  Hypothesis HW : 1 <= W.

  Definition vops (r0 r1 : nat) : list op :=
    if Nat.ltb r0 r1 then [if Nat.eqb (r1 - r0) 1 then ODown1 else ODown (r1 - r0)]
    else if Nat.ltb r1 r0 then [if Nat.eqb (r0 - r1) 1 then OUp1 else OUp (r0 - r1)] else [].
  Definition hops (c0 c1 : nat) : list op :=
    if Nat.ltb c0 c1 then [if Nat.eqb (c1 - c0) 1 then ORight1 else ORight (c1 - c0)]
    else if Nat.ltb c1 c0 then [if Nat.eqb (c0 - c1) 1 then OLeft1 else OLeft (c0 - c1)] else [].

  Lemma move_ops_split old new : move_ops old new = vops (p_row old) (p_row new) ++ hops (p_col old) (p_col new).
  Proof. reflexivity. Qed.

  Lemma vmove v r0 r1 :
    v_row v = r0 ->
    let v' := run W (vops r0 r1) v in
    v_row v' = r1 /\ v_col v' = v_col v /\ v_cells v' = v_cells v
    /\ v_pending v' = (if Nat.eqb r0 r1 then v_pending v else false).
  Proof.
    intros Hr. unfold vops.
    destruct (Nat.ltb r0 r1) eqn:E1; [apply Nat.ltb_lt in E1|apply Nat.ltb_ge in E1].
    - replace (Nat.eqb r0 r1) with false by (symmetry; apply Nat.eqb_neq; lia).
      destruct (Nat.eqb (r1 - r0) 1) eqn:D; cbn [run fold_left run1 down v_row v_col v_cells v_pending];
        try apply Nat.eqb_eq in D; repeat split; lia.
    - destruct (Nat.ltb r1 r0) eqn:E2; [apply Nat.ltb_lt in E2|apply Nat.ltb_ge in E2].
      + replace (Nat.eqb r0 r1) with false by (symmetry; apply Nat.eqb_neq; lia).
        destruct (Nat.eqb (r0 - r1) 1) eqn:D; cbn [run fold_left run1 up v_row v_col v_cells v_pending];
          try apply Nat.eqb_eq in D; repeat split; lia.
      + replace (Nat.eqb r0 r1) with true by (symmetry; apply Nat.eqb_eq; lia).
        cbn [run fold_left]. repeat split; lia.
  Qed.

  Lemma hmove v c0 c1 :
    v_col v = c0 -> c1 < W ->
    let v' := run W (hops c0 c1) v in
    v_row v' = v_row v /\ v_col v' = c1 /\ v_cells v' = v_cells v
    /\ v_pending v' = (if Nat.eqb c0 c1 then v_pending v else false).
  Proof.
    intros Hc Hlt. unfold hops.
    destruct (Nat.ltb c0 c1) eqn:E1; [apply Nat.ltb_lt in E1|apply Nat.ltb_ge in E1].
    - replace (Nat.eqb c0 c1) with false by (symmetry; apply Nat.eqb_neq; lia).
      destruct (Nat.eqb (c1 - c0) 1) eqn:D; cbn [run fold_left run1 right v_row v_col v_cells v_pending];
        try apply Nat.eqb_eq in D; repeat split; lia.
    - destruct (Nat.ltb c1 c0) eqn:E2; [apply Nat.ltb_lt in E2|apply Nat.ltb_ge in E2].
      + replace (Nat.eqb c0 c1) with false by (symmetry; apply Nat.eqb_neq; lia).
        destruct (Nat.eqb (c0 - c1) 1) eqn:D; cbn [run fold_left run1 left v_row v_col v_cells v_pending];
          try apply Nat.eqb_eq in D; repeat split; lia.
      + replace (Nat.eqb c0 c1) with true by (symmetry; apply Nat.eqb_eq; lia).
        cbn [run fold_left]. repeat split; lia.
  Qed.

  Theorem move_cursor_ok (old new : pos2) (v : vt) :
    cursor_cell v = (p_row old, p_col old) ->
    p_col new < W ->
    let v' := run W (move_ops old new) v in
    cursor_cell v' = (p_row new, p_col new)
    /\ (forall r c, v_cells v' r c = v_cells v r c)
    /\ (pos2_eqb old new = false -> v_pending v' = false)
    /\ (pos2_eqb old new = true -> v' = v).
  Proof.
    intros Hc Hn. unfold cursor_cell in Hc. inversion Hc as [[Hr Hcol]]. clear Hc.
    intros v'. unfold v'. rewrite move_ops_split.
    assert (Happ : forall a b x, run W (a ++ b) x = run W b (run W a x)) by (intros; unfold run; apply fold_left_app).
    rewrite Happ.
    destruct (vmove v (p_row old) (p_row new) Hr) as [A1 [A2 [A3 A4]]].
    set (v1 := run W (vops (p_row old) (p_row new)) v) in *.
    assert (Hc1 : v_col v1 = p_col old) by (rewrite A2; exact Hcol).
    destruct (hmove v1 (p_col old) (p_col new) Hc1 Hn) as [B1 [B2 [B3 B4]]].
    set (v2 := run W (hops (p_col old) (p_col new)) v1) in *.
    split; [unfold cursor_cell; rewrite B1, B2, A1; reflexivity|].
    split; [intros r c; rewrite B3, A3; reflexivity|].
    unfold pos2_eqb. split.
    - intros Hne. rewrite B4. destruct (Nat.eqb (p_col old) (p_col new)); [|reflexivity].
      cbn [andb] in Hne. rewrite A4, Hne. reflexivity.
    - intros Heq. apply andb_prop in Heq. destruct Heq as [E1 E2].
      rewrite E1 in B4. rewrite E2 in A4.
      destruct v as [r0 c0 p0 cells0], v2 as [r2 c2 p2 cells2] eqn:Ev2. cbn [v_row v_col v_pending v_cells] in *.
      apply Nat.eqb_eq in E1. apply Nat.eqb_eq in E2.
      f_equal; try congruence; try lia.
  Qed.
End MoveCursor.
