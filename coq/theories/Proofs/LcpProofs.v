(* completion.rs longest_common_prefix works on BYTES (adjacent candidates compared byte by
   byte, then backed off to a character boundary of the first candidate); lib.rs list-mode
   completion is specified on CHARACTERS (Editor.lcp_all: the greatest common prefix as a
   string). This file proves the two equal for all candidate lists of Rust strings, and
   that the slice taken at the end never fails. *)
From Coq Require Import List Arith NArith Lia Bool.
From RL Require Import Utf8 Utf8Proofs Completion Editor CompleteProofs.
Import ListNotations.

(* ---------- the byte loop ---------- *)

Definition cp (n : nat) (b0 : list N) (bs : list (list N)) : Prop :=
  Forall (fun b => firstn n b = firstn n b0 /\ n <= length b) bs.

Lemma aaa_cons2 k b1 b2 t :
  all_adjacent_agree k (b1 :: b2 :: t)
  = match nth_error b1 k, nth_error b2 k with
    | Some x, Some y => (x =? y)%N && all_adjacent_agree k (b2 :: t)
    | _, _ => false
    end.
Proof. reflexivity. Qed.

Lemma aaa_true k : forall bs b0 rest, bs = b0 :: rest -> rest <> [] ->
  all_adjacent_agree k bs = true -> exists x, Forall (fun b => nth_error b k = Some x) bs.
Proof.
  induction bs as [|b1 t IH]; intros b0 rest Hbs Hne H; [discriminate|].
  inversion Hbs; subst b0 rest. destruct t as [|b2 t']; [congruence|].
  rewrite aaa_cons2 in H.
  destruct (nth_error b1 k) as [x|] eqn:E1; [|discriminate].
  destruct (nth_error b2 k) as [y|] eqn:E2; [|discriminate].
  apply andb_true_iff in H. destruct H as [Hxy Hrest]. apply N.eqb_eq in Hxy. subst y.
  destruct t' as [|b3 t''].
  - exists x. repeat constructor; assumption.
  - destruct (IH b2 (b3 :: t'') eq_refl ltac:(discriminate) Hrest) as [x' Hx'].
    assert (x' = x) by (inversion Hx' as [|? ? Hh _]; congruence). subst x'.
    exists x. constructor; assumption.
Qed.

Lemma aaa_of_all k x : forall bs, Forall (fun b => nth_error b k = Some x) bs ->
  all_adjacent_agree k bs = true.
Proof.
  induction bs as [|b1 t IH]; intros H; [reflexivity|].
  destruct t as [|b2 t']; [reflexivity|].
  inversion H as [|? ? H1 Ht]; subst. inversion Ht as [|? ? H2 _]; subst.
  rewrite aaa_cons2, H1, H2, N.eqb_refl. cbn [andb]. apply IH. exact Ht.
Qed.

Lemma firstn_S_nth {A} (b : list A) k x : nth_error b k = Some x ->
  firstn (S k) b = firstn k b ++ [x] /\ S k <= length b.
Proof.
  revert b. induction k as [|k IH]; intros b H; destruct b as [|y b]; try discriminate.
  - cbn in H. inversion H; subst. cbn. split; [reflexivity|lia].
  - cbn [nth_error] in H. destruct (IH b H) as [E L]. split.
    + change (firstn (S (S k)) (y :: b)) with (y :: firstn (S k) b). rewrite E. reflexivity.
    + cbn [length]. lia.
Qed.

Lemma lcp_len_spec : forall fuel k bs b0 rest, bs = b0 :: rest -> rest <> [] ->
  cp k b0 bs -> length b0 < k + fuel ->
  k <= lcp_len fuel k bs /\ cp (lcp_len fuel k bs) b0 bs
  /\ all_adjacent_agree (lcp_len fuel k bs) bs = false.
Proof.
  induction fuel as [|f IH]; intros k bs b0 rest Hbs Hne Hcp Hf.
  - exfalso. subst bs. inversion Hcp as [|? ? [_ Hl] _]; subst. lia.
  - cbn [lcp_len]. destruct (all_adjacent_agree k bs) eqn:A.
    + destruct (aaa_true k bs b0 rest Hbs Hne A) as [x Hx].
      assert (Hcp' : cp (S k) b0 bs).
      { unfold cp in *. rewrite Forall_forall in *. intros b Hb.
        destruct (Hcp b Hb) as [E _].
        destruct (firstn_S_nth b k x (Hx b Hb)) as [E1 L1].
        assert (Hb0 : In b0 bs) by (subst bs; left; reflexivity).
        destruct (firstn_S_nth b0 k x (Hx b0 Hb0)) as [E0 _].
        split; [rewrite E1, E0, E; reflexivity|exact L1]. }
      destruct (IH (S k) bs b0 rest Hbs Hne Hcp' ltac:(lia)) as [H1 [H2 H3]].
      split; [lia|]. split; assumption.
    + split; [lia|]. split; assumption.
Qed.

(* ---------- backing off to a boundary ---------- *)

Lemma is_boundary_0 s : is_boundary s 0 = true.
Proof. unfold is_boundary. destruct s; reflexivity. Qed.

Lemma backoff_spec s : forall n,
  backoff s n <= n /\ is_boundary s (backoff s n) = true
  /\ forall j, j <= n -> is_boundary s j = true -> j <= backoff s n.
Proof.
  induction n as [|m IH]; cbn [backoff].
  - split; [lia|]. split; [apply is_boundary_0|]. intros j Hj _. lia.
  - destruct (is_boundary s (S m)) eqn:B.
    + split; [lia|]. split; [exact B|]. intros j Hj _. exact Hj.
    + destruct IH as [H1 [H2 H3]]. split; [lia|]. split; [exact H2|].
      intros j Hj Hb. destruct (Nat.eq_dec j (S m)) as [->|Hne]; [congruence|].
      apply H3; [lia|exact Hb].
Qed.

(* ---------- from bytes to characters ---------- *)

Lemma prefix_of_same q : forall l r1 r2, q ++ r1 = l ++ r2 -> blen q <= blen l -> is_prefix q l.
Proof.
  induction q as [|x q IH]; intros l r1 r2 H Hl; [exists l; reflexivity|].
  destruct l as [|y l].
  - cbn [blen] in Hl. pose proof (clen_pos x). lia.
  - cbn [app] in H. inversion H; subst y.
    cbn [blen] in Hl. destruct (IH l r1 r2 ltac:(assumption) ltac:(lia)) as [t Ht].
    exists t. cbn [app]. rewrite Ht. reflexivity.
Qed.

Lemma is_prefix_antisym a b : is_prefix a b -> is_prefix b a -> a = b.
Proof.
  intros [r Hr] [r' Hr']. rewrite Hr' in Hr. rewrite <- app_assoc in Hr.
  assert (r' ++ r = []).
  { apply (f_equal (@length N)) in Hr. rewrite !app_length in Hr.
    destruct (r' ++ r) eqn:E; [reflexivity|]. apply (f_equal (@length N)) in E.
    rewrite app_length in E. cbn [length] in E. lia. }
  destruct r'; [|discriminate]. rewrite app_nil_r in Hr'. exact Hr'.
Qed.

Lemma valid_app_l a b : valid_str (a ++ b) = true -> valid_str a = true.
Proof. unfold valid_str. rewrite forallb_app. intros H. apply andb_true_iff in H. tauto. Qed.

Lemma blen_nil_iff l : blen l = 0 <-> l = [].
Proof.
  split; [|intros ->; reflexivity]. destruct l as [|c l]; [reflexivity|].
  cbn [blen]. pose proof (clen_pos c). lia.
Qed.

Section Main.
  Variables (c0 c1 : str) (more : list str).
  Let cands := c0 :: c1 :: more.
  Hypothesis Hvalid : Forall (fun c => valid_str c = true) cands.
  Let bs := map encode cands.
  Let n := lcp_len (S (length (encode c0))) 0 bs.
  Let n' := backoff c0 n.

  Lemma bytes_loop : cp n (encode c0) bs /\ all_adjacent_agree n bs = false.
  Proof.
    assert (H0 : cp 0 (encode c0) bs).
    { unfold cp. apply Forall_forall. intros b _. cbn [firstn]. split; [reflexivity|lia]. }
    destruct (lcp_len_spec (S (length (encode c0))) 0 bs (encode c0) (map encode (c1 :: more))
                eq_refl ltac:(discriminate) H0 ltac:(lia)) as [_ [H1 H2]].
    split; assumption.
  Qed.

  (* the slice &candidate[0..n'] never fails *)
  Lemma slice_ok : exists l r, bsplit c0 n' = Some (l, r).
  Proof.
    destruct (backoff_spec c0 n) as [_ [Hb _]]. fold n' in Hb. unfold is_boundary in Hb.
    destruct (bsplit c0 n') as [[l r]|]; [exists l, r; reflexivity|discriminate].
  Qed.

  Lemma slice_common l r : bsplit c0 n' = Some (l, r) -> forall c, In c cands -> is_prefix l c.
  Proof.
    intros Hs c Hc. destruct (bsplit_some _ _ _ _ Hs) as [E0 Hl].
    destruct bytes_loop as [Hcp _]. unfold cp in Hcp. rewrite Forall_forall in Hcp.
    destruct (Hcp (encode c) (in_map encode _ _ Hc)) as [Ef Hlen].
    destruct (backoff_spec c0 n) as [Hle _]. fold n' in Hle.
    assert (Ef' : firstn n' (encode c) = encode l).
    { assert (firstn n' (firstn n (encode c)) = firstn n' (firstn n (encode c0))) by (rewrite Ef; reflexivity).
      rewrite !firstn_firstn, !(Nat.min_l n' n Hle) in H. rewrite H.
      rewrite E0 at 1. rewrite encode_app. rewrite firstn_app.
      rewrite encode_length, Hl, Nat.sub_diag. cbn [firstn]. rewrite app_nil_r.
      apply firstn_all2. rewrite encode_length. lia. }
    rewrite Forall_forall in Hvalid.
    apply (encode_prefix l c (skipn n' (encode c))).
    - apply (valid_app_l l r). rewrite <- E0. apply Hvalid. left. reflexivity.
    - apply Hvalid. exact Hc.
    - rewrite <- Ef'. apply firstn_skipn.
  Qed.

  Lemma slice_greatest l r q : bsplit c0 n' = Some (l, r) ->
    (forall c, In c cands -> is_prefix q c) -> is_prefix q l.
  Proof.
    intros Hs Hq. destruct (bsplit_some _ _ _ _ Hs) as [E0 Hl].
    destruct (Hq c0 ltac:(left; reflexivity)) as [r0 Hr0].
    assert (Hm : blen q <= n).
    { destruct (Nat.le_gt_cases (blen q) n) as [|Hgt]; [assumption|exfalso].
      destruct bytes_loop as [_ Hno].
      destruct (nth_error (encode q) n) as [x|] eqn:Ex.
      2:{ apply nth_error_None in Ex. rewrite encode_length in Ex. lia. }
      assert (Hall : Forall (fun b => nth_error b n = Some x) bs).
      { apply Forall_forall. intros b Hb. unfold bs in Hb. apply in_map_iff in Hb.
        destruct Hb as [c [<- Hc]]. destruct (Hq c Hc) as [rc ->].
        rewrite encode_app, nth_error_app1; [exact Ex|]. rewrite encode_length. lia. }
      rewrite (aaa_of_all n x bs Hall) in Hno. discriminate. }
    assert (Hb : is_boundary c0 (blen q) = true).
    { unfold is_boundary. rewrite Hr0, bsplit_app. reflexivity. }
    destruct (backoff_spec c0 n) as [_ [_ Hmax]]. fold n' in Hmax.
    pose proof (Hmax (blen q) Hm Hb) as Hqn.
    apply (prefix_of_same q l r0 r); [congruence|lia].
  Qed.

  Theorem lcp_bytes_eq_chars : longest_common_prefix cands = lcp_all cands.
  Proof.
    destruct slice_ok as [l [r Hs]].
    pose proof (slice_common l r Hs) as Hc. pose proof (fun q => slice_greatest l r q Hs) as Hg.
    destruct (bsplit_some _ _ _ _ Hs) as [_ Hl].
    destruct (fold_lcp_prefix (c1 :: more) c0) as [P1 P2].
    set (p0 := fold_left lcp2 (c1 :: more) c0) in *.
    assert (Heq : l = p0).
    { apply is_prefix_antisym.
      - apply fold_lcp_greatest; [apply Hc; left; reflexivity|intros x Hx; apply Hc; right; exact Hx].
      - apply Hg. intros c [<-|Hin]; [exact P1|apply P2; exact Hin]. }
    change (longest_common_prefix cands)
      with (if Nat.eqb n' 0 then None
            else match bsplit c0 n' with Some (l0, _) => Some l0 | None => None end).
    change (lcp_all cands) with (match p0 with [] => None | x :: t => Some (x :: t) end).
    rewrite Hs. destruct (Nat.eqb n' 0) eqn:Z.
    - apply Nat.eqb_eq in Z. rewrite Z in Hl. apply blen_nil_iff in Hl. rewrite <- Heq, Hl. reflexivity.
    - apply Nat.eqb_neq in Z. rewrite <- Heq. destruct l as [|x l']; [cbn [blen] in Hl; lia|reflexivity].
  Qed.
End Main.

(* all candidate lists *)
Theorem longest_common_prefix_is_lcp cands :
  Forall (fun c => valid_str c = true) cands -> longest_common_prefix cands = lcp_all cands.
Proof.
  intros Hv. destruct cands as [|c0 [|c1 more]]; [reflexivity|reflexivity|].
  apply lcp_bytes_eq_chars. exact Hv.
Qed.

(* hence the declarative reading of the byte loop *)
Theorem longest_common_prefix_spec cands p :
  Forall (fun c => valid_str c = true) cands -> longest_common_prefix cands = Some p ->
  (forall c, In c cands -> is_prefix p c)
  /\ (forall q, (forall c, In c cands -> is_prefix q c) -> is_prefix q p).
Proof. intros Hv H. apply lcp_all_spec. rewrite <- longest_common_prefix_is_lcp; assumption. Qed.

Theorem longest_common_prefix_none cands :
  Forall (fun c => valid_str c = true) cands -> longest_common_prefix cands = None ->
  cands = [] \/ forall q, (forall c, In c cands -> is_prefix q c) -> q = [].
Proof.
  intros Hv H. rewrite (longest_common_prefix_is_lcp cands Hv) in H.
  destruct cands as [|c0 [|c1 more]]; [left; reflexivity|discriminate|right].
  unfold lcp_all in H. destruct (fold_left lcp2 (c1 :: more) c0) as [|x p] eqn:E; [|discriminate].
  intros q Hq.
  assert (Hp : is_prefix q []).
  { rewrite <- E. apply fold_lcp_greatest; [apply Hq; left; reflexivity|intros y Hy; apply Hq; right; exact Hy]. }
  destruct Hp as [r Hr]. destruct q; [reflexivity|discriminate].
Qed.
