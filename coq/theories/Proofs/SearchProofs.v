(* C08: what each key does during an incremental search (Editor.isearch_branch), for an arbitrary
   continuation of the loop. *)
From RL Require Import UData LineBuffer LineBufferTotal Undo KillRing Render Keys History HistoryProofs
     Editor EditorRun EditorProofs RecallProofs.

(* what a hit of History.search means (C09), in the vocabulary of this property *)
Definition contains_at (term entry : str) (p : nat) : Prop := exists l r, entry = l ++ term ++ r /\ blen l = p.
Definition matches (term entry : str) : Prop := exists l r, entry = l ++ term ++ r.

Lemma find_sub_none_iff t e : find_sub t e = None -> ~ matches t e.
Proof. intros H [l [r Hm]]. exact (find_sub_none t e H l r Hm). Qed.

Lemma hit_facts (hist : list str) t start d i p e :
  h_search (mkHist hist (length hist) false false) t start d = Some (i, p, e) ->
  t <> [] /\ start < length hist /\ nth_error hist i = Some e /\ contains_at t e p /\ p <= blen e
  /\ match d with
     | Forward => start <= i /\ forall j e', start <= j < i -> nth_error hist j = Some e' -> ~ matches t e'
     | Reverse => i <= start /\ forall j e', i < j <= start -> nth_error hist j = Some e' -> ~ matches t e'
     end.
Proof.
  intros H. unfold h_search in H. apply search_match_some in H. cbn [h_entries hlen] in H.
  destruct H as [Ht [Hs [Hn [Hf Hd]]]]. split; [exact Ht|]. split; [exact Hs|]. split; [exact Hn|].
  destruct (find_sub_some t e p Hf) as [l [r [He [Hl _]]]].
  split; [exists l, r; auto|]. split; [subst e p; rewrite !blen_app; lia|].
  destruct d; destruct Hd as [Hd1 Hd2]; (split; [exact Hd1|]); intros j e' Hj Hn';
    specialize (Hd2 j Hj); unfold test_at in Hd2; cbn [h_entries] in Hd2; rewrite Hn' in Hd2;
    apply find_sub_none_iff; exact Hd2.
Qed.

Section Search.
  Variable U : UData.
  Variable cfg : config.
  Variable rec : str -> nat -> sdir -> bool -> E (option cmd).

  Ltac run_s :=
    unfold lb_changes, refresh_line, update_hint, refresh, set_hint, set_changes, set_line, upd_line,
      set_layout, write, changes_end, cs_end, ebind, eget, eret;
    cbn [e_line e_changes e_kr e_hist e_hidx e_saved e_hint e_layout e_prompt e_prompt_size i_input_mode
         i_num_args i_last_cmd i_last_cs e_inp e_out e_obs cs_level cs_undos fst snd].

  (* the state after the line has been replaced by [entry] with the cursor at [p] (listener: the undo stack) *)
  Definition shows (s s' : est) (entry : str) (p : nat) : Prop :=
    buf (e_line s') = entry /\ pos (e_line s') = p /\ e_hist s' = e_hist s /\ e_hidx s' = e_hidx s
    /\ e_kr s' = e_kr s /\ e_inp s' = e_inp s /\ e_out s' = e_out s /\ grow (e_line s') = true.

  Lemma search_from s term' idx' d' (k : str -> nat -> sdir -> bool -> E (option cmd)) :
    grow (e_line s) = true ->
    match h_search (hist_of s) term' idx' d' with
    | Some (i, p, entry) =>
      exists s', (lb_changes U (update entry p) ;;; k term' i d' true) s = k term' i d' true s' /\ shows s s' entry p
    | None => True
    end.
  Proof.
    intros Hg. destruct (h_search (hist_of s) term' idx' d') as [[[i p] entry]|] eqn:Eh; [|exact I].
    unfold hist_of in Eh. destruct (hit_facts _ _ _ _ _ _ _ Eh) as [_ [_ [_ [_ [Hp _]]]]].
    destruct (update_spec (e_line s) entry p Hg Hp) as [ev Hu].
    run_s. rewrite Hu. run_s. eexists. split; [reflexivity|]. unfold shows. cbn. rewrite Hg. repeat split.
  Qed.

  (* a typed character extends the search text and searches from the CURRENT position, inclusive *)
  Theorem typed_char_hit s backup mark term idx d success n ch i p entry :
    grow (e_line s) = true ->
    h_search (hist_of s) (term ++ [ch]) idx d = Some (i, p, entry) ->
    exists s', isearch_branch U cfg rec backup mark term idx d success (CSelfInsert n ch) s
               = rec (term ++ [ch]) i d true s' /\ shows s s' entry p.
  Proof.
    intros Hg Hh. unfold isearch_branch. unfold ebind at 1. cbn [eget].
    pose proof (search_from s (term ++ [ch]) idx d rec Hg) as H. rewrite Hh in H. rewrite Hh. exact H.
  Qed.
  Theorem typed_char_miss s backup mark term idx d success n ch :
    h_search (hist_of s) (term ++ [ch]) idx d = None ->
    isearch_branch U cfg rec backup mark term idx d success (CSelfInsert n ch) s = rec (term ++ [ch]) idx d false s.
  Proof. intros Hh. unfold isearch_branch. unfold ebind at 1. cbn [eget]. rewrite Hh. reflexivity. Qed.

  (* repeating the search key moves one entry in that direction first; at the end of the history the
     search fails and nothing moves *)
  Theorem again_reverse_hit s backup mark term idx d success i p entry :
    grow (e_line s) = true -> 0 < idx ->
    h_search (hist_of s) term (idx - 1) Reverse = Some (i, p, entry) ->
    exists s', isearch_branch U cfg rec backup mark term idx d success CReverseSearchHistory s
               = rec term i Reverse true s' /\ shows s s' entry p.
  Proof.
    intros Hg Hi Hh. unfold isearch_branch. unfold ebind at 1. cbn [eget].
    replace (Nat.ltb 0 idx) with true by (symmetry; apply Nat.ltb_lt; exact Hi).
    pose proof (search_from s term (idx - 1) Reverse rec Hg) as H. rewrite Hh in H. rewrite Hh. exact H.
  Qed.
  Theorem again_reverse_miss s backup mark term idx d success :
    (idx = 0 \/ h_search (hist_of s) term (idx - 1) Reverse = None) ->
    isearch_branch U cfg rec backup mark term idx d success CReverseSearchHistory s
    = rec term (if Nat.ltb 0 idx then idx - 1 else idx) Reverse false s.
  Proof.
    intros H. unfold isearch_branch. unfold ebind at 1. cbn [eget].
    destruct (Nat.ltb 0 idx) eqn:E; [|reflexivity].
    destruct H as [->|H]; [discriminate|]. rewrite H. reflexivity.
  Qed.
  Theorem again_forward_hit s backup mark term idx d success i p entry :
    grow (e_line s) = true -> idx < hlen_e s - 1 ->
    h_search (hist_of s) term (S idx) Forward = Some (i, p, entry) ->
    exists s', isearch_branch U cfg rec backup mark term idx d success CForwardSearchHistory s
               = rec term i Forward true s' /\ shows s s' entry p.
  Proof.
    intros Hg Hi Hh. unfold isearch_branch. unfold ebind at 1. cbn [eget].
    replace (Nat.ltb idx (hlen_e s - 1)) with true by (symmetry; apply Nat.ltb_lt; exact Hi).
    pose proof (search_from s term (S idx) Forward rec Hg) as H. rewrite Hh in H. rewrite Hh. exact H.
  Qed.

  (* Backspace shortens the search text and does not search again *)
  Theorem backspace_shortens s backup mark term idx d success n :
    isearch_branch U cfg rec backup mark term idx d success (CKill (MBackwardChar n)) s
    = rec (removelast term) idx d success s.
  Proof. reflexivity. Qed.

  (* Ctrl-G: the exact line and cursor from before the search *)
  Theorem abort_restores s backup mark term idx d success :
    grow (e_line s) = true -> snd backup <= blen (fst backup) ->
    exists s', isearch_branch U cfg rec backup mark term idx d success CAbort s = EOk None s'
               /\ buf (e_line s') = fst backup /\ pos (e_line s') = snd backup /\ e_hist s' = e_hist s.
  Proof.
    intros Hg Hp. destruct (update_spec (e_line s) (fst backup) (snd backup) Hg Hp) as [ev Hu].
    unfold isearch_branch. run_s. rewrite Hu. run_s.
    destruct (c_has_helper cfg); cbn; eexists; (split; [reflexivity|]); cbn; repeat split.
  Qed.

  (* any other command ends the search: the shown entry stays as the line, the command is handed back
     to the main loop to be executed as from the top level *)
  Definition ends_search (c : cmd) : bool :=
    match c with
    | CSelfInsert _ _ | CKill (MBackwardChar _) | CReverseSearchHistory | CForwardSearchHistory | CAbort => false
    | _ => true
    end.
  Lemma refresh_line_total s :
    exists s1, refresh_line U cfg s = EOk tt s1 /\ e_line s1 = e_line s /\ e_hist s1 = e_hist s.
  Proof.
    unfold refresh_line, update_hint, refresh, set_hint, set_layout, write, ebind, eget, eret.
    destruct (c_has_helper cfg); eexists; (split; [reflexivity|]); split; reflexivity.
  Qed.
  Lemma end_exit_total (c : cmd) s :
    exists s1, (edo _ <- changes_end; eret (Some c)) s = EOk (Some c) s1 /\ e_line s1 = e_line s /\ e_hist s1 = e_hist s.
  Proof.
    unfold changes_end, cs_end, set_changes, ebind, eget, eret.
    destruct (cs_end_loop (cs_level (e_changes s)) (cs_undos (e_changes s)) false) as [u t].
    eexists. split; [reflexivity|]. split; reflexivity.
  Qed.

  Theorem other_command_exits s backup mark term idx d success c :
    ends_search c = true ->
    exists s', isearch_branch U cfg rec backup mark term idx d success c s = EOk (Some c) s'
               /\ e_line s' = e_line s /\ e_hist s' = e_hist s.
  Proof.
    intros Hc. unfold isearch_branch. unfold ebind at 1. cbn [eget].
    destruct (end_exit_total c s) as [s1 [H1 [L1 K1]]].
    destruct c; try discriminate; try (exists s1; split; [exact H1|split; assumption]).
    - (* CKill: every movement but BackwardChar *)
      destruct m; try discriminate; exists s1; (split; [exact H1|split; assumption]).
    - (* CMove: the normal prompt is repainted first *)
      destruct (refresh_line_total s) as [s0 [H0 [L0 K0]]].
      destruct (end_exit_total (CMove m) s0) as [s2 [H2 [L2 K2]]].
      exists s2. unfold ebind at 1. rewrite H0. split; [exact H2|]. split; congruence.
  Qed.
End Search.
