(* C08: what the search REPORTS. The prompt of the search loop says `(reverse-i-search)` or `(failed reverse-i-search)`
   followed by the text typed: the only place where success or failure is reported. [report_ok]: a reported success
   for a non-empty text means that the line shown is the stored entry at the current index and contains the text at the
   cursor. It holds when the search starts, every key handled inside the search keeps it (for ANY continuation of the
   loop), and neither drawing the prompt nor reading the next command touches the line or the history: so the loop
   guarded by the boolean form of [report_ok] at every prompt it draws is the loop itself. *)
From RL Require Import UData LineBuffer LineBufferTotal Undo KillRing Render Keys History HistoryProofs
     Editor EditorRun EditorProofs RecallProofs SearchProofs.

(* ---------- neither the line nor the stored history is touched ---------- *)
Definition keeps_line {A} (m : E A) : Prop :=
  forall s a s', m s = EOk a s' -> e_line s' = e_line s /\ e_hist s' = e_hist s.
Lemma kl_bind {A B} (m : E A) (f : A -> E B) : keeps_line m -> (forall a, keeps_line (f a)) -> keeps_line (ebind m f).
Proof.
  intros Hm Hf s b s2 H. apply ebind_inv in H. destruct H as [a [s1 [H1 H2]]].
  destruct (Hm _ _ _ H1) as [L1 C1]. destruct (Hf _ _ _ _ H2) as [L2 C2]. split; congruence.
Qed.
Lemma kl_ret {A} (a : A) : keeps_line (eret a). Proof. intros s a' s' H. inversion H; auto. Qed.
Lemma kl_get : keeps_line eget. Proof. intros s a' s' H. inversion H; auto. Qed.
Lemma kl_fail {A} e : keeps_line (@efail A e). Proof. intros s a' s' H. discriminate. Qed.
Lemma kl_panic {A} : keeps_line (@epanic A). Proof. intros s a' s' H. discriminate. Qed.
Lemma kl_fuel {A} : keeps_line (@efuel A). Proof. intros s a' s' H. discriminate. Qed.
Lemma kl_write b : keeps_line (write b). Proof. intros s a' s' H. inversion H; auto. Qed.
Lemma kl_set_layout l : keeps_line (set_layout l). Proof. intros s a' s' H. inversion H; auto. Qed.
Lemma kl_set_hint h : keeps_line (set_hint h). Proof. intros s a' s' H. inversion H; auto. Qed.
Lemma kl_set_kr k : keeps_line (set_kr k). Proof. intros s a' s' H. inversion H; auto. Qed.
Lemma kl_set_hidx k : keeps_line (set_hidx k). Proof. intros s a' s' H. inversion H; auto. Qed.
Lemma kl_set_saved k : keeps_line (set_saved k). Proof. intros s a' s' H. inversion H; auto. Qed.
Lemma kl_set_changes k : keeps_line (set_changes k). Proof. intros s a' s' H. inversion H; auto. Qed.
Lemma kl_observe o : keeps_line (observe o). Proof. intros s a' s' H. inversion H; auto. Qed.
Lemma kl_set_input_mode m : keeps_line (set_input_mode m). Proof. intros s a' s' H. inversion H; auto. Qed.
Lemma kl_set_num_args z : keeps_line (set_num_args z). Proof. intros s a' s' H. inversion H; auto. Qed.
Lemma kl_set_last_cmd c : keeps_line (set_last_cmd c). Proof. intros s a' s' H. inversion H; auto. Qed.
Lemma kl_set_last_cs c : keeps_line (set_last_cs c). Proof. intros s a' s' H. inversion H; auto. Qed.
Lemma kl_set_inp i : keeps_line (set_inp i). Proof. intros s a' s' H. inversion H; auto. Qed.

Ltac kl_auto :=
  repeat (first [ apply kl_ret | apply kl_get | apply kl_fail | apply kl_panic | apply kl_fuel | apply kl_write
                | apply kl_set_layout | apply kl_set_hint | apply kl_set_kr | apply kl_set_hidx | apply kl_set_saved
                | apply kl_set_changes
                | apply kl_observe | apply kl_set_input_mode | apply kl_set_num_args | apply kl_set_last_cmd
                | apply kl_set_last_cs | apply kl_set_inp
                | match goal with |- keeps_line (ebind _ _) => apply kl_bind; [|intros] end ] ||
          match goal with
          | |- keeps_line (if ?c then _ else _) => destruct c
          | |- keeps_line (match ?x with _ => _ end) => destruct x
          | |- keeps_line (let '(_, _) := ?x in _) => destruct x
          | |- keeps_line (let _ := _ in _) => cbv zeta
          end).

Section Report.
  Variable U : UData.
  Variable cfg : config.

  Lemma kl_next_char : keeps_line next_char.
  Proof.
    intros s a s' H. unfold next_char in H.
    destruct (take_char (in_cur (e_inp s)) (in_rest (e_inp s))) as [[[c| |pm] i]|]; try discriminate;
      cbn in H; inversion H; split; reflexivity.
  Qed.
  Lemma kl_poll t : keeps_line (poll t). Proof. unfold poll. kl_auto. Qed.
  Lemma kl_escape_o : keeps_line escape_o. Proof. unfold escape_o. kl_auto; apply kl_next_char. Qed.
  Lemma kl_extended_escape c : keeps_line (extended_escape c).
  Proof. unfold extended_escape. kl_auto; try apply kl_next_char. Qed.
  Lemma kl_escape_csi : keeps_line escape_csi.
  Proof. unfold escape_csi. kl_auto; try apply kl_next_char; try apply kl_extended_escape. Qed.
  Lemma kl_do_escape_sequence r : keeps_line (do_escape_sequence U cfg r).
  Proof.
    unfold do_escape_sequence. kl_auto; try apply kl_next_char; try apply kl_escape_csi; try apply kl_escape_o;
      try apply kl_poll.
  Qed.
  Lemma kl_next_key sea : keeps_line (next_key U cfg sea).
  Proof. unfold next_key. kl_auto; try apply kl_next_char; try apply kl_poll; try apply kl_do_escape_sequence. Qed.
  Lemma kl_read_pasted fuel : forall acc, keeps_line (read_pasted U cfg fuel acc).
  Proof.
    induction fuel as [|f IH]; intros acc; cbn [read_pasted]; [apply kl_fuel|].
    kl_auto; try apply kl_next_char; try apply kl_do_escape_sequence; apply IH.
  Qed.

  Ltac kl_display :=
    unfold refresh_line, refresh_line_with_msg, refresh_prompt_and_line, refresh, update_hint, move_cursor,
      move_cursor_to_end, lb_changes, lb_quiet, lb_kill, changes_begin, changes_end, beep, backup, restore,
      completer_update, moved, doing_insert, done_inserting.


  Lemma kl_move_cursor : keeps_line (move_cursor U cfg). Proof. unfold move_cursor. kl_auto. Qed.
  Lemma kl_refresh_line : keeps_line (refresh_line U cfg). Proof. kl_display. kl_auto. Qed.
  Lemma kl_refresh_prompt_and_line p : keeps_line (refresh_prompt_and_line U cfg p). Proof. kl_display. kl_auto. Qed.

  Lemma kl_custom_seq_binding fuel : forall ks, keeps_line (custom_seq_binding U cfg fuel ks).
  Proof.
    induction fuel as [|f IH]; intros ks; cbn [custom_seq_binding]; [apply kl_ret|].
    kl_auto; try apply kl_next_key; apply IH.
  Qed.
  Lemma kl_emacs_digit_loop fuel : forall m, keeps_line (emacs_digit_loop U cfg fuel m).
  Proof.
    induction fuel as [|f IH]; intros m; cbn [emacs_digit_loop]; [apply kl_fuel|].
    kl_auto; try apply kl_next_key; try apply kl_refresh_line; try apply kl_refresh_prompt_and_line; apply IH.
  Qed.
  Lemma kl_vi_arg_digit_loop fuel : keeps_line (vi_arg_digit_loop U cfg fuel).
  Proof.
    induction fuel as [|f IH]; cbn [vi_arg_digit_loop]; [apply kl_fuel|].
    kl_auto; try apply kl_next_key; try apply kl_refresh_line; try apply kl_refresh_prompt_and_line; apply IH.
  Qed.
  Lemma kl_common fuel k n p : keeps_line (common U cfg fuel k n p).
  Proof. unfold common. kl_auto; try apply kl_read_pasted; try apply kl_custom_seq_binding. Qed.
  Lemma kl_cmd_redo c n : keeps_line (cmd_redo c n).
  Proof. unfold cmd_redo, last_insert. kl_auto. Qed.
  Lemma kl_term_binding k : keeps_line (term_binding cfg k). Proof. unfold term_binding. kl_auto. Qed.
  Lemma kl_custom_binding k n p : keeps_line (custom_binding cfg k n p). Proof. unfold custom_binding. kl_auto. Qed.

  Ltac kl_keymap :=
    try apply kl_emacs_digit_loop; try apply kl_vi_arg_digit_loop; try apply kl_custom_binding; try apply kl_cmd_redo;
    try apply kl_term_binding; try apply kl_common; try apply kl_custom_seq_binding; try apply kl_next_key.

  Lemma kl_emacs fuel k : keeps_line (emacs U cfg fuel k).
  Proof.
    unfold emacs, emacs_digit_argument, emacs_num_args, take_num_args, has_hint_at_end. kl_auto; kl_keymap.
  Qed.
  Lemma kl_vi_char_search c : keeps_line (vi_char_search U cfg c).
  Proof. unfold vi_char_search. kl_auto; kl_keymap. Qed.
  Lemma kl_vi_cmd_motion fuel k n : keeps_line (vi_cmd_motion U cfg fuel k n).
  Proof.
    unfold vi_cmd_motion, vi_arg_digit, vi_num_args, take_num_args. kl_auto; kl_keymap; try apply kl_vi_char_search.
  Qed.
  Lemma kl_vi_command fuel k : keeps_line (vi_command U cfg fuel k).
  Proof.
    unfold vi_command, vi_arg_digit, vi_num_args, take_num_args, doing_insert, changes_begin.
    kl_auto; kl_keymap; try apply kl_vi_char_search; try apply kl_vi_cmd_motion.
  Qed.
  Lemma kl_vi_insert fuel k : keeps_line (vi_insert U cfg fuel k).
  Proof.
    unfold vi_insert, has_hint_at_end, done_inserting, changes_end. kl_auto; kl_keymap; try apply kl_vi_command.
  Qed.
  Lemma kl_next_cmd fuel sea : keeps_line (next_cmd U cfg fuel sea).
  Proof.
    unfold next_cmd, changes_begin. kl_auto; kl_keymap; try apply kl_emacs; try apply kl_vi_command; try apply kl_vi_insert.
  Qed.


  Lemma kl_search_wait fuel sea p :
    keeps_line (refresh_prompt_and_line U cfg p ;;; next_cmd U cfg fuel sea).
  Proof. apply kl_bind; [apply kl_refresh_prompt_and_line|intros _; apply kl_next_cmd]. Qed.

  (* ---------- what a reported success claims ---------- *)
  Definition report_ok (s : est) (term : str) (idx : nat) (success : bool) : Prop :=
    success = true -> term <> [] ->
    exists e, nth_error (e_hist s) idx = Some e /\ buf (e_line s) = e /\ contains_at term e (pos (e_line s)).

  (* the keys handled inside the search (every other command ends it: SearchProofs.other_command_exits, abort_restores) *)
  Definition search_key (c : cmd) : bool :=
    match c with
    | CSelfInsert _ _ | CKill (MBackwardChar _) | CReverseSearchHistory | CForwardSearchHistory => true
    | _ => false
    end.

  Lemma contains_at_removelast t e p : contains_at t e p -> contains_at (removelast t) e p.
  Proof.
    intros [l [r [He Hl]]]. destruct t as [|x t'].
    - exists l, r. split; assumption.
    - assert (Hne : x :: t' <> []) by discriminate.
      rewrite (app_removelast_last 0%N Hne) in He. rewrite <- app_assoc in He.
      exists l, ([last (x :: t') 0%N] ++ r). split; assumption.
  Qed.

  Ltac run_s :=
    unfold lb_changes, refresh_line, update_hint, refresh, set_hint, set_changes, set_line, upd_line,
      set_layout, write, changes_end, cs_end, ebind, eget, eret;
    cbn [e_line e_changes e_kr e_hist e_hidx e_saved e_hint e_layout e_prompt e_prompt_size i_input_mode
         i_num_args i_last_cmd i_last_cs e_inp e_out e_obs cs_level cs_undos fst snd].

  (* a hit installs the entry: the same state whatever the rest of the loop is *)
  Lemma search_from_u s term' idx' d' :
    grow (e_line s) = true ->
    match h_search (hist_of s) term' idx' d' with
    | Some (i, p, entry) =>
      exists s', (forall k : str -> nat -> sdir -> bool -> E (option cmd),
                     (lb_changes U (update entry p) ;;; k term' i d' true) s = k term' i d' true s')
                 /\ shows s s' entry p
    | None => True
    end.
  Proof.
    intros Hg. destruct (h_search (hist_of s) term' idx' d') as [[[i p] entry]|] eqn:Eh; [|exact I].
    unfold hist_of in Eh. destruct (hit_facts _ _ _ _ _ _ _ Eh) as [_ [_ [_ [_ [Hp _]]]]].
    destruct (update_spec (e_line s) entry p Hg Hp) as [ev Hu].
    eexists. split.
    - intros k. run_s. rewrite Hu. run_s. reflexivity.
    - unfold shows. cbn. rewrite Hg. repeat split.
  Qed.

  Lemma hit_reports s s' term' idx' d' i p entry :
    h_search (hist_of s) term' idx' d' = Some (i, p, entry) -> shows s s' entry p ->
    grow (e_line s') = true /\ e_hist s' = e_hist s /\ report_ok s' term' i true
    /\ (e_line s' = e_line s \/ In (buf (e_line s')) (e_hist s)).
  Proof.
    intros Eh [Hb [Hp [Hh [_ [_ [_ [_ Hg]]]]]]]. split; [exact Hg|]. split; [exact Hh|].
    unfold hist_of in Eh. destruct (hit_facts _ _ _ _ _ _ _ Eh) as [_ [_ [Hn [Hc _]]]]. split.
    - intros _ _. exists entry. rewrite Hh, Hb, Hp. repeat split; assumption.
    - right. rewrite Hb. eapply nth_error_In. exact Hn.
  Qed.

  Lemma miss_reports s term' idx' : report_ok s term' idx' false.
  Proof. intros H; discriminate. Qed.

  (* every key handled inside the search hands on a state, a text, an index and a flag for which the report is true *)
  Definition hands_on (s : est) backup mark term idx d success (c : cmd) : Prop :=
    exists t' i' d' su' s',
      (forall rec, isearch_branch U cfg rec backup mark term idx d success c s = rec t' i' d' su' s')
      /\ grow (e_line s') = true /\ e_hist s' = e_hist s /\ report_ok s' t' i' su'
      /\ (e_line s' = e_line s \/ In (buf (e_line s')) (e_hist s)).

  Lemma step_char s backup mark term idx d success n ch :
    grow (e_line s) = true -> hands_on s backup mark term idx d success (CSelfInsert n ch).
  Proof.
    intros Hg. unfold hands_on.
    pose proof (search_from_u s (term ++ [ch]) idx d Hg) as H.
    destruct (h_search (hist_of s) (term ++ [ch]) idx d) as [[[i p] entry]|] eqn:Eh.
    - destruct H as [s' [Heq Hsh]]. exists (term ++ [ch]), i, d, true, s'. split.
      + intros rec. unfold isearch_branch. unfold ebind at 1. cbn [eget]. rewrite Eh. apply Heq.
      + exact (hit_reports _ _ _ _ _ _ _ _ Eh Hsh).
    - exists (term ++ [ch]), idx, d, false, s. split.
      + intros rec. apply typed_char_miss. exact Eh.
      + split; [exact Hg|]. split; [reflexivity|]. split; [apply miss_reports|left; reflexivity].
  Qed.

  Lemma step_backspace s backup mark term idx d success n :
    grow (e_line s) = true -> report_ok s term idx success ->
    hands_on s backup mark term idx d success (CKill (MBackwardChar n)).
  Proof.
    intros Hg Hr. exists (removelast term), idx, d, success, s. split; [intros rec; reflexivity|].
    split; [exact Hg|]. split; [reflexivity|]. split; [|left; reflexivity].
    intros Hs Hne. assert (Ht : term <> []) by (intros ->; apply Hne; reflexivity).
    destruct (Hr Hs Ht) as [e [Hn [Hb Hc]]]. exists e. repeat split; try assumption.
    apply contains_at_removelast. exact Hc.
  Qed.

  Lemma step_reverse s backup mark term idx d success :
    grow (e_line s) = true -> hands_on s backup mark term idx d success CReverseSearchHistory.
  Proof.
    intros Hg. unfold hands_on. destruct (Nat.ltb 0 idx) eqn:El.
    - pose proof (search_from_u s term (idx - 1) Reverse Hg) as H.
      destruct (h_search (hist_of s) term (idx - 1) Reverse) as [[[i p] entry]|] eqn:Eh.
      + destruct H as [s' [Heq Hsh]]. exists term, i, Reverse, true, s'. split.
        * intros rec. unfold isearch_branch. unfold ebind at 1. cbn [eget]. rewrite El, Eh. apply Heq.
        * exact (hit_reports _ _ _ _ _ _ _ _ Eh Hsh).
      + exists term, (idx - 1), Reverse, false, s. split.
        * intros rec. unfold isearch_branch. unfold ebind at 1. cbn [eget]. rewrite El, Eh. reflexivity.
        * split; [exact Hg|]. split; [reflexivity|]. split; [apply miss_reports|left; reflexivity].
    - exists term, idx, Reverse, false, s. split.
      + intros rec. unfold isearch_branch. unfold ebind at 1. cbn [eget]. rewrite El. reflexivity.
      + split; [exact Hg|]. split; [reflexivity|]. split; [apply miss_reports|left; reflexivity].
  Qed.

  Lemma step_forward s backup mark term idx d success :
    grow (e_line s) = true -> hands_on s backup mark term idx d success CForwardSearchHistory.
  Proof.
    intros Hg. unfold hands_on. destruct (Nat.ltb idx (hlen_e s - 1)) eqn:El.
    - pose proof (search_from_u s term (S idx) Forward Hg) as H.
      destruct (h_search (hist_of s) term (S idx) Forward) as [[[i p] entry]|] eqn:Eh.
      + destruct H as [s' [Heq Hsh]]. exists term, i, Forward, true, s'. split.
        * intros rec. unfold isearch_branch. unfold ebind at 1. cbn [eget]. rewrite El, Eh. apply Heq.
        * exact (hit_reports _ _ _ _ _ _ _ _ Eh Hsh).
      + exists term, (S idx), Forward, false, s. split.
        * intros rec. unfold isearch_branch. unfold ebind at 1. cbn [eget]. rewrite El, Eh. reflexivity.
        * split; [exact Hg|]. split; [reflexivity|]. split; [apply miss_reports|left; reflexivity].
    - exists term, idx, Forward, false, s. split.
      + intros rec. unfold isearch_branch. unfold ebind at 1. cbn [eget]. rewrite El. reflexivity.
      + split; [exact Hg|]. split; [reflexivity|]. split; [apply miss_reports|left; reflexivity].
  Qed.

  Theorem step_keeps_report s backup mark term idx d success c :
    grow (e_line s) = true -> report_ok s term idx success -> search_key c = true ->
    hands_on s backup mark term idx d success c.
  Proof.
    intros Hg Hr Hk. destruct c; try discriminate Hk;
      first [ apply step_char; exact Hg | apply step_reverse; exact Hg | apply step_forward; exact Hg
            | match goal with m : movement |- _ => destruct m; try discriminate Hk end; apply step_backspace; assumption ].
  Qed.

  (* the other commands do not come back into the loop *)
  Lemma branch_without_rec rec1 rec2 s backup mark term idx d success c :
    search_key c = false ->
    isearch_branch U cfg rec1 backup mark term idx d success c s
    = isearch_branch U cfg rec2 backup mark term idx d success c s.
  Proof. intros Hk. destruct c; try discriminate Hk; try reflexivity. destruct m; try discriminate Hk; reflexivity. Qed.

  (* ---------- the report as a check, and the loop that makes it before every prompt ---------- *)
  Definition contains_at_b (t e : str) (p : nat) : bool :=
    existsb (fun k => Nat.eqb (blen (firstn k e)) p && prefix_b t (skipn k e)) (seq 0 (S (length e))).

  Lemma contains_at_b_spec t e p : contains_at_b t e p = true <-> contains_at t e p.
  Proof.
    unfold contains_at_b, contains_at. rewrite existsb_exists. split.
    - intros [k [_ Hk]]. apply andb_prop in Hk. destruct Hk as [H1 H2].
      apply Nat.eqb_eq in H1. apply prefix_b_spec in H2. destruct H2 as [r Hr].
      exists (firstn k e), r. split; [|exact H1]. rewrite <- Hr. symmetry. apply firstn_skipn.
    - intros [l [r [He Hl]]]. exists (length l). split.
      + apply in_seq. subst e. rewrite app_length. lia.
      + apply andb_true_intro. subst e. split.
        * apply Nat.eqb_eq. rewrite firstn_app, firstn_all, Nat.sub_diag. cbn [firstn]. rewrite app_nil_r. exact Hl.
        * apply prefix_b_spec. exists r. rewrite skipn_app, skipn_all, Nat.sub_diag. reflexivity.
  Qed.

  Definition report_b (s : est) (term : str) (idx : nat) (success : bool) : bool :=
    negb success ||
    match term with
    | [] => true
    | _ => match nth_error (e_hist s) idx with
           | Some e => (if list_eq_dec N.eq_dec (buf (e_line s)) e then true else false)
                       && contains_at_b term e (pos (e_line s))
           | None => false
           end
    end.

  Lemma report_b_spec s term idx success : report_b s term idx success = true <-> report_ok s term idx success.
  Proof.
    unfold report_b, report_ok. destruct success; cbn [negb orb].
    - destruct term as [|x t].
      + split; [intros _ _ H; exfalso; apply H; reflexivity|reflexivity].
      + destruct (nth_error (e_hist s) idx) as [e|].
        * destruct (list_eq_dec N.eq_dec (buf (e_line s)) e) as [Heq|Hne]; cbn [andb].
          -- rewrite contains_at_b_spec. split.
             ++ intros Hc _ _. exists e. repeat split; assumption.
             ++ intros H. destruct (H eq_refl) as [e' [Hn [_ Hc]]]; [discriminate|]. congruence.
          -- split; [discriminate|]. intros H. destruct (H eq_refl) as [e' [Hn [Hb _]]]; [discriminate|].
             congruence.
        * split; [discriminate|]. intros H. destruct (H eq_refl) as [e' [Hn _]]; [discriminate|discriminate].
    - split; [intros _ H; discriminate|reflexivity].
  Qed.

  (* the search loop that CHECKS, before it draws a prompt, that what the prompt is about to report is true, and aborts
     the program otherwise *)
  Fixpoint isearch_loop_checked (fuel : nat) (backup : str * nat) (mark : nat)
           (term : str) (idx : nat) (d : sdir) (success : bool) : E (option cmd) :=
    match fuel with
    | 0 => efuel
    | S f =>
      fun s =>
        if report_b s term idx success then
          (refresh_prompt_and_line U cfg (search_prompt success term) ;;;
           edo c <- next_cmd U cfg f true;
           isearch_branch U cfg (fun t i d' su => isearch_loop_checked f backup mark t i d' su)
                          backup mark term idx d success c) s
        else EPanic
    end.

  (* ... is the search loop: the check never fails, at any prompt, for any keys, history and texts *)
  Theorem checked_loop_is_loop fuel : forall backup mark term idx d success s,
    grow (e_line s) = true -> report_ok s term idx success ->
    isearch_loop_checked fuel backup mark term idx d success s
    = isearch_loop U cfg fuel backup mark term idx d success s.
  Proof.
    induction fuel as [|f IH]; intros backup mark term idx d success s Hg Hr; [reflexivity|].
    cbn [isearch_loop_checked isearch_loop].
    replace (report_b s term idx success) with true by (symmetry; apply report_b_spec; exact Hr).
    unfold ebind at 1 3.
    destruct (refresh_prompt_and_line U cfg (search_prompt success term) s) as [u s1|e s1| |] eqn:E1; try reflexivity.
    destruct (kl_refresh_prompt_and_line _ _ _ _ E1) as [L1 H1].
    unfold ebind at 1 2.
    destruct (next_cmd U cfg f true s1) as [c s2|e s2| |] eqn:E2; try reflexivity.
    destruct (kl_next_cmd _ _ _ _ _ E2) as [L2 H2].
    assert (Hg2 : grow (e_line s2) = true) by (rewrite L2, L1; exact Hg).
    assert (Hr2 : report_ok s2 term idx success).
    { intros Hs Ht. destruct (Hr Hs Ht) as [e [Hn [Hb Hc]]]. exists e. rewrite H2, H1, L2, L1. repeat split; assumption. }
    destruct (search_key c) eqn:Ek.
    - destruct (step_keeps_report s2 backup mark term idx d success c Hg2 Hr2 Ek) as [t' [i' [d' [su' [s' [Heq [Hg' [_ [Hr' _]]]]]]]]].
      rewrite !Heq. apply IH; assumption.
    - apply branch_without_rec. exact Ek.
  Qed.

  (* the search starts with an empty text: nothing is claimed yet *)
  Theorem search_starts_checked fuel s :
    grow (e_line s) = true ->
    incremental_search U cfg fuel s
    = (if Nat.eqb (hlen_e s) 0 then eret None
       else edo mark <- changes_begin;
            isearch_loop_checked fuel (buf (e_line s), pos (e_line s)) mark [] (hlen_e s - 1) Reverse true) s.
  Proof.
    intros Hg. unfold incremental_search. unfold ebind at 1. cbn [eget].
    destruct (Nat.eqb (hlen_e s) 0); [reflexivity|].
    unfold ebind. destruct (changes_begin s) as [mark s1|e s1| |] eqn:E1; try reflexivity.
    symmetry. apply checked_loop_is_loop.
    - unfold changes_begin in E1. revert E1. run_s. intros E1. inversion E1. cbn. exact Hg.
    - intros _ H. exfalso. apply H. reflexivity.
  Qed.
  (* ---------- the result of a whole search ---------- *)
  (* For every sequence of keys read inside the search: the stored history is untouched; an abort leaves exactly the line and
     cursor from before the search; any other ending leaves either the line from before or a stored history entry. *)
  Definition shown_ok (orig : lb) (s : est) : Prop :=
    grow (e_line s) = true /\ (e_line s = orig \/ In (buf (e_line s)) (e_hist s)).

  Theorem search_result fuel : forall backup mark term idx d success orig s res s',
    grow orig = true -> backup = (buf orig, pos orig) -> pos orig <= blen (buf orig) ->
    shown_ok orig s -> report_ok s term idx success ->
    isearch_loop U cfg fuel backup mark term idx d success s = EOk res s' ->
    e_hist s' = e_hist s
    /\ (res = None -> buf (e_line s') = buf orig /\ pos (e_line s') = pos orig)
    /\ (forall c, res = Some c -> e_line s' = orig \/ In (buf (e_line s')) (e_hist s)).
  Proof.
    induction fuel as [|f IH]; intros backup mark term idx d success orig s res s' Hgo Hbk Hpo [Hg Hsh] Hr E; [discriminate E|].
    cbn [isearch_loop] in E.
    apply ebind_inv in E. destruct E as [u1 [s1 [E1 E]]].
    destruct (kl_refresh_prompt_and_line _ _ _ _ E1) as [L1 H1].
    apply ebind_inv in E. destruct E as [c [s2 [E2 E]]].
    destruct (kl_next_cmd _ _ _ _ _ E2) as [L2 H2].
    assert (Hg2 : grow (e_line s2) = true) by (rewrite L2, L1; exact Hg).
    assert (Hh2 : e_hist s2 = e_hist s) by (rewrite H2, H1; reflexivity).
    assert (Hr2 : report_ok s2 term idx success).
    { intros Hs Ht. destruct (Hr Hs Ht) as [e [Hn [Hb Hc]]]. exists e. rewrite Hh2, L2, L1. repeat split; assumption. }
    assert (Hsh2 : e_line s2 = orig \/ In (buf (e_line s2)) (e_hist s)) by (rewrite L2, L1; exact Hsh).
    destruct (search_key c) eqn:Ek.
    - destruct (step_keeps_report s2 backup mark term idx d success c Hg2 Hr2 Ek)
        as [t' [i' [d' [su' [s3 [Heq [Hg3 [Hh3 [Hr3 Hl3]]]]]]]]].
      rewrite Heq in E.
      assert (Hsh3 : shown_ok orig s3).
      { split; [exact Hg3|]. destruct Hl3 as [Hl3|Hl3].
        - rewrite Hl3, Hh3, Hh2. exact Hsh2.
        - right. rewrite Hh3. exact Hl3. }
      destruct (IH backup mark t' i' d' su' orig s3 res s' Hgo Hbk Hpo Hsh3 Hr3 E) as [A [B C]].
      split; [rewrite A, Hh3, Hh2; reflexivity|]. split; [exact B|].
      intros c0 Hc0. specialize (C c0 Hc0). rewrite Hh3, Hh2 in C. exact C.
    - destruct c; try discriminate Ek;
        try (match type of E with isearch_branch _ _ _ _ _ _ _ _ _ ?cc _ = _ =>
               destruct (other_command_exits U cfg (fun t i d' su => isearch_loop U cfg f backup mark t i d' su)
                           s2 backup mark term idx d success cc eq_refl) as [s4 [E4 [L4 H4]]] end;
             rewrite E in E4; inversion E4; subst res s4;
             split; [rewrite H4; exact Hh2|]; split; [discriminate|]; intros c0 _; rewrite L4; exact Hsh2).
      + (* abort *)
        assert (Hp' : snd backup <= blen (fst backup)) by (rewrite Hbk; exact Hpo).
        destruct (abort_restores U cfg (fun t i d' su => isearch_loop U cfg f backup mark t i d' su)
                    s2 backup mark term idx d success Hg2 Hp') as [s4 [E4 [B [P H4]]]].
        rewrite E in E4. inversion E4; subst res s4. split; [rewrite H4; exact Hh2|].
        split; [intros _; rewrite B, P, Hbk; split; reflexivity|discriminate].
      + (* a kill that is not Backspace *)
        destruct m; try discriminate Ek;
          match type of E with isearch_branch _ _ _ _ _ _ _ _ _ ?cc _ = _ =>
            destruct (other_command_exits U cfg (fun t i d' su => isearch_loop U cfg f backup mark t i d' su)
                        s2 backup mark term idx d success cc eq_refl) as [s4 [E4 [L4 H4]]] end;
          rewrite E in E4; inversion E4; subst res s4;
          (split; [rewrite H4; exact Hh2|]); (split; [discriminate|]); intros c0 _; rewrite L4; exact Hsh2.
  Qed.
End Report.
