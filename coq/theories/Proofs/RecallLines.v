(* C07, last clause: in multi-line text Up / Down first move between lines and only recall
   at the top / bottom line.
   LineBuffer level: move_to_line_up / _down say false and leave the buffer alone exactly
   when no line break precedes / follows the cursor; otherwise they say true, keep the text
   and put the cursor on an earlier / later line.
   Editor level: the commands LineUpOrPreviousHistory / LineDownOrNextHistory are the
   history step exactly on the top / bottom line; elsewhere they touch neither the text,
   nor the history, nor the position in it, nor the saved line, nor the undo stack. *)
From Coq Require Import List Arith NArith ZArith Lia Bool.
From RL Require Import UData Ustr Uax29 LineBuffer Undo KillRing Editor EditorRun LineBufferTotal LineBufferAll EditorProofs RecallProofs RecallSpec.
Import ListNotations.

Lemma rfind_char_none c l : rfind_char c l = None <-> ~ In c l.
Proof.
  induction l as [|x l IH]; cbn [rfind_char]; [split; [intros _ []|reflexivity]|].
  destruct (rfind_char c l) as [k|].
  - split; [discriminate|]. intros H. exfalso.
    destruct (in_dec N.eq_dec c l) as [Hi|Hn]; [apply H; right; exact Hi|]. apply IH in Hn. discriminate.
  - destruct (x =? c)%N eqn:E.
    + split; [discriminate|]. intros H. exfalso. apply H. left. apply N.eqb_eq. exact E.
    + split; [|reflexivity]. intros _ [Hx|Hin].
      * subst. rewrite N.eqb_refl in E. discriminate.
      * apply (proj1 IH eq_refl). exact Hin.
Qed.

Lemma find_char_none c r : find_char c r = None <-> ~ In c r.
Proof.
  induction r as [|x r IH]; cbn [find_char]; [split; [intros _ []|reflexivity]|].
  destruct (x =? c)%N eqn:E.
  - split; [discriminate|]. intros H. exfalso. apply H. left. apply N.eqb_eq. exact E.
  - destruct (find_char c r) as [k|].
    + split; [discriminate|]. intros H. exfalso.
      destruct (in_dec N.eq_dec c r) as [Hi|Hn]; [apply H; right; exact Hi|]. apply IH in Hn. discriminate.
    + split; [|reflexivity]. intros _ [Hx|Hin].
      * subst. rewrite N.eqb_refl in E. discriminate.
      * apply (proj1 IH eq_refl). exact Hin.
Qed.

Section LineMoves.
  Variable seg : str -> list str.
  Hypothesis seg_concat : forall s, concat (seg s) = s.
  Hypothesis seg_nonempty : forall s g, In g (seg s) -> g <> [].
  Variable width : str -> nat.

  Lemma line_up_loop_le s : forall k ds de,
    line_start s ds -> bd s de -> ds <= de ->
    exists ds' de', line_up_loop s k ds de = Ok (ds', de') /\ bd s ds' /\ bd s de' /\ ds' <= de' /\ de' <= de.
  Proof.
    induction k as [|k IH]; intros ds de Hds Hde Hle; cbn [line_up_loop].
    { exists ds, de. split; [reflexivity|]. split; [apply line_start_bd; exact Hds|]. repeat split; auto. }
    destruct (Nat.eqb ds 0) eqn:E.
    { exists ds, de. split; [reflexivity|]. split; [apply line_start_bd; exact Hds|]. repeat split; auto. }
    apply Nat.eqb_neq in E. destruct Hds as [->|[x [y [Hs ->]]]]; [congruence|].
    replace (blen x + 1 - 1) with (blen x) by lia.
    assert (Hsl : slice_to s (blen x) = Ok x) by (unfold slice_to; rewrite Hs, bsplit_app; reflexivity).
    rewrite Hsl. destruct (rfind_line_start s x (LF :: y) Hs) as [Hls Hle'].
    destruct (IH _ (blen x) Hls ltac:(rewrite Hs; apply bd_mid) Hle') as [ds' [de' [H1 [H2 [H3 [H4 H5]]]]]].
    exists ds', de'. split; [exact H1|]. repeat split; auto. lia.
  Qed.

  Lemma line_down_loop_ge s : forall k ds de,
    bd s ds -> line_end s de -> ds <= de ->
    exists ds' de', line_down_loop s (blen s) k ds de = Ok (ds', de') /\ bd s ds' /\ bd s de' /\ ds' <= de' /\ ds <= ds'.
  Proof.
    induction k as [|k IH]; intros ds de Hds Hde Hle; cbn [line_down_loop].
    { exists ds, de. split; [reflexivity|]. split; [exact Hds|]. split; [apply line_end_bd; exact Hde|]. auto. }
    destruct (Nat.eqb de (blen s)) eqn:E.
    { exists ds, de. split; [reflexivity|]. split; [exact Hds|]. split; [apply line_end_bd; exact Hde|]. auto. }
    apply Nat.eqb_neq in E. destruct Hde as [->|[x [y [Hs ->]]]]; [congruence|].
    assert (Hs' : s = (x ++ [LF]) ++ y) by (rewrite Hs, <- app_assoc; reflexivity).
    assert (Hl1 : blen x + 1 = blen (x ++ [LF])) by (rewrite blen_app; reflexivity).
    assert (Hsl : slice_from s (blen x + 1) = Ok y) by (unfold slice_from; rewrite Hl1, Hs', bsplit_app; reflexivity).
    rewrite Hsl. destruct (find_line_end s (x ++ [LF]) y Hs') as [Hle1 Hle2]. rewrite <- Hl1 in Hle1, Hle2.
    destruct (IH (blen x + 1) _ ltac:(rewrite Hl1, Hs'; apply bd_mid) Hle1 Hle2) as [ds' [de' [H1 [H2 [H3 [H4 H5]]]]]].
    exists ds', de'. split; [exact H1|]. repeat split; auto. lia.
  Qed.

  Lemma dest_pos_range ds dest col :
    blen ds <= match nth_error (gindices seg dest) col with Some (idx, _) => blen ds + idx | None => blen ds + blen dest end
    /\ match nth_error (gindices seg dest) col with Some (idx, _) => blen ds + idx | None => blen ds + blen dest end
       <= blen ds + blen dest.
  Proof.
    destruct (nth_error (gindices seg dest) col) as [[idx g]|] eqn:E; [|lia].
    apply nth_error_In in E. destruct (gi_bd seg seg_concat seg_nonempty _ _ _ E) as [a [c [Hd Hi]]].
    subst dest idx. rewrite blen_app. lia.
  Qed.

  (* UP *)
  Theorem move_to_line_up_spec n pc b l r :
    buf b = l ++ r -> pos b = blen l ->
    (~ In LF l -> exists ev, move_to_line_up seg width n pc b = Ok (false, b, ev))
    /\ (In LF l -> exists a c p ev,
          l = a ++ LF :: c /\ ~ In LF c
          /\ move_to_line_up seg width n pc b = Ok (true, set_pos' b p, ev)
          /\ bd (buf b) p /\ p <= blen a).
  Proof.
    intros Hb Hp.
    assert (Hsl : slice_to (buf b) (pos b) = Ok l) by (unfold slice_to; rewrite (wf_bsplit b l r Hb Hp); reflexivity).
    split.
    - intros Hn. apply rfind_char_none in Hn. unfold move_to_line_up, bind, get, lift. rewrite Hsl, Hn.
      eexists. reflexivity.
    - intros Hin. destruct (rfind_char LF l) as [off|] eqn:E; [|apply rfind_char_none in E; contradiction].
      assert (Hlast : exists a c, l = a ++ LF :: c /\ ~ In LF c /\ off = blen a).
      { clear -E. revert off E. induction l as [|x l IH]; intros off E; [discriminate|]. cbn [rfind_char] in E.
        destruct (rfind_char LF l) as [k|] eqn:Ek.
        - inversion E; subst. destruct (IH _ eq_refl) as [a [c [-> [Hn ->]]]].
          exists (x :: a), c. split; [reflexivity|]. split; [exact Hn|reflexivity].
        - destruct (x =? LF)%N eqn:Ex; [|discriminate]. apply N.eqb_eq in Ex. inversion E; subst.
          exists [], l. split; [reflexivity|]. split; [apply rfind_char_none; exact Ek|reflexivity]. }
      destruct Hlast as [a [c [Hl [Hnc ->]]]]. exists a, c.
      assert (Hb2 : buf b = (a ++ [LF]) ++ c ++ r) by (rewrite Hb, Hl, <- !app_assoc; reflexivity).
      assert (Hcur : slice (buf b) (blen a + 1) (pos b) = Ok c).
      { replace (blen a + 1) with (blen (a ++ [LF])) by (rewrite blen_app; reflexivity).
        replace (pos b) with (blen (a ++ [LF]) + blen c) by (rewrite Hp, Hl, !blen_app; cbn [blen]; lia).
        rewrite Hb2. apply slice_app. }
      assert (Hb3 : buf b = a ++ LF :: c ++ r) by (rewrite Hb, Hl, <- app_assoc; reflexivity).
      assert (Hl2 : slice_to (buf b) (blen a) = Ok a) by (unfold slice_to; rewrite Hb3, bsplit_app; reflexivity).
      destruct (rfind_line_start (buf b) a (LF :: c ++ r) Hb3) as [Hls Hle].
      destruct (line_up_loop_le (buf b) (n - 1) _ (blen a) Hls ltac:(rewrite Hb3; apply bd_mid) Hle)
        as [ds [de [Hloop [Hds [Hde [Hle2 Hle3]]]]]].
      destruct (bd2 _ _ _ Hds Hde Hle2) as [x [dest [y [Hb4 [-> Hde']]]]].
      assert (Hdest : slice (buf b) (blen x) de = Ok dest) by (rewrite Hde', Hb4; apply slice_app).
      set (col := width c - (if Nat.eqb (blen x) 0 then pc else 0)).
      exists (match nth_error (gindices seg dest) col with Some (idx, _) => blen x + idx | None => de end).
      unfold move_to_line_up, bind, get, lift, put_pos, ret. rewrite Hsl, E, Hcur, Hl2, Hloop, Hdest.
      fold col. eexists. split; [exact Hl|]. split; [exact Hnc|]. split; [reflexivity|].
      rewrite Hde'. split; [apply (dest_pos_bd seg seg_concat seg_nonempty (buf b) x y dest); exact Hb4|].
      destruct (dest_pos_range x dest col) as [_ H2]. lia.
  Qed.

  (* DOWN *)
  Theorem move_to_line_down_spec n pc b l r :
    buf b = l ++ r -> pos b = blen l ->
    (~ In LF r -> exists ev, move_to_line_down seg width n pc b = Ok (false, b, ev))
    /\ (In LF r -> exists a c p ev,
          r = a ++ LF :: c /\ ~ In LF a
          /\ move_to_line_down seg width n pc b = Ok (true, set_pos' b p, ev)
          /\ bd (buf b) p /\ blen l + blen a + 1 <= p).
  Proof.
    intros Hb Hp.
    assert (Hsr : slice_from (buf b) (pos b) = Ok r) by (unfold slice_from; rewrite (wf_bsplit b l r Hb Hp); reflexivity).
    split.
    - intros Hn. apply find_char_none in Hn. unfold move_to_line_down, bind, get, lift. rewrite Hsr, Hn.
      eexists. reflexivity.
    - intros Hin. destruct (find_char LF r) as [off|] eqn:E; [|apply find_char_none in E; contradiction].
      destruct (find_char_spec _ _ _ E) as [a [c [Hr [-> Hna]]]]. exists a, c.
      assert (Hw : wf b) by (exists l, r; split; assumption).
      assert (Hsl : slice_to (buf b) (pos b) = Ok l) by (unfold slice_to; rewrite (wf_bsplit b l r Hb Hp); reflexivity).
      destruct (rfind_line_start (buf b) l r Hb) as [Hls Hle].
      destruct (bd2 _ _ _ (line_start_bd _ _ Hls) Hw ltac:(rewrite Hp; exact Hle)) as [x [cur [y [Hb2 [Hx Hpc]]]]].
      assert (Hcur : slice (buf b) (match rfind_char LF l with Some k => k + 1 | None => 0 end) (pos b) = Ok cur).
      { rewrite Hx, Hpc, Hb2. apply slice_app. }
      assert (Hb3 : buf b = ((l ++ a) ++ [LF]) ++ c) by (rewrite Hb, Hr, <- !app_assoc; reflexivity).
      assert (Hds0 : pos b + blen a + 1 = blen ((l ++ a) ++ [LF])) by (rewrite !blen_app, Hp; reflexivity).
      assert (Hr2 : slice_from (buf b) (pos b + blen a + 1) = Ok c).
      { unfold slice_from. rewrite Hds0, Hb3, bsplit_app. reflexivity. }
      destruct (find_line_end (buf b) ((l ++ a) ++ [LF]) c Hb3) as [Hle1 Hle2]. rewrite <- Hds0 in Hle1, Hle2.
      destruct (line_down_loop_ge (buf b) (n - 1) (pos b + blen a + 1) _ ltac:(rewrite Hds0, Hb3; apply bd_mid) Hle1 Hle2)
        as [ds [de [Hloop [Hds [Hde [Hle3 Hge]]]]]].
      destruct (bd2 _ _ _ Hds Hde Hle3) as [x' [dest [y' [Hb4 [-> Hde']]]]].
      assert (Hdest : slice (buf b) (blen x') de = Ok dest) by (rewrite Hde', Hb4; apply slice_app).
      eexists _, _. split; [exact Hr|]. split; [exact Hna|].
      unfold move_to_line_down, bind, get, lift, put_pos, ret, lb_len. rewrite Hsr, E, Hsl, Hcur, Hr2, Hloop, Hdest.
      split; [reflexivity|]. rewrite Hde'.
      split; [apply (dest_pos_bd seg seg_concat seg_nonempty (buf b) x' y' dest); exact Hb4|].
      match goal with |- _ <= match nth_error (gindices seg dest) ?col with _ => _ end =>
        destruct (dest_pos_range x' dest col) as [H1 _] end.
      rewrite Hp in Hge. lia.
  Qed.
End LineMoves.

(* ---------- the editor commands ---------- *)

Section EditorLevel.
  Variable U : UData.
  Variable cfg : config.
  Let seg := useg U.
  Let seg_concat' : forall s, concat (seg s) = s := useg_concat U.
  Lemma seg_nonempty'' : forall s g, In g (seg s) -> g <> [].
  Proof. intros s g Hin. pose proof (useg_nonempty U s) as H. rewrite Forall_forall in H. apply H. exact Hin. Qed.

  (* everything a recall depends on, and the text, undo stack and kill ring, are as before *)
  Definition untouched (s s' : est) : Prop :=
    buf (e_line s') = buf (e_line s) /\ cap (e_line s') = cap (e_line s) /\ grow (e_line s') = grow (e_line s)
    /\ e_hist s' = e_hist s /\ e_hidx s' = e_hidx s /\ e_saved s' = e_saved s
    /\ e_changes s' = e_changes s /\ e_kr s' = e_kr s.

  Lemma move_cursor_same s1 :
    exists s2, move_cursor U cfg s1 = EOk tt s2 /\ e_line s2 = e_line s1 /\ e_hist s2 = e_hist s1
               /\ e_hidx s2 = e_hidx s1 /\ e_saved s2 = e_saved s1 /\ e_changes s2 = e_changes s1 /\ e_kr s2 = e_kr s1.
  Proof.
    unfold move_cursor, ebind, eget.
    destruct (pos2_eqb _ _); [exists s1; repeat split|].
    unfold write, set_layout. eexists. split; [reflexivity|]. cbn. repeat split.
  Qed.

  Lemma set_line_same s : set_line (e_line s) s = EOk tt s.
  Proof. destruct s. reflexivity. Qed.

  Lemma ebind_ok {A B} (m : E A) (f : A -> E B) s a s1 : m s = EOk a s1 -> ebind m f s = f a s1.
  Proof. intros H. unfold ebind. rewrite H. reflexivity. Qed.

  Lemma lb_quiet_ok {A} (m : M A) s a b' ev : m (e_line s) = Ok (a, b', ev) ->
    exists s1, lb_quiet m s = EOk a s1 /\ e_line s1 = b' /\ e_hist s1 = e_hist s /\ e_hidx s1 = e_hidx s
               /\ e_saved s1 = e_saved s /\ e_changes s1 = e_changes s /\ e_kr s1 = e_kr s
               /\ (b' = e_line s -> s1 = s).
  Proof.
    intros H. unfold lb_quiet, ebind, eget. rewrite H. unfold set_line, upd_line, eret.
    eexists. split; [reflexivity|]. cbn. repeat split. intros ->. destruct s. reflexivity.
  Qed.

  Lemma line_up_true n s p ev :
    move_to_line_up seg (layout_w U) n (p_col (l_prompt_size (e_layout s))) (e_line s) = Ok (true, set_pos' (e_line s) p, ev) ->
    exists s2, edit_move_line_up U cfg n s = EOk true s2 /\ e_line s2 = set_pos' (e_line s) p /\ e_hist s2 = e_hist s
               /\ e_hidx s2 = e_hidx s /\ e_saved s2 = e_saved s /\ e_changes s2 = e_changes s /\ e_kr s2 = e_kr s.
  Proof.
    intros Hm. destruct (lb_quiet_ok _ s _ _ _ Hm) as [s1 [Hq [F1 [F2 [F3 [F4 [F5 [F6 _]]]]]]]].
    destruct (move_cursor_same s1) as [s2 [Hmc [E1 [E2 [E3 [E4 [E5 E6]]]]]]].
    exists s2. unfold edit_move_line_up. rewrite (ebind_ok eget _ s s s eq_refl).
    unfold Editor.seg. fold seg. rewrite (ebind_ok _ _ s true s1 Hq).
    rewrite (ebind_ok _ _ s1 tt s2 Hmc). split; [reflexivity|]. repeat split; congruence.
  Qed.
  Lemma line_up_false n s ev :
    move_to_line_up seg (layout_w U) n (p_col (l_prompt_size (e_layout s))) (e_line s) = Ok (false, e_line s, ev) ->
    edit_move_line_up U cfg n s = EOk false s.
  Proof.
    intros Hm. destruct (lb_quiet_ok _ s _ _ _ Hm) as [s1 [Hq [_ [_ [_ [_ [_ [_ Hs]]]]]]]].
    rewrite (Hs eq_refl) in Hq.
    unfold edit_move_line_up. rewrite (ebind_ok eget _ s s s eq_refl).
    unfold Editor.seg. fold seg. rewrite (ebind_ok _ _ s false s Hq). reflexivity.
  Qed.
  Lemma line_down_true n s p ev :
    move_to_line_down seg (layout_w U) n (p_col (l_prompt_size (e_layout s))) (e_line s) = Ok (true, set_pos' (e_line s) p, ev) ->
    exists s2, edit_move_line_down U cfg n s = EOk true s2 /\ e_line s2 = set_pos' (e_line s) p /\ e_hist s2 = e_hist s
               /\ e_hidx s2 = e_hidx s /\ e_saved s2 = e_saved s /\ e_changes s2 = e_changes s /\ e_kr s2 = e_kr s.
  Proof.
    intros Hm. destruct (lb_quiet_ok _ s _ _ _ Hm) as [s1 [Hq [F1 [F2 [F3 [F4 [F5 [F6 _]]]]]]]].
    destruct (move_cursor_same s1) as [s2 [Hmc [E1 [E2 [E3 [E4 [E5 E6]]]]]]].
    exists s2. unfold edit_move_line_down. rewrite (ebind_ok eget _ s s s eq_refl).
    unfold Editor.seg. fold seg. rewrite (ebind_ok _ _ s true s1 Hq).
    rewrite (ebind_ok _ _ s1 tt s2 Hmc). split; [reflexivity|]. repeat split; congruence.
  Qed.
  Lemma line_down_false n s ev :
    move_to_line_down seg (layout_w U) n (p_col (l_prompt_size (e_layout s))) (e_line s) = Ok (false, e_line s, ev) ->
    edit_move_line_down U cfg n s = EOk false s.
  Proof.
    intros Hm. destruct (lb_quiet_ok _ s _ _ _ Hm) as [s1 [Hq [_ [_ [_ [_ [_ [_ Hs]]]]]]]].
    rewrite (Hs eq_refl) in Hq.
    unfold edit_move_line_down. rewrite (ebind_ok eget _ s s s eq_refl).
    unfold Editor.seg. fold seg. rewrite (ebind_ok _ _ s false s Hq). reflexivity.
  Qed.

  Ltac exec_head s :=
    unfold execute; rewrite !(ebind_ok eget _ s s s eq_refl); cbv beta iota;
    rewrite !(ebind_ok (eret tt) _ s tt s eq_refl); cbv beta.

  (* UP with a line break somewhere before the cursor: a motion inside the text *)
  Theorem up_inside_text n s l r :
    buf (e_line s) = l ++ r -> pos (e_line s) = blen l -> In LF l ->
    exists s' a c, execute U cfg (CLineUpOrPreviousHistory n) s = EOk Proceed s' /\ untouched s s'
      /\ l = a ++ LF :: c /\ ~ In LF c /\ pos (e_line s') <= blen a /\ wf (e_line s').
  Proof.
    intros Hb Hp Hin.
    destruct (move_to_line_up_spec seg seg_concat' seg_nonempty'' (layout_w U) n
                (p_col (l_prompt_size (e_layout s))) (e_line s) l r Hb Hp) as [_ H].
    destruct (H Hin) as [a [c [p [ev [Hl [Hnc [Hm [Hbd Hle]]]]]]]].
    destruct (line_up_true n s p ev Hm) as [s2 [Hr [E1 [E2 [E3 [E4 [E5 E6]]]]]]].
    exists s2, a, c. exec_head s. rewrite (ebind_ok _ _ s true s2 Hr).
    split; [reflexivity|].
    split; [unfold untouched; rewrite E1, E2, E3, E4, E5, E6; cbn; repeat split|].
    split; [exact Hl|]. split; [exact Hnc|]. rewrite E1. cbn. split; [exact Hle|exact Hbd].
  Qed.

  (* UP on the top line: exactly the history step *)
  Theorem up_on_top_line n s l r :
    buf (e_line s) = l ++ r -> pos (e_line s) = blen l -> ~ In LF l ->
    execute U cfg (CLineUpOrPreviousHistory n) s = execute U cfg CPreviousHistory s.
  Proof.
    intros Hb Hp Hn.
    destruct (move_to_line_up_spec seg seg_concat' seg_nonempty'' (layout_w U) n
                (p_col (l_prompt_size (e_layout s))) (e_line s) l r Hb Hp) as [H _].
    destruct (H Hn) as [ev Hm].
    exec_head s. rewrite (ebind_ok _ _ s false s (line_up_false n s ev Hm)). reflexivity.
  Qed.

  (* DOWN with a line break somewhere after the cursor *)
  Theorem down_inside_text n s l r :
    buf (e_line s) = l ++ r -> pos (e_line s) = blen l -> In LF r ->
    exists s' a c, execute U cfg (CLineDownOrNextHistory n) s = EOk Proceed s' /\ untouched s s'
      /\ r = a ++ LF :: c /\ ~ In LF a /\ blen l + blen a + 1 <= pos (e_line s') /\ wf (e_line s').
  Proof.
    intros Hb Hp Hin.
    destruct (move_to_line_down_spec seg seg_concat' seg_nonempty'' (layout_w U) n
                (p_col (l_prompt_size (e_layout s))) (e_line s) l r Hb Hp) as [_ H].
    destruct (H Hin) as [a [c [p [ev [Hl [Hnc [Hm [Hbd Hle]]]]]]]].
    destruct (line_down_true n s p ev Hm) as [s2 [Hr [E1 [E2 [E3 [E4 [E5 E6]]]]]]].
    exists s2, a, c. exec_head s. rewrite (ebind_ok _ _ s true s2 Hr).
    split; [reflexivity|].
    split; [unfold untouched; rewrite E1, E2, E3, E4, E5, E6; cbn; repeat split|].
    split; [exact Hl|]. split; [exact Hnc|]. rewrite E1. cbn. split; [exact Hle|exact Hbd].
  Qed.

  Theorem down_on_bottom_line n s l r :
    buf (e_line s) = l ++ r -> pos (e_line s) = blen l -> ~ In LF r ->
    execute U cfg (CLineDownOrNextHistory n) s = execute U cfg CNextHistory s.
  Proof.
    intros Hb Hp Hn.
    destruct (move_to_line_down_spec seg seg_concat' seg_nonempty'' (layout_w U) n
                (p_col (l_prompt_size (e_layout s))) (e_line s) l r Hb Hp) as [H _].
    destruct (H Hn) as [ev Hm].
    exec_head s. rewrite (ebind_ok _ _ s false s (line_down_false n s ev Hm)). reflexivity.
  Qed.
End EditorLevel.

(* ---------- editing a recalled entry changes only the edit buffer ---------- *)
(* What a recall shows is a function of the stored list, the position in it and the saved line
   (RecallProofs: previous_shows_entry, next_shows_entry, next_restores_line). No command other
   than the history commands writes any of the three. *)

Definition keeps_nav {A} (m : E A) : Prop :=
  forall s a s', m s = EOk a s' -> e_hist s' = e_hist s /\ e_hidx s' = e_hidx s /\ e_saved s' = e_saved s.
Lemma kn_bind {A B} (m : E A) (f : A -> E B) : keeps_nav m -> (forall a, keeps_nav (f a)) -> keeps_nav (ebind m f).
Proof.
  intros Hm Hf s b s2 H. apply EditorProofs.ebind_inv in H. destruct H as [a [s1 [H1 H2]]].
  destruct (Hm _ _ _ H1) as [A1 [A2 A3]]. destruct (Hf _ _ _ _ H2) as [B1 [B2 B3]]. repeat split; congruence.
Qed.
Ltac kn_leaf := intros s a' s' H; first [discriminate | inversion H; subst; repeat split].
Lemma kn_ret {A} (a : A) : keeps_nav (eret a). Proof. kn_leaf. Qed.
Lemma kn_get : keeps_nav eget. Proof. kn_leaf. Qed.
Lemma kn_fail {A} e : keeps_nav (@efail A e). Proof. kn_leaf. Qed.
Lemma kn_panic {A} : keeps_nav (@epanic A). Proof. kn_leaf. Qed.
Lemma kn_fuel {A} : keeps_nav (@efuel A). Proof. kn_leaf. Qed.
Lemma kn_write b : keeps_nav (write b). Proof. kn_leaf. Qed.
Lemma kn_set_layout l : keeps_nav (set_layout l). Proof. kn_leaf. Qed.
Lemma kn_set_hint h : keeps_nav (set_hint h). Proof. kn_leaf. Qed.
Lemma kn_set_kr k : keeps_nav (set_kr k). Proof. kn_leaf. Qed.
Lemma kn_set_changes k : keeps_nav (set_changes k). Proof. kn_leaf. Qed.
Lemma kn_set_line k : keeps_nav (set_line k). Proof. kn_leaf. Qed.
Lemma kn_observe o : keeps_nav (observe o). Proof. kn_leaf. Qed.
Lemma kn_set_input_mode m : keeps_nav (set_input_mode m). Proof. kn_leaf. Qed.
Lemma kn_set_num_args z : keeps_nav (set_num_args z). Proof. kn_leaf. Qed.
Lemma kn_set_last_cmd c : keeps_nav (set_last_cmd c). Proof. kn_leaf. Qed.
Lemma kn_set_last_cs c : keeps_nav (set_last_cs c). Proof. kn_leaf. Qed.
Lemma kn_set_inp i : keeps_nav (set_inp i). Proof. kn_leaf. Qed.

Ltac kn_auto :=
  repeat (first [ apply kn_ret | apply kn_get | apply kn_fail | apply kn_panic | apply kn_fuel | apply kn_write
                | apply kn_set_layout | apply kn_set_hint | apply kn_set_kr
                | apply kn_set_changes | apply kn_set_line
                | apply kn_observe | apply kn_set_input_mode | apply kn_set_num_args | apply kn_set_last_cmd
                | apply kn_set_last_cs | apply kn_set_inp
                | match goal with |- keeps_nav (ebind _ _) => apply kn_bind; [|intros] end ] ||
          match goal with
          | |- keeps_nav (if ?c then _ else _) => destruct c
          | |- keeps_nav (match ?x with _ => _ end) => destruct x
          | |- keeps_nav (let '(_, _) := ?x in _) => destruct x
          | |- keeps_nav (let _ := _ in _) => cbv zeta
          end).

(* the commands that are not history navigation *)
Definition edit_cmd (c : cmd) : bool :=
  match c with
  | CBeginningOfHistory | CEndOfHistory | CNextHistory | CPreviousHistory
  | CHistorySearchBackward | CHistorySearchForward
  | CLineUpOrPreviousHistory _ | CLineDownOrNextHistory _ => false
  | _ => true
  end.

Section Edits.
  Variable U : UData.
  Variable cfg : config.

  Theorem execute_keeps_nav c : edit_cmd c = true -> keeps_nav (execute U cfg c).
  Proof.
    intros Hc.
    unfold execute, complete_hint_line, edit_insert, edit_yank, edit_yank_pop, edit_kill, edit_insert_text,
      edit_replace_char, edit_overwrite_char, grouped, moved, edit_move_line_up, edit_move_line_down,
      validate, beep,
      refresh_line, refresh_line_with_msg, refresh_prompt_and_line, refresh, update_hint, move_cursor,
      move_cursor_to_end, lb_changes, lb_quiet, lb_kill, changes_begin, changes_end.
    destruct c; try discriminate Hc; kn_auto.
  Qed.

  (* so: after any edit of a recalled entry, moving up shows the next older STORED entry, exactly *)
  Theorem edit_then_previous c s st s1 entry :
    edit_cmd c = true -> execute U cfg c s = EOk st s1 -> grow (e_line s1) = true ->
    0 < e_hidx s <= RecallSpec.hlen s -> nth_error (e_hist s) (e_hidx s - 1) = Some entry ->
    exists s', edit_history_next U cfg true s1 = EOk tt s'
      /\ buf (e_line s') = entry /\ pos (e_line s') = blen entry /\ e_hidx s' = e_hidx s - 1 /\ e_hist s' = e_hist s.
  Proof.
    intros Hc He Hg Hi Hn. destruct (execute_keeps_nav c Hc _ _ _ He) as [E1 [E2 E3]].
    destruct (RecallSpec.previous_shows_entry U cfg s1 entry) as [s' [H1 [H2 [H3 [H4 [H5 _]]]]]].
    - unfold RecallSpec.hlen in *. rewrite E1, E2. exact Hi.
    - rewrite E1, E2. exact Hn.
    - exact Hg.
    - exists s'. split; [exact H1|]. repeat split; congruence.
  Qed.

  (* ... moving down shows the next newer stored entry ... *)
  Theorem edit_then_next c s st s1 entry :
    edit_cmd c = true -> execute U cfg c s = EOk st s1 -> grow (e_line s1) = true ->
    S (e_hidx s) < RecallSpec.hlen s -> nth_error (e_hist s) (S (e_hidx s)) = Some entry ->
    exists s', edit_history_next U cfg false s1 = EOk tt s'
      /\ buf (e_line s') = entry /\ pos (e_line s') = blen entry /\ e_hidx s' = S (e_hidx s) /\ e_hist s' = e_hist s.
  Proof.
    intros Hc He Hg Hi Hn. destruct (execute_keeps_nav c Hc _ _ _ He) as [E1 [E2 E3]].
    destruct (RecallSpec.next_shows_entry U cfg s1 entry) as [s' [H1 [H2 [H3 [H4 [H5 _]]]]]].
    - unfold RecallSpec.hlen in *. rewrite E1, E2. exact Hi.
    - rewrite E1, E2. exact Hn.
    - exact Hg.
    - exists s'. split; [exact H1|]. repeat split; congruence.
  Qed.

  (* ... and past the newest entry the line that was being typed comes back, not the edited entry *)
  Theorem edit_then_restore c s st s1 :
    edit_cmd c = true -> execute U cfg c s = EOk st s1 -> grow (e_line s1) = true ->
    S (e_hidx s) = RecallSpec.hlen s -> snd (e_saved s) <= blen (fst (e_saved s)) ->
    exists s', edit_history_next U cfg false s1 = EOk tt s'
      /\ buf (e_line s') = fst (e_saved s) /\ pos (e_line s') = snd (e_saved s) /\ e_hidx s' = RecallSpec.hlen s
      /\ e_hist s' = e_hist s.
  Proof.
    intros Hc He Hg Hi Hs. destruct (execute_keeps_nav c Hc _ _ _ He) as [E1 [E2 E3]].
    destruct (RecallSpec.next_restores_line U cfg s1) as [s' [H1 [H2 [H3 [H4 H5]]]]].
    - unfold RecallSpec.hlen in *. rewrite E1, E2. exact Hi.
    - rewrite E3. exact Hs.
    - exact Hg.
    - exists s'. split; [exact H1|]. unfold RecallSpec.hlen in *. rewrite E3 in H2, H3. rewrite E1 in H4, H5. repeat split; congruence.
  Qed.
End Edits.
