(* C02 (partial chain, continued): a full refresh_line, interpreted by the terminal of Spec/Vt.v, turns ANY
   screen on which the old layout's bookkeeping is right into exactly the prompt + line laid out on a blank
   screen, with the cursor on the cell of the logical cursor -- for text of width-1 characters. *)
From Coq Require Import List Bool Arith NArith Lia.
From RL Require Import UData Render Vt VtProofs.
Import ListNotations.

(* the operations refresh_line performs, and their encoding = the bytes Render.refresh_bytes writes *)
Definition clear_ops (old : layout) : list op :=
  let mv := p_row (l_end old) - p_row (l_cursor old) in
  (if Nat.ltb 0 mv then [ODown mv] else [])
    ++ concat (repeat [OCr; OEraseEol; OUp1] (p_row (l_end old)))
    ++ [OCr; OEraseEol].
Definition tail_ops (line : str) (new : layout) : list op :=
  let cursor := l_cursor new in
  let e := l_end new in
  (if Nat.eqb (p_col e) 0 && Nat.ltb 0 (p_row e) && negb (ends_with_lf line) then [OLf] else [])
    ++ (let up := p_row e - p_row cursor in if Nat.ltb 0 up then [OUp up] else [])
    ++ (if Nat.ltb 0 (p_col cursor) then [OCr; ORight (p_col cursor)] else [OCr]).
Definition refresh_ops (prompt line : str) (old new : layout) : list op :=
  clear_ops old ++ [OPrint prompt; OPrint line] ++ tail_ops line new.

Definition encode (o : op) : str :=
  match o with
  | OPrint s => s
  | OCr => [13%N]
  | OLf => [10%N]
  | OUp1 => [27; 91; 65]%N
  | OUp n => csi n 65%N
  | ODown n => csi n 66%N
  | ORight n => csi n 67%N
  | ODown1 => [27; 91; 66]%N
  | ORight1 => [27; 91; 67]%N
  | OLeft1 => [27; 91; 68]%N
  | OLeft n => csi n 68%N
  | OEraseEol => [27; 91; 75]%N
  end.
Definition encode_all (ops : list op) : str := concat (map encode ops).

Lemma encode_all_app a b : encode_all (a ++ b) = encode_all a ++ encode_all b.
Proof. unfold encode_all. rewrite map_app, concat_app. reflexivity. Qed.

Lemma encode_clear_loop k :
  encode_all (concat (repeat [OCr; OEraseEol; OUp1] k)) = concat (repeat [13; 27; 91; 75; 27; 91; 65]%N k).
Proof.
  induction k as [|k IH]; [reflexivity|]. cbn [repeat concat]. rewrite encode_all_app, IH. reflexivity.
Qed.

(* the bytes the render model writes for a refresh without hint are exactly the encoding of refresh_ops *)
Theorem refresh_bytes_encode prompt line old new :
  refresh_bytes prompt line line None old new = encode_all (refresh_ops prompt line old new).
Proof.
  unfold refresh_bytes, refresh_ops, clear_old_rows, clear_ops, tail_ops.
  rewrite !encode_all_app, encode_clear_loop.
  destruct (Nat.ltb 0 (p_row (l_end old) - p_row (l_cursor old)));
    destruct (Nat.eqb (p_col (l_end new)) 0 && Nat.ltb 0 (p_row (l_end new)) && negb (ends_with_lf line));
    destruct (Nat.ltb 0 (p_row (l_end new) - p_row (l_cursor new)));
    destruct (Nat.ltb 0 (p_col (l_cursor new)));
    cbn [encode_all map concat encode app ESC]; rewrite ?app_nil_r, <- ?app_assoc; reflexivity.
Qed.

Section Refresh.
  Variable W : nat.
  Hypothesis HW : 1 <= W.

  (* two terminal states that show the same thing *)
  Definition same (v v' : vt) : Prop :=
    v_row v = v_row v' /\ v_col v = v_col v' /\ v_pending v = v_pending v' /\ forall r c, v_cells v r c = v_cells v' r c.
  Lemma same_refl v : same v v. Proof. repeat split. Qed.
  Lemma print_cons ch s v : print W (ch :: s) v = print W s (put1 W ch v).
  Proof. reflexivity. Qed.

  Lemma put1_same ch v v' : same v v' -> same (put1 W ch v) (put1 W ch v').
  Proof.
    intros [Hr [Hc [Hp Hcells]]]. unfold put1. rewrite <- Hr, <- Hc, <- Hp.
    set (r := if v_pending v then S (v_row v) else v_row v). set (c := if v_pending v then 0 else v_col v).
    assert (Hu : forall r' c', upd (v_cells v) r c (Some ch) r' c' = upd (v_cells v') r c (Some ch) r' c').
    { intros r' c'. unfold upd. destruct (Nat.eqb r r' && Nat.eqb c c'); [reflexivity|apply Hcells]. }
    destruct (Nat.eqb (S c) W); repeat split; exact Hu.
  Qed.
  Lemma print_same s : forall v v', same v v' -> same (print W s v) (print W s v').
  Proof. induction s as [|ch s IH]; intros v v' H; [exact H|]. rewrite !print_cons. apply IH, put1_same, H. Qed.
  Lemma print_app a b v : print W (a ++ b) v = print W b (print W a v).
  Proof. unfold print. apply fold_left_app. Qed.

  (* printing never moves up, and writes no row below the one it ends on *)
  Lemma put1_row ch v : v_row v <= v_row (put1 W ch v).
  Proof. unfold put1. destruct (v_pending v); destruct (Nat.eqb _ W); cbn [v_row]; lia. Qed.
  Lemma print_row s : forall v, v_row v <= v_row (print W s v).
  Proof.
    induction s as [|ch s IH]; intros v; [apply le_n|]. rewrite print_cons.
    etransitivity; [apply put1_row|apply IH].
  Qed.
  Lemma put1_below ch v r c : v_row (put1 W ch v) < r -> v_cells (put1 W ch v) r c = v_cells v r c.
  Proof.
    unfold put1. destruct (v_pending v); destruct (Nat.eqb _ W); cbn [v_row v_cells]; intros H; unfold upd;
      match goal with |- (if ?b then _ else _) = _ => replace b with false; [reflexivity|] end;
      symmetry; apply andb_false_iff; left; apply Nat.eqb_neq; lia.
  Qed.
  Lemma print_below s : forall v r c, v_row (print W s v) < r -> v_cells (print W s v) r c = v_cells v r c.
  Proof.
    induction s as [|ch s IH]; intros v r c H; [reflexivity|]. rewrite print_cons in *.
    rewrite IH by exact H. apply put1_below. pose proof (print_row s (put1 W ch v)). lia.
  Qed.

  (* the normalised state: same screen, the cursor where the next character goes *)
  Definition nstate (v : vt) : vt := if v_pending v then mkVt (S (v_row v)) 0 false (v_cells v) else v.
  Lemma nstate_wf v : wf W v -> wf W (nstate v).
  Proof. intros [H1 H2]. unfold nstate. destruct (v_pending v) eqn:E; [split; cbn; [lia|discriminate]|split; [exact H1|intros Hp; rewrite E in Hp; discriminate]]. Qed.
  Lemma nstate_epos v : epos W (nstate v) = next_cell v.
  Proof. unfold nstate, epos, next_cell. destruct (v_pending v) eqn:E; cbn; [reflexivity|rewrite E; reflexivity]. Qed.
  Lemma put1_nstate ch v : put1 W ch (nstate v) = put1 W ch v.
  Proof. unfold nstate, put1. destruct (v_pending v) eqn:E; cbn [v_pending v_row v_col v_cells]; rewrite ?E; reflexivity. Qed.
  Lemma print_nstate s v : next_cell (print W s (nstate v)) = next_cell (print W s v).
  Proof.
    destruct s as [|ch s]; [cbn [print fold_left]|rewrite !print_cons].
    - unfold nstate, next_cell. destruct (v_pending v) eqn:E; cbn; [reflexivity|rewrite E; reflexivity].
    - rewrite put1_nstate. reflexivity.
  Qed.
End Refresh.

Section Layout.
  Variable U : UData.
  Variable seg : str -> list str.
  Variable W : nat.
  Variable tab_stop : nat.
  Hypothesis HW : 1 <= W.

  Definition posN (p : nat * nat) : pos2 := mkP (snd p) (fst p).

  Lemma wf_vt0 : wf W vt0. Proof. split; cbn; [lia|discriminate]. Qed.

  (* calculate_position from a (normalised) cell = the cell where the terminal continues *)
  Lemma cp_from_next s v :
    plain U seg s -> wf W v ->
    calculate_position U seg W tab_stop s (posN (next_cell v)) = posN (next_cell (print W s v)).
  Proof.
    intros Hs Hv. rewrite <- (nstate_epos W v).
    pose proof (layout_agrees U seg W tab_stop HW s (nstate v) Hs (nstate_wf W HW v Hv)) as H.
    unfold pos_of, posN in *. rewrite H. cbv zeta. rewrite (print_nstate W s v). reflexivity.
  Qed.

  Lemma print_wf s v : Forall (plain_char U) s -> wf W v -> wf W (print W s v).
  Proof. intros Hs Hv. exact (proj2 (print_agrees U W tab_stop HW s v Hs Hv)). Qed.

  (* the layout rustyline computes for prompt p and a line before|after the cursor, in terminal terms *)
  Theorem compute_layout_cells p before after :
    plain U seg p -> plain U seg before -> plain U seg after ->
    let ps := calculate_position U seg W tab_stop p P0 in
    let lay := compute_layout U seg W tab_stop ps true before after None in
    ps = posN (next_cell (print W p vt0))
    /\ l_cursor lay = posN (next_cell (print W (p ++ before) vt0))
    /\ l_end lay = posN (next_cell (print W (p ++ before ++ after) vt0)).
  Proof.
    intros Hp Hb Ha ps lay.
    assert (Hps : ps = posN (next_cell (print W p vt0))).
    { unfold ps. change P0 with (posN (next_cell vt0)). apply cp_from_next; [exact Hp|apply wf_vt0]. }
    assert (Hwp : wf W (print W p vt0)) by (apply print_wf; [exact (proj1 Hp)|apply wf_vt0]).
    assert (Hcur : l_cursor lay = posN (next_cell (print W (p ++ before) vt0))).
    { unfold lay, compute_layout. cbn [l_cursor]. rewrite Hps, (cp_from_next before _ Hb Hwp), (print_app W). reflexivity. }
    split; [exact Hps|]. split; [exact Hcur|].
    unfold lay, compute_layout. cbn [l_end]. fold ps.
    assert (Hc2 : calculate_position U seg W tab_stop before ps = posN (next_cell (print W (p ++ before) vt0))) by exact Hcur.
    destruct after as [|a after'].
    - rewrite app_nil_r. exact Hc2.
    - rewrite Hc2.
      assert (Hwb : wf W (print W (p ++ before) vt0)).
      { apply print_wf; [apply Forall_app; split; [exact (proj1 Hp)|exact (proj1 Hb)]|apply wf_vt0]. }
      rewrite (cp_from_next (a :: after') _ Ha Hwb). rewrite <- (print_app W), <- app_assoc. reflexivity.
  Qed.
End Layout.

Section RefreshOk.
  Variable U : UData.
  Variable seg : str -> list str.
  Variable W : nat.
  Variable tab_stop : nat.
  Hypothesis HW : 1 <= W.

  Definition blank_below (v : vt) (R : nat) : Prop := forall r c, R < r -> v_cells v r c = None.
  Definition all_blank (v : vt) : Prop := forall r c, v_cells v r c = None.

  (* ---------- clearing the old rows ---------- *)

  Lemma clear_row v :
    let v' := erase_eol (cr v) in
    v_row v' = v_row v /\ v_col v' = 0 /\ v_pending v' = false
    /\ (forall c, v_cells v' (v_row v) c = None)
    /\ (forall r c, r <> v_row v -> v_cells v' r c = v_cells v r c).
  Proof.
    cbn [erase_eol cr v_row v_col v_pending v_cells]. repeat split.
    - intros c. rewrite Nat.eqb_refl. reflexivity.
    - intros r c Hr. replace (Nat.eqb r (v_row v)) with false by (symmetry; apply Nat.eqb_neq; exact Hr). reflexivity.
  Qed.

  Lemma clear_loop k : forall v,
    v_row v = k -> blank_below v k ->
    let v' := run W (concat (repeat [OCr; OEraseEol; OUp1] k) ++ [OCr; OEraseEol]) v in
    v_row v' = 0 /\ v_col v' = 0 /\ v_pending v' = false /\ all_blank v'.
  Proof.
    induction k as [|k IH]; intros v Hr Hb.
    - cbn [repeat concat app run fold_left run1].
      destruct (clear_row v) as [H1 [H2 [H3 [H4 H5]]]]. rewrite Hr in *.
      split; [exact H1|]. split; [exact H2|]. split; [exact H3|].
      intros r c. destruct (Nat.eq_dec r 0) as [->|Hn]; [apply H4|]. rewrite H5 by exact Hn. apply Hb. lia.
    - cbn [repeat concat app run fold_left run1].
      destruct (clear_row v) as [H1 [H2 [H3 [H4 H5]]]]. rewrite Hr in *.
      set (v1 := up 1 (erase_eol (cr v))).
      change (fold_left (run1 W) (concat (repeat [OCr; OEraseEol; OUp1] k) ++ [OCr; OEraseEol]) v1)
        with (run W (concat (repeat [OCr; OEraseEol; OUp1] k) ++ [OCr; OEraseEol]) v1).
      apply IH.
      + unfold v1. cbn [up v_row]. rewrite H1. lia.
      + intros r c Hrk. unfold v1. cbn [up v_cells].
        destruct (Nat.eq_dec r (S k)) as [->|Hn]; [apply H4|]. rewrite H5 by exact Hn. apply Hb. lia.
  Qed.

  Lemma clear_phase old v :
    v_row v = p_row (l_cursor old) -> p_row (l_cursor old) <= p_row (l_end old) -> blank_below v (p_row (l_end old)) ->
    let v' := run W (clear_ops old) v in
    v_row v' = 0 /\ v_col v' = 0 /\ v_pending v' = false /\ all_blank v'.
  Proof.
    intros Hr Hle Hb. unfold clear_ops.
    destruct (Nat.ltb 0 (p_row (l_end old) - p_row (l_cursor old))) eqn:E.
    - cbn [app run fold_left run1].
      change (fold_left (run1 W) ?ops ?x) with (run W ops x).
      apply clear_loop; [cbn [down v_row]; lia|exact Hb].
    - apply Nat.ltb_ge in E. cbn [app]. apply clear_loop; [lia|exact Hb].
  Qed.

  (* ---------- facts about printing from the anchor ---------- *)

  Lemma put1_col_pos ch v : v_pending (put1 W ch v) = false -> 1 <= v_col (put1 W ch v).
  Proof. unfold put1. destruct (Nat.eqb _ W); cbn [v_pending v_col]; [discriminate|lia]. Qed.

  Lemma print_last s ch v : print W (s ++ [ch]) v = put1 W ch (print W s v).
  Proof. rewrite print_app. reflexivity. Qed.

  (* from the anchor: column 0 without a pending wrap only on the anchor row itself (nothing printed) *)
  Lemma col0_row0 s : v_pending (print W s vt0) = false -> v_col (print W s vt0) = 0 -> v_row (print W s vt0) = 0.
  Proof.
    destruct s as [|c s'] using rev_ind; [reflexivity|]. rewrite print_last. intros Hp Hc.
    pose proof (put1_col_pos c _ Hp). lia.
  Qed.

  Lemma next_cell_row_mono b v : wf W v -> fst (next_cell v) <= fst (next_cell (print W b v)).
  Proof.
    intros Hv. destruct b as [|c b'].
    - apply le_n.
    - rewrite print_cons. unfold next_cell at 1. destruct (v_pending v) eqn:E; cbn [fst].
      + assert (S (v_row v) <= v_row (put1 W c v)) by (unfold put1; rewrite E; destruct (Nat.eqb _ W); cbn; lia).
        pose proof (print_row W HW b' (put1 W c v)). unfold next_cell. destruct (v_pending (print W b' (put1 W c v))); cbn [fst]; lia.
      + pose proof (put1_row W HW c v). pose proof (print_row W HW b' (put1 W c v)).
        unfold next_cell. destruct (v_pending (print W b' (put1 W c v))); cbn [fst]; lia.
  Qed.

  Lemma next_cell_col v : wf W v -> snd (next_cell v) < W.
  Proof. intros [H1 H2]. unfold next_cell. destruct (v_pending v); cbn [snd]; lia. Qed.

  Lemma plain_no_lf s : Forall (plain_char U) s -> ends_with_lf s = false.
  Proof.
    induction 1 as [|c s Hc Hs IH]; [reflexivity|]. cbn [ends_with_lf]. destruct s as [|c2 s'].
    - destruct Hc as [_ [H10 _]]. apply N.eqb_neq. exact H10.
    - exact IH.
  Qed.

  (* ---------- the theorem ---------- *)

  (* the bookkeeping a layout makes about a screen: the cursor row, and nothing drawn below the end row *)
  Definition tracks (lay : layout) (v : vt) : Prop :=
    v_row v = p_row (l_cursor lay) /\ p_row (l_cursor lay) <= p_row (l_end lay) /\ blank_below v (p_row (l_end lay)).

  Theorem refresh_ok_partial p before after old v :
    plain U seg p -> plain U seg before -> plain U seg after ->
    tracks old v ->
    let line := before ++ after in
    let new := compute_layout U seg W tab_stop (calculate_position U seg W tab_stop p P0) true before after None in
    let v' := run W (refresh_ops p line old new) v in
    (forall r c, v_cells v' r c = shown W (p ++ line) r c)
    /\ cursor_cell v' = next_cell (print W (p ++ before) vt0)
    /\ v_pending v' = false
    /\ tracks new v'.
  Proof.
    intros Hp Hb Ha [Hrow [Hle Hbl]] line new v'.
    destruct (compute_layout_cells U seg W tab_stop HW p before after Hp Hb Ha) as [_ [Hcur Hend]].
    fold new in Hcur, Hend. fold line in Hend.
    (* 1. clear *)
    unfold v', refresh_ops, run. rewrite fold_left_app.
    change (fold_left (run1 W) (clear_ops old) v) with (run W (clear_ops old) v).
    destruct (clear_phase old v Hrow Hle Hbl) as [C1 [C2 [C3 C4]]].
    set (vc := run W (clear_ops old) v) in *.
    (* 2. print prompt and line on the blank screen *)
    rewrite fold_left_app. cbn [fold_left run1].
    rewrite <- (print_app W p line vc).
    assert (Hsame : same vc vt0) by (repeat split; try assumption; intros r c; apply C4).
    pose proof (print_same W (p ++ line) vc vt0 Hsame) as [S1 [S2 [S3 S4]]].
    set (v1 := print W (p ++ line) vc) in *. set (vs := print W (p ++ line) vt0) in *.
    assert (Hall : Forall (plain_char U) (p ++ line)).
    { unfold line. apply Forall_app. split; [exact (proj1 Hp)|apply Forall_app; split; [exact (proj1 Hb)|exact (proj1 Ha)]]. }
    assert (Hwfs : wf W vs) by (apply (print_wf U W tab_stop HW); [exact Hall|apply wf_vt0; exact HW]).
    assert (Hwfb : wf W (print W (p ++ before) vt0)).
    { apply (print_wf U W tab_stop HW); [apply Forall_app; split; [exact (proj1 Hp)|exact (proj1 Hb)]|apply wf_vt0; exact HW]. }
    (* 3. the tail: own line feed after a full last row, up to the cursor row, to the cursor column *)
    assert (Hlf : ends_with_lf line = false).
    { apply plain_no_lf. unfold line. apply Forall_app. split; [exact (proj1 Hb)|exact (proj1 Ha)]. }
    unfold tail_ops. rewrite Hlf, Hend, Hcur. cbn [posN p_col p_row negb andb].
    set (cur := next_cell (print W (p ++ before) vt0)) in *.
    assert (Hmono : fst cur <= fst (next_cell vs)).
    { unfold cur, vs, line. rewrite app_assoc, (print_app W (p ++ before) after). apply next_cell_row_mono. exact Hwfb. }
    assert (Hccol : snd cur < W) by (apply next_cell_col; exact Hwfb).
    (* the state after the optional line feed: cursor on the end cell, nothing pending *)
    assert (Hstep1 : exists v2,
               fold_left (run1 W) ((if Nat.eqb (snd (next_cell vs)) 0 && Nat.ltb 0 (fst (next_cell vs)) && true then [OLf] else [])) v1 = v2
               /\ v_row v2 = fst (next_cell vs) /\ v_pending v2 = false /\ (forall r c, v_cells v2 r c = v_cells v1 r c)).
    { unfold next_cell. destruct (v_pending vs) eqn:Epend.
      - cbn [fst snd Nat.eqb Nat.ltb Nat.leb andb fold_left run1]. eexists. split; [reflexivity|].
        cbn [lf cr v_row v_pending v_cells]. rewrite S1. repeat split.
      - cbn [fst snd]. destruct (Nat.eqb (v_col vs) 0 && Nat.ltb 0 (v_row vs) && true) eqn:Ec.
        + exfalso. apply andb_true_iff in Ec. destruct Ec as [Ec _]. apply andb_true_iff in Ec. destruct Ec as [E0 Er].
          apply Nat.eqb_eq in E0. apply Nat.ltb_lt in Er. pose proof (col0_row0 (p ++ line) Epend E0). fold vs in H. lia.
        + cbn [fold_left]. eexists. split; [reflexivity|]. rewrite S1, S3. repeat split; try exact Epend. }
    rewrite !fold_left_app. destruct Hstep1 as [v2 [E2 [R2 [P2 Cells2]]]]. rewrite E2.
    (* up to the cursor row *)
    set (upn := fst (next_cell vs) - fst cur).
    assert (Hstep2 : exists v3, fold_left (run1 W) (if Nat.ltb 0 upn then [OUp upn] else []) v2 = v3
                               /\ v_row v3 = fst cur /\ (forall r c, v_cells v3 r c = v_cells v2 r c)).
    { destruct (Nat.ltb 0 upn) eqn:Eu; cbn [fold_left run1].
      - eexists. split; [reflexivity|]. cbn [up v_row v_cells]. split; [unfold upn; lia|reflexivity].
      - apply Nat.ltb_ge in Eu. eexists. split; [reflexivity|]. split; [unfold upn in Eu; lia|reflexivity]. }
    destruct Hstep2 as [v3 [E3 [R3 Cells3]]]. rewrite E3.
    (* to the cursor column *)
    assert (Hfin : forall vf, vf = fold_left (run1 W) (if Nat.ltb 0 (snd cur) then [OCr; ORight (snd cur)] else [OCr]) v3 ->
                   v_row vf = fst cur /\ v_col vf = snd cur /\ v_pending vf = false /\ (forall r c, v_cells vf r c = v_cells v3 r c)).
    { intros vf ->. destruct (Nat.ltb 0 (snd cur)) eqn:Ecc; cbn [fold_left run1 cr right v_row v_col v_pending v_cells].
      - repeat split; [exact R3|]. rewrite Nat.min_r by lia. lia.
      - apply Nat.ltb_ge in Ecc. repeat split; [exact R3|lia]. }
    destruct (Hfin _ eq_refl) as [Rf [Cf [Pf Cellsf]]].
    set (vf := fold_left (run1 W) (if Nat.ltb 0 (snd cur) then [OCr; ORight (snd cur)] else [OCr]) v3) in *.
    assert (Hcells : forall r c, v_cells vf r c = shown W (p ++ line) r c).
    { intros r c. rewrite Cellsf, Cells3, Cells2. unfold shown. fold vs. apply S4. }
    split; [exact Hcells|]. split; [unfold cursor_cell; rewrite Rf, Cf; destruct cur; reflexivity|]. split; [exact Pf|].
    (* the new layout's bookkeeping is right about the new screen *)
    unfold tracks. rewrite Hcur, Hend. cbn [posN p_row]. split; [exact Rf|]. split; [exact Hmono|].
    intros r c Hr. rewrite Hcells. unfold shown.
    rewrite (print_below W HW (p ++ line) vt0 r c); [reflexivity|].
    fold vs. unfold next_cell in Hr. destruct (v_pending vs); cbn [fst] in Hr; lia.
  Qed.

  (* ... and so through any sequence of full redraws (any sequence of texts and cursor positions): after each one
     the screen is exactly the prompt + that text, the cursor on the logical cursor *)
  Fixpoint redraws (p : str) (edits : list (str * str)) (old : layout) (v : vt) : layout * vt :=
    match edits with
    | [] => (old, v)
    | (before, after) :: rest =>
      let new := compute_layout U seg W tab_stop (calculate_position U seg W tab_stop p P0) true before after None in
      redraws p rest new (run W (refresh_ops p (before ++ after) old new) v)
    end.

  Theorem redraws_ok p edits : forall old v before after,
    plain U seg p -> Forall (fun e => plain U seg (fst e) /\ plain U seg (snd e)) (edits ++ [(before, after)]) ->
    tracks old v ->
    let '(lay, v') := redraws p (edits ++ [(before, after)]) old v in
    (forall r c, v_cells v' r c = shown W (p ++ before ++ after) r c)
    /\ cursor_cell v' = next_cell (print W (p ++ before) vt0)
    /\ v_pending v' = false /\ tracks lay v'.
  Proof.
    induction edits as [|[b a] edits IH]; intros old v before after Hp Hall Ht; cbn [app redraws].
    - inversion Hall as [|e es [Hb Ha] _]; subst. cbn [fst snd] in *.
      exact (refresh_ok_partial p before after old v Hp Hb Ha Ht).
    - inversion Hall as [|e es [Hb Ha] Hrest]; subst. cbn [fst snd] in *.
      destruct (refresh_ok_partial p b a old v Hp Hb Ha Ht) as [_ [_ [_ Ht']]].
      apply IH; assumption.
  Qed.
End RefreshOk.
