(* C13: what Enter does under each verdict of the validator. *)
From RL Require Import UData LineBuffer Keys Editor EditorRun EditorProofs.

Lemma refresh_bytes_shows_msg prompt shown raw m old new :
  exists pre post, Render.refresh_bytes prompt shown raw (Some m) old new = pre ++ m ++ post.
Proof.
  unfold Render.refresh_bytes. eexists (Render.clear_old_rows old ++ prompt ++ shown), _.
  rewrite <- !app_assoc. reflexivity.
Qed.

Section Validate.
  Variable U : UData.
  Variable cfg : config.

  (* the steps around the validator only touch the display and the undo markers *)
  Definition same_edit (s s' : est) : Prop :=
    e_line s' = e_line s /\ e_kr s' = e_kr s /\ e_hist s' = e_hist s /\ e_inp s' = e_inp s.

  Lemma pre_refresh_total s :
    exists s1, (if match e_hint s with Some _ => true | None => false end || negb (is_default_prompt s)
                then refresh_line_with_msg U cfg None else eret tt) s = EOk tt s1
               /\ same_edit s s1 /\ e_changes s1 = e_changes s.
  Proof.
    destruct (match e_hint s with Some _ => true | None => false end || negb (is_default_prompt s)).
    - unfold refresh_line_with_msg, ebind, set_hint, eget, refresh, write, set_layout. cbn.
      eexists. split; [reflexivity|]. repeat split.
    - eexists. split; [reflexivity|]. repeat split.
  Qed.

  (* validate() when the verdict is not an error: total, leaves the text alone, and with a message
     the message is written to the terminal (after the line) *)
  Ltac run_validate :=
    unfold validate, changes_begin, changes_end, cs_begin, cs_end, refresh_line_with_msg, refresh, set_hint,
      set_changes, set_layout, write, ebind, eget, eret, efail;
    cbn [e_line e_changes e_kr e_hist e_hidx e_saved e_hint e_layout e_prompt e_prompt_size i_input_mode
         i_num_args i_last_cmd i_last_cs e_inp e_out e_obs cs_level cs_undos].

  Lemma validate_total s r :
    c_has_helper cfg = true -> c_validate cfg (buf (e_line s)) = r -> r <> VRError ->
    exists s2, validate U cfg s = EOk r s2 /\ same_edit s s2
               /\ (forall m, (r = VRInvalid (Some m) \/ r = VRValid (Some m)) ->
                             exists pre post rest, e_out s2 = (pre ++ m ++ post) :: rest).
  Proof.
    intros Hh Hv Hne. unfold validate. rewrite Hh. run_validate. rewrite Hv.
    destruct r as [msg|msg| |]; [| | |congruence]; run_validate;
      match goal with |- context [cs_end_loop ?a ?b ?c] => destruct (cs_end_loop a b c) as [u t] end; run_validate.
    - destruct (t || match e_hint s with Some _ => true | None => false end
                || match msg with Some _ => true | None => false end) eqn:Ec; run_validate.
      + eexists. split; [reflexivity|]. split; [repeat split|].
        intros m [H|H]; inversion H; subst. cbn [e_out].
        match goal with |- context [Render.refresh_bytes ?a ?b ?c (Some m) ?d ?e] =>
          destruct (refresh_bytes_shows_msg a b c m d e) as [pre [post ->]] end.
        eexists _, _, _. reflexivity.
      + eexists. split; [reflexivity|]. split; [repeat split|].
        intros m [H|H]; inversion H; subst.
        rewrite !Bool.orb_false_iff in Ec. destruct Ec as [_ Ec]. discriminate.
    - destruct (t || match e_hint s with Some _ => true | None => false end
                || match msg with Some _ => true | None => false end) eqn:Ec; run_validate.
      + eexists. split; [reflexivity|]. split; [repeat split|].
        intros m [H|H]; inversion H; subst. cbn [e_out].
        match goal with |- context [Render.refresh_bytes ?a ?b ?c (Some m) ?d ?e] =>
          destruct (refresh_bytes_shows_msg a b c m d e) as [pre [post ->]] end.
        eexists _, _, _. reflexivity.
      + eexists. split; [reflexivity|]. split; [repeat split|].
        intros m [H|H]; inversion H; subst.
        rewrite !Bool.orb_false_iff in Ec. destruct Ec as [_ Ec]. discriminate.
    - eexists. split; [reflexivity|]. split; [repeat split|].
      intros m [H|H]; inversion H.
  Qed.

  Lemma edit_insert_one_spec s c l r :
    buf (e_line s) = l ++ r -> pos (e_line s) = blen l -> grow (e_line s) = true ->
    exists s', edit_insert U cfg c 1 s = EOk tt s'
               /\ buf (e_line s') = l ++ [c] ++ r /\ pos (e_line s') = blen l + clen c.
  Proof.
    intros Hb Hp Hg. destruct (self_insert_once U cfg s c l r Hb Hp Hg) as [s' [H [H1 H2]]].
    unfold execute in H. unfold ebind at 1 in H. cbn [eget] in H. unfold ebind at 1 in H. cbn [eret] in H.
    unfold ebind at 1 in H. destruct (edit_insert U cfg c 1 s) as [[] s1| | |] eqn:E; try discriminate.
    inversion H; subst. eexists. split; [reflexivity|]. split; assumption.
  Qed.

  (* the run of execute(AcceptOrInsertLine) up to the verdict *)
  Lemma accept_prefix s aim r :
    c_has_helper cfg = true -> c_validate cfg (buf (e_line s)) = r -> r <> VRError ->
    exists s2, same_edit s s2
      /\ (forall m, (r = VRInvalid (Some m) \/ r = VRValid (Some m)) ->
                    exists pre post rest, e_out s2 = (pre ++ m ++ post) :: rest)
      /\ execute U cfg (CAcceptOrInsertLine aim) s
         = (let valid := match r with VRValid _ => true | _ => false end in
            if valid && (is_end_of_input U (e_line s2) || aim) then eret Submit
            else (if valid || negb (match r with VRInvalid (Some _) | VRValid (Some _) => true | _ => false end)
                  then edit_insert U cfg 10 1 else eret tt) ;;; eret Proceed) s2.
  Proof.
    intros Hh Hv Hne.
    destruct (pre_refresh_total s) as [s1 [Hp [[L1 [K1 [Hi1 I1]]] C1]]].
    assert (Hv1 : c_validate cfg (buf (e_line s1)) = r) by (rewrite L1; exact Hv).
    destruct (validate_total s1 r Hh Hv1 Hne) as [s2 [Hval [[L2 [K2 [Hi2 I2]]] Hmsg]]].
    exists s2. split; [repeat split; congruence|]. split; [exact Hmsg|].
    unfold execute. unfold ebind at 1. cbn [eget]. unfold ebind at 1. rewrite Hp.
    unfold ebind at 1. rewrite Hval. unfold ebind at 1. cbn [eget]. reflexivity.
  Qed.

  (* Incomplete (and Invalid without a message): one line break is inserted at the cursor and editing continues *)
  Theorem enter_incomplete s aim l r :
    c_has_helper cfg = true ->
    (c_validate cfg (buf (e_line s)) = VRIncomplete \/ c_validate cfg (buf (e_line s)) = VRInvalid None) ->
    buf (e_line s) = l ++ r -> pos (e_line s) = blen l -> grow (e_line s) = true ->
    exists s', execute U cfg (CAcceptOrInsertLine aim) s = EOk Proceed s'
               /\ buf (e_line s') = l ++ [10%N] ++ r /\ pos (e_line s') = blen l + 1.
  Proof.
    intros Hh Hv Hb Hp Hg.
    assert (Hne : c_validate cfg (buf (e_line s)) <> VRError) by (destruct Hv as [-> | ->]; discriminate).
    destruct (accept_prefix s aim _ Hh eq_refl Hne) as [s2 [[L2 _] [_ He]]].
    rewrite He. clear He.
    assert (Hb2 : buf (e_line s2) = l ++ r) by (rewrite L2; exact Hb).
    assert (Hp2 : pos (e_line s2) = blen l) by (rewrite L2; exact Hp).
    assert (Hg2 : grow (e_line s2) = true) by (rewrite L2; exact Hg).
    destruct (edit_insert_one_spec s2 10%N l r Hb2 Hp2 Hg2) as [s' [Hi [H1 H2]]].
    exists s'. destruct Hv as [-> | ->]; cbn [andb orb negb]; unfold ebind; rewrite Hi; (split; [reflexivity|]); split; assumption.
  Qed.

  (* Invalid with a message: text and cursor unchanged, the message is written, editing continues *)
  Theorem enter_invalid_msg s aim m :
    c_has_helper cfg = true -> c_validate cfg (buf (e_line s)) = VRInvalid (Some m) ->
    exists s', execute U cfg (CAcceptOrInsertLine aim) s = EOk Proceed s'
               /\ e_line s' = e_line s
               /\ exists pre post rest, e_out s' = (pre ++ m ++ post) :: rest.
  Proof.
    intros Hh Hv.
    assert (Hne : c_validate cfg (buf (e_line s)) <> VRError) by (rewrite Hv; discriminate).
    destruct (accept_prefix s aim _ Hh eq_refl Hne) as [s2 [[L2 _] [Hm He]]].
    rewrite He. rewrite Hv in *. cbn [andb orb negb]. unfold ebind, eret.
    exists s2. split; [reflexivity|]. split; [exact L2|]. apply Hm. left. reflexivity.
  Qed.

  (* Valid: Enter (accept-in-the-middle) submits, and the text submitted is the text validated *)
  Theorem enter_valid_submits s msg :
    c_has_helper cfg = true -> c_validate cfg (buf (e_line s)) = VRValid msg ->
    exists s', execute U cfg (CAcceptOrInsertLine true) s = EOk Submit s' /\ e_line s' = e_line s.
  Proof.
    intros Hh Hv.
    assert (Hne : c_validate cfg (buf (e_line s)) <> VRError) by (rewrite Hv; discriminate).
    destruct (accept_prefix s true _ Hh eq_refl Hne) as [s2 [[L2 _] [_ He]]].
    rewrite He. rewrite Hv. cbn [andb]. rewrite Bool.orb_true_r. exists s2. split; [reflexivity|exact L2].
  Qed.

  (* without a helper nothing is validated: Enter submits the text as it stands *)
  Theorem enter_no_helper s :
    c_has_helper cfg = false ->
    exists s', execute U cfg (CAcceptOrInsertLine true) s = EOk Submit s' /\ e_line s' = e_line s.
  Proof.
    intros Hh. destruct (pre_refresh_total s) as [s1 [Hp [[L1 _] _]]].
    unfold execute. unfold ebind at 1. cbn [eget]. unfold ebind at 1. rewrite Hp.
    unfold ebind at 1. unfold validate. rewrite Hh. cbn [eret]. unfold ebind at 1. cbn [eget andb].
    rewrite Bool.orb_true_r. exists s1. split; [reflexivity|exact L1].
  Qed.
End Validate.

(* ---------- which commands end a read ---------- *)

Ltac inv_bind H :=
  repeat (let a := fresh "a" in let s1 := fresh "s" in let H1 := fresh "H" in
          apply ebind_inv in H; destruct H as [a [s1 [H1 H]]]).

Section Submit.
  Variable U : UData.
  Variable cfg : config.

  Lemma proceed_not_submit {A} (m : E A) s s' : (m ;;; eret Proceed) s = EOk Submit s' -> False.
  Proof. intros H. apply ebind_inv in H. destruct H as [a [s1 [_ H]]]. inversion H. Qed.

  (* execute returns Submit only for the accept commands (and vi's end-of-file on a non-empty line) *)
  Ltac no_submit H :=
    first [ discriminate H
          | (apply proceed_not_submit in H; exact H)
          | (unfold eret, efail, epanic in H; discriminate H)
          | (apply ebind_inv in H; let a := fresh "a" in let s1 := fresh "s" in
             destruct H as [a [s1 [_ H]]]; no_submit H)
          | match type of H with
            | context [match ?x with _ => _ end] => destruct x; no_submit H
            end ].

  Lemma execute_submit_cases c s s' :
    execute U cfg c s = EOk Submit s' ->
    c = CAcceptLine \/ (exists aim, c = CAcceptOrInsertLine aim) \/ c = CEndOfFile.
  Proof.
    intros H. unfold execute in H.
    apply ebind_inv in H. destruct H as [s0 [s0' [H0 H]]].
    apply ebind_inv in H. destruct H as [u [s1 [H1 H]]].
    destruct c; try (left; reflexivity); try (right; left; eexists; reflexivity); try (right; right; reflexivity);
      exfalso; no_submit H.
  Qed.

  (* a read that returns has ended with a command whose execution said Submit *)
  Theorem main_loop_ends_with_submit fuel : forall s s',
    main_loop U cfg fuel s = EOk tt s' -> exists c s1, execute U cfg c s1 = EOk Submit s'.
  Proof.
    induction fuel as [|f IH]; intros s s' H; [discriminate H|].
    cbn [main_loop] in H.
    apply ebind_inv in H. destruct H as [s00 [s01 [_ H]]].
    apply ebind_inv in H. destruct H as [u0 [s02 [_ H]]].
    apply ebind_inv in H. destruct H as [c0 [s1 [_ H]]].
    apply ebind_inv in H. destruct H as [u [s2 [_ H]]].
    apply ebind_inv in H. destruct H as [oc [s3 [_ H]]].
    destruct oc as [c1|]; [|apply IH in H; exact H].
    apply ebind_inv in H. destruct H as [oc2 [s4 [_ H]]].
    destruct oc2 as [c2|]; [|apply IH in H; exact H].
    assert (Hex : (edo st <- execute U cfg c2; match st with Proceed => main_loop U cfg f | Submit => eret tt end) s4
                  = EOk tt s' -> exists c s1, execute U cfg c s1 = EOk Submit s').
    { intros He. apply ebind_inv in He. destruct He as [st [s5 [He1 He2]]].
      destruct st; [apply IH in He2; exact He2|]. inversion He2; subst. eauto. }
    destruct c2; try (apply Hex; exact H).
    2:{ (* CSuspend: the line is redrawn, the loop goes on *)
        apply ebind_inv in H. destruct H as [u3 [s5 [_ H]]]. apply IH in H. exact H. }
    (* CQuotedInsert: the next character is inserted, the loop goes on *)
    apply ebind_inv in H. destruct H as [ch [s5 [_ H]]].
    apply ebind_inv in H. destruct H as [u2 [s6 [_ H]]]. apply IH in H. exact H.
  Qed.

  (* C13, over whole reads: if the main loop returns through Enter / C-j / C-m, the validator had said
     Valid about exactly the text the read ends with *)
  Theorem read_returns_validated fuel s s' :
    main_loop U cfg fuel s = EOk tt s' ->
    exists c s1, execute U cfg c s1 = EOk Submit s'
      /\ (c = CAcceptLine \/ (exists aim, c = CAcceptOrInsertLine aim) \/ c = CEndOfFile)
      /\ (forall aim, c = CAcceptOrInsertLine aim ->
            e_line s' = e_line s1
            /\ (c_has_helper cfg = true -> exists msg, c_validate cfg (buf (e_line s')) = VRValid msg)).
  Proof.
    intros H. destruct (main_loop_ends_with_submit _ _ _ H) as [c [s1 He]].
    exists c, s1. split; [exact He|]. split; [eapply execute_submit_cases; exact He|].
    intros aim ->. destruct (enter_valid_only U cfg s1 aim s' He) as [L V]. split; [exact L|].
    rewrite L. exact V.
  Qed.
End Submit.
