(* C17: the byte decoder is total: for every input a key, or end of input / undecodable byte. *)
From RL Require Import UData LineBuffer Undo KillRing Render Keys Editor EditorRun EditorProofs ProgressProofs.

(* ---------- the byte decoder never panics ---------- *)

Definition np {A} (m : E A) : Prop := forall s, m s <> EPanic.
Lemma np_bind {A B} (m : E A) (f : A -> E B) : np m -> (forall a, np (f a)) -> np (ebind m f).
Proof. intros Hm Hf s. unfold ebind. destruct (m s) eqn:E; try discriminate; [apply Hf|intros _; apply (Hm s E)]. Qed.
Lemma np_ret {A} (a : A) : np (eret a). Proof. intros s H. discriminate. Qed.
Lemma np_get : np eget. Proof. intros s H. discriminate. Qed.
Lemma np_fail {A} e : np (@efail A e). Proof. intros s H. discriminate. Qed.
Ltac np_auto :=
  repeat (first [ apply np_ret | apply np_get | apply np_fail
                | match goal with |- np (ebind _ _) => apply np_bind; [|intros] end ] ||
          match goal with
          | |- np (if ?c then _ else _) => destruct c
          | |- np (match ?x with _ => _ end) => destruct x
          | |- np (let _ := _ in _) => cbv zeta
          end).

(* the only errors: end of input, undecodable byte *)
Definition oe {A} (m : E A) : Prop := forall s e s', m s = EErr e s' -> e = EHangup \/ e = EInvalidData.
Lemma oe_bind {A B} (m : E A) (f : A -> E B) : oe m -> (forall a, oe (f a)) -> oe (ebind m f).
Proof.
  intros Hm Hf s e s' H. unfold ebind in H. destruct (m s) eqn:E; try discriminate.
  - eapply Hf; exact H.
  - inversion H; subst. eapply Hm; exact E.
Qed.
Lemma oe_ret {A} (a : A) : oe (eret a). Proof. intros s e s' H. discriminate. Qed.
Lemma oe_get : oe eget. Proof. intros s e s' H. discriminate. Qed.
Ltac oe_auto :=
  repeat (first [ apply oe_ret | apply oe_get
                | match goal with |- oe (ebind _ _) => apply oe_bind; [|intros] end ] ||
          match goal with
          | |- oe (if ?c then _ else _) => destruct c
          | |- oe (match ?x with _ => _ end) => destruct x
          | |- oe (let _ := _ in _) => cbv zeta
          end).

Section Decoder.
  Variable U : UData.
  Variable cfg : config.
  (* the character reader steps over messages: it never returns one *)
  Lemma take_in_chunk_no_print ch : forall m t, take_in_chunk ch <> Some (Print m, t).
  Proof.
    induction ch as [|x ch IH]; intros m t; cbn [take_in_chunk]; [discriminate|].
    destruct x; try discriminate.
    destruct (take_in_chunk ch) as [[c t']|] eqn:E; [|discriminate].
    intros H. inversion H; subst. exact (IH m t' eq_refl).
  Qed.
  Lemma take_first_no_print rest : forall pending m i, take_first pending rest <> Some (Print m, i).
  Proof.
    induction rest as [|ch rest IH]; intros pending m i; cbn [take_first]; [discriminate|].
    destruct (take_in_chunk ch) as [[c t]|] eqn:E; [|apply IH].
    intros H. inversion H; subst. exact (take_in_chunk_no_print ch m t E).
  Qed.
  Lemma take_char_no_print cur rest m i : take_char cur rest <> Some (Print m, i).
  Proof.
    unfold take_char. destruct (take_in_chunk cur) as [[c t]|] eqn:E; [|apply take_first_no_print].
    intros H. inversion H; subst. exact (take_in_chunk_no_print cur m t E).
  Qed.

  Lemma np_next_char : np next_char.
  Proof.
    intros s H. unfold next_char in H.
    destruct (take_char (in_cur (e_inp s)) (in_rest (e_inp s))) as [[[c| |pm] i]|] eqn:E; cbn in H; try discriminate.
    exact (take_char_no_print _ _ _ _ E).
  Qed.
  Lemma np_poll t : np (poll t). Proof. unfold poll. np_auto. Qed.
  Lemma np_escape_o : np escape_o. Proof. unfold escape_o. np_auto; apply np_next_char. Qed.
  Lemma np_extended_escape c : np (extended_escape c). Proof. unfold extended_escape. np_auto; try apply np_next_char. Qed.
  Lemma np_escape_csi : np escape_csi.
  Proof. unfold escape_csi. np_auto; try apply np_next_char; try apply np_extended_escape. Qed.
  Lemma np_do_escape_sequence r : np (do_escape_sequence U cfg r).
  Proof.
    unfold do_escape_sequence. np_auto; try apply np_next_char; try apply np_escape_csi; try apply np_escape_o; try apply np_poll.
  Qed.
  Lemma np_next_key sea : np (next_key U cfg sea).
  Proof. unfold next_key. np_auto; try apply np_next_char; try apply np_poll; try apply np_do_escape_sequence. Qed.

  Lemma oe_next_char : oe next_char.
  Proof.
    intros s e s' H. unfold next_char in H.
    destruct (take_char (in_cur (e_inp s)) (in_rest (e_inp s))) as [[[c| |pm] i]|]; cbn in H; inversion H; auto.
  Qed.
  Lemma oe_poll t : oe (poll t). Proof. unfold poll. oe_auto. Qed.
  Lemma oe_escape_o : oe escape_o. Proof. unfold escape_o. oe_auto; apply oe_next_char. Qed.
  Lemma oe_extended_escape c : oe (extended_escape c). Proof. unfold extended_escape. oe_auto; try apply oe_next_char. Qed.
  Lemma oe_escape_csi : oe escape_csi.
  Proof. unfold escape_csi. oe_auto; try apply oe_next_char; try apply oe_extended_escape. Qed.
  Lemma oe_do_escape_sequence r : oe (do_escape_sequence U cfg r).
  Proof.
    unfold do_escape_sequence. oe_auto; try apply oe_next_char; try apply oe_escape_csi; try apply oe_escape_o; try apply oe_poll.
  Qed.
  Lemma oe_next_key sea : oe (next_key U cfg sea).
  Proof. unfold next_key. oe_auto; try apply oe_next_char; try apply oe_poll; try apply oe_do_escape_sequence. Qed.

  (* for EVERY input and chunking: a key (at least one character consumed), or the end of the input
     (hang-up) / an undecodable byte -- never a panic, never out of fuel *)
  Theorem decode_total sea s :
    (exists k s', next_key U cfg sea s = EOk k s' /\ sz s' < sz s)
    \/ (exists s', next_key U cfg sea s = EErr EHangup s')
    \/ (exists s', next_key U cfg sea s = EErr EInvalidData s').
  Proof.
    destruct (next_key U cfg sea s) as [k s'|e s'| |] eqn:E.
    - left. exists k, s'. split; [reflexivity|]. eapply dec_next_key; exact E.
    - assert (He : e = EHangup \/ e = EInvalidData) by (eapply oe_next_key; exact E).
      destruct He as [-> | ->]; [right; left|right; right]; eexists; reflexivity.
    - exfalso. exact (np_next_key sea s E).
    - exfalso. exact (nf_next_key U cfg sea s E).
  Qed.
End Decoder.
