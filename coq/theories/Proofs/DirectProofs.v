(* C18: direct (non-terminal) input. *)
From RL Require Import Uax29 Direct.

Definition bs_step (st : list str) (g : str) : list str :=
  if str_eqb g [8%N] then tl st else g :: st.

Lemma concat_rev_cons (g : str) st : concat (rev (g :: st)) = concat (rev st) ++ g.
Proof. cbn [rev]. rewrite concat_app. cbn [concat]. rewrite app_nil_r. reflexivity. Qed.

Lemma apply_bs_go_ok gs : forall st,
  apply_bs_go gs (concat (rev st)) (map blen st) = Ok (concat (rev (fold_left bs_step gs st))).
Proof.
  induction gs as [|g gs IH]; intros st; [reflexivity|].
  cbn [apply_bs_go fold_left]. unfold bs_step at 2.
  destruct (str_eqb g [8%N]) eqn:E.
  - destruct st as [|g0 st']; cbn [map tl].
    + apply (IH []).
    + rewrite concat_rev_cons. match goal with |- context [blen (?x ++ g0)] => set (a := x) end.
      assert (H1 : Nat.ltb (blen (a ++ g0)) (blen g0) = false) by (apply Nat.ltb_ge; rewrite blen_app; lia).
      rewrite H1.
      assert (H2 : blen (a ++ g0) - blen g0 = blen a) by (rewrite blen_app; lia).
      rewrite H2. unfold str_truncate.
      assert (H3 : Nat.ltb (blen (a ++ g0)) (blen a) = false) by (apply Nat.ltb_ge; rewrite blen_app; lia).
      rewrite H3, bsplit_app. apply IH.
  - rewrite <- concat_rev_cons. change (blen g :: map blen st) with (map blen (g :: st)). apply IH.
Qed.

(* the byte arithmetic of apply_backspace_direct never panics and computes
   the stack semantics, for every segmentation function and every string *)
Theorem apply_bs_impl_ok seg s : apply_bs_impl seg s = Ok (apply_bs seg s).
Proof. unfold apply_bs_impl, apply_bs, bs_stack. apply (apply_bs_go_ok (seg s) []). Qed.

(* the result is made of clusters of the input, in their order *)
Inductive sublist {A} : list A -> list A -> Prop :=
| sub_nil : sublist [] []
| sub_skip : forall x l1 l2, sublist l1 l2 -> sublist l1 (x :: l2)
| sub_keep : forall x l1 l2, sublist l1 l2 -> sublist (x :: l1) (x :: l2).

Lemma sublist_app_r {A} (l1 l2 : list A) x : sublist l1 l2 -> sublist l1 (l2 ++ [x]).
Proof.
  induction 1; cbn [app].
  - apply sub_skip, sub_nil.
  - apply sub_skip; assumption.
  - apply sub_keep; assumption.
Qed.
Lemma sublist_snoc {A} (l1 l2 : list A) x : sublist l1 l2 -> sublist (l1 ++ [x]) (l2 ++ [x]).
Proof.
  induction 1; cbn [app].
  - apply sub_keep, sub_nil.
  - apply sub_skip; assumption.
  - apply sub_keep; assumption.
Qed.

Lemma sublist_nil_l {A} (d : list A) : sublist [] d.
Proof. induction d; constructor; assumption. Qed.

Lemma sublist_app_l {A} (l d : list A) : sublist l d -> forall la lb, l = la ++ lb -> sublist la d.
Proof.
  induction 1 as [|x l1 l2 H IH|x l1 l2 H IH]; intros la lb E.
  - destruct la; [constructor|discriminate].
  - apply sub_skip. eapply IH; eauto.
  - destruct la as [|y la].
    + apply sublist_nil_l.
    + cbn [app] in E. inversion E; subst. apply sub_keep. eapply IH; eauto.
Qed.

Lemma rev_tl_sub {A} (st : list A) done : sublist (rev st) done -> sublist (rev (tl st)) done.
Proof.
  destruct st as [|a st]; [auto|]. cbn [tl rev]. intros H. eapply sublist_app_l; eauto.
Qed.

Lemma bs_stack_sub gs : forall st done,
  sublist (rev st) done -> sublist (rev (fold_left bs_step gs st)) (done ++ gs).
Proof.
  induction gs as [|g gs IH]; intros st done H; [cbn; rewrite app_nil_r; exact H|].
  cbn [fold_left]. replace (done ++ g :: gs) with ((done ++ [g]) ++ gs) by (rewrite <- app_assoc; reflexivity).
  apply IH. unfold bs_step. destruct (str_eqb g [8%N]).
  - apply sublist_app_r. apply rev_tl_sub. exact H.
  - cbn [rev]. apply sublist_snoc. exact H.
Qed.

Theorem apply_bs_clusters seg s :
  exists kept, sublist kept (seg s) /\ apply_bs seg s = concat kept
               /\ Forall (fun g => g <> [8%N]) kept.
Proof.
  exists (rev (bs_stack (seg s))). split; [|split; [reflexivity|]].
  - apply (bs_stack_sub (seg s) [] []). constructor.
  - unfold bs_stack.
    assert (H : forall gs st, Forall (fun g => g <> [8%N]) st ->
                Forall (fun g => g <> [8%N]) (fold_left bs_step gs st)).
    { induction gs as [|g gs IH]; intros st Hs; [exact Hs|]. cbn [fold_left]. apply IH.
      unfold bs_step. destruct (str_eqb g [8%N]) eqn:E.
      - destruct st; [constructor|]. inversion Hs; assumption.
      - constructor; [|exact Hs]. intros ->. rewrite str_eqb_refl in E. discriminate. }
    apply Forall_rev. apply H. constructor.
Qed.

(* without a validator: one line per call, terminator removed, backspaces applied, then Eof *)
Definition strip (l : str) : str := fst (fst (strip_terminator l)).

Theorem direct_lines seg ls :
  direct_go seg None [] ls = map (fun l => DLine (apply_bs seg (strip l))) ls ++ [DEof].
Proof.
  induction ls as [|l ls IH]; [reflexivity|].
  cbn [direct_go map app]. unfold strip.
  destruct (strip_terminator l) as [[s tn] tr]. cbn [fst].
  rewrite apply_bs_impl_ok. rewrite IH. reflexivity.
Qed.

(* with a validator: a line is returned only if the validator accepted exactly
   that string; no panic *)
Theorem direct_validated seg vf ls : forall acc,
  Forall (fun r => match r with DLine x => vf x = VValid | DPanic => False | _ => True end)
         (direct_go seg (Some vf) acc ls).
Proof.
  induction ls as [|l ls IH]; intros acc; [repeat constructor|].
  cbn [direct_go]. destruct (strip_terminator (acc ++ l)) as [[s tn] tr].
  rewrite apply_bs_impl_ok. destruct (vf (apply_bs seg s)) eqn:E; try apply IH.
  - constructor; [exact E|apply IH].
  - constructor; [exact I|apply IH].
Qed.

(* Incomplete: the text is kept with its terminator and the next line is appended *)
Theorem direct_incomplete seg vf acc l t s tn tr :
  strip_terminator (acc ++ l) = (s, tn, tr) -> vf (apply_bs seg s) = VIncomplete ->
  direct_go seg (Some vf) acc (l :: t)
  = direct_go seg (Some vf) (apply_bs seg s ++ (if tr then [13%N] else []) ++ (if tn then [10%N] else [])) t.
Proof. intros H1 H2. cbn [direct_go]. rewrite H1, apply_bs_impl_ok, H2. reflexivity. Qed.

(* a validator error ends THIS read with an error (never with a line); the text read so far is dropped *)
Theorem direct_error seg vf acc l t s tn tr :
  strip_terminator (acc ++ l) = (s, tn, tr) -> vf (apply_bs seg s) = VError ->
  direct_go seg (Some vf) acc (l :: t) = DErr :: direct_go seg (Some vf) [] t.
Proof. intros H1 H2. cbn [direct_go]. rewrite H1, apply_bs_impl_ok, H2. reflexivity. Qed.

(* Invalid (with or without message): nothing is returned, the text is kept WITHOUT its terminator *)
Theorem direct_invalid seg vf acc l t s tn tr :
  strip_terminator (acc ++ l) = (s, tn, tr) -> vf (apply_bs seg s) = VInvalidMsg \/ vf (apply_bs seg s) = VInvalid ->
  direct_go seg (Some vf) acc (l :: t) = direct_go seg (Some vf) (apply_bs seg s) t.
Proof. intros H1 [H2|H2]; cbn [direct_go]; rewrite H1, apply_bs_impl_ok, H2; reflexivity. Qed.

(* lines: the concatenation of the lines is the input; every line but possibly
   the last ends with LF and contains no other LF *)
Lemma dlines_aux_concat inp : forall cur, concat (dlines_aux inp cur) = rev cur ++ inp.
Proof.
  induction inp as [|c inp IH]; intros cur; cbn [dlines_aux].
  - destruct cur; cbn; rewrite ?app_nil_r; reflexivity.
  - destruct (c =? 10)%N.
    + cbn [concat]. rewrite IH. cbn [rev app]. rewrite <- app_assoc. reflexivity.
    + rewrite IH. cbn [rev]. rewrite <- app_assoc. reflexivity.
Qed.

Theorem dlines_concat inp : concat (dlines inp) = inp.
Proof. unfold dlines. rewrite dlines_aux_concat. reflexivity. Qed.
