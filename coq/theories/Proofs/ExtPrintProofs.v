(* C19: the ExternalPrinter protocol never loses, duplicates or reorders a thread's messages, never
   wakes the editor for nothing, and cannot get stuck -- for any number of threads and any interleaving. *)
From Coq Require Import List Bool Arith Lia.
From RL Require Import ExtPrint.
Import ListNotations.

(* the payloads of thread i among a list of messages, in order *)
Definition of_thread (i : nat) (ms : list msg) : list nat :=
  map snd (filter (fun m => Nat.eqb (fst m) i) ms).
Definition chan_of (i : nat) (c : option msg) : list nat :=
  match c with Some (j, m) => if Nat.eqb j i then [m] else [] | None => [] end.

Lemma of_thread_app i a b : of_thread i (a ++ b) = of_thread i a ++ of_thread i b.
Proof. unfold of_thread. rewrite filter_app, map_app. reflexivity. Qed.
Lemma of_thread_one i m : of_thread i [m] = chan_of i (Some m).
Proof. destruct m as [j x]. unfold of_thread, chan_of. cbn. destruct (Nat.eqb j i); reflexivity. Qed.

Definition sending (st : pstate) : Prop := exists i, holder st = Some (i, HSent).

(* the invariant:
   (1) per thread: shown ++ in the channel ++ still to do = the thread's program -- nothing lost, duplicated
       or reordered;
   (2) the pipe holds one byte exactly when a message is in the channel and its sender is past writing its
       byte, and none otherwise -- so a wake-up always finds its message and no message waits unannounced
       once its sender has moved on. *)
Definition inv (prog : nat -> list nat) (st : pstate) : Prop :=
  (forall i, of_thread i (shown st) ++ chan_of i (chan st) ++ todo st i = prog i)
  /\ match chan st with
     | None => pipe st = 0 /\ ~ sending st
     | Some (j, _) => (holder st = Some (j, HSent) /\ pipe st = 0) \/ (pipe st = 1 /\ ~ sending st)
     end
  /\ (forall j, holder st = Some (j, HLocked) -> todo st j <> []).

Lemma inv_initial prog : inv prog (initial prog).
Proof.
  split; [intros i; reflexivity|]. cbn. split; [split; [reflexivity|intros [i H]; discriminate]|].
  intros j H. discriminate.
Qed.

Lemma inv_step prog st st' : inv prog st -> step st st' -> inv prog st'.
Proof.
  intros [H1 [H2 H3]] Hs. destruct Hs as [i st m rest Hh Ht|i st m rest Hh Ht Hc|i st Hh|i st Hh|st m p Hp Hc|st p Hp Hc];
    unfold inv; cbn [todo holder chan pipe shown] in *.
  - (* lock *)
    split; [exact H1|]. split.
    + destruct (chan st) as [[j x]|].
      * destruct H2 as [[Hj _]|[Hp Hn]]; [congruence|]. right. split; [exact Hp|]. intros [k Hk]. cbn in Hk. discriminate.
      * destruct H2 as [Hp Hn]. split; [exact Hp|]. intros [k Hk]. cbn in Hk. discriminate.
    + intros j Hj. inversion Hj; subst. rewrite Ht. discriminate.
  - (* send *)
    rewrite Hc in *. destruct H2 as [Hp Hn]. split; [|split].
    + intros k. specialize (H1 k). unfold upd. cbn [chan_of] in *.
      destruct (Nat.eqb_spec k i) as [->|Hk].
      * rewrite Nat.eqb_refl. rewrite Ht in H1. cbn [app] in *. exact H1.
      * replace (Nat.eqb i k) with false by (symmetry; apply Nat.eqb_neq; congruence). exact H1.
    + left. split; [reflexivity|exact Hp].
    + intros j Hj. discriminate.
  - (* poke *)
    split; [exact H1|]. split; [|intros j Hj; discriminate]. destruct (chan st) as [[j x]|].
    + destruct H2 as [[Hj Hp]|[Hp Hn]].
      * right. split; [lia|]. intros [k Hk]. cbn in Hk. discriminate.
      * exfalso. apply Hn. exists i. exact Hh.
    + destruct H2 as [Hp Hn]. exfalso. apply Hn. exists i. exact Hh.
  - (* unlock *)
    split; [exact H1|]. split; [|intros j Hj; discriminate]. destruct (chan st) as [[j x]|].
    + destruct H2 as [[Hj _]|[Hp Hn]]; [congruence|]. right. split; [exact Hp|]. intros [k Hk]. cbn in Hk. discriminate.
    + destruct H2 as [Hp Hn]. split; [exact Hp|]. intros [k Hk]. cbn in Hk. discriminate.
  - (* the editor takes the message *)
    rewrite Hc in *. destruct m as [j x]. split; [|split; [|exact H3]].
    + intros k. specialize (H1 k). rewrite of_thread_app, of_thread_one. cbn [chan_of app] in *.
      rewrite <- app_assoc. exact H1.
    + destruct H2 as [[Hj Hp0]|[Hp1 Hn]]; [lia|]. split; [lia|exact Hn].
  - (* a wake-up without a message: impossible under the invariant *)
    rewrite Hc in H2. destruct H2 as [Hp0 _]. lia.
Qed.

Theorem inv_steps prog st st' : inv prog st -> steps st st' -> inv prog st'.
Proof. intros Hi Hs. induction Hs as [st|st1 st2 st3 H12 _ IH]; [exact Hi|]. apply IH. eapply inv_step; eauto. Qed.

(* every reachable state, any number of threads, any interleaving *)
Corollary reachable_inv prog st : steps (initial prog) st -> inv prog st.
Proof. apply inv_steps, inv_initial. Qed.

(* exactly once, whole, in the order sent: what has been shown of a thread's messages is a prefix of its program,
   and once it has nothing in flight and nothing left to do, exactly its program *)
Theorem shown_is_prefix prog st i :
  steps (initial prog) st -> exists rest, prog i = of_thread i (shown st) ++ rest.
Proof.
  intros Hs. destruct (reachable_inv prog st Hs) as [H1 _]. eexists. symmetry. apply H1.
Qed.
Theorem all_shown_when_done prog st i :
  steps (initial prog) st -> todo st i = [] -> chan_of i (chan st) = [] -> of_thread i (shown st) = prog i.
Proof.
  intros Hs Ht Hc. destruct (reachable_inv prog st Hs) as [H1 _]. specialize (H1 i).
  rewrite Ht, Hc, !app_nil_r in H1. exact H1.
Qed.

(* no spurious wake-up: when the editor finds the pipe readable, a message is in the channel *)
Theorem wakeup_finds_message prog st p :
  steps (initial prog) st -> pipe st = S p -> exists m, chan st = Some m.
Proof.
  intros Hs Hp. destruct (reachable_inv prog st Hs) as [_ [H2 _]]. destruct (chan st) as [m|]; [eauto|].
  destruct H2 as [H0 _]. lia.
Qed.

(* no deadlock and no forgotten message: while anything is still to be shown, some step is enabled; and a
   message sitting in the channel is either announced (the editor's take is enabled) or its sender's next
   step (writing the byte) is enabled *)
Theorem progress prog st i m rest :
  steps (initial prog) st -> todo st i = m :: rest -> exists st', step st st'.
Proof.
  intros Hs Ht. destruct (reachable_inv prog st Hs) as [_ [H2 H3]].
  destruct (holder st) as [[j hs]|] eqn:Hh.
  - destruct hs.
    + destruct (chan st) as [[k x]|] eqn:Hc.
      * (* the channel is full: its message has been announced, the editor can take it *)
        destruct H2 as [[Hj _]|[Hp _]]; [congruence|]. eexists. eapply s_take_some; eauto.
      * destruct (todo st j) as [|mj rj] eqn:Hj; [exfalso; exact (H3 j eq_refl Hj)|].
        eexists. eapply s_send; eauto.
    + eexists. eapply s_poke; eauto.
    + eexists. eapply s_unlock; eauto.
  - eexists. eapply s_lock; eauto.
Qed.

(* a message in the channel is shown by the next steps without any other thread's help being needed:
   either the editor's take is enabled now, or the sender's write of the wake-up byte is *)
Theorem message_gets_shown prog st m :
  steps (initial prog) st -> chan st = Some m ->
  (exists st', step st st' /\ shown st' = shown st ++ [m])
  \/ (exists i st', holder st = Some (i, HSent) /\ step st st' /\ pipe st' = 1 /\ chan st' = Some m).
Proof.
  intros Hs Hc. destruct (reachable_inv prog st Hs) as [_ [H2 _]]. rewrite Hc in H2. destruct m as [j x].
  destruct H2 as [[Hj Hp]|[Hp Hn]].
  - right. exists j. eexists. split; [exact Hj|]. split; [eapply s_poke; exact Hj|]. cbn. split; [lia|exact Hc].
  - left. eexists. split; [eapply s_take_some; eauto|]. reflexivity.
Qed.
