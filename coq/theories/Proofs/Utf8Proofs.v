(* decode (encode s) = Some s, and what bytes an encoding can contain. *)
From RL Require Import Utf8.
From Coq Require Import ZifyBool ZifyN ZifyNat.
Ltac Zify.zify_post_hook ::= Z.div_mod_to_equations.

Local Open Scope N_scope.

Lemma decode1_encode_char c rest :
  valid_char c = true -> decode1 (encode_char c ++ rest) = Some (c, rest).
Proof.
  intros Hv. unfold valid_char in Hv. unfold encode_char.
  destruct (c <? 128) eqn:E1.
  { cbn [app decode1]. rewrite E1. reflexivity. }
  destruct (c <? 2048) eqn:E2.
  { cbn [app decode1].
    replace (192 + c / 64 <? 128) with false by lia.
    replace (192 + c / 64 <? 192) with false by lia.
    replace (192 + c / 64 <? 224) with true by lia.
    unfold is_cont.
    replace ((128 <=? 128 + c mod 64) && (128 + c mod 64 <? 192)) with true by lia.
    replace (128 <=? (192 + c / 64 - 192) * 64 + (128 + c mod 64 - 128)) with true by lia.
    cbn [andb]. f_equal. f_equal. lia. }
  destruct (c <? 65536) eqn:E3.
  { cbn [app decode1].
    replace (224 + c / 4096 <? 128) with false by lia.
    replace (224 + c / 4096 <? 192) with false by lia.
    replace (224 + c / 4096 <? 224) with false by lia.
    replace (224 + c / 4096 <? 240) with true by lia.
    unfold is_cont.
    replace ((128 <=? 128 + (c / 64) mod 64) && (128 + (c / 64) mod 64 <? 192)) with true by lia.
    replace ((128 <=? 128 + c mod 64) && (128 + c mod 64 <? 192)) with true by lia.
    assert (Hc : (224 + c / 4096 - 224) * 4096 + (128 + (c / 64) mod 64 - 128) * 64 + (128 + c mod 64 - 128) = c) by lia.
    rewrite Hc.
    replace (2048 <=? c) with true by lia.
    unfold valid_char. rewrite Hv. reflexivity. }
  { cbn [app decode1].
    assert (Hr : c <= 1114111) by lia.
    replace (240 + c / 262144 <? 128) with false by lia.
    replace (240 + c / 262144 <? 192) with false by lia.
    replace (240 + c / 262144 <? 224) with false by lia.
    replace (240 + c / 262144 <? 240) with false by lia.
    replace (240 + c / 262144 <? 248) with true by lia.
    unfold is_cont.
    replace ((128 <=? 128 + (c / 4096) mod 64) && (128 + (c / 4096) mod 64 <? 192)) with true by lia.
    replace ((128 <=? 128 + (c / 64) mod 64) && (128 + (c / 64) mod 64 <? 192)) with true by lia.
    replace ((128 <=? 128 + c mod 64) && (128 + c mod 64 <? 192)) with true by lia.
    assert (Hc : (240 + c / 262144 - 240) * 262144 + (128 + (c / 4096) mod 64 - 128) * 4096
                 + (128 + (c / 64) mod 64 - 128) * 64 + (128 + c mod 64 - 128) = c) by lia.
    rewrite Hc.
    replace (65536 <=? c) with true by lia.
    replace (c <=? 1114111) with true by lia. reflexivity. }
Qed.

Lemma encode_char_nonempty c : (1 <= length (encode_char c))%nat.
Proof. unfold encode_char. repeat destruct (_ <? _); cbn [length]; lia. Qed.

Lemma encode_char_length c : length (encode_char c) = clen c.
Proof. unfold encode_char, clen. repeat destruct (_ <? _); reflexivity. Qed.

Lemma encode_length s : length (encode s) = blen s.
Proof.
  induction s as [|c s IH]; [reflexivity|].
  unfold encode in *. cbn [flat_map blen]. rewrite app_length, IH, encode_char_length. reflexivity.
Qed.

Lemma encode_app a b : encode (a ++ b) = encode a ++ encode b.
Proof. unfold encode. apply flat_map_app. Qed.

Lemma decode_fuel_encode s : forall fuel rest_fuel,
  valid_str s = true -> (length (encode s) <= fuel)%nat -> rest_fuel = fuel ->
  decode_fuel fuel (encode s) = Some s.
Proof.
  induction s as [|c s IH]; intros fuel rf Hv Hf _.
  - destruct fuel; reflexivity.
  - cbn [valid_str forallb] in Hv. apply andb_true_iff in Hv. destruct Hv as [Hc Hs].
    unfold encode in *. cbn [flat_map] in *.
    pose proof (encode_char_nonempty c) as Hne. rewrite app_length in Hf.
    destruct fuel as [|f]; [lia|].
    destruct (encode_char c ++ flat_map encode_char s) eqn:E.
    { apply (f_equal (@length N)) in E. rewrite app_length in E. cbn in E. lia. }
    rewrite <- E. cbn [decode_fuel].
    rewrite decode1_encode_char by assumption.
    rewrite (IH f f) by (auto; lia).
    rewrite E. reflexivity.
Qed.

Theorem decode_encode s : valid_str s = true -> decode (encode s) = Some s.
Proof. intros Hv. unfold decode. eapply decode_fuel_encode; eauto. Qed.

(* An ASCII byte occurs in an encoding only as the character itself. *)
Lemma in_encode_char_ascii b c : b < 128 -> In b (encode_char c) -> c = b.
Proof.
  intros Hb. unfold encode_char.
  destruct (c <? 128) eqn:E1; [cbn; intros [H|[]]; congruence|].
  destruct (c <? 2048) eqn:E2; [cbn; intros [H|[H|[]]]; lia|].
  destruct (c <? 65536) eqn:E3; [cbn; intros [H|[H|[H|[]]]]; lia|].
  cbn; intros [H|[H|[H|[H|[]]]]]; lia.
Qed.

Lemma in_encode_ascii b s : b < 128 -> In b (encode s) -> In b s.
Proof.
  intros Hb. induction s as [|c s IH]; [intros []|].
  unfold encode in *. cbn [flat_map]. rewrite in_app_iff. intros [H|H].
  - left. apply in_encode_char_ascii in H; auto.
  - right. auto.
Qed.

Lemma last_encode_ascii b s : b < 128 ->
  forall l, encode s = l ++ [b] -> exists s', s = s' ++ [b].
Proof.
  intros Hb. induction s as [|c s IH] using rev_ind; intros l H.
  - destruct l; discriminate.
  - rewrite encode_app in H. unfold encode at 2 in H. cbn [flat_map] in H. rewrite app_nil_r in H.
    assert (Hin : In b (encode_char c)).
    { pose proof (encode_char_nonempty c) as Hne.
      destruct (encode_char c) as [|x xs] eqn:E using rev_ind; [cbn in Hne; lia|].
      rewrite app_assoc in H. apply app_inj_tail in H. destruct H as [_ ->].
      apply in_or_app. right. left. reflexivity. }
    apply in_encode_char_ascii in Hin; auto. subst c. eexists; reflexivity.
Qed.
