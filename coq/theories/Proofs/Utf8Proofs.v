(* decode (encode s) = Some s, and what bytes an encoding can contain. *)
From RL Require Import Utf8.
From Coq Require Import ZifyBool ZifyN ZifyNat.
Ltac Zify.zify_post_hook ::= Z.div_mod_to_equations.

Local Open Scope N_scope.

Lemma decode1_encode_char c rest :
  valid_char c = true -> decode1 (encode_char c ++ rest) = Some (c, rest).
Proof.
  intros Hv. unfold valid_char in Hv. unfold encode_char.
  destruct (c <? 128) eqn:E1.
  { cbn [app decode1]. rewrite E1. reflexivity. }
  destruct (c <? 2048) eqn:E2.
  { cbn [app decode1].
    replace (192 + c / 64 <? 128) with false by lia.
    replace (192 + c / 64 <? 192) with false by lia.
    replace (192 + c / 64 <? 224) with true by lia.
    unfold is_cont.
    replace ((128 <=? 128 + c mod 64) && (128 + c mod 64 <? 192)) with true by lia.
    replace (128 <=? (192 + c / 64 - 192) * 64 + (128 + c mod 64 - 128)) with true by lia.
    cbn [andb]. f_equal. f_equal. lia. }
  destruct (c <? 65536) eqn:E3.
  { cbn [app decode1].
    replace (224 + c / 4096 <? 128) with false by lia.
    replace (224 + c / 4096 <? 192) with false by lia.
    replace (224 + c / 4096 <? 224) with false by lia.
    replace (224 + c / 4096 <? 240) with true by lia.
    unfold is_cont.
    replace ((128 <=? 128 + (c / 64) mod 64) && (128 + (c / 64) mod 64 <? 192)) with true by lia.
    replace ((128 <=? 128 + c mod 64) && (128 + c mod 64 <? 192)) with true by lia.
    assert (Hc : (224 + c / 4096 - 224) * 4096 + (128 + (c / 64) mod 64 - 128) * 64 + (128 + c mod 64 - 128) = c) by lia.
    rewrite Hc.
    replace (2048 <=? c) with true by lia.
    unfold valid_char. rewrite Hv. reflexivity. }
  { cbn [app decode1].
    assert (Hr : c <= 1114111) by lia.
    replace (240 + c / 262144 <? 128) with false by lia.
    replace (240 + c / 262144 <? 192) with false by lia.
    replace (240 + c / 262144 <? 224) with false by lia.
    replace (240 + c / 262144 <? 240) with false by lia.
    replace (240 + c / 262144 <? 248) with true by lia.
    unfold is_cont.
    replace ((128 <=? 128 + (c / 4096) mod 64) && (128 + (c / 4096) mod 64 <? 192)) with true by lia.
    replace ((128 <=? 128 + (c / 64) mod 64) && (128 + (c / 64) mod 64 <? 192)) with true by lia.
    replace ((128 <=? 128 + c mod 64) && (128 + c mod 64 <? 192)) with true by lia.
    assert (Hc : (240 + c / 262144 - 240) * 262144 + (128 + (c / 4096) mod 64 - 128) * 4096
                 + (128 + (c / 64) mod 64 - 128) * 64 + (128 + c mod 64 - 128) = c) by lia.
    rewrite Hc.
    replace (65536 <=? c) with true by lia.
    replace (c <=? 1114111) with true by lia. reflexivity. }
Qed.

Lemma encode_char_nonempty c : (1 <= length (encode_char c))%nat.
Proof. unfold encode_char. repeat destruct (_ <? _); cbn [length]; lia. Qed.

Lemma encode_char_length c : length (encode_char c) = clen c.
Proof. unfold encode_char, clen. repeat destruct (_ <? _); reflexivity. Qed.

Lemma encode_length s : length (encode s) = blen s.
Proof.
  induction s as [|c s IH]; [reflexivity|].
  unfold encode in *. cbn [flat_map blen]. rewrite app_length, IH, encode_char_length. reflexivity.
Qed.

Lemma encode_app a b : encode (a ++ b) = encode a ++ encode b.
Proof. unfold encode. apply flat_map_app. Qed.

Lemma decode_fuel_encode s : forall fuel rest_fuel,
  valid_str s = true -> (length (encode s) <= fuel)%nat -> rest_fuel = fuel ->
  decode_fuel fuel (encode s) = Some s.
Proof.
  induction s as [|c s IH]; intros fuel rf Hv Hf _.
  - destruct fuel; reflexivity.
  - cbn [valid_str forallb] in Hv. apply andb_true_iff in Hv. destruct Hv as [Hc Hs].
    unfold encode in *. cbn [flat_map] in *.
    pose proof (encode_char_nonempty c) as Hne. rewrite app_length in Hf.
    destruct fuel as [|f]; [lia|].
    destruct (encode_char c ++ flat_map encode_char s) eqn:E.
    { apply (f_equal (@length N)) in E. rewrite app_length in E. cbn in E. lia. }
    rewrite <- E. cbn [decode_fuel].
    rewrite decode1_encode_char by assumption.
    rewrite (IH f f) by (auto; lia).
    rewrite E. reflexivity.
Qed.

Theorem decode_encode s : valid_str s = true -> decode (encode s) = Some s.
Proof. intros Hv. unfold decode. eapply decode_fuel_encode; eauto. Qed.

(* An ASCII byte occurs in an encoding only as the character itself. *)
Lemma in_encode_char_ascii b c : b < 128 -> In b (encode_char c) -> c = b.
Proof.
  intros Hb. unfold encode_char.
  destruct (c <? 128) eqn:E1; [cbn; intros [H|[]]; congruence|].
  destruct (c <? 2048) eqn:E2; [cbn; intros [H|[H|[]]]; lia|].
  destruct (c <? 65536) eqn:E3; [cbn; intros [H|[H|[H|[]]]]; lia|].
  cbn; intros [H|[H|[H|[H|[]]]]]; lia.
Qed.

Lemma in_encode_ascii b s : b < 128 -> In b (encode s) -> In b s.
Proof.
  intros Hb. induction s as [|c s IH]; [intros []|].
  unfold encode in *. cbn [flat_map]. rewrite in_app_iff. intros [H|H].
  - left. apply in_encode_char_ascii in H; auto.
  - right. auto.
Qed.

Lemma last_encode_ascii b s : b < 128 ->
  forall l, encode s = l ++ [b] -> exists s', s = s' ++ [b].
Proof.
  intros Hb. induction s as [|c s IH] using rev_ind; intros l H.
  - destruct l; discriminate.
  - rewrite encode_app in H. unfold encode at 2 in H. cbn [flat_map] in H. rewrite app_nil_r in H.
    assert (Hin : In b (encode_char c)).
    { pose proof (encode_char_nonempty c) as Hne.
      destruct (encode_char c) as [|x xs] eqn:E using rev_ind; [cbn in Hne; lia|].
      rewrite app_assoc in H. apply app_inj_tail in H. destruct H as [_ ->].
      apply in_or_app. right. left. reflexivity. }
    apply in_encode_char_ascii in Hin; auto. subst c. eexists; reflexivity.
Qed.

(* ---------- the decoder only accepts encodings ---------- *)

Lemma decode1_sound bs c rest :
  decode1 bs = Some (c, rest) -> bs = encode_char c ++ rest /\ valid_char c = true.
Proof.
  unfold decode1. destruct bs as [|b0 t0]; [discriminate|].
  destruct (b0 <? 128) eqn:E1.
  { intros H; inversion H; subst. unfold encode_char, valid_char. rewrite E1.
    split; [reflexivity|]. lia. }
  destruct (b0 <? 192) eqn:E2; [discriminate|].
  destruct (b0 <? 224) eqn:E3.
  { destruct t0 as [|b1 t1]; [discriminate|]. unfold is_cont.
    destruct ((128 <=? b1) && (b1 <? 192) && (128 <=? (b0 - 192) * 64 + (b1 - 128))) eqn:E; [|discriminate].
    intros H; inversion H; subst; clear H.
    set (v := (b0 - 192) * 64 + (b1 - 128)) in *.
    assert (Hc : 128 <= v < 2048) by lia.
    unfold encode_char, valid_char.
    replace (v <? 128) with false by lia. replace (v <? 2048) with true by lia.
    split; [|lia]. cbn [app]. f_equal; [|f_equal]; lia. }
  destruct (b0 <? 240) eqn:E4.
  { destruct t0 as [|b1 [|b2 t2]]; try discriminate. unfold is_cont.
    set (v := (b0 - 224) * 4096 + (b1 - 128) * 64 + (b2 - 128)).
    destruct ((128 <=? b1) && (b1 <? 192) && ((128 <=? b2) && (b2 <? 192)) && (2048 <=? v) && valid_char v) eqn:E; [|discriminate].
    intros H; inversion H; subst; clear H.
    apply andb_true_iff in E. destruct E as [E Hv].
    assert (Hc : 2048 <= v < 65536) by lia.
    unfold encode_char. replace (v <? 128) with false by lia. replace (v <? 2048) with false by lia.
    replace (v <? 65536) with true by lia.
    split; [|exact Hv]. cbn [app]. f_equal; [|f_equal; [|f_equal]]; lia. }
  destruct (b0 <? 248) eqn:E5; [|discriminate].
  destruct t0 as [|b1 [|b2 [|b3 t3]]]; try discriminate. unfold is_cont.
  set (v := (b0 - 240) * 262144 + (b1 - 128) * 4096 + (b2 - 128) * 64 + (b3 - 128)).
  destruct ((128 <=? b1) && (b1 <? 192) && ((128 <=? b2) && (b2 <? 192)) && ((128 <=? b3) && (b3 <? 192))
            && (65536 <=? v) && (v <=? 1114111)) eqn:E; [|discriminate].
  intros H; inversion H; subst; clear H.
  assert (Hc : 65536 <= v <= 1114111) by lia.
  unfold encode_char, valid_char. replace (v <? 128) with false by lia. replace (v <? 2048) with false by lia.
  replace (v <? 65536) with false by lia.
  split; [|lia]. cbn [app]. f_equal; [|f_equal; [|f_equal; [|f_equal]]]; lia.
Qed.

Lemma decode_fuel_sound fuel : forall bs s,
  decode_fuel fuel bs = Some s -> encode s = bs /\ valid_str s = true.
Proof.
  induction fuel as [|f IH]; intros bs s H.
  - destruct bs; [inversion H; subst; split; reflexivity|discriminate].
  - destruct bs as [|b bs']; [inversion H; subst; split; reflexivity|].
    cbn [decode_fuel] in H. destruct (decode1 (b :: bs')) as [[c rest]|] eqn:E1; [|discriminate].
    destruct (decode_fuel f rest) as [s'|] eqn:E2; [|discriminate]. inversion H; subst.
    apply decode1_sound in E1. destruct E1 as [E1 Hv]. apply IH in E2. destruct E2 as [E2 Hs].
    split.
    + unfold encode in *. cbn [flat_map]. rewrite E2. symmetry. exact E1.
    + cbn [valid_str forallb]. unfold valid_str in Hs. rewrite Hv, Hs. reflexivity.
Qed.

Lemma decode_sound bs s : decode bs = Some s -> encode s = bs /\ valid_str s = true.
Proof. apply decode_fuel_sound. Qed.

(* UTF-8 is a prefix code: a string whose encoding starts another's is a prefix of it *)
Lemma encode_prefix s' : forall s rest,
  valid_str s' = true -> valid_str s = true -> encode s' ++ rest = encode s ->
  exists t, s = s' ++ t.
Proof.
  induction s' as [|c s' IH]; intros s rest Hv' Hv H; [exists s; reflexivity|].
  cbn [valid_str forallb] in Hv'. apply andb_true_iff in Hv'. destruct Hv' as [Hc Hs'].
  unfold encode in H. cbn [flat_map] in H. rewrite <- app_assoc in H.
  destruct s as [|d s].
  - pose proof (encode_char_nonempty c) as Hne. cbn [flat_map] in H.
    apply (f_equal (@length N)) in H. rewrite app_length in H. cbn [length] in H. lia.
  - cbn [valid_str forallb] in Hv. apply andb_true_iff in Hv. destruct Hv as [Hd Hs].
    cbn [flat_map] in H.
    pose proof (decode1_encode_char c (flat_map encode_char s' ++ rest) Hc) as D1.
    pose proof (decode1_encode_char d (flat_map encode_char s) Hd) as D2.
    rewrite H in D1. rewrite D1 in D2. inversion D2; subst.
    destruct (IH s rest Hs' Hs) as [t Ht]; [unfold encode; congruence|].
    exists t. rewrite Ht. reflexivity.
Qed.
