(* C06: which commands end a kill run (src/keymap.rs Cmd::should_reset_kill_ring). *)
From RL Require Import UData LineBuffer KillRing Editor.

Lemma reset_rule n :
  should_reset_kill_ring (CKill (MForwardChar n)) = true
  /\ should_reset_kill_ring (CKill (MBackwardChar n)) = true
  /\ should_reset_kill_ring (CKill MEndOfLine) = false
  /\ should_reset_kill_ring (CYank n ABefore) = false
  /\ should_reset_kill_ring CYankPop = false
  /\ should_reset_kill_ring (CSelfInsert n 97) = true
  /\ should_reset_kill_ring (CMove MEndOfLine) = true.
Proof. repeat split. Qed.

(* every kill other than a single-character delete keeps the run going; every other command except
   Replace / Noop / Suspend / Yank / YankPop / ClearScreen ends it *)
Lemma reset_rule_kills m : should_reset_kill_ring (CKill m) = is_char_motion m.
Proof. reflexivity. Qed.
