(* C03, known finding K_insert_str_cursor: the totality-and-valid-cursor theorem for the raw primitive insert_str needs the
   premise "the offset is at or after the cursor" (op_pre). Without it the statement is FALSE of the faithful model -- and of
   the code: text inserted before the cursor leaves the byte cursor where it was, inside the inserted character. *)
From Coq Require Import List Arith NArith Lia.
From RL Require Import UData Ustr LineBuffer LineBufferOps LineBufferTotal LineBufferAll.
Import ListNotations.

Theorem insert_str_before_cursor_refuted :
  exists (b : lb) (i : nat) (s : str) (b' : lb) r ev,
    wf b /\ bd (buf b) i /\ i < pos b
    /\ insert_str i s b = Ok (r, b', ev) /\ ~ wf b'.
Proof.
  exists (mkLb [97; 98]%N 1 4096 true), 0, [233%N].
  eexists. eexists. eexists.
  split; [exists [97%N], [98%N]; split; reflexivity|].
  split; [apply bd_0|]. split; [cbn; lia|].
  split; [vm_compute; reflexivity|].
  intros [l [r' [H1 H2]]]. cbn in H1, H2.
  destruct l as [|x l]; [cbn in H2; discriminate H2|].
  cbn [app] in H1. injection H1 as Hx Hl. subst x. cbn [blen] in H2.
  assert (Hc : clen 233%N = 2) by (vm_compute; reflexivity). rewrite Hc in H2. lia.
Qed.
