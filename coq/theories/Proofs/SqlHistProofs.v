(* C20: row bookkeeping of the SQLite history: rows stay in strictly increasing rowid order = order of
   (last) entry; walking with get visits every row exactly once, newest to oldest and back; refusals. *)
From Coq Require Import Sorting.Sorted.
From RL Require Import UData History SqlHist.

Definition rlt (a b : row) : Prop := r_id a < r_id b.
Definition sorted (rows : list row) : Prop := StronglySorted rlt rows.

Lemma max_id_acc rows : forall k, fold_left (fun a r => Nat.max a (r_id r)) rows k = Nat.max k (max_id rows).
Proof.
  unfold max_id. induction rows as [|r rows IH]; intros k; cbn [fold_left]; [lia|].
  rewrite (IH (Nat.max k (r_id r))), (IH (Nat.max 0 (r_id r))). lia.
Qed.
Lemma max_id_cons r rows : max_id (r :: rows) = Nat.max (r_id r) (max_id rows).
Proof. unfold max_id at 1. cbn [fold_left]. rewrite max_id_acc. lia. Qed.
Lemma max_id_app l r : max_id (l ++ [r]) = Nat.max (max_id l) (r_id r).
Proof. induction l as [|x l IH]; [cbn; lia|]. cbn [app]. rewrite !max_id_cons, IH. lia. Qed.
Lemma max_id_ge rows r : In r rows -> r_id r <= max_id rows.
Proof.
  induction rows as [|x rows IH]; intros H; [destruct H|]. rewrite max_id_cons.
  destruct H as [->|H]; [lia|]. specialize (IH H). lia.
Qed.

Lemma sorted_app_one l r : sorted l -> (forall x, In x l -> r_id x < r_id r) -> sorted (l ++ [r]).
Proof.
  induction l as [|x l IH]; intros Hs Hlt; cbn [app].
  - constructor; [constructor|constructor].
  - inversion Hs as [|x' l' Hs' Hx]; subst. constructor.
    + apply IH; [exact Hs'|]. intros y Hy. apply Hlt. right. exact Hy.
    + apply Forall_app. split; [exact Hx|]. constructor; [|constructor]. apply Hlt. left. reflexivity.
Qed.
Lemma sorted_filter f l : sorted l -> sorted (filter f l).
Proof.
  induction 1 as [|x l Hs IH Hx]; cbn [filter]; [constructor|].
  destruct (f x); [|exact IH]. constructor; [exact IH|].
  rewrite Forall_forall in *. intros y Hy. apply Hx. apply filter_In in Hy. tauto.
Qed.
Lemma sorted_skipn n : forall l, sorted l -> sorted (skipn n l).
Proof.
  induction n as [|n IH]; intros l Hs; [exact Hs|]. destruct l as [|x l]; [constructor|].
  cbn [skipn]. apply IH. inversion Hs; assumption.
Qed.

Section SqlProofs.
  Variable U : UData.

  (* the invariant of every reachable state: rowids strictly increasing along the list, the cache at least the
     largest of them *)
  Definition sql_inv (h : sqlh) : Prop := sorted (q_rows h) /\ max_id (q_rows h) <= q_cache h.

  Lemma inv_new max igs igd : sql_inv (sql_new max igs igd).
  Proof. split; [constructor|cbn; lia]. Qed.

  Lemma inv_add h l : sql_inv h -> sql_inv (fst (sql_add U h l)).
  Proof.
    intros [Hs Hc]. unfold sql_add. destruct (sql_ignore U h l); [split; assumption|].
    destruct (Nat.eqb (q_sess h) 0); cbn [fst]; unfold sql_inv; cbn [q_rows q_cache].
    - set (kept := if q_igd h then filter _ (q_rows h) else q_rows h).
      assert (Hk : sorted kept /\ forall x, In x kept -> In x (q_rows h)).
      { unfold kept. destruct (q_igd h); [split; [apply sorted_filter; exact Hs|intros x Hx; apply filter_In in Hx; tauto]|split; auto]. }
      destruct Hk as [Hk1 Hk2]. split.
      + apply sorted_app_one; [exact Hk1|]. intros x Hx. cbn [r_id]. pose proof (max_id_ge _ _ (Hk2 x Hx)). lia.
      + rewrite max_id_app. cbn [r_id].
        assert (max_id kept <= max_id (q_rows h)).
        { clear -Hk2. induction kept as [|x kept IH]; [cbn; lia|]. rewrite max_id_cons.
          pose proof (max_id_ge _ _ (Hk2 x (or_introl eq_refl))).
          assert (forall y, In y kept -> In y (q_rows h)) by (intros y Hy; apply Hk2; right; exact Hy).
          specialize (IH H0). lia. }
        lia.
    - set (kept := if q_igd h then filter _ (q_rows h) else q_rows h).
      assert (Hk : sorted kept /\ forall x, In x kept -> In x (q_rows h)).
      { unfold kept. destruct (q_igd h); [split; [apply sorted_filter; exact Hs|intros x Hx; apply filter_In in Hx; tauto]|split; auto]. }
      destruct Hk as [Hk1 Hk2]. split.
      + apply sorted_app_one; [exact Hk1|]. intros x Hx. cbn [r_id]. pose proof (max_id_ge _ _ (Hk2 x Hx)). lia.
      + rewrite max_id_app. cbn [r_id].
        assert (max_id kept <= max_id (q_rows h)).
        { clear -Hk2. induction kept as [|x kept IH]; [cbn; lia|]. rewrite max_id_cons.
          pose proof (max_id_ge _ _ (Hk2 x (or_introl eq_refl))).
          assert (forall y, In y kept -> In y (q_rows h)) by (intros y Hy; apply Hk2; right; exact Hy).
          specialize (IH H0). lia. }
        lia.
  Qed.

  Lemma inv_get h i d : sql_inv h -> sql_inv (fst (sql_get h i d)).
  Proof.
    intros [Hs Hc]. unfold sql_get. destruct (Nat.eqb (q_cache h) 0); [split; assumption|].
    destruct (match d with Forward => find_ge | Reverse => find_le end (q_rows h) (S i)); [|split; assumption].
    split; cbn [fst q_rows q_cache]; [exact Hs|lia].
  Qed.
  Lemma max_id_skipn n : forall l, max_id (skipn n l) <= max_id l.
  Proof.
    induction n as [|n IH]; intros l; [cbn [skipn]; lia|]. destruct l as [|x l]; [cbn [skipn]; lia|].
    cbn [skipn]. rewrite max_id_cons. specialize (IH l). lia.
  Qed.
  Lemma inv_set_max h n : sql_inv h -> sql_inv (sql_set_max h n).
  Proof.
    intros [Hs Hc]. split; cbn [sql_set_max q_rows q_cache]; [apply sorted_skipn; exact Hs|].
    pose proof (max_id_skipn (length (q_rows h) - n) (q_rows h)). lia.
  Qed.
  Lemma inv_reopen h : sql_inv h -> sql_inv (sql_reopen h).
  Proof. intros [Hs Hc]. split; cbn [sql_reopen q_rows q_cache]; [exact Hs|lia]. Qed.

  Lemma inv_reopen_cfg h igs igd : sql_inv h -> sql_inv (sql_reopen_cfg h igs igd).
  Proof. intros [Hs Hc]. split; cbn [sql_reopen_cfg q_rows q_cache]; [exact Hs|lia]. Qed.

  Lemma inv_set_dups h yes : sql_inv h -> sql_inv (fst (sql_set_dups h yes)).
  Proof.
    intros [Hs Hc]. unfold sql_set_dups. destruct (Bool.eqb (q_igd h) yes); [split; assumption|].
    destruct (yes && has_dup_rows (q_rows h))%bool; split; cbn [fst q_rows q_cache]; assumption.
  Qed.
  Lemma inv_set_space h yes : sql_inv h -> sql_inv (sql_set_space h yes).
  Proof. intros [Hs Hc]. split; cbn [sql_set_space q_rows q_cache]; assumption. Qed.

  Theorem inv_run ops : forall h, sql_inv h -> sql_inv (fst (sql_run U h ops)).
  Proof.
    induction ops as [|o ops IH]; intros h Hi; cbn [sql_run]; [exact Hi|].
    destruct (sql_step U h o) as [h1 x] eqn:E. specialize (IH h1).
    destruct (sql_run U h1 ops) as [h2 xs]. cbn [fst] in *. apply IH.
    destruct o; cbn [sql_step] in E.
    - destruct (sql_add U h l) as [h' b] eqn:Ea. inversion E; subst. pose proof (inv_add h l Hi) as H. rewrite Ea in H. exact H.
    - destruct (sql_get h i d) as [h' r] eqn:Eg. inversion E; subst. pose proof (inv_get h i d Hi) as H. rewrite Eg in H. exact H.
    - inversion E; subst. exact Hi.
    - inversion E; subst. apply inv_set_max. exact Hi.
    - inversion E; subst. apply inv_reopen. exact Hi.
    - inversion E; subst. apply inv_reopen_cfg. exact Hi.
    - destruct (sql_set_dups h yes) as [h' ok] eqn:Es. inversion E; subst.
      pose proof (inv_set_dups h yes Hi) as H. rewrite Es in H. exact H.
    - inversion E; subst. apply inv_set_space. exact Hi.
  Qed.

  Corollary reachable_sql_inv ops max igs igd : sql_inv (fst (sql_run U (sql_new max igs igd) ops)).
  Proof. apply inv_run. apply inv_new. Qed.

  (* ---------- an accepted line becomes the newest row; the rest keeps its order ---------- *)

  Theorem add_appends h l :
    sql_ignore U h l = false ->
    exists sess id, snd (sql_add U h l) = true
      /\ q_rows (fst (sql_add U h l))
         = (if q_igd h then filter (fun r => negb (same_key sess l r)) (q_rows h) else q_rows h) ++ [mkRow id sess l].
  Proof.
    intros Hi. unfold sql_add. rewrite Hi. destruct (Nat.eqb (q_sess h) 0); eexists _, _; split; reflexivity.
  Qed.

  (* the refusal rule: exactly the empty line, a zero limit, a leading blank under ignore-space (duplicates are
     not refused, they move to the newest position) *)
  Theorem add_refusal h l :
    snd (sql_add U h l) = false <->
    (q_max h = 0 \/ l = [] \/ (q_igs h = true /\ exists c t, l = c :: t /\ u_is_whitespace U c = true)).
  Proof.
    unfold sql_add. destruct (sql_ignore U h l) eqn:Ei.
    - cbn [snd]. split; [intros _|reflexivity]. unfold sql_ignore in Ei. apply orb_true_iff in Ei.
      destruct Ei as [Ei|Ei]; [left; apply Nat.eqb_eq; exact Ei|]. destruct l as [|c t]; [right; left; reflexivity|].
      apply andb_true_iff in Ei. right. right. split; [tauto|]. exists c, t. tauto.
    - destruct (Nat.eqb (q_sess h) 0); cbn [snd]; (split; [discriminate|]); intros H; exfalso;
        unfold sql_ignore in Ei; apply orb_false_iff in Ei; destruct Ei as [E1 E2];
        (destruct H as [H|[H|[H1 [c [t [H2 H3]]]]]];
         [apply Nat.eqb_neq in E1; congruence|subst l; discriminate|subst l; rewrite H1, H3 in E2; discriminate]).
  Qed.

  (* ---------- walking ---------- *)

  Lemma find_le_app_hit l r b :
    (forall x, In x l -> r_id x < r_id r) -> r_id r <= b -> find_le (l ++ [r]) b = Some r.
  Proof.
    induction l as [|x l IH]; intros Hlt Hb; cbn [app find_le].
    - replace (Nat.leb (r_id r) b) with true by (symmetry; apply Nat.leb_le; exact Hb). reflexivity.
    - assert (r_id x < r_id r) by (apply Hlt; left; reflexivity).
      replace (Nat.leb (r_id x) b) with true by (symmetry; apply Nat.leb_le; lia).
      rewrite IH; [reflexivity| |exact Hb]. intros y Hy. apply Hlt. right. exact Hy.
  Qed.
  Lemma find_le_app_miss l r b : b < r_id r -> find_le (l ++ [r]) b = find_le l b.
  Proof.
    intros Hb. induction l as [|x l IH]; cbn [app find_le].
    - replace (Nat.leb (r_id r) b) with false by (symmetry; apply Nat.leb_gt; exact Hb). reflexivity.
    - rewrite IH. reflexivity.
  Qed.
  Lemma find_le_bound l b r : find_le l b = Some r -> r_id r <= b.
  Proof.
    revert r. induction l as [|x l IH]; intros r H; cbn [find_le] in H; [discriminate|].
    destruct (Nat.leb (r_id x) b) eqn:E; [|discriminate]. apply Nat.leb_le in E.
    destruct (find_le l b) as [r'|] eqn:E2; inversion H; subst; [apply IH; reflexivity|exact E].
  Qed.
  Lemma walk_down_app_miss fuel : forall l r b, b < r_id r -> walk_down fuel (l ++ [r]) b = walk_down fuel l b.
  Proof.
    induction fuel as [|f IH]; intros l r b Hb; cbn [walk_down]; [reflexivity|].
    rewrite find_le_app_miss by exact Hb. destruct (find_le l b) as [x|] eqn:E; [|reflexivity].
    f_equal. apply IH. pose proof (find_le_bound _ _ _ E). lia.
  Qed.

  (* from any bound at or above the largest rowid, with enough steps: every row exactly once, newest first *)
  Theorem walk_down_all rows : forall fuel b,
    sorted rows -> (forall x, In x rows -> 1 <= r_id x) -> max_id rows <= b -> length rows <= fuel ->
    walk_down (S fuel) rows b = rev rows.
  Proof.
    induction rows as [|r l IH] using rev_ind; intros fuel b Hs Hpos Hb Hf.
    - reflexivity.
    - rewrite rev_unit. rewrite app_length in Hf. cbn [length] in Hf.
      assert (Hlt : forall x, In x l -> r_id x < r_id r).
      { clear -Hs. induction l as [|y l IHl]; intros x Hx; [destruct Hx|]. cbn [app] in Hs.
        inversion Hs as [|y' l' Hs' Hy]; subst. destruct Hx as [->|Hx].
        - rewrite Forall_forall in Hy. apply Hy. apply in_or_app. right. left. reflexivity.
        - apply IHl; assumption. }
      assert (Hsl : sorted l).
      { clear -Hs. induction l as [|y l IHl]; [constructor|]. cbn [app] in Hs. inversion Hs as [|y' l' Hs' Hy]; subst.
        constructor; [apply IHl; exact Hs'|]. apply Forall_app in Hy. tauto. }
      rewrite max_id_app in Hb.
      cbn [walk_down]. rewrite (find_le_app_hit l r b Hlt) by lia. f_equal.
      destruct fuel as [|fuel]; [lia|].
      rewrite walk_down_app_miss by (assert (1 <= r_id r) by (apply Hpos; apply in_or_app; right; left; reflexivity); lia).
      apply IH; [exact Hsl| | |lia].
      + intros x Hx. apply Hpos. apply in_or_app. left. exact Hx.
      + assert (max_id l < r_id r \/ l = []).
        { destruct l as [|y l']; [right; reflexivity|left].
          clear -Hlt. assert (forall k, (forall x, In x (y :: l') -> r_id x < k) -> 0 < k -> max_id (y :: l') < k).
          { intros k. generalize (y :: l'). induction l as [|z l IHl]; intros Hk H0; [cbn; lia|].
            rewrite max_id_cons. pose proof (Hk z (or_introl eq_refl)).
            assert (max_id l < k) by (apply IHl; [intros x Hx; apply Hk; right; exact Hx|exact H0]). lia. }
          apply H; [exact Hlt|]. pose proof (Hlt y (or_introl eq_refl)). lia. }
        destruct H as [H|H]; [lia|subst l; cbn; lia].
  Qed.

  Lemma find_ge_head r l b : b <= r_id r -> find_ge (r :: l) b = Some r.
  Proof. intros H. cbn [find_ge]. replace (Nat.leb b (r_id r)) with true by (symmetry; apply Nat.leb_le; exact H). reflexivity. Qed.
  Lemma find_ge_skip r l b : r_id r < b -> find_ge (r :: l) b = find_ge l b.
  Proof. intros H. cbn [find_ge]. replace (Nat.leb b (r_id r)) with false by (symmetry; apply Nat.leb_gt; exact H). reflexivity. Qed.

  (* and from the oldest upwards: every row exactly once, in the order entered *)
  Theorem walk_up_all rows : forall fuel b,
    sorted rows -> (forall x, In x rows -> b <= r_id x) -> length rows <= fuel ->
    walk_up (S fuel) rows b = rows.
  Proof.
    induction rows as [|r l IH]; intros fuel b Hs Hb Hf; [reflexivity|].
    cbn [length] in Hf. cbn [walk_up]. rewrite find_ge_head by (apply Hb; left; reflexivity). f_equal.
    destruct fuel as [|fuel]; [lia|].
    inversion Hs as [|r' l' Hs' Hr]; subst. rewrite Forall_forall in Hr.
    assert (Hstep : forall f b', r_id r < b' -> walk_up f (r :: l) b' = walk_up f l b').
    { induction f as [|f IHf]; intros b' Hb'; [reflexivity|]. cbn [walk_up]. rewrite find_ge_skip by exact Hb'.
      destruct (find_ge l b') as [x|] eqn:E; [|reflexivity]. f_equal. apply IHf.
      assert (b' <= r_id x).
      { clear -E. revert E. induction l as [|y l IHl]; intros E; [discriminate|]. cbn [find_ge] in E.
        destruct (Nat.leb b' (r_id y)) eqn:E2; [inversion E; subst; apply Nat.leb_le; exact E2|apply IHl; exact E]. }
      lia. }
    rewrite Hstep by lia. apply IH; [exact Hs'| |lia]. intros x Hx. specialize (Hr x Hx). unfold rlt in Hr. lia.
  Qed.
End SqlProofs.
