(* C11: sessions sharing one history file (operation granularity). *)
From RL Require Import Utf8 History HistFile Utf8Proofs HistFileProofs.

(* ---------- the file always holds a saved entry list ---------- *)

Definition file_ok (fs : fsys) : Prop :=
  match fs_content fs with
  | None => True
  | Some c => exists es, c = save_bytes es /\ Forall (fun e => valid_str e = true) es
  end.

Definition sess_valid (f : fhist) : Prop := Forall (fun e => valid_str e = true) (f_entries f).

Lemma Forall_skipn {A} (P : A -> Prop) n l : Forall P l -> Forall P (skipn n l).
Proof.
  intros H. apply Forall_forall. intros x Hx. rewrite Forall_forall in H. apply H.
  rewrite <- (firstn_skipn n l). apply in_or_app. right. exact Hx.
Qed.

Lemma f_add_valid U f l : sess_valid f -> valid_str l = true -> sess_valid (fst (f_add U f l)).
Proof.
  intros Hs Hl. destruct (f_add_spec U f l) as [->|[-> _]]; [exact Hs|]. cbn [fst].
  unfold sess_valid, f_inserted, f_entries, h_insert in *. cbn [f_mem h_entries].
  apply Forall_app. split; [|constructor; [exact Hl|constructor]].
  destruct (Nat.eqb _ _); [apply Forall_tl|]; exact Hs.
Qed.

Lemma f_add_all_valid U ls : forall f, sess_valid f -> Forall (fun e => valid_str e = true) ls ->
  sess_valid (f_add_all U f ls).
Proof.
  induction ls as [|l ls IH]; intros f Hs Hl; [exact Hs|]. inversion Hl; subst.
  cbn [f_add_all]. apply IH; [apply f_add_valid; assumption|assumption].
Qed.

Lemma pending_valid f : sess_valid f -> Forall (fun e => valid_str e = true) (pending f).
Proof. intros H. unfold pending. apply Forall_skipn. exact H. Qed.

Lemma fresh_valid max igs igd : sess_valid (f_new_cfg max igs igd).
Proof. constructor. Qed.

(* what each write leaves in the file *)
Lemma f_save_file f fs tick f' fs' r :
  f_save f fs tick = (f', fs', r) ->
  (fs' = fs /\ f' = f) \/ (fs_content fs' = Some (save_bytes (f_entries f)) /\ f_new f' = 0).
Proof.
  unfold f_save. destruct (Nat.eqb (hlen (f_mem f)) 0 || Nat.eqb (f_new f) 0).
  - intros H; inversion H; subst. left; split; reflexivity.
  - intros H; inversion H; subst. right. split; reflexivity.
Qed.

Inductive append_effect (U : UData) (f : fhist) (fs fs' : fsys) : Prop :=
| AE_none : fs' = fs -> append_effect U f fs fs'
| AE_save : fs_content fs' = Some (save_bytes (f_entries f)) ->
            (fs_content fs = None \/ f_new f = h_max (f_mem f)) -> append_effect U f fs fs'
| AE_fast : forall c, fs_content fs = Some c -> can_just_append f fs = true ->
            fs_content fs' = Some (c ++ entries_bytes (pending f)) -> append_effect U f fs fs'
| AE_merge : forall c other ap, fs_content fs = Some c ->
             load_from U (f_new_cfg (h_max (f_mem f)) (h_ign_space (f_mem f)) (h_ign_dups (f_mem f))) c = LOk other ap ->
             fs_content fs' = Some (save_bytes (f_entries (f_add_all U other (pending f)))) ->
             append_effect U f fs fs'.

Lemma f_append_effect U f fs tick f' fs' r :
  f_append U f fs tick = (f', fs', r) -> append_effect U f fs fs'.
Proof.
  unfold f_append.
  destruct (Nat.eqb (hlen (f_mem f)) 0 || Nat.eqb (f_new f) 0) eqn:E0.
  { intros H; inversion H; subst. apply AE_none. reflexivity. }
  destruct (fs_content fs) as [c|] eqn:Ec.
  2:{ unfold f_save. rewrite E0. intros H; inversion H; subst. apply AE_save; [reflexivity|left; exact Ec]. }
  destruct (Nat.eqb (f_new f) (h_max (f_mem f))) eqn:Em.
  { unfold f_save. rewrite E0. intros H; inversion H; subst. apply AE_save; [reflexivity|].
    right. apply Nat.eqb_eq. exact Em. }
  destruct (can_just_append f fs) eqn:Ej.
  { intros H; inversion H; subst. eapply AE_fast; eauto. }
  destruct (load_from U _ c) as [other ap|other] eqn:El.
  - intros H; inversion H; subst. eapply AE_merge; eauto.
  - intros H; inversion H; subst. apply AE_none. reflexivity.
Qed.

(* after a write the session has nothing pending: the same line is never
   written twice by the same session *)
Lemma f_append_new U f fs tick f' fs' r :
  f_append U f fs tick = (f', fs', r) -> fs' = fs \/ f_new f' = 0.
Proof.
  unfold f_append.
  destruct (Nat.eqb (hlen (f_mem f)) 0 || Nat.eqb (f_new f) 0) eqn:E0.
  { intros H; inversion H; subst. left; reflexivity. }
  destruct (fs_content fs) as [c|] eqn:Ec.
  2:{ unfold f_save. rewrite E0. intros H; inversion H; subst. right; reflexivity. }
  destruct (Nat.eqb (f_new f) (h_max (f_mem f))).
  { unfold f_save. rewrite E0. intros H; inversion H; subst. right; reflexivity. }
  destruct (can_just_append f fs).
  { intros H; inversion H; subst. right; reflexivity. }
  destruct (load_from U _ c) as [other ap|other].
  - intros H; inversion H; subst. right; reflexivity.
  - intros H; inversion H; subst. left; reflexivity.
Qed.

Lemma f_append_nothing_pending U f fs tick :
  f_new f = 0 -> f_append U f fs tick = (f, fs, IoOk).
Proof. intros H. unfold f_append. rewrite H. rewrite orb_true_r. reflexivity. Qed.

Lemma f_save_nothing_pending f fs tick : f_new f = 0 -> f_save f fs tick = (f, fs, IoOk).
Proof. intros H. unfold f_save. rewrite H. rewrite orb_true_r. reflexivity. Qed.

Lemma f_append_entries U f fs tick f' fs' r :
  f_append U f fs tick = (f', fs', r) -> f_mem f' = f_mem f.
Proof.
  unfold f_append, f_save.
  destruct (Nat.eqb (hlen (f_mem f)) 0 || Nat.eqb (f_new f) 0); [intros H; inversion H; reflexivity|].
  destruct (fs_content fs) as [c|]; [|intros H; inversion H; reflexivity].
  destruct (Nat.eqb (f_new f) (h_max (f_mem f))); [intros H; inversion H; reflexivity|].
  destruct (can_just_append f fs); [intros H; inversion H; reflexivity|].
  destruct (load_from U _ c); intros H; inversion H; reflexivity.
Qed.

Lemma f_save_entries f fs tick f' fs' r : f_save f fs tick = (f', fs', r) -> f_mem f' = f_mem f.
Proof.
  unfold f_save. destruct (Nat.eqb (hlen (f_mem f)) 0 || Nat.eqb (f_new f) 0); intros H; inversion H; reflexivity.
Qed.

(* the file invariant is kept by every session operation *)
Lemma f_append_file_ok U f fs tick f' fs' r :
  file_ok fs -> sess_valid f -> f_append U f fs tick = (f', fs', r) -> file_ok fs'.
Proof.
  intros Hok Hv H. apply f_append_effect in H. destruct H as [->|Hs _|c Hc _ Hf|c other ap Hc Hl Hf].
  - exact Hok.
  - unfold file_ok. rewrite Hs. exists (f_entries f). split; [reflexivity|exact Hv].
  - unfold file_ok in *. rewrite Hc in Hok. destruct Hok as [es [-> Hes]]. rewrite Hf.
    exists (es ++ pending f). split; [apply save_bytes_app|].
    apply Forall_app. split; [exact Hes|apply pending_valid; exact Hv].
  - unfold file_ok in *. rewrite Hc in Hok. destruct Hok as [es [-> Hes]]. rewrite Hf.
    eexists. split; [reflexivity|].
    destruct (load_save_general U (f_new_cfg (h_max (f_mem f)) (h_ign_space (f_mem f)) (h_ign_dups (f_mem f))) es Hes)
      as [ap' Hl']. rewrite Hl' in Hl. inversion Hl; subst.
    apply f_add_all_valid; [|apply pending_valid; exact Hv].
    change (sess_valid (f_reset (f_add_all U (f_new_cfg (h_max (f_mem f)) (h_ign_space (f_mem f)) (h_ign_dups (f_mem f))) es)))
      with (sess_valid (f_add_all U (f_new_cfg (h_max (f_mem f)) (h_ign_space (f_mem f)) (h_ign_dups (f_mem f))) es)).
    apply f_add_all_valid; [apply fresh_valid|exact Hes].
Qed.

Lemma f_save_file_ok f fs tick f' fs' r :
  file_ok fs -> sess_valid f -> f_save f fs tick = (f', fs', r) -> file_ok fs'.
Proof.
  intros Hok Hv H. apply f_save_file in H. destruct H as [[-> _]|[Hs _]]; [exact Hok|].
  unfold file_ok. rewrite Hs. exists (f_entries f). split; [reflexivity|exact Hv].
Qed.

Lemma f_load_valid U f fs f' r :
  file_ok fs -> sess_valid f -> f_load U f fs = (f', r) -> sess_valid f' /\ (fs_content fs <> None -> r = IoOk).
Proof.
  intros Hok Hv. unfold f_load, file_ok in *. destruct (fs_content fs) as [c|].
  2:{ intros H; inversion H; subst. split; [exact Hv|congruence]. }
  destruct Hok as [es [-> Hes]].
  destruct (load_save_general U f es Hes) as [ap Hl]. rewrite Hl.
  assert (Hv' : sess_valid (f_reset (f_add_all U f es))) by (apply (f_add_all_valid U es f Hv Hes)).
  destruct ap; intros H; inversion H; subst; split; try reflexivity; exact Hv'.
Qed.

(* ---------- worlds reachable by session programs ---------- *)

Definition world_ok (w : world) : Prop :=
  file_ok (w_fs w) /\ forall i f, sess_get (w_sessions w) i = Some f -> sess_valid f.

Definition op_ok (o : fop) : Prop :=
  match o with
  | FAdd _ l => valid_str l = true
  | FPut _ _ => False          (* only sessions write the file *)
  | _ => True
  end.

Lemma sess_get_set_same ss i f : sess_get (sess_set ss i f) i = Some f.
Proof.
  induction ss as [|[j g] ss IH]; cbn [sess_set sess_get].
  - rewrite Nat.eqb_refl. reflexivity.
  - destruct (Nat.eqb i j) eqn:E; cbn [sess_get]; rewrite E; [reflexivity|exact IH].
Qed.

Lemma sess_get_set_other ss i j f : i <> j -> sess_get (sess_set ss i f) j = sess_get ss j.
Proof.
  intros Hij. induction ss as [|[k g] ss IH]; cbn [sess_set sess_get].
  - destruct (Nat.eqb j i) eqn:E; [apply Nat.eqb_eq in E; congruence|reflexivity].
  - destruct (Nat.eqb i k) eqn:E; cbn [sess_get].
    + apply Nat.eqb_eq in E. subst k. destruct (Nat.eqb j i) eqn:E2; [apply Nat.eqb_eq in E2; congruence|reflexivity].
    + destruct (Nat.eqb j k); [reflexivity|exact IH].
Qed.

Lemma world_ok_set w i f fs :
  world_ok w -> file_ok fs -> sess_valid f -> world_ok (mkW (sess_set (w_sessions w) i f) fs).
Proof.
  intros [_ Hs] Hf Hv. split; [exact Hf|]. cbn [w_sessions]. intros j g Hg.
  destruct (Nat.eq_dec i j) as [->|Hij].
  - rewrite sess_get_set_same in Hg. inversion Hg; subst. exact Hv.
  - rewrite sess_get_set_other in Hg by assumption. eapply Hs; eauto.
Qed.

Lemma w_step_ok U w o : world_ok w -> op_ok o -> world_ok (fst (w_step U w o)).
Proof.
  intros Hw Ho. pose proof Hw as [Hf Hs].
  destruct o as [i max igs igd|i l|i tick|i tick|i|i n|i|bytes tick| ]; cbn [w_step].
  - cbn [fst]. apply world_ok_set; auto. apply fresh_valid.
  - destruct (sess_get (w_sessions w) i) as [f|] eqn:E; [|exact Hw].
    destruct (f_add U f l) as [f' b] eqn:Ea. cbn [fst]. apply world_ok_set; auto.
    replace f' with (fst (f_add U f l)) by (rewrite Ea; reflexivity). apply f_add_valid; eauto.
  - destruct (sess_get (w_sessions w) i) as [f|] eqn:E; [|exact Hw].
    destruct (f_save f (w_fs w) tick) as [[f' fs'] r] eqn:Ea. cbn [fst].
    pose proof (f_save_file_ok _ _ _ _ _ _ Hf (Hs _ _ E) Ea).
    apply world_ok_set; auto. unfold sess_valid, f_entries. rewrite (f_save_entries _ _ _ _ _ _ Ea). eapply Hs; eauto.
  - destruct (sess_get (w_sessions w) i) as [f|] eqn:E; [|exact Hw].
    destruct (f_append U f (w_fs w) tick) as [[f' fs'] r] eqn:Ea. cbn [fst].
    pose proof (f_append_file_ok _ _ _ _ _ _ _ Hf (Hs _ _ E) Ea).
    apply world_ok_set; auto. unfold sess_valid, f_entries. rewrite (f_append_entries _ _ _ _ _ _ _ Ea). eapply Hs; eauto.
  - destruct (sess_get (w_sessions w) i) as [f|] eqn:E; [|exact Hw].
    destruct (f_load U f (w_fs w)) as [f' r] eqn:Ea. cbn [fst].
    apply world_ok_set; auto. eapply f_load_valid; eauto.
  - destruct (sess_get (w_sessions w) i) as [f|] eqn:E; [|exact Hw]. cbn [fst].
    apply world_ok_set; auto. unfold sess_valid, f_set_max_len, f_entries, h_set_max_len. cbn [f_mem h_entries].
    destruct (Nat.ltb _ _); [apply Forall_skipn|]; eapply Hs; eauto.
  - destruct (sess_get (w_sessions w) i) as [f|] eqn:E; [|exact Hw]. cbn [fst].
    apply world_ok_set; auto. constructor.
  - destruct Ho.
  - cbn [fst]. split; [exact I|exact Hs].
Qed.

Fixpoint w_steps (U : UData) (w : world) (ops : list fop) : world :=
  match ops with [] => w | o :: t => w_steps U (fst (w_step U w o)) t end.

(* C11 "the file always loads": after any interleaving of any number of
   sessions, the file (if present) is a saved entry list, and loading it into
   any history succeeds *)
Theorem always_loads U ops : forall w,
  world_ok w -> Forall op_ok ops ->
  world_ok (w_steps U w ops).
Proof.
  induction ops as [|o ops IH]; intros w Hw Ho; [exact Hw|]. inversion Ho; subst.
  cbn [w_steps]. apply IH; [apply w_step_ok; assumption|assumption].
Qed.

Theorem ok_file_loads U fs f c :
  file_ok fs -> fs_content fs = Some c -> exists f' ap, load_from U f c = LOk f' ap.
Proof.
  unfold file_ok. intros H Hc. rewrite Hc in H. destruct H as [es [-> Hes]].
  destruct (load_save_general U f es Hes) as [ap Hl]. eexists; eexists; exact Hl.
Qed.

Lemma w_init_ok : world_ok w_init.
Proof. split; [exact I|]. intros i f H. discriminate. Qed.

(* ---------- shape of a merge: old entries, then the accepted new lines, cut from the old end ---------- *)

Fixpoint accepted (U : UData) (f : fhist) (ls : list str) : list str :=
  match ls with
  | [] => []
  | l :: t => if snd (f_add U f l) then l :: accepted U (fst (f_add U f l)) t
              else accepted U (fst (f_add U f l)) t
  end.

Definition lastn {A} (n : nat) (l : list A) : list A := skipn (length l - n) l.

Lemma lastn_cons_drop {A} n (a : A) l : n <= length l -> lastn n (a :: l) = lastn n l.
Proof.
  intros H. unfold lastn. cbn [length]. replace (S (length l) - n) with (S (length l - n)) by lia. reflexivity.
Qed.

Lemma f_add_all_shape U ls : forall f,
  length (f_entries f) <= h_max (f_mem f) ->
  f_entries (f_add_all U f ls)
  = lastn (Nat.min (length (f_entries f) + length (accepted U f ls)) (h_max (f_mem f)))
          (f_entries f ++ accepted U f ls)
  /\ length (f_entries (f_add_all U f ls)) <= h_max (f_mem f).
Proof.
  induction ls as [|l ls IH]; intros f Hlen.
  - cbn [f_add_all accepted]. rewrite app_nil_r, Nat.add_0_r, Nat.min_l by assumption.
    unfold lastn. rewrite Nat.sub_diag. split; [reflexivity|assumption].
  - cbn [f_add_all accepted].
    destruct (f_add_spec U f l) as [Hs|[Hs [Hmax _]]]; rewrite Hs; cbn [fst snd].
    + apply IH. assumption.
    + assert (Hcfg : h_max (f_mem (f_inserted f l)) = h_max (f_mem f)) by reflexivity.
      assert (Hent : f_entries (f_inserted f l)
                     = (if Nat.eqb (length (f_entries f)) (h_max (f_mem f)) then tl (f_entries f) else f_entries f) ++ [l])
        by reflexivity.
      destruct (Nat.eqb (length (f_entries f)) (h_max (f_mem f))) eqn:Efull.
      * apply Nat.eqb_eq in Efull.
        assert (Hl' : length (f_entries (f_inserted f l)) = h_max (f_mem f)).
        { rewrite Hent, app_length, tl_length. cbn [length]. lia. }
        destruct (IH (f_inserted f l)) as [IH1 IH2]; [rewrite Hcfg; lia|].
        rewrite Hcfg in IH1, IH2. split; [|exact IH2].
        rewrite IH1, Hl', Hent. cbn [length].
        rewrite !Nat.min_r by lia.
        destruct (f_entries f) as [|e0 rest] eqn:Ee; [cbn [length] in Efull; lia|].
        cbn [tl app]. rewrite <- app_assoc. cbn [app].
        symmetry. apply lastn_cons_drop. rewrite app_length. cbn [length] in *. lia.
      * apply Nat.eqb_neq in Efull.
        assert (Hl' : length (f_entries (f_inserted f l)) = S (length (f_entries f))).
        { rewrite Hent, app_length. cbn [length]. lia. }
        destruct (IH (f_inserted f l)) as [IH1 IH2]; [rewrite Hcfg; lia|].
        rewrite Hcfg in IH1, IH2. split; [|exact IH2].
        rewrite IH1, Hl', Hent. cbn [length]. rewrite <- app_assoc. cbn [app].
        replace (S (length (f_entries f)) + length (accepted U (f_inserted f l) ls))
          with (length (f_entries f) + S (length (accepted U (f_inserted f l) ls))) by lia.
        reflexivity.
Qed.

(* the lines accepted are a sub-sequence of the lines offered *)
Inductive sublist {A} : list A -> list A -> Prop :=
| sub_nil : sublist [] []
| sub_skip : forall x l1 l2, sublist l1 l2 -> sublist l1 (x :: l2)
| sub_keep : forall x l1 l2, sublist l1 l2 -> sublist (x :: l1) (x :: l2).

Lemma accepted_sublist U ls : forall f, sublist (accepted U f ls) ls.
Proof.
  induction ls as [|l ls IH]; intros f; [constructor|]. cbn [accepted].
  destruct (snd (f_add U f l)); constructor; apply IH.
Qed.

(* with nothing to refuse and room for everything, a merge appends exactly *)
Lemma f_add_all_exact U f ls :
  wf_entries U (h_max (f_mem f)) (h_ign_space (f_mem f)) (h_ign_dups (f_mem f)) (f_entries f ++ ls) ->
  f_entries (f_add_all U f ls) = f_entries f ++ ls.
Proof. apply f_add_all_accepts. Qed.
