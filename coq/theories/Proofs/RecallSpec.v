(* C07: what the recall commands show. *)
From RL Require Import UData LineBuffer LineBufferTotal Undo KillRing Render Keys Editor EditorRun EditorProofs RecallProofs.

Section RecallSpec.
  Variable U : UData.
  Variable cfg : config.

  Definition hlen (s : est) := length (e_hist s).

  (* Previous (Up on a one-line text, C-p): the entry just older than the one shown, cursor at its end;
     the line being typed is captured when -- and only when -- recall starts from it *)
  Theorem previous_shows_entry s entry :
    0 < e_hidx s <= hlen s -> nth_error (e_hist s) (e_hidx s - 1) = Some entry -> grow (e_line s) = true ->
    exists s', edit_history_next U cfg true s = EOk tt s'
      /\ buf (e_line s') = entry /\ pos (e_line s') = blen entry /\ e_hidx s' = e_hidx s - 1
      /\ e_hist s' = e_hist s
      /\ e_saved s' = (if Nat.eqb (e_hidx s) (hlen s) then (buf (e_line s), pos (e_line s)) else e_saved s).
  Proof.
    intros [Hi1 Hi2] Hn Hg. unfold hlen in *. unfold edit_history_next. unfold ebind at 1. cbn [eget].
    unfold hlen_e.
    replace (Nat.eqb (length (e_hist s)) 0) with false by (symmetry; apply Nat.eqb_neq; lia).
    rewrite Bool.andb_false_r.
    replace (Nat.eqb (e_hidx s) 0) with false by (symmetry; apply Nat.eqb_neq; lia).
    rewrite Bool.andb_false_r. cbn [andb].
    destruct (Nat.eqb (e_hidx s) (length (e_hist s))) eqn:Ee.
    - (* leaving the line being typed: backup first *)
      unfold ebind at 1. unfold backup, ebind at 1. cbn [eget]. unfold set_saved at 1.
      unfold ebind at 1. cbn [eret e_hist].
      replace (Nat.ltb (e_hidx s - 1) (length (e_hist s))) with true by (symmetry; apply Nat.ltb_lt; lia).
      rewrite Hn.
      match goal with |- context [?m ?st = EOk tt _] =>
        destruct (install_spec U cfg st (e_hidx s - 1) entry (blen entry) Hg (le_n _)) as [s' [H [H1 [H2 [H3 [H4 [H5 H6]]]]]]] end.
      exists s'. split; [exact H|]. repeat split; assumption.
    - unfold ebind at 1. cbn [eret]. unfold ebind at 1. cbn [eret].
      replace (Nat.ltb (e_hidx s - 1) (length (e_hist s))) with true by (symmetry; apply Nat.ltb_lt; lia).
      rewrite Hn.
      destruct (install_spec U cfg s (e_hidx s - 1) entry (blen entry) Hg (le_n _)) as [s' [H [H1 [H2 [H3 [H4 [H5 H6]]]]]]].
      exists s'. split; [exact H|]. repeat split; assumption.
  Qed.

  (* at the oldest entry Previous does nothing at all *)
  Theorem previous_stops_at_oldest s :
    0 < hlen s -> e_hidx s = 0 -> edit_history_next U cfg true s = EOk tt s.
  Proof.
    intros Hl Hi. unfold hlen in *. unfold edit_history_next. unfold ebind at 1. cbn [eget]. unfold hlen_e. rewrite Hi.
    replace (Nat.eqb (length (e_hist s)) 0) with false by (symmetry; apply Nat.eqb_neq; lia).
    replace (Nat.eqb 0 (length (e_hist s))) with false by (symmetry; apply Nat.eqb_neq; lia).
    cbn. reflexivity.
  Qed.

  (* Next (Down, C-n) while an older entry is shown: the next newer entry ... *)
  Theorem next_shows_entry s entry :
    S (e_hidx s) < hlen s -> nth_error (e_hist s) (S (e_hidx s)) = Some entry -> grow (e_line s) = true ->
    exists s', edit_history_next U cfg false s = EOk tt s'
      /\ buf (e_line s') = entry /\ pos (e_line s') = blen entry /\ e_hidx s' = S (e_hidx s)
      /\ e_hist s' = e_hist s /\ e_saved s' = e_saved s.
  Proof.
    intros Hi Hn Hg. unfold hlen in *. unfold edit_history_next. unfold ebind at 1. cbn [eget]. unfold hlen_e.
    replace (Nat.eqb (length (e_hist s)) 0) with false by (symmetry; apply Nat.eqb_neq; lia).
    replace (Nat.eqb (e_hidx s) (length (e_hist s))) with false by (symmetry; apply Nat.eqb_neq; lia).
    cbn [andb negb]. rewrite Bool.andb_false_r.
    unfold ebind at 1. cbn [eret]. unfold ebind at 1. unfold ebind at 1, set_hidx at 1. cbn [eret e_hist].
    replace (Nat.ltb (S (e_hidx s)) (length (e_hist s))) with true by (symmetry; apply Nat.ltb_lt; lia).
    rewrite Hn.
    match goal with |- context [?m ?st = EOk tt _] =>
      destruct (install_spec U cfg st (S (e_hidx s)) entry (blen entry) Hg (le_n _)) as [s' [H [H1 [H2 [H3 [H4 [H5 H6]]]]]]] end.
    exists s'. split; [exact H|]. repeat split; assumption.
  Qed.

  (* ... and past the newest entry: the line that was being typed, character for character, with its cursor *)
  Theorem next_restores_line s :
    S (e_hidx s) = hlen s -> snd (e_saved s) <= blen (fst (e_saved s)) -> grow (e_line s) = true ->
    exists s', edit_history_next U cfg false s = EOk tt s'
      /\ buf (e_line s') = fst (e_saved s) /\ pos (e_line s') = snd (e_saved s) /\ e_hidx s' = hlen s
      /\ e_hist s' = e_hist s.
  Proof.
    intros Hi Hp Hg. unfold hlen in *. unfold edit_history_next. unfold ebind at 1. cbn [eget]. unfold hlen_e.
    replace (Nat.eqb (length (e_hist s)) 0) with false by (symmetry; apply Nat.eqb_neq; lia).
    replace (Nat.eqb (e_hidx s) (length (e_hist s))) with false by (symmetry; apply Nat.eqb_neq; lia).
    cbn [andb negb]. rewrite Bool.andb_false_r.
    unfold ebind at 1. cbn [eret]. unfold ebind at 1. unfold ebind at 1, set_hidx at 1. cbn [eret e_hist].
    replace (Nat.ltb (S (e_hidx s)) (length (e_hist s))) with false by (symmetry; apply Nat.ltb_ge; lia).
    destruct (update_spec (e_line s) (fst (e_saved s)) (snd (e_saved s)) Hg Hp) as [ev Hu].
    unfold restore, lb_changes, refresh_line, update_hint, refresh, set_hint, set_changes, set_line, upd_line,
      set_layout, write, ebind, eget, eret.
    cbn [e_line e_changes e_kr e_hist e_hidx e_saved e_hint e_layout e_prompt e_prompt_size i_input_mode
         i_num_args i_last_cmd i_last_cs e_inp e_out e_obs]. rewrite Hu.
    destruct (c_has_helper cfg); cbn; eexists; (split; [reflexivity|]); cbn; rewrite Hi; repeat split.
  Qed.

  (* at the line being typed Next does nothing *)
  Theorem next_stops_at_newest s :
    e_hidx s = hlen s -> edit_history_next U cfg false s = EOk tt s.
  Proof.
    intros Hi. unfold hlen in *. unfold edit_history_next. unfold ebind at 1. cbn [eget]. unfold hlen_e. rewrite Hi.
    destruct (Nat.eqb (length (e_hist s)) 0); [reflexivity|]. rewrite Nat.eqb_refl. cbn. reflexivity.
  Qed.

  (* M-< : the oldest entry, whatever is shown;  M-> : back to the line being typed *)
  Theorem first_shows_oldest s entry :
    0 < e_hidx s <= hlen s -> nth_error (e_hist s) 0 = Some entry -> grow (e_line s) = true ->
    exists s', edit_history U cfg true s = EOk tt s'
      /\ buf (e_line s') = entry /\ pos (e_line s') = blen entry /\ e_hidx s' = 0 /\ e_hist s' = e_hist s
      /\ e_saved s' = (if Nat.eqb (e_hidx s) (hlen s) then (buf (e_line s), pos (e_line s)) else e_saved s).
  Proof.
    intros [Hi1 Hi2] Hn Hg. unfold hlen in *. unfold edit_history. unfold ebind at 1. cbn [eget]. unfold hlen_e.
    replace (Nat.eqb (length (e_hist s)) 0) with false by (symmetry; apply Nat.eqb_neq; lia).
    rewrite Bool.andb_false_r.
    replace (Nat.eqb (e_hidx s) 0) with false by (symmetry; apply Nat.eqb_neq; lia).
    rewrite Bool.andb_false_r. cbn [andb].
    destruct (Nat.eqb (e_hidx s) (length (e_hist s))) eqn:Ee.
    - unfold ebind at 1. unfold backup, ebind at 1. cbn [eget]. unfold set_saved at 1. cbn [e_hist]. rewrite Hn.
      match goal with |- context [?m ?st = EOk tt _] =>
        destruct (install_spec U cfg st 0 entry (blen entry) Hg (le_n _)) as [s' [H [H1 [H2 [H3 [H4 [H5 H6]]]]]]] end.
      exists s'. split; [exact H|]. repeat split; assumption.
    - unfold ebind at 1. cbn [eret]. rewrite Hn.
      destruct (install_spec U cfg s 0 entry (blen entry) Hg (le_n _)) as [s' [H [H1 [H2 [H3 [H4 [H5 H6]]]]]]].
      exists s'. split; [exact H|]. repeat split; assumption.
  Qed.

  Theorem last_restores_line s :
    e_hidx s < hlen s -> snd (e_saved s) <= blen (fst (e_saved s)) -> grow (e_line s) = true ->
    exists s', edit_history U cfg false s = EOk tt s'
      /\ buf (e_line s') = fst (e_saved s) /\ pos (e_line s') = snd (e_saved s) /\ e_hidx s' = hlen s
      /\ e_hist s' = e_hist s.
  Proof.
    intros Hi Hp Hg. unfold hlen in *. unfold edit_history. unfold ebind at 1. cbn [eget]. unfold hlen_e.
    replace (Nat.eqb (length (e_hist s)) 0) with false by (symmetry; apply Nat.eqb_neq; lia).
    replace (Nat.eqb (e_hidx s) (length (e_hist s))) with false by (symmetry; apply Nat.eqb_neq; lia).
    cbn [andb negb]. rewrite Bool.andb_false_r.
    unfold ebind at 1. cbn [eret].
    destruct (update_spec (e_line s) (fst (e_saved s)) (snd (e_saved s)) Hg Hp) as [ev Hu].
    unfold restore, lb_changes, refresh_line, update_hint, refresh, set_hint, set_changes, set_line, upd_line,
      set_layout, write, set_hidx, ebind, eget, eret.
    cbn [e_line e_changes e_kr e_hist e_hidx e_saved e_hint e_layout e_prompt e_prompt_size i_input_mode
         i_num_args i_last_cmd i_last_cs e_inp e_out e_obs]. rewrite Hu.
    destruct (c_has_helper cfg); cbn; eexists; (split; [reflexivity|]); cbn; repeat split.
  Qed.
End RecallSpec.
