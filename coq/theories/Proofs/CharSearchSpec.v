(* C04: character searches, stated over occurrences. [occ c s] counts the occurrences of the character c in s.
   Backward (vi F, emacs M-C-]): the search lands on an occurrence of c before the cursor such that exactly
   min(n, occurrences before the cursor) - 1 further occurrences lie between it and the cursor -- the n-th occurrence counted
   from the cursor, or the farthest one when there are fewer than n (Iterator::take(n).last()); it fails exactly when c
   does not occur before the cursor (or n = 0). Forward (vi f): the same towards the end, the search starting AFTER the
   cluster under the cursor. *)
From Coq Require Import List Arith Lia.
From RL Require Import Ustr LineBuffer LineBufferAll.
Import ListNotations.

Fixpoint occ (c : N) (s : str) : nat :=
  match s with [] => 0 | x :: t => (if (x =? c)%N then 1 else 0) + occ c t end.
Lemma occ_app c a b : occ c (a ++ b) = occ c a + occ c b.
Proof. induction a as [|x a IH]; [reflexivity|]. cbn [occ app]. rewrite IH. lia. Qed.

Lemma char_hits_length c s : forall i0, length (char_hits c s i0) = occ c s.
Proof.
  induction s as [|x s IH]; intros i0; [reflexivity|]. cbn [char_hits occ].
  destruct (x =? c)%N; cbn [length]; rewrite IH; lia.
Qed.

(* the j-th hit (from the start): j occurrences lie before it *)
Lemma char_hits_nth c s : forall i0 j p, nth_error (char_hits c s i0) j = Some p ->
  exists a rest, s = a ++ c :: rest /\ p = i0 + blen a /\ occ c a = j.
Proof.
  induction s as [|x s IH]; intros i0 j p H; [destruct j; discriminate|]. cbn [char_hits] in H.
  destruct (x =? c)%N eqn:E.
  - destruct j as [|j].
    + cbn in H. inversion H; subst p. apply N.eqb_eq in E. subst x. exists [], s. repeat split; cbn; lia.
    + cbn [nth_error] in H. destruct (IH _ _ _ H) as [a [rest [-> [-> Hj]]]].
      exists (x :: a), rest. cbn [occ blen app]. rewrite E. repeat split; lia.
  - destruct (IH _ _ _ H) as [a [rest [-> [-> Hj]]]].
    exists (x :: a), rest. cbn [occ blen app]. rewrite E. repeat split; lia.
Qed.

Lemma last_opt_firstn {A} : forall (m : list A) k, 1 <= k -> k <= length m -> @last_opt A (firstn k m) = nth_error m (k - 1).
Proof.
  induction m as [|x m IH]; intros k Hk Hle; [cbn in Hle; lia|].
  destruct k as [|k]; [lia|]. cbn [firstn]. destruct k as [|k].
  - reflexivity.
  - cbn [length] in Hle. specialize (IH (S k) ltac:(lia) ltac:(lia)).
    replace (S (S k) - 1) with (S (S k - 1)) by lia. cbn [nth_error].
    destruct m as [|y m]; [cbn in Hle; lia|]. cbn [firstn] in *. cbn [last_opt]. exact IH.
Qed.

Lemma last_opt_firstn_rev {A} (l : list A) n :
  1 <= n -> 1 <= length l -> @last_opt A (firstn n (rev l)) = nth_error l (length l - Nat.min n (length l)).
Proof.
  intros Hn Hl. set (k := Nat.min n (length l)).
  assert (Hk1 : 1 <= k) by (unfold k; lia). assert (Hk2 : k <= length l) by (unfold k; lia).
  assert (E : firstn n (rev l) = firstn k (rev l)).
  { unfold k. destruct (Nat.le_gt_cases n (length l)) as [H|H]; [rewrite Nat.min_l by exact H; reflexivity|].
    rewrite Nat.min_r by lia. rewrite !firstn_all2 by (rewrite rev_length; lia). reflexivity. }
  rewrite E, last_opt_firstn by (rewrite ?rev_length; assumption).
  destruct l as [|d l']; [cbn in Hl; lia|]. set (l := d :: l') in *.
  rewrite (nth_error_nth' (rev l) d) by (rewrite rev_length; lia).
  rewrite rev_nth by lia.
  rewrite (nth_error_nth' l d) by lia. f_equal. f_equal. lia.
Qed.

Section CharSearch.
  Variable seg : str -> list str.

  (* backward: the n-th occurrence counted from the cursor, or the farthest *)
  Theorem search_backward_spec (b : lb) (l r : str) (c : N) (n : nat) :
    buf b = l ++ r -> pos b = blen l -> 1 <= n ->
    (occ c l = 0 -> search_char_pos seg b (CsBackward c) n = Ok None)
    /\ (1 <= occ c l ->
        exists a rest, l = a ++ c :: rest
          /\ search_char_pos seg b (CsBackward c) n = Ok (Some (blen a))
          /\ occ c rest = Nat.min n (occ c l) - 1).
  Proof.
    intros Hb Hp Hn. unfold search_char_pos.
    assert (Hs : slice_to (buf b) (pos b) = Ok l).
    { rewrite Hb, Hp. unfold slice_to. rewrite bsplit_app. reflexivity. }
    rewrite Hs. pose proof (char_hits_length c l 0) as Hlen. split.
    - intros H0. rewrite H0 in Hlen. destruct (char_hits c l 0); [cbn [rev]; rewrite firstn_nil; reflexivity|discriminate].
    - intros H1. rewrite last_opt_firstn_rev by (rewrite ?Hlen; assumption). rewrite Hlen.
      destruct (nth_error (char_hits c l 0) (occ c l - Nat.min n (occ c l))) as [p|] eqn:En.
      + destruct (char_hits_nth _ _ _ _ _ En) as [a [rest [Hl [Hpp Hj]]]]. exists a, rest.
        split; [exact Hl|]. split; [cbn in Hpp; subst p; reflexivity|].
        rewrite Hl, occ_app in H1 |- *. cbn [occ] in *. rewrite N.eqb_refl in *.
        rewrite Hl, occ_app in Hj. cbn [occ] in Hj. rewrite N.eqb_refl in Hj. lia.
      + apply nth_error_None in En. rewrite Hlen in En. lia.
  Qed.
  (* forward: the search starts after the cluster under the cursor; the n-th occurrence from there, or the farthest *)
  Theorem search_forward_spec (b : lb) (l cc r2 : str) (gs : list str) (c : N) (n : nat) :
    buf b = l ++ cc ++ r2 -> pos b = blen l -> seg (cc ++ r2) = cc :: gs -> 1 <= blen cc -> 1 <= n ->
    (occ c r2 = 0 -> search_char_pos seg b (CsForward c) n = Ok None)
    /\ (1 <= occ c r2 ->
        exists a rest, r2 = a ++ c :: rest
          /\ search_char_pos seg b (CsForward c) n = Ok (Some (blen l + blen cc + blen a))
          /\ occ c a = Nat.min n (occ c r2) - 1).
  Proof.
    intros Hb Hp Hseg Hcc Hn.
    assert (Hs1 : slice_from (l ++ cc ++ r2) (blen l) = Ok (cc ++ r2)) by (unfold slice_from; rewrite bsplit_app; reflexivity).
    assert (Hs2 : slice_from (l ++ cc ++ r2) (blen l + blen cc) = Ok r2)
      by (unfold slice_from; rewrite app_assoc, <- blen_app, bsplit_app; reflexivity).
    unfold search_char_pos, lb_len. rewrite Hb, Hp, !blen_app, Hs1, Hseg.
    replace (Nat.eqb (blen l) (blen l + (blen cc + blen r2))) with false by (symmetry; apply Nat.eqb_neq; lia).
    pose proof (char_hits_length c r2 0) as Hlen. split.
    - intros H0. destruct (Nat.ltb (blen l + blen cc) (blen l + (blen cc + blen r2))); [|reflexivity].
      rewrite Hs2. rewrite H0 in Hlen.
      destruct (char_hits c r2 0); [rewrite firstn_nil; reflexivity|discriminate].
    - intros H1. assert (Hr2 : 1 <= blen r2).
      { destruct r2 as [|x r2']; [cbn in H1; lia|]. cbn [blen]. pose proof (clen_pos x). lia. }
      replace (Nat.ltb (blen l + blen cc) (blen l + (blen cc + blen r2))) with true by (symmetry; apply Nat.ltb_lt; lia).
      rewrite Hs2.
      set (k := Nat.min n (occ c r2)).
      assert (E : firstn n (char_hits c r2 0) = firstn k (char_hits c r2 0)).
      { unfold k. destruct (Nat.le_gt_cases n (occ c r2)) as [H|H]; [rewrite Nat.min_l by exact H; reflexivity|].
        rewrite Nat.min_r by lia. rewrite !firstn_all2 by (rewrite Hlen; lia). reflexivity. }
      rewrite E, last_opt_firstn by (rewrite ?Hlen; unfold k; lia).
      destruct (nth_error (char_hits c r2 0) (k - 1)) as [p|] eqn:En.
      + destruct (char_hits_nth _ _ _ _ _ En) as [a [rest [Hl [Hpp Hj]]]]. exists a, rest.
        split; [exact Hl|]. split; [cbn in Hpp; subst p; reflexivity|exact Hj].
      + apply nth_error_None in En. rewrite Hlen in En. unfold k in En. lia.
  Qed.
End CharSearch.
