(* The capacity and the growth flag of a line buffer are never changed by an operation. *)
From RL Require Import UData LineBuffer LineBufferOps.

Definition kg {A} (m : M A) : Prop :=
  forall b a b' ev, m b = Ok (a, b', ev) -> grow b' = grow b /\ cap b' = cap b.

Lemma kg_ret {A} (a : A) : kg (ret a). Proof. intros b a' b' ev H. inversion H; subst. split; reflexivity. Qed.
Lemma kg_get : kg get. Proof. intros b a' b' ev H. inversion H; subst. split; reflexivity. Qed.
Lemma kg_put p : kg (put_pos p). Proof. intros b a' b' ev H. inversion H; subst. split; reflexivity. Qed.
Lemma kg_fail {A} : kg (@fail A). Proof. intros b a' b' ev H. discriminate. Qed.
Lemma kg_lift {A} (r : res A) : kg (lift r).
Proof. intros b a' b' ev H. unfold lift in H. destruct r; inversion H; subst. split; reflexivity. Qed.
Lemma kg_emit e : kg (emit e). Proof. intros b a' b' ev H. inversion H; subst. split; reflexivity. Qed.
Lemma kg_bind {A B} (m : M A) (f : A -> M B) : kg m -> (forall a, kg (f a)) -> kg (bind m f).
Proof.
  intros Hm Hf b r b' ev H. unfold bind in H.
  destruct (m b) as [[[a b1] e1]|] eqn:E1; [|discriminate].
  destruct (f a b1) as [[[r' b2] e2]|] eqn:E2; [|discriminate].
  inversion H; subst. destruct (Hm _ _ _ _ E1) as [G1 C1]. destruct (Hf _ _ _ _ _ E2) as [G2 C2]. split; congruence.
Qed.
Lemma kg_drain a e d : kg (drain a e d).
Proof.
  intros b r b' ev H. unfold drain in H. destruct (str_drain (buf b) a e) as [[m rest]|]; [|discriminate].
  inversion H; subst. split; reflexivity.
Qed.
Lemma kg_insert_str i s : kg (insert_str i s).
Proof.
  intros b r b' ev H. unfold insert_str in H. destruct (str_insert (buf b) i s); [|discriminate].
  inversion H; subst. split; reflexivity.
Qed.
Lemma kg_insert_char i c : kg (insert_char_at i c).
Proof.
  intros b r b' ev H. unfold insert_char_at in H. destruct (str_insert (buf b) i [c]); [|discriminate].
  inversion H; subst. split; reflexivity.
Qed.
Lemma kg_replace_range a e t : kg (replace_range a e t).
Proof.
  intros b r b' ev H. unfold replace_range in H. destruct (slice (buf b) a e); [|discriminate].
  destruct (str_drain (buf b) a e) as [[m rest]|]; [|discriminate].
  destruct (str_insert rest a t); [|discriminate]. inversion H; subst. split; reflexivity.
Qed.

Ltac kg_step :=
  first [ apply kg_ret | apply kg_get | apply kg_put | apply kg_fail | apply kg_lift | apply kg_emit
        | apply kg_drain | apply kg_insert_str | apply kg_insert_char | apply kg_replace_range
        | (apply kg_bind; [|intros]) ].
Ltac kg_auto :=
  repeat (kg_step ||
          match goal with
          | |- kg (if ?c then _ else _) => destruct c
          | |- kg (match ?x with _ => _ end) => destruct x
          | |- kg (let '(_, _) := ?x in _) => destruct x
          | |- kg (let _ := _ in _) => cbv zeta
          end).

Section Grow.
  Variable U : UData.
  Variable seg : str -> list str.

  Lemma kg_set_pos p : kg (set_pos p). Proof. unfold set_pos. kg_auto. Qed.
  Lemma kg_move_backward n : kg (move_backward seg n). Proof. unfold move_backward. kg_auto. Qed.
  Lemma kg_move_forward n : kg (move_forward seg n). Proof. unfold move_forward. kg_auto. Qed.
  Lemma kg_move_buffer_start : kg move_buffer_start. Proof. unfold move_buffer_start. kg_auto. Qed.
  Lemma kg_move_buffer_end : kg move_buffer_end. Proof. unfold move_buffer_end. kg_auto. Qed.
  Lemma kg_move_home : kg move_home. Proof. unfold move_home. kg_auto. Qed.
  Lemma kg_move_end : kg move_end. Proof. unfold move_end. kg_auto. Qed.
  Lemma kg_insert c n : kg (insert c n). Proof. unfold insert. kg_auto. Qed.
  Lemma kg_yank s n : kg (yank s n). Proof. unfold yank. kg_auto. Qed.
  Lemma kg_yank_pop k s : kg (yank_pop k s). Proof. unfold yank_pop. kg_auto; try apply kg_yank. Qed.
  Lemma kg_delete n : kg (delete seg n). Proof. unfold delete. kg_auto. Qed.
  Lemma kg_backspace n : kg (backspace seg n). Proof. unfold backspace. kg_auto. Qed.
  Lemma kg_kill_line : kg (kill_line seg). Proof. unfold kill_line. kg_auto; try apply kg_delete. Qed.
  Lemma kg_kill_buffer : kg kill_buffer. Proof. unfold kill_buffer. kg_auto. Qed.
  Lemma kg_discard_line : kg (discard_line seg). Proof. unfold discard_line. kg_auto; try apply kg_backspace. Qed.
  Lemma kg_discard_buffer : kg discard_buffer. Proof. unfold discard_buffer. kg_auto. Qed.
  Lemma kg_transpose_chars : kg (transpose_chars seg).
  Proof.
    unfold transpose_chars. kg_auto; try apply kg_move_backward; try apply kg_move_forward; try apply kg_delete; try apply kg_yank.
  Qed.
  Lemma kg_move_to_prev_word w n : kg (move_to_prev_word U seg w n). Proof. unfold move_to_prev_word. kg_auto. Qed.
  Lemma kg_delete_prev_word w n : kg (delete_prev_word U seg w n). Proof. unfold delete_prev_word. kg_auto. Qed.
  Lemma kg_move_to_next_word a w n : kg (move_to_next_word U seg a w n). Proof. unfold move_to_next_word. kg_auto. Qed.
  Lemma kg_delete_word a w n : kg (delete_word U seg a w n). Proof. unfold delete_word. kg_auto. Qed.
  Lemma kg_move_to cs n : kg (move_to seg cs n). Proof. unfold move_to. kg_auto. Qed.
  Lemma kg_delete_to cs n : kg (delete_to seg cs n). Proof. unfold delete_to. kg_auto. Qed.
  Lemma kg_edit_word a : kg (edit_word U seg a). Proof. unfold edit_word. kg_auto. Qed.
  Lemma kg_transpose_words n : kg (transpose_words U seg n).
  Proof. unfold transpose_words. kg_auto; try apply kg_move_to_next_word; try apply kg_move_to_prev_word. Qed.
  Lemma kg_replace a e t : kg (replace a e t). Proof. unfold replace. apply kg_replace_range. Qed.
  Lemma kg_delete_range a e : kg (delete_range a e). Proof. unfold delete_range. kg_auto; try apply kg_set_pos. Qed.
  Lemma kg_update s p : kg (update s p). Proof. unfold update. kg_auto. Qed.
  Lemma kg_kill m : kg (kill U seg m).
  Proof.
    unfold kill. kg_auto;
      try apply kg_delete; try apply kg_backspace; try apply kg_kill_line; try apply kg_move_home;
      try apply kg_discard_line; try apply kg_delete_prev_word; try apply kg_delete_word;
      try apply kg_delete_to; try apply kg_delete_range; try apply kg_kill_buffer;
      try apply kg_discard_buffer; try apply kg_move_buffer_start.
  Qed.
  Lemma kg_dedent_lines lines : forall amount index, kg (dedent_lines U lines amount index).
  Proof. induction lines as [|l lines IH]; intros amount index; cbn [dedent_lines]; kg_auto; try apply IH. Qed.
  Lemma kg_indent_chunks fuel : forall amount off index, kg (indent_chunks amount off fuel index).
  Proof. induction fuel as [|f IH]; intros amount off index; cbn [indent_chunks]; kg_auto; try apply IH. Qed.
  Lemma kg_indent_lines lines : forall amount index, kg (indent_lines lines amount index).
  Proof.
    induction lines as [|l lines IH]; intros amount index; cbn [indent_lines]; kg_auto;
      try apply kg_indent_chunks; try apply IH.
  Qed.
  Lemma kg_indent m amount d : kg (indent U seg m amount d).
  Proof. unfold indent. kg_auto; try apply kg_dedent_lines; try apply kg_indent_lines. Qed.
  Lemma kg_move_to_line_up width n pc : kg (move_to_line_up seg width n pc).
  Proof. unfold move_to_line_up. kg_auto. Qed.
  Lemma kg_move_to_line_down width n pc : kg (move_to_line_down seg width n pc).
  Proof. unfold move_to_line_down. kg_auto. Qed.
End Grow.
