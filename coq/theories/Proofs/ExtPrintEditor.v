(* C19, editor side: showing a message touches neither the edited text, the cursor, the undo stack, the
   kill ring nor the history -- only the display. *)
From RL Require Import UData LineBuffer Undo KillRing Render Keys Editor EditorRun EditorProofs UndoEditor RecallProofs.

Section ExtPrintEditor.
  Variable U : UData.
  Variable cfg : config.

  Lemma lc_set_inp' i : keeps_lc (set_inp i). Proof. apply lc_set_inp. Qed.

  Theorem external_print_keeps_edit m : keeps_lc (external_print U cfg m).
  Proof.
    unfold external_print, refresh_line, update_hint, refresh. lc_auto.
  Qed.
  Theorem external_print_keeps_history m : keeps_hist (external_print U cfg m).
  Proof. unfold external_print, refresh_line, update_hint, refresh. kh_auto. Qed.

  Theorem drain_prints_keeps_edit fuel : keeps_lc (drain_prints U cfg fuel).
  Proof.
    induction fuel as [|f IH]; cbn [drain_prints]; [apply lc_ret|].
    apply lc_bind; [apply lc_get|]. intros s. destruct (peek_print (e_inp s)) as [[m i]|]; [|apply lc_ret].
    apply lc_bind; [apply lc_set_inp|]. intros _. apply lc_bind; [apply external_print_keeps_edit|]. intros _. exact IH.
  Qed.

  (* the message itself is written whole, after the rows of the old display have been cleared, and is followed
     by a line break and a complete redraw of prompt and line *)
  Lemma refresh_line_out s s' : refresh_line U cfg s = EOk tt s' -> exists redraw, e_out s' = redraw :: e_out s.
  Proof.
    unfold refresh_line, update_hint, refresh, ebind, eget, eret, write, set_layout, set_hint.
    destruct (c_has_helper cfg); intros H; inversion H; cbn [e_out]; eexists; reflexivity.
  Qed.

  Theorem external_print_writes_message m s s' :
    external_print U cfg m s = EOk tt s' ->
    exists redraw, e_out s' = redraw :: (if ends_with_lf m then [] else [[10%N]]) ++ m :: clear_old_rows (e_layout s) :: e_out s.
  Proof.
    unfold external_print. intros H.
    apply ebind_inv in H. destruct H as [s0 [s0' [H0 H]]]. inversion H0; subst s0 s0'.
    apply ebind_inv in H. destruct H as [u1 [s1 [H1 H]]]. inversion H1; subst u1 s1.
    apply ebind_inv in H. destruct H as [u2 [s2 [H2 H]]]. inversion H2; subst u2 s2.
    apply ebind_inv in H. destruct H as [u3 [s3 [H3 H]]]. inversion H3; subst u3 s3.
    apply ebind_inv in H. destruct H as [u4 [s4 [H4 H]]].
    destruct (refresh_line_out _ _ H) as [redraw Hr]. exists redraw. rewrite Hr.
    unfold ends_with_lf_str in H4. destruct (ends_with_lf m); inversion H4; subst; reflexivity.
  Qed.
  (* a message is not a command: besides the screen bookkeeping (output, layout, hint display) NOTHING of the editing state
     changes -- in particular the kill ring with its memory of the last action (so a kill, a message, a kill still accumulate;
     a yank, a message, a yank-pop still replace), the numeric argument, the last command and character search of vi, the
     position in the history and the saved line *)
  Definition same_editing_state (s s' : est) : Prop :=
    e_line s' = e_line s /\ e_changes s' = e_changes s /\ e_kr s' = e_kr s /\ e_hist s' = e_hist s
    /\ e_hidx s' = e_hidx s /\ e_saved s' = e_saved s /\ e_prompt s' = e_prompt s /\ e_prompt_size s' = e_prompt_size s
    /\ i_input_mode s' = i_input_mode s /\ i_num_args s' = i_num_args s /\ i_last_cmd s' = i_last_cmd s
    /\ i_last_cs s' = i_last_cs s /\ e_obs s' = e_obs s.

  Lemma same_editing_refl s : same_editing_state s s. Proof. repeat split. Qed.
  Lemma same_editing_trans a b c : same_editing_state a b -> same_editing_state b c -> same_editing_state a c.
  Proof.
    unfold same_editing_state. intros [A1 [A2 [A3 [A4 [A5 [A6 [A7 [A8 [A9 [A10 [A11 [A12 A13]]]]]]]]]]]]
      [B1 [B2 [B3 [B4 [B5 [B6 [B7 [B8 [B9 [B10 [B11 [B12 B13]]]]]]]]]]]].
    repeat split; congruence.
  Qed.

  (* the calculus: built from accessors that write the output, the layout or the hint only *)
  Definition keeps_state {A} (m : E A) : Prop :=
    forall s a s', m s = EOk a s' -> same_editing_state s s' /\ e_inp s' = e_inp s.
  Lemma ks_bind {A B} (m : E A) (f : A -> E B) : keeps_state m -> (forall a, keeps_state (f a)) -> keeps_state (ebind m f).
  Proof.
    intros Hm Hf s b s2 H. apply ebind_inv in H. destruct H as [a [s1 [H1 H2]]].
    destruct (Hm _ _ _ H1) as [A1 A2]. destruct (Hf _ _ _ _ H2) as [B1 B2].
    split; [eapply same_editing_trans; eassumption|congruence].
  Qed.
  Ltac ks_leaf := intros s a' s' H; inversion H; subst; split; [repeat split|reflexivity].
  Lemma ks_ret {A} (a : A) : keeps_state (eret a). Proof. ks_leaf. Qed.
  Lemma ks_get : keeps_state eget. Proof. ks_leaf. Qed.
  Lemma ks_write b : keeps_state (write b). Proof. ks_leaf. Qed.
  Lemma ks_set_layout l : keeps_state (set_layout l). Proof. ks_leaf. Qed.
  Lemma ks_set_hint h : keeps_state (set_hint h). Proof. ks_leaf. Qed.
  Ltac ks_auto :=
    repeat (first [ apply ks_ret | apply ks_get | apply ks_write | apply ks_set_layout | apply ks_set_hint
                  | match goal with |- keeps_state (ebind _ _) => apply ks_bind; [|intros] end ] ||
            match goal with
            | |- keeps_state (if ?c then _ else _) => destruct c
            | |- keeps_state (match ?x with _ => _ end) => destruct x
            | |- keeps_state (let _ := _ in _) => cbv zeta
            end).

  Theorem external_print_keeps_state m s s' :
    external_print U cfg m s = EOk tt s' -> same_editing_state s s' /\ e_inp s' = e_inp s.
  Proof.
    assert (H : keeps_state (external_print U cfg m)).
    { unfold external_print, refresh_line, update_hint, refresh. ks_auto. }
    intros E. exact (H _ _ _ E).
  Qed.

  Theorem drain_prints_keeps_state fuel : forall s s',
    drain_prints U cfg fuel s = EOk tt s' -> same_editing_state s s'.
  Proof.
    induction fuel as [|f IH]; intros s s' H; cbn [drain_prints] in H.
    - inversion H. apply same_editing_refl.
    - unfold ebind at 1 in H. cbn [eget] in H. destruct (peek_print (e_inp s)) as [[m i]|] eqn:Ep.
      + unfold ebind at 1 in H. unfold set_inp in H at 1. cbn in H.
        apply ebind_inv in H. destruct H as [u [s1 [H1 H2]]]. destruct u.
        destruct (external_print_keeps_state m _ _ H1) as [A _].
        eapply same_editing_trans; [|apply (IH _ _ H2)].
        eapply same_editing_trans; [|exact A]. repeat split.
      + inversion H. apply same_editing_refl.
  Qed.
End ExtPrintEditor.
