(* C19, editor side: showing a message touches neither the edited text, the cursor, the undo stack, the
   kill ring nor the history -- only the display. *)
From RL Require Import UData LineBuffer Undo KillRing Render Keys Editor EditorRun EditorProofs UndoEditor RecallProofs.

Section ExtPrintEditor.
  Variable U : UData.
  Variable cfg : config.

  Lemma lc_set_inp' i : keeps_lc (set_inp i). Proof. apply lc_set_inp. Qed.

  Theorem external_print_keeps_edit m : keeps_lc (external_print U cfg m).
  Proof.
    unfold external_print, refresh_line, update_hint, refresh. lc_auto.
  Qed.
  Theorem external_print_keeps_history m : keeps_hist (external_print U cfg m).
  Proof. unfold external_print, refresh_line, update_hint, refresh. kh_auto. Qed.

  Theorem drain_prints_keeps_edit fuel : keeps_lc (drain_prints U cfg fuel).
  Proof.
    induction fuel as [|f IH]; cbn [drain_prints]; [apply lc_ret|].
    apply lc_bind; [apply lc_get|]. intros s. destruct (peek_print (e_inp s)) as [[m i]|]; [|apply lc_ret].
    apply lc_bind; [apply lc_set_inp|]. intros _. apply lc_bind; [apply external_print_keeps_edit|]. intros _. exact IH.
  Qed.

  (* the message itself is written whole, after the rows of the old display have been cleared, and is followed
     by a line break and a complete redraw of prompt and line *)
  Lemma refresh_line_out s s' : refresh_line U cfg s = EOk tt s' -> exists redraw, e_out s' = redraw :: e_out s.
  Proof.
    unfold refresh_line, update_hint, refresh, ebind, eget, eret, write, set_layout, set_hint.
    destruct (c_has_helper cfg); intros H; inversion H; cbn [e_out]; eexists; reflexivity.
  Qed.

  Theorem external_print_writes_message m s s' :
    external_print U cfg m s = EOk tt s' ->
    exists redraw, e_out s' = redraw :: (if ends_with_lf m then [] else [[10%N]]) ++ m :: clear_old_rows (e_layout s) :: e_out s.
  Proof.
    unfold external_print. intros H.
    apply ebind_inv in H. destruct H as [s0 [s0' [H0 H]]]. inversion H0; subst s0 s0'.
    apply ebind_inv in H. destruct H as [u1 [s1 [H1 H]]]. inversion H1; subst u1 s1.
    apply ebind_inv in H. destruct H as [u2 [s2 [H2 H]]]. inversion H2; subst u2 s2.
    apply ebind_inv in H. destruct H as [u3 [s3 [H3 H]]]. inversion H3; subst u3 s3.
    apply ebind_inv in H. destruct H as [u4 [s4 [H4 H]]].
    destruct (refresh_line_out _ _ H) as [redraw Hr]. exists redraw. rewrite Hr.
    unfold ends_with_lf_str in H4. destruct (ends_with_lf m); inversion H4; subst; reflexivity.
  Qed.
End ExtPrintEditor.
