(* C20: the table as the list a user would write down. The SPECIFICATION keeps only what was entered and by which
   session: a list of (session, line), oldest first, with the rules of the property statement -- an accepted line goes
   to the end; under ignore-duplicates a copy entered earlier in the SAME session goes (the line counts as its newest
   occurrence); a size limit drops from the old end; closing and reopening changes nothing in the list. Row ids, the cached
   length and the choice of a fresh id are implementation matter: the model (Model/SqlHist.v) REFINES this specification
   operation by operation, so for every sequence of operations the rows of the table, read in rowid order (the order both
   walks of C20_walk_down / C20_walk_up follow), are exactly the specification's list. *)
From Coq Require Import List Arith Bool Lia.
From RL Require Import UData History SqlHist SqlHistProofs.
Import ListNotations.

Record sspec := mkSpec {
  sp_list : list (nat * str);     (* (session, line), in the order entered *)
  sp_nsess : nat; sp_sess : nat; sp_max : nat; sp_igs : bool; sp_igd : bool; sp_cfg_max : nat }.

Definition key_is (sess : nat) (line : str) (x : nat * str) : bool := Nat.eqb (fst x) sess && str_eqb (snd x) line.

Fixpoint spec_has_dup (l : list (nat * str)) : bool :=
  match l with
  | [] => false
  | x :: rest => existsb (key_is (fst x) (snd x)) rest || spec_has_dup rest
  end.

Section Spec.
  Variable U : UData.

  Definition spec_refuses (s : sspec) (line : str) : bool :=
    Nat.eqb (sp_max s) 0 || match line with [] => true | c :: _ => sp_igs s && u_is_whitespace U c end.

  Definition spec_add (s : sspec) (line : str) : sspec * bool :=
    if spec_refuses s line then (s, false)
    else
      let '(sess, nsess) := if Nat.eqb (sp_sess s) 0 then (S (sp_nsess s), S (sp_nsess s)) else (sp_sess s, sp_nsess s) in
      let kept := if sp_igd s then filter (fun x => negb (key_is sess line x)) (sp_list s) else sp_list s in
      (mkSpec (kept ++ [(sess, line)]) nsess sess (sp_max s) (sp_igs s) (sp_igd s) (sp_cfg_max s), true).

  Definition spec_step (s : sspec) (o : sop) : sspec * option bool :=
    match o with
    | SAdd l => let '(s', b) := spec_add s l in (s', Some b)
    | SGet _ _ | SLen => (s, None)
    | SSetMax n =>
      (mkSpec (skipn (length (sp_list s) - n) (sp_list s)) (sp_nsess s) (sp_sess s) n (sp_igs s) (sp_igd s) (sp_cfg_max s), None)
    | SReopen => (mkSpec (sp_list s) (sp_nsess s) 0 (sp_cfg_max s) (sp_igs s) (sp_igd s) (sp_cfg_max s), None)
    | SReopenCfg igs igd => (mkSpec (sp_list s) (sp_nsess s) 0 (sp_cfg_max s) igs igd (sp_cfg_max s), None)
    | SSetDups yes =>
      if Bool.eqb (sp_igd s) yes then (s, Some true)
      else if yes && spec_has_dup (sp_list s) then (s, Some false)
      else (mkSpec (sp_list s) (sp_nsess s) (sp_sess s) (sp_max s) (sp_igs s) yes (sp_cfg_max s), Some true)
    | SSetSpace yes => (mkSpec (sp_list s) (sp_nsess s) (sp_sess s) (sp_max s) yes (sp_igd s) (sp_cfg_max s), None)
    end.

  Fixpoint spec_run (s : sspec) (ops : list sop) : sspec :=
    match ops with [] => s | o :: rest => spec_run (fst (spec_step s o)) rest end.

  (* the abstraction: forget the row ids and the cached length *)
  Definition entry_of (r : row) : nat * str := (r_sess r, r_entry r).
  Definition abs (h : sqlh) : sspec :=
    mkSpec (map entry_of (q_rows h)) (q_nsess h) (q_sess h) (q_max h) (q_igs h) (q_igd h) (q_cfg_max h).

  (* what the caller is told: accepted / refused for an add, done / refused for a policy switch *)
  Definition answer (x : sout) : option bool :=
    match x with SoBool b => Some b | SoRefused => Some false | _ => None end.
  Definition answer_of (o : sop) (x : sout) : option bool :=
    match o with SSetDups _ => Some (match x with SoRefused => false | _ => true end) | _ => answer x end.

  Lemma map_filter_key sess line rows :
    map entry_of (filter (fun r => negb (same_key sess line r)) rows)
    = filter (fun x => negb (key_is sess line x)) (map entry_of rows).
  Proof.
    induction rows as [|r rows IH]; [reflexivity|]. cbn [filter map].
    change (key_is sess line (entry_of r)) with (same_key sess line r).
    destruct (negb (same_key sess line r)); cbn [map]; rewrite IH; reflexivity.
  Qed.

  Lemma existsb_map_key sess line rows :
    existsb (same_key sess line) rows = existsb (key_is sess line) (map entry_of rows).
  Proof. induction rows as [|r rows IH]; [reflexivity|]. cbn [existsb map]. rewrite IH. reflexivity. Qed.

  Lemma has_dup_abs rows : has_dup_rows rows = spec_has_dup (map entry_of rows).
  Proof.
    induction rows as [|r rows IH]; [reflexivity|]. cbn [has_dup_rows spec_has_dup map].
    rewrite IH, existsb_map_key. reflexivity.
  Qed.

  Lemma skipn_map {A B} (f : A -> B) n : forall l, skipn n (map f l) = map f (skipn n l).
  Proof. induction n as [|n IH]; intros [|x l]; cbn [skipn map]; auto. Qed.

  (* one operation: the model's new table is the specification's new list, and the caller is told the same *)
  Theorem step_refines h o :
    abs (fst (sql_step U h o)) = fst (spec_step (abs h) o)
    /\ answer_of o (snd (sql_step U h o)) = snd (spec_step (abs h) o).
  Proof.
    destruct o as [l|i d| |n| |igs igd|yes|yes]; cbn [sql_step spec_step].
    - (* add *)
      unfold sql_add, spec_add, spec_refuses, sql_ignore. cbn [abs sp_max sp_igs sp_igd sp_sess sp_nsess sp_list sp_cfg_max].
      destruct (Nat.eqb (q_max h) 0 || match l with [] => true | c :: _ => q_igs h && u_is_whitespace U c end)%bool;
        [split; reflexivity|].
      destruct (Nat.eqb (q_sess h) 0); destruct (q_igd h); unfold abs;
        cbn [fst snd q_rows q_nsess q_sess q_max q_igs q_igd q_cfg_max];
        rewrite map_app, ?map_filter_key; split; reflexivity.
    - (* get: the cache only *)
      unfold sql_get. destruct (Nat.eqb (q_cache h) 0); [split; reflexivity|].
      destruct (match d with Forward => find_ge | Reverse => find_le end (q_rows h) (S i)) as [r|]; split; reflexivity.
    - split; reflexivity.
    - (* limit *)
      unfold sql_set_max, abs. cbn [fst snd q_rows q_nsess q_sess q_max q_igs q_igd q_cfg_max sp_list sp_nsess sp_sess sp_igs sp_igd sp_cfg_max].
      rewrite map_length, skipn_map. split; reflexivity.
    - split; reflexivity.
    - split; reflexivity.
    - (* duplicates policy on the open object *)
      unfold sql_set_dups. cbn [abs sp_igd sp_list]. rewrite <- has_dup_abs.
      destruct (Bool.eqb (q_igd h) yes); [split; reflexivity|].
      destruct (yes && has_dup_rows (q_rows h))%bool; split; reflexivity.
    - split; reflexivity.
  Qed.

  (* every sequence of operations *)
  Theorem run_refines ops : forall h, abs (fst (sql_run U h ops)) = spec_run (abs h) ops.
  Proof.
    induction ops as [|o ops IH]; intros h; cbn [sql_run spec_run]; [reflexivity|].
    destruct (sql_step U h o) as [h1 x] eqn:E. specialize (IH h1).
    destruct (sql_run U h1 ops) as [h2 xs]. cbn [fst] in *. rewrite IH.
    pose proof (step_refines h o) as [H _]. rewrite E in H. cbn [fst] in H. rewrite H. reflexivity.
  Qed.

  Corollary table_is_the_list ops max igs igd :
    map entry_of (q_rows (fst (sql_run U (sql_new max igs igd) ops)))
    = sp_list (spec_run (mkSpec [] 0 0 max igs igd max) ops).
  Proof. pose proof (run_refines ops (sql_new max igs igd)) as H. apply (f_equal sp_list) in H. exact H. Qed.

  (* the specification's add, spelled out: where the line ends up and what is gone *)
  Theorem spec_add_meaning s line :
    spec_refuses s line = false ->
    exists sess, (sess = if Nat.eqb (sp_sess s) 0 then S (sp_nsess s) else sp_sess s)
      /\ snd (spec_add s line) = true
      /\ sp_list (fst (spec_add s line))
         = (if sp_igd s then filter (fun x => negb (key_is sess line x)) (sp_list s) else sp_list s) ++ [(sess, line)].
  Proof.
    intros H. unfold spec_add. rewrite H. destruct (Nat.eqb (sp_sess s) 0); eexists; (split; [reflexivity|]); split; reflexivity.
  Qed.
End Spec.
