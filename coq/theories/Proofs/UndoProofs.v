(* C05: the undo stack is, at every moment, a valid edit script from the empty
   line to the current text; undo never panics, lands on texts of that script
   and finally on the empty line; an aborted group leaves no trace. *)
From RL Require Import UData LineBuffer LineBufferProofs LineBufferTotal Undo.

(* what undoing the changes of [undos] (newest first) means for the text *)
Fixpoint valid (undos : list change) (text : str) : Prop :=
  match undos with
  | [] => text = []
  | UBegin :: r | UEnd :: r => valid r text
  | UInsert i s :: r => exists l r', text = l ++ s ++ r' /\ blen l = i /\ valid r (l ++ r')
  | UDelete i s :: r => exists l r', text = l ++ r' /\ blen l = i /\ valid r (l ++ s ++ r')
  | UReplace i o n :: r => exists l r', text = l ++ n ++ r' /\ blen l = i /\ valid r (l ++ o ++ r')
  end.

(* the texts the script passes through, newest first (the current text included) *)
Fixpoint texts (undos : list change) (text : str) : list str :=
  match undos with
  | [] => [text]
  | UBegin :: r | UEnd :: r => texts r text
  | UInsert i s :: r =>
    text :: match bsplit text i with
            | Some (l, sr) => match strip_prefix s sr with Some r' => texts r (l ++ r') | None => [] end
            | None => []
            end
  | UDelete i s :: r =>
    text :: match bsplit text i with Some (l, r') => texts r (l ++ s ++ r') | None => [] end
  | UReplace i o n :: r =>
    text :: match bsplit text i with
            | Some (l, nr) => match strip_prefix n nr with Some r' => texts r (l ++ o ++ r') | None => [] end
            | None => []
            end
  end.

Lemma strip_prefix_some p : forall s r, strip_prefix p s = Some r -> s = p ++ r.
Proof.
  induction p as [|x p IH]; intros s r H; cbn in H; [inversion H; reflexivity|].
  destruct s as [|y s]; [discriminate|]. destruct (x =? y)%N eqn:E; [|discriminate].
  apply N.eqb_eq in E. subst. rewrite (IH _ _ H). reflexivity.
Qed.

Lemma bsplit_inj t p l r l2 r2 :
  bsplit t p = Some (l, r) -> t = l2 ++ r2 -> blen l2 = p -> l = l2 /\ r = r2.
Proof. intros H -> <-. rewrite bsplit_app in H. inversion H; auto. Qed.

Section Undo.
  Variable U : UData.
  Variable seg : str -> list str.

  Lemma cs_insert_valid c idx ch t l r :
    valid (cs_undos c) t -> bsplit t idx = Some (l, r) ->
    valid (cs_undos (cs_insert U c idx ch)) (l ++ [ch] ++ r).
  Proof.
    intros Hv Hs. pose proof (bsplit_some _ _ _ _ Hs) as [Ht Hl].
    assert (Hpush : valid (UInsert idx [ch] :: cs_undos c) (l ++ [ch] ++ r)).
    { cbn [valid]. exists l, r. repeat split; auto. rewrite <- Ht. exact Hv. }
    unfold cs_insert. destruct (cs_undos c) as [|[| |i text|i text|i o n] rest] eqn:E; try exact Hpush.
    destruct (u_is_alphanumeric U ch && Nat.eqb (i + blen text) idx) eqn:Em; [|exact Hpush].
    apply andb_true_iff in Em. destruct Em as [_ Em]. apply Nat.eqb_eq in Em.
    cbn [cs_undos valid] in *. destruct Hv as [l0 [r0 [Ht0 [Hl0 Hv0]]]].
    assert (Hs' : t = (l0 ++ text) ++ r0) by (rewrite <- app_assoc; exact Ht0).
    destruct (bsplit_inj _ _ _ _ _ _ Hs Hs') as [-> ->]; [rewrite blen_app; lia|].
    exists l0, r0. repeat split; auto. rewrite <- !app_assoc. reflexivity.
  Qed.

  Lemma cs_notify_valid c e t t' :
    valid (cs_undos c) t -> replay1 t e = Some t' -> valid (cs_undos (cs_notify U seg c e)) t'.
  Proof.
    intros Hv Hr. destruct e as [idx ch|idx s|idx s d|idx old new| | ]; cbn [replay1 cs_notify] in *.
    - (* insert char *)
      destruct (bsplit t idx) as [[l r]|] eqn:Hs; [|discriminate]. inversion Hr; subst.
      eapply cs_insert_valid; eauto.
    - (* insert str *)
      destruct (bsplit t idx) as [[l r]|] eqn:Hs; [|discriminate]. inversion Hr; subst.
      pose proof (bsplit_some _ _ _ _ Hs) as [Ht Hl]. unfold cs_insert_str.
      destruct s as [|x s]; [cbn [app]; rewrite <- Ht; exact Hv|].
      cbn [cs_undos valid]. exists l, r. repeat split; auto. rewrite <- Ht. exact Hv.
    - (* delete *)
      destruct (bsplit t idx) as [[l r]|] eqn:Hs; [|discriminate].
      destruct (strip_prefix s r) as [r'|] eqn:Hp; [|discriminate]. inversion Hr; subst.
      apply strip_prefix_some in Hp. subst r.
      pose proof (bsplit_some _ _ _ _ Hs) as [Ht Hl]. unfold cs_delete.
      destruct s as [|x s]; [cbn [app] in *; rewrite <- Ht; exact Hv|].
      set (s' := x :: s) in *.
      assert (Hpush : valid (UDelete idx s' :: cs_undos c) (l ++ r')).
      { cbn [valid]. exists l, r'. repeat split; auto. rewrite <- Ht. exact Hv. }
      destruct (cs_undos c) as [|[| |i text|i text|i o n] rest] eqn:E; try exact Hpush.
      destruct (single_char U seg s' && (Nat.eqb i idx || Nat.eqb i (idx + blen s'))) eqn:Em; [|exact Hpush].
      apply andb_true_iff in Em. destruct Em as [_ Em].
      cbn [valid] in Hv. destruct Hv as [l0 [r0 [Ht0 [Hl0 Hv0]]]].
      destruct (Nat.eqb i idx) eqn:Ei.
      + apply Nat.eqb_eq in Ei.
        destruct (bsplit_inj _ _ _ _ _ _ Hs Ht0) as [-> Hr0]; [lia|]. subst r0.
        cbn [cs_undos valid]. exists l0, r'. repeat split; auto. rewrite <- !app_assoc. exact Hv0.
      + rewrite orb_false_l in Em. apply Nat.eqb_eq in Em.
        assert (Ht1 : t = (l ++ s') ++ r') by (rewrite <- app_assoc; exact Ht).
        assert (Hs0 : bsplit t i = Some (l0, r0)) by (rewrite Ht0, <- Hl0; apply bsplit_app).
        destruct (bsplit_inj _ _ _ _ _ _ Hs0 Ht1) as [-> ->]; [rewrite blen_app; lia|].
        cbn [cs_undos valid]. exists l, r'. repeat split; auto. rewrite <- !app_assoc in *. exact Hv0.
    - (* replace *)
      destruct (bsplit t idx) as [[l r]|] eqn:Hs; [|discriminate].
      destruct (strip_prefix old r) as [r'|] eqn:Hp; [|discriminate]. inversion Hr; subst.
      apply strip_prefix_some in Hp. subst r.
      pose proof (bsplit_some _ _ _ _ Hs) as [Ht Hl]. unfold cs_replace.
      assert (Hpush : valid (UReplace idx old new :: cs_undos c) (l ++ new ++ r')).
      { cbn [valid]. exists l, r'. repeat split; auto. rewrite <- Ht. exact Hv. }
      destruct (cs_undos c) as [|[| |i text|i text|i o n] rest] eqn:E; try exact Hpush.
      destruct (Nat.eqb (i + blen n) idx) eqn:Em; [|exact Hpush]. apply Nat.eqb_eq in Em.
      cbn [valid] in Hv. destruct Hv as [l0 [r0 [Ht0 [Hl0 Hv0]]]].
      assert (Ht1 : t = (l0 ++ n) ++ r0) by (rewrite <- app_assoc; exact Ht0).
      destruct (bsplit_inj _ _ _ _ _ _ Hs Ht1) as [-> Hr0]; [rewrite blen_app; lia|]. subst r0.
      cbn [cs_undos valid]. exists l0, r'. repeat split; auto.
      + rewrite <- !app_assoc. reflexivity.
      + rewrite <- !app_assoc. exact Hv0.
    - inversion Hr; subst. exact Hv.
    - inversion Hr; subst. exact Hv.
  Qed.

  (* any run of notifications that replays on the text keeps the stack a valid script *)
  Theorem cs_notify_all_valid es : forall c t t',
    valid (cs_undos c) t -> replay t es = Some t' -> valid (cs_undos (cs_notify_all U seg c es)) t'.
  Proof.
    induction es as [|e es IH]; intros c t t' Hv Hr; cbn [replay cs_notify_all fold_left] in *.
    - inversion Hr; subst. exact Hv.
    - destruct (replay1 t e) as [t1|] eqn:E; [|discriminate].
      apply (IH (cs_notify U seg c e) t1 t'); [eapply cs_notify_valid; eauto|exact Hr].
  Qed.

  (* ... hence after any line-buffer operation run with the Changeset as listener *)
  Corollary op_keeps_valid (o : LineBufferOps.lbop) c (b : lb) r b' ev :
    valid (cs_undos c) (buf b) -> LineBufferOps.lb_apply U seg o b = Ok (r, b', ev) ->
    valid (cs_undos (cs_notify_all U seg c ev)) (buf b').
  Proof. intros Hv H. eapply cs_notify_all_valid; [exact Hv|]. eapply lb_replay; eauto. Qed.

  (* markers do not matter for validity *)
  Lemma valid_begin c t : valid (cs_undos c) t -> valid (cs_undos (fst (cs_begin c))) t.
  Proof. intros H. exact H. Qed.

  Lemma cs_end_loop_valid level : forall undos touched t,
    valid undos t -> valid (fst (cs_end_loop level undos touched)) t.
  Proof.
    induction level as [|l IH]; intros undos touched t H; [exact H|]. cbn [cs_end_loop].
    destruct undos as [|[| |i s|i s|i o n] rest]; try (apply IH; exact H).
  Qed.
  Lemma valid_end c t : valid (cs_undos c) t -> valid (cs_undos (fst (cs_end c))) t.
  Proof.
    intros H. unfold cs_end. pose proof (cs_end_loop_valid (cs_level c) (cs_undos c) false t H) as H'.
    destruct (cs_end_loop (cs_level c) (cs_undos c) false). exact H'.
  Qed.

  (* ---------- undo is total and stays on the script ---------- *)

  Lemma set_pos_ok (b : lb) p : p <= lb_len b -> set_pos p b = Ok (tt, set_pos' b p, []).
  Proof.
    intros H. unfold set_pos, bind, get, put_pos.
    replace (Nat.ltb (lb_len b) p) with false by (symmetry; apply Nat.ltb_ge; exact H). reflexivity.
  Qed.

  Lemma change_undo_ok ch rest (b : lb) :
    valid (ch :: rest) (buf b) -> ch <> UBegin -> ch <> UEnd ->
    exists b', change_undo ch b = Ok b' /\ valid rest (buf b') /\ (exists l r, buf b' = l ++ r /\ pos b' = blen l).
  Proof.
    intros Hv Hb He. destruct ch as [| |i s|i s|i o n]; try congruence; cbn [valid] in Hv;
      destruct Hv as [l [r' [Ht [Hl Hv]]]]; subst i.
    - (* undo an insert: delete_range *)
      unfold change_undo, delete_range. unfold bind at 1.
      rewrite set_pos_ok by (unfold lb_len; rewrite Ht, blen_app; lia).
      assert (Hb' : buf (set_pos' b (blen l)) = l ++ s ++ r') by exact Ht.
      unfold bind. rewrite (LineBufferTotal.drain_ok _ l s r' DForward Hb'). cbn [ret app].
      eexists. split; [reflexivity|]. cbn [buf set_buf set_pos' pos]. split; [exact Hv|].
      exists l, r'. split; reflexivity.
    - (* undo a delete: insert_str + set_pos *)
      unfold change_undo. rewrite (LineBufferTotal.insert_str_ok b l r' s Ht).
      rewrite set_pos_ok by (unfold lb_len; cbn [set_buf buf]; rewrite !blen_app; lia).
      eexists. split; [reflexivity|]. cbn [buf set_buf set_pos' pos]. split; [exact Hv|].
      exists (l ++ s), r'. split; [rewrite <- app_assoc; reflexivity|rewrite blen_app; reflexivity].
    - (* undo a replace *)
      unfold change_undo, replace, replace_range, slice, str_drain, str_insert.
      replace (Nat.ltb (blen l + blen n) (blen l)) with false by (symmetry; apply Nat.ltb_ge; lia).
      rewrite Ht, bsplit_app. replace (blen l + blen n - blen l) with (blen n) by lia.
      rewrite bsplit_app. rewrite bsplit_app. eexists. split; [reflexivity|]. cbn [buf pos]. split; [exact Hv|].
      exists (l ++ o), r'. split; [rewrite <- app_assoc; reflexivity|rewrite blen_app; reflexivity].
  Qed.

  Theorem undo_loop_total undos : forall b n count waiting undone,
    valid undos (buf b) ->
    exists u' b' d, cs_undo_loop undos b n count waiting undone = Ok (u', b', d) /\ valid u' (buf b').
  Proof.
    induction undos as [|ch rest IH]; intros b n count waiting undone Hv.
    - eexists _, _, _. split; [reflexivity|exact Hv].
    - assert (Hstep : forall b' w' d', valid rest (buf b') ->
                exists u' b'' d, (if (w' <=? 0)%Z then
                                   if Nat.leb n (S count) then Ok (rest, b', d')
                                   else cs_undo_loop rest b' n (S count) w' d'
                                 else cs_undo_loop rest b' n count w' d') = Ok (u', b'', d)
                                /\ valid u' (buf b'')).
      { intros b' w' d' Hv'. destruct (w' <=? 0)%Z; [destruct (Nat.leb n (S count))|]; try (apply IH; exact Hv').
        eexists _, _, _. split; [reflexivity|exact Hv']. }
      destruct ch as [| |i s|i s|i o n0]; cbn [cs_undo_loop].
      + apply Hstep. exact Hv.
      + apply Hstep. exact Hv.
      + destruct (change_undo_ok _ _ _ Hv) as [b' [Hc [Hv' _]]]; try discriminate. rewrite Hc. apply Hstep. exact Hv'.
      + destruct (change_undo_ok _ _ _ Hv) as [b' [Hc [Hv' _]]]; try discriminate. rewrite Hc. apply Hstep. exact Hv'.
      + destruct (change_undo_ok _ _ _ Hv) as [b' [Hc [Hv' _]]]; try discriminate. rewrite Hc. apply Hstep. exact Hv'.
  Qed.

  (* C05: Undo never panics, whatever the count, and leaves a valid script *)
  Theorem undo_total c b n :
    valid (cs_undos c) (buf b) ->
    exists c' b' d, cs_undo c b n = Ok (c', b', d) /\ valid (cs_undos c') (buf b').
  Proof.
    intros Hv. unfold cs_undo.
    destruct (undo_loop_total (cs_undos c) b n 0 0%Z false Hv) as [u' [b' [d [H1 H2]]]].
    rewrite H1. eexists _, _, _. split; [reflexivity|exact H2].
  Qed.

  (* ... and with a count beyond the stack it unwinds everything: the empty line *)
  Theorem undo_reaches_empty undos : forall b n count waiting undone,
    valid undos (buf b) -> length undos + count < n ->
    exists b' d, cs_undo_loop undos b n count waiting undone = Ok ([], b', d) /\ buf b' = [].
  Proof.
    induction undos as [|ch rest IH]; intros b n count waiting undone Hv Hn.
    - eexists _, _. split; [reflexivity|exact Hv].
    - cbn [length] in Hn.
      assert (Hstep : forall b' w' d', valid rest (buf b') ->
                exists b'' d, (if (w' <=? 0)%Z then
                                 if Nat.leb n (S count) then Ok (rest, b', d')
                                 else cs_undo_loop rest b' n (S count) w' d'
                               else cs_undo_loop rest b' n count w' d') = Ok ([], b'', d) /\ buf b'' = []).
      { intros b' w' d' Hv'. destruct (w' <=? 0)%Z.
        - replace (Nat.leb n (S count)) with false by (symmetry; apply Nat.leb_gt; lia).
          apply IH; [exact Hv'|lia].
        - apply IH; [exact Hv'|lia]. }
      destruct ch as [| |i s|i s|i o n0]; cbn [cs_undo_loop].
      + apply Hstep. exact Hv.
      + apply Hstep. exact Hv.
      + destruct (change_undo_ok _ _ _ Hv) as [b' [Hc [Hv' _]]]; try discriminate. rewrite Hc. apply Hstep. exact Hv'.
      + destruct (change_undo_ok _ _ _ Hv) as [b' [Hc [Hv' _]]]; try discriminate. rewrite Hc. apply Hstep. exact Hv'.
      + destruct (change_undo_ok _ _ _ Hv) as [b' [Hc [Hv' _]]]; try discriminate. rewrite Hc. apply Hstep. exact Hv'.
  Qed.

  (* ---------- each Undo lands on a text of the script ---------- *)

  Lemma texts_head undos : forall text, In text (texts undos text).
  Proof.
    induction undos as [|ch rest IH]; intros text; [left; reflexivity|].
    destruct ch; cbn [texts]; try apply IH; left; reflexivity.
  Qed.

  Lemma texts_step ch rest (b b' : lb) :
    valid (ch :: rest) (buf b) -> ch <> UBegin -> ch <> UEnd -> change_undo ch b = Ok b' ->
    texts (ch :: rest) (buf b) = buf b :: texts rest (buf b').
  Proof.
    intros Hv Hb He Hc. destruct ch as [| |i s|i s|i o n]; try congruence; cbn [valid] in Hv;
      destruct Hv as [l [r' [Ht [Hl Hv]]]]; subst i.
    - destruct (change_undo_ok (UInsert (blen l) s) rest b) as [b2 [Hc2 [_ _]]]; try discriminate.
      { cbn [valid]. eauto. }
      assert (Hb2 : buf b' = l ++ r').
      { unfold change_undo, delete_range in Hc. unfold bind at 1 in Hc.
        rewrite set_pos_ok in Hc by (unfold lb_len; rewrite Ht, blen_app; lia).
        assert (Hb' : buf (set_pos' b (blen l)) = l ++ s ++ r') by exact Ht.
        unfold bind in Hc. rewrite (LineBufferTotal.drain_ok _ l s r' DForward Hb') in Hc. cbn [ret app] in Hc.
        inversion Hc; subst. reflexivity. }
      cbn [texts]. rewrite Ht at 2. rewrite bsplit_app, strip_prefix_app, Hb2. reflexivity.
    - assert (Hb2 : buf b' = l ++ s ++ r').
      { unfold change_undo in Hc. rewrite (LineBufferTotal.insert_str_ok b l r' s Ht) in Hc.
        rewrite set_pos_ok in Hc by (unfold lb_len; cbn [set_buf buf]; rewrite !blen_app; lia).
        inversion Hc; subst. reflexivity. }
      cbn [texts]. rewrite Ht at 2. rewrite bsplit_app, Hb2. reflexivity.
    - assert (Hb2 : buf b' = l ++ o ++ r').
      { unfold change_undo, replace, replace_range, slice, str_drain, str_insert in Hc.
        replace (Nat.ltb (blen l + blen n) (blen l)) with false in Hc by (symmetry; apply Nat.ltb_ge; lia).
        rewrite Ht, bsplit_app in Hc. replace (blen l + blen n - blen l) with (blen n) in Hc by lia.
        rewrite bsplit_app in Hc. rewrite bsplit_app in Hc. inversion Hc; subst. reflexivity. }
      cbn [texts]. rewrite Ht at 2. rewrite bsplit_app, strip_prefix_app, Hb2. reflexivity.
  Qed.

  Theorem undo_lands_on_script undos : forall b n count waiting undone u' b' d,
    valid undos (buf b) -> cs_undo_loop undos b n count waiting undone = Ok (u', b', d) ->
    In (buf b') (texts undos (buf b)).
  Proof.
    induction undos as [|ch rest IH]; intros b n count waiting undone u' b' d Hv H.
    - cbn in H. inversion H; subst. left. reflexivity.
    - assert (Hstep : forall b1 w' d', valid rest (buf b1) ->
                (if (w' <=? 0)%Z then
                   if Nat.leb n (S count) then Ok (rest, b1, d')
                   else cs_undo_loop rest b1 n (S count) w' d'
                 else cs_undo_loop rest b1 n count w' d') = Ok (u', b', d) ->
                In (buf b') (texts rest (buf b1))).
      { intros b1 w' d' Hv1 H1. destruct (w' <=? 0)%Z; [destruct (Nat.leb n (S count))|].
        - inversion H1; subst. apply texts_head.
        - eapply IH; eauto.
        - eapply IH; eauto. }
      destruct ch as [| |i s|i s|i o n0]; cbn [cs_undo_loop] in H.
      + cbn [texts]. eapply Hstep; [exact Hv|exact H].
      + cbn [texts]. eapply Hstep; [exact Hv|exact H].
      + destruct (change_undo_ok _ _ _ Hv) as [b1 [Hc [Hv1 _]]]; try discriminate. rewrite Hc in H.
        rewrite (texts_step _ _ _ _ Hv) by (try discriminate; exact Hc). right. eapply Hstep; eauto.
      + destruct (change_undo_ok _ _ _ Hv) as [b1 [Hc [Hv1 _]]]; try discriminate. rewrite Hc in H.
        rewrite (texts_step _ _ _ _ Hv) by (try discriminate; exact Hc). right. eapply Hstep; eauto.
      + destruct (change_undo_ok _ _ _ Hv) as [b1 [Hc [Hv1 _]]]; try discriminate. rewrite Hc in H.
        rewrite (texts_step _ _ _ _ Hv) by (try discriminate; exact Hc). right. eapply Hstep; eauto.
  Qed.

  (* ---------- an aborted group leaves no trace ---------- *)

  Definition no_marker (ch : change) : bool := match ch with UBegin | UEnd => false | _ => true end.

  (* ---------- one Undo = one change, or one whole group ---------- *)

  Theorem undo_one_change ch rest (b b' : lb) :
    no_marker ch = true -> change_undo ch b = Ok b' ->
    cs_undo_loop (ch :: rest) b 1 0 0%Z false = Ok (rest, b', true).
  Proof. intros Hm Hc. destruct ch; try discriminate; cbn [cs_undo_loop]; rewrite Hc; reflexivity. Qed.

  Lemma undo_group_body body : forall rest (b : lb) undone,
    forallb no_marker body = true -> valid (body ++ UBegin :: rest) (buf b) ->
    exists b' d, cs_undo_loop (body ++ UBegin :: rest) b 1 0 1%Z undone = Ok (rest, b', d) /\ valid rest (buf b').
  Proof.
    induction body as [|ch body IH]; intros rest b undone Hm Hv.
    - cbn [app cs_undo_loop]. cbn. eexists _, _. split; [reflexivity|exact Hv].
    - cbn in Hm. apply andb_true_iff in Hm. destruct Hm as [Hc Hm]. cbn [app] in *.
      destruct (change_undo_ok ch (body ++ UBegin :: rest) b Hv) as [b1 [Hcu [Hv1 _]]];
        try (destruct ch; discriminate).
      destruct ch; try discriminate; cbn [cs_undo_loop]; rewrite Hcu; cbn; apply IH; assumption.
  Qed.

  Theorem undo_one_group body rest (b : lb) :
    forallb no_marker body = true -> valid (UEnd :: body ++ UBegin :: rest) (buf b) ->
    exists b' d, cs_undo_loop (UEnd :: body ++ UBegin :: rest) b 1 0 0%Z false = Ok (rest, b', d)
                 /\ valid rest (buf b').
  Proof. intros Hm Hv. cbn [cs_undo_loop]. cbn. apply undo_group_body; assumption. Qed.

  Lemma cs_notify_above c0 new e level :
    forallb no_marker new = true ->
    exists new', cs_notify U seg (mkCs level (new ++ UBegin :: cs_undos c0)) e
                 = mkCs level (new' ++ UBegin :: cs_undos c0) /\ forallb no_marker new' = true.
  Proof.
    intros Hn.
    assert (Hpush : forall ch, no_marker ch = true ->
              exists new', mkCs level (ch :: new ++ UBegin :: cs_undos c0)
                           = mkCs level (new' ++ UBegin :: cs_undos c0) /\ forallb no_marker new' = true).
    { intros ch Hc. exists (ch :: new). split; [reflexivity|]. cbn. rewrite Hc, Hn. reflexivity. }
    assert (Hsame : exists new', mkCs level (new ++ UBegin :: cs_undos c0)
                                 = mkCs level (new' ++ UBegin :: cs_undos c0) /\ forallb no_marker new' = true)
      by (exists new; auto).
    destruct e as [idx ch|idx s|idx s d|idx old nw| | ]; cbn [cs_notify]; try exact Hsame.
    - unfold cs_insert. cbn [cs_undos cs_level].
      destruct new as [|[| |i text|i text|i o n] rest]; cbn [app]; try (apply Hpush; reflexivity).
      destruct (u_is_alphanumeric U ch && Nat.eqb (i + blen text) idx); [|apply Hpush; reflexivity].
      exists (UInsert i (text ++ [ch]) :: rest). split; [reflexivity|]. exact Hn.
    - unfold cs_insert_str. destruct s; [exact Hsame|]. cbn [cs_undos cs_level]. apply Hpush; reflexivity.
    - unfold cs_delete. destruct s as [|x s]; [exact Hsame|]. cbn [cs_undos cs_level].
      destruct new as [|[| |i text|i text|i o n] rest]; cbn [app]; try (apply Hpush; reflexivity).
      destruct (single_char U seg (x :: s) && (Nat.eqb i idx || Nat.eqb i (idx + blen (x :: s)))); [|apply Hpush; reflexivity].
      destruct (Nat.eqb i idx); eexists (_ :: rest); (split; [reflexivity|exact Hn]).
    - unfold cs_replace. cbn [cs_undos cs_level].
      destruct new as [|[| |i text|i text|i o n] rest]; cbn [app]; try (apply Hpush; reflexivity).
      destruct (Nat.eqb (i + blen n) idx); [|apply Hpush; reflexivity].
      eexists (_ :: rest). split; [reflexivity|exact Hn].
  Qed.

  Lemma trunc_level_no_marker new level :
    forallb no_marker new = true -> trunc_level new level = level.
  Proof.
    induction new as [|ch new IH]; intros H; [reflexivity|]. cbn in H. apply andb_true_iff in H.
    destruct H as [Hc Hn]. cbn [trunc_level]. rewrite (IH Hn). destruct ch; try discriminate; reflexivity.
  Qed.

  (* begin(); any notifications; truncate(mark)  =  nothing happened (stack AND group level) *)
  Theorem abort_is_noop c es :
    let '(c1, mark) := cs_begin c in
    cs_truncate (cs_notify_all U seg c1 es) mark = c.
  Proof.
    unfold cs_begin.
    assert (H : forall es new, forallb no_marker new = true ->
              cs_truncate (cs_notify_all U seg (mkCs (S (cs_level c)) (new ++ UBegin :: cs_undos c)) es)
                          (length (cs_undos c)) = c).
    { clear es. induction es as [|e es IH]; intros new Hn.
      - cbn [cs_notify_all fold_left]. unfold cs_truncate. cbn [cs_undos cs_level].
        rewrite app_length. cbn [length].
        replace (length new + S (length (cs_undos c)) - length (cs_undos c)) with (length new + 1) by lia.
        replace (new ++ UBegin :: cs_undos c) with ((new ++ [UBegin]) ++ cs_undos c)
          by (rewrite <- app_assoc; reflexivity).
        rewrite firstn_app, skipn_app.
        replace (length new + 1 - length (new ++ [UBegin])) with 0 by (rewrite app_length; cbn; lia).
        rewrite firstn_all2 by (rewrite app_length; cbn; lia).
        rewrite skipn_all2 by (rewrite app_length; cbn; lia).
        cbn [firstn skipn app]. rewrite app_nil_r.
        assert (Hl : trunc_level (new ++ [UBegin]) (S (cs_level c)) = cs_level c).
        { clear -Hn. induction new as [|ch new IHn]; [cbn; lia|].
          cbn in Hn. apply andb_true_iff in Hn. destruct Hn as [Hc Hn].
          cbn [app trunc_level]. rewrite (IHn Hn). destruct ch; try discriminate; reflexivity. }
        rewrite Hl. destruct c; reflexivity.
      - cbn [cs_notify_all fold_left].
        destruct (cs_notify_above c new e (S (cs_level c)) Hn) as [new' [-> Hn']].
        apply (IH new' Hn'). }
    apply (H es []). reflexivity.
  Qed.
End Undo.
