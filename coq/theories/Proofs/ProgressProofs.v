(* C17 (model half of "no input can wedge a read"): every loop of the editor consumes input at each
   iteration, so the fuel the model gives itself is never exhausted: a read never ends in OutOfFuel. *)
From RL Require Import UData LineBuffer Undo KillRing Render Keys Editor EditorRun EditorProofs.

Definition sz (s : est) : nat := stream_size (e_inp s).
(* never increases / strictly decreases the input still to be read *)
Definition ni {A} (m : E A) : Prop := forall s a s', m s = EOk a s' -> sz s' <= sz s.
Definition dec {A} (m : E A) : Prop := forall s a s', m s = EOk a s' -> sz s' < sz s.
(* never runs out of fuel: in any state / in states with less than n characters left *)
Definition nf {A} (m : E A) : Prop := forall s, m s <> EFuel.
Definition nfb {A} (n : nat) (m : E A) : Prop := forall s, sz s < n -> m s <> EFuel.

Lemma ni_bind {A B} (m : E A) (f : A -> E B) : ni m -> (forall a, ni (f a)) -> ni (ebind m f).
Proof.
  intros Hm Hf s b s2 H. apply ebind_inv in H. destruct H as [a [s1 [H1 H2]]].
  pose proof (Hm _ _ _ H1). pose proof (Hf _ _ _ _ H2). lia.
Qed.
Lemma dec_bind_l {A B} (m : E A) (f : A -> E B) : dec m -> (forall a, ni (f a)) -> dec (ebind m f).
Proof.
  intros Hm Hf s b s2 H. apply ebind_inv in H. destruct H as [a [s1 [H1 H2]]].
  pose proof (Hm _ _ _ H1). pose proof (Hf _ _ _ _ H2). lia.
Qed.
Lemma ni_of_dec {A} (m : E A) : dec m -> ni m.
Proof. intros H s a s' E. pose proof (H _ _ _ E). lia. Qed.
Lemma nf_bind {A B} (m : E A) (f : A -> E B) : nf m -> (forall a, nf (f a)) -> nf (ebind m f).
Proof. intros Hm Hf s. unfold ebind. destruct (m s) eqn:E; try discriminate; [apply Hf|intros _; apply (Hm s E)]. Qed.
Lemma nfb_of_nf {A} n (m : E A) : nf m -> nfb n m.
Proof. intros H s _. apply H. Qed.
Lemma nfb_bind {A B} n (m : E A) (f : A -> E B) : nfb n m -> ni m -> (forall a, nfb n (f a)) -> nfb n (ebind m f).
Proof.
  intros Hm Hi Hf s Hs. unfold ebind. destruct (m s) eqn:E; try discriminate.
  - apply Hf. pose proof (Hi _ _ _ E). lia.
  - intros _. apply (Hm s Hs E).
Qed.
(* the loop rule: a step that consumes input, then the rest with one unit of fuel less *)
Lemma nfb_step {A B} n (m : E A) (f : A -> E B) : nfb (S n) m -> dec m -> (forall a, nfb n (f a)) -> nfb (S n) (ebind m f).
Proof.
  intros Hm Hd Hf s Hs. unfold ebind. destruct (m s) eqn:E; try discriminate.
  - apply Hf. pose proof (Hd _ _ _ E). lia.
  - intros _. apply (Hm s Hs E).
Qed.
Lemma nfb_bind_nf {A B} n (m : E A) (f : A -> E B) : nfb n m -> (forall a, nf (f a)) -> nfb n (ebind m f).
Proof.
  intros Hm Hf s Hs. unfold ebind. destruct (m s) eqn:E; try discriminate.
  - apply Hf.
  - intros _. apply (Hm s Hs E).
Qed.
Lemma nfb_mono {A} n k (m : E A) : nfb n m -> k <= n -> nfb k m.
Proof. intros H Hk s Hs. apply H. lia. Qed.

Lemma ni_ret {A} (a : A) : ni (eret a). Proof. intros s a' s' H. inversion H; apply le_n. Qed.
Lemma ni_get : ni eget. Proof. intros s a' s' H. inversion H; apply le_n. Qed.
Lemma ni_fail {A} e : ni (@efail A e). Proof. intros s a' s' H. discriminate. Qed.
Lemma ni_panic {A} : ni (@epanic A). Proof. intros s a' s' H. discriminate. Qed.
Lemma ni_fuel {A} : ni (@efuel A). Proof. intros s a' s' H. discriminate. Qed.
Lemma nf_ret {A} (a : A) : nf (eret a). Proof. intros s H. discriminate. Qed.
Lemma nf_get : nf eget. Proof. intros s H. discriminate. Qed.
Lemma nf_fail {A} e : nf (@efail A e). Proof. intros s H. discriminate. Qed.
Lemma nf_panic {A} : nf (@epanic A). Proof. intros s H. discriminate. Qed.

Lemma ni_write b : ni (write b). Proof. intros s a' s' H. inversion H; apply le_n. Qed.
Lemma nf_write b : nf (write b). Proof. intros s H. discriminate. Qed.
Lemma ni_set_layout l : ni (set_layout l). Proof. intros s a' s' H. inversion H; apply le_n. Qed.
Lemma nf_set_layout l : nf (set_layout l). Proof. intros s H. discriminate. Qed.
Lemma ni_set_hint h : ni (set_hint h). Proof. intros s a' s' H. inversion H; apply le_n. Qed.
Lemma nf_set_hint h : nf (set_hint h). Proof. intros s H. discriminate. Qed.
Lemma ni_set_kr k : ni (set_kr k). Proof. intros s a' s' H. inversion H; apply le_n. Qed.
Lemma nf_set_kr k : nf (set_kr k). Proof. intros s H. discriminate. Qed.
Lemma ni_set_hidx k : ni (set_hidx k). Proof. intros s a' s' H. inversion H; apply le_n. Qed.
Lemma nf_set_hidx k : nf (set_hidx k). Proof. intros s H. discriminate. Qed.
Lemma ni_set_saved k : ni (set_saved k). Proof. intros s a' s' H. inversion H; apply le_n. Qed.
Lemma nf_set_saved k : nf (set_saved k). Proof. intros s H. discriminate. Qed.
Lemma ni_set_changes k : ni (set_changes k). Proof. intros s a' s' H. inversion H; apply le_n. Qed.
Lemma nf_set_changes k : nf (set_changes k). Proof. intros s H. discriminate. Qed.
Lemma ni_set_line k : ni (set_line k). Proof. intros s a' s' H. inversion H; apply le_n. Qed.
Lemma nf_set_line k : nf (set_line k). Proof. intros s H. discriminate. Qed.
Lemma ni_observe o : ni (observe o). Proof. intros s a' s' H. inversion H; apply le_n. Qed.
Lemma nf_observe o : nf (observe o). Proof. intros s H. discriminate. Qed.
Lemma ni_set_input_mode m : ni (set_input_mode m). Proof. intros s a' s' H. inversion H; apply le_n. Qed.
Lemma nf_set_input_mode m : nf (set_input_mode m). Proof. intros s H. discriminate. Qed.
Lemma ni_set_num_args z : ni (set_num_args z). Proof. intros s a' s' H. inversion H; apply le_n. Qed.
Lemma nf_set_num_args z : nf (set_num_args z). Proof. intros s H. discriminate. Qed.
Lemma ni_set_last_cmd c : ni (set_last_cmd c). Proof. intros s a' s' H. inversion H; apply le_n. Qed.
Lemma nf_set_last_cmd c : nf (set_last_cmd c). Proof. intros s H. discriminate. Qed.
Lemma ni_set_last_cs c : ni (set_last_cs c). Proof. intros s a' s' H. inversion H; apply le_n. Qed.
Lemma nf_set_last_cs c : nf (set_last_cs c). Proof. intros s H. discriminate. Qed.
Lemma nf_set_inp i : nf (set_inp i). Proof. intros s H. discriminate. Qed.

Ltac ni_auto :=
  repeat (first [ apply ni_ret | apply ni_get | apply ni_fail | apply ni_panic | apply ni_fuel
                | apply ni_write | apply ni_set_layout | apply ni_set_hint | apply ni_set_kr | apply ni_set_hidx | apply ni_set_saved | apply ni_set_changes | apply ni_set_line | apply ni_observe | apply ni_set_input_mode | apply ni_set_num_args | apply ni_set_last_cmd | apply ni_set_last_cs
                | match goal with |- ni (ebind _ _) => apply ni_bind; [|intros] end ] ||
          match goal with
          | |- ni (if ?c then _ else _) => destruct c
          | |- ni (match ?x with _ => _ end) => destruct x
          | |- ni (let '(_, _) := ?x in _) => destruct x
          | |- ni (let _ := _ in _) => cbv zeta
          end).
Ltac nf_auto :=
  repeat (first [ apply nf_ret | apply nf_get | apply nf_fail | apply nf_panic | apply nf_set_inp
                | apply nf_write | apply nf_set_layout | apply nf_set_hint | apply nf_set_kr | apply nf_set_hidx | apply nf_set_saved | apply nf_set_changes | apply nf_set_line | apply nf_observe | apply nf_set_input_mode | apply nf_set_num_args | apply nf_set_last_cmd | apply nf_set_last_cs
                | match goal with |- nf (ebind _ _) => apply nf_bind; [|intros] end ] ||
          match goal with
          | |- nf (if ?c then _ else _) => destruct c
          | |- nf (match ?x with _ => _ end) => destruct x
          | |- nf (let '(_, _) := ?x in _) => destruct x
          | |- nf (let _ := _ in _) => cbv zeta
          end).

Section Progress.
  Variable U : UData.
  Variable cfg : config.

  (* ---------- the reader: each character read shortens the input ---------- *)

  Lemma fold_len_shift (rest : list (list inchar)) : forall k,
    fold_left (fun a ch => a + length ch) rest k = k + fold_left (fun a ch => a + length ch) rest 0.
  Proof.
    induction rest as [|ch rest IH]; intros k; cbn [fold_left]; [lia|].
    rewrite (IH (k + length ch)), (IH (0 + length ch)). lia.
  Qed.
  Lemma take_in_chunk_size ch : forall c t, take_in_chunk ch = Some (c, t) -> S (length t) <= length ch.
  Proof.
    induction ch as [|x ch IH]; intros c t H; cbn [take_in_chunk] in H; [discriminate|].
    destruct x; try (inversion H; subst; cbn [length]; lia).
    destruct (take_in_chunk ch) as [[c0 t']|] eqn:E; [|discriminate].
    inversion H; subst. pose proof (IH _ _ eq_refl). cbn [length]. lia.
  Qed.
  Lemma take_first_size rest : forall pending c i, take_first pending rest = Some (c, i) ->
    S (stream_size i) <= length pending + fold_left (fun a ch => a + length ch) rest 0.
  Proof.
    induction rest as [|ch rest IH]; intros pending c i H; cbn [take_first] in H; [discriminate|].
    cbn [fold_left]. rewrite (fold_len_shift rest (0 + length ch)).
    destruct (take_in_chunk ch) as [[c0 t]|] eqn:E.
    - inversion H; subst. apply take_in_chunk_size in E. unfold stream_size. cbn [in_cur in_rest]. rewrite app_length. lia.
    - apply IH in H. rewrite app_length in H. lia.
  Qed.
  Lemma take_char_size cur rest c i : take_char cur rest = Some (c, i) -> S (stream_size i) <= stream_size (mkIn cur rest).
  Proof.
    unfold take_char. destruct (take_in_chunk cur) as [[c0 t]|] eqn:E.
    - intros H. inversion H; subst. apply take_in_chunk_size in E. unfold stream_size. cbn [in_cur in_rest]. lia.
    - intros H. apply take_first_size in H. unfold stream_size in *. cbn [in_cur in_rest] in *. lia.
  Qed.

  Lemma dec_next_char : dec next_char.
  Proof.
    intros s a s' H. unfold next_char in H.
    destruct (take_char (in_cur (e_inp s)) (in_rest (e_inp s))) as [[[c| |pm] i]|] eqn:E; try discriminate.
    cbn in H. inversion H; subst. unfold sz. cbn [e_inp]. apply take_char_size in E.
    destruct (e_inp s) as [cur rest]. cbn [in_cur in_rest] in E. lia.
  Qed.
  Lemma nf_next_char : nf next_char.
  Proof.
    intros s H. unfold next_char in H.
    destruct (take_char (in_cur (e_inp s)) (in_rest (e_inp s))) as [[[c| |pm] i]|]; cbn in H; discriminate.
  Qed.
  Lemma ni_next_char : ni next_char. Proof. apply ni_of_dec, dec_next_char. Qed.

  Lemma ni_poll t : ni (poll t). Proof. unfold poll. ni_auto. Qed.
  Lemma nf_poll t : nf (poll t). Proof. unfold poll. nf_auto. Qed.
  Lemma ni_escape_o : ni escape_o. Proof. unfold escape_o. ni_auto; apply ni_next_char. Qed.
  Lemma nf_escape_o : nf escape_o. Proof. unfold escape_o. nf_auto; apply nf_next_char. Qed.
  Lemma ni_extended_escape c : ni (extended_escape c). Proof. unfold extended_escape. ni_auto; try apply ni_next_char. Qed.
  Lemma nf_extended_escape c : nf (extended_escape c). Proof. unfold extended_escape. nf_auto; try apply nf_next_char. Qed.
  Lemma ni_escape_csi : ni escape_csi.
  Proof. unfold escape_csi. ni_auto; try apply ni_next_char; try apply ni_extended_escape. Qed.
  Lemma nf_escape_csi : nf escape_csi.
  Proof. unfold escape_csi. nf_auto; try apply nf_next_char; try apply nf_extended_escape. Qed.
  Lemma ni_do_escape_sequence r : ni (do_escape_sequence U cfg r).
  Proof.
    unfold do_escape_sequence. ni_auto; try apply ni_next_char; try apply ni_escape_csi; try apply ni_escape_o; try apply ni_poll.
  Qed.
  Lemma nf_do_escape_sequence r : nf (do_escape_sequence U cfg r).
  Proof.
    unfold do_escape_sequence. nf_auto; try apply nf_next_char; try apply nf_escape_csi; try apply nf_escape_o; try apply nf_poll.
  Qed.
  (* a key costs at least one character *)
  Lemma dec_next_key sea : dec (next_key U cfg sea).
  Proof.
    unfold next_key. apply dec_bind_l; [apply dec_next_char|]. intros c.
    ni_auto; try apply ni_poll; try apply ni_do_escape_sequence.
  Qed.
  Lemma ni_next_key sea : ni (next_key U cfg sea). Proof. apply ni_of_dec, dec_next_key. Qed.
  Lemma nf_next_key sea : nf (next_key U cfg sea).
  Proof. unfold next_key. nf_auto; try apply nf_next_char; try apply nf_poll; try apply nf_do_escape_sequence. Qed.

  Lemma ni_read_pasted fuel : forall acc, ni (read_pasted U cfg fuel acc).
  Proof.
    induction fuel as [|f IH]; intros acc; cbn [read_pasted]; [apply ni_fuel|].
    ni_auto; try apply ni_next_char; try apply ni_do_escape_sequence; apply IH.
  Qed.
  Lemma nfb_read_pasted fuel : forall acc, nfb fuel (read_pasted U cfg fuel acc).
  Proof.
    induction fuel as [|f IH]; intros acc; cbn [read_pasted]; [intros s Hs; lia|].
    apply nfb_step; [apply nfb_of_nf, nf_next_char|apply dec_next_char|]. intros c.
    destruct (c =? 27)%N; [|apply IH].
    apply nfb_bind; [apply nfb_of_nf, nf_do_escape_sequence|apply ni_do_escape_sequence|]. intros k.
    destruct (key_eqb k (KPasteEnd, M_NONE)); [apply nfb_of_nf, nf_ret|apply IH].
  Qed.

  (* ---------- everything that is not reading: leaves the input alone and uses no fuel ---------- *)

  Ltac disp :=
    unfold refresh_line, refresh_line_with_msg, refresh_prompt_and_line, refresh, update_hint, move_cursor,
      move_cursor_to_end, lb_changes, lb_quiet, lb_kill, changes_begin, changes_end, beep, backup, restore,
      completer_update, moved, doing_insert, done_inserting, show_candidate.

  Lemma ni_lb_changes {A} (m : M A) : ni (lb_changes U m). Proof. unfold lb_changes. ni_auto. Qed.
  Lemma nf_lb_changes {A} (m : M A) : nf (lb_changes U m). Proof. unfold lb_changes. nf_auto. Qed.
  Lemma ni_lb_quiet {A} (m : M A) : ni (lb_quiet m). Proof. unfold lb_quiet. ni_auto. Qed.
  Lemma nf_lb_quiet {A} (m : M A) : nf (lb_quiet m). Proof. unfold lb_quiet. nf_auto. Qed.
  Lemma ni_refresh_line : ni (refresh_line U cfg). Proof. disp. ni_auto. Qed.
  Lemma nf_refresh_line : nf (refresh_line U cfg). Proof. disp. nf_auto. Qed.
  Lemma ni_refresh_pl p : ni (refresh_prompt_and_line U cfg p). Proof. disp. ni_auto. Qed.
  Lemma nf_refresh_pl p : nf (refresh_prompt_and_line U cfg p). Proof. disp. nf_auto. Qed.
  Lemma ni_move_cursor : ni (move_cursor U cfg). Proof. disp. ni_auto. Qed.
  Lemma nf_move_cursor : nf (move_cursor U cfg). Proof. disp. nf_auto. Qed.

  Ltac unfold_exec :=
    unfold execute, complete_hint_line, edit_insert, edit_yank, edit_yank_pop, edit_kill, edit_insert_text,
      edit_replace_char, edit_overwrite_char, grouped, moved, edit_move_line_up, edit_move_line_down,
      edit_history_next, edit_history, edit_history_search, validate, restore, backup, beep,
      refresh_line, refresh_line_with_msg, refresh_prompt_and_line, refresh, update_hint, move_cursor,
      move_cursor_to_end, lb_changes, lb_quiet, lb_kill, changes_begin, changes_end.
  Lemma ni_execute c : ni (execute U cfg c). Proof. unfold_exec. destruct c; ni_auto. Qed.
  Lemma nf_execute c : nf (execute U cfg c). Proof. unfold_exec. destruct c; nf_auto. Qed.

  Lemma ni_cmd_redo c n : ni (cmd_redo c n). Proof. unfold cmd_redo, last_insert. ni_auto. Qed.
  Lemma nf_cmd_redo c n : nf (cmd_redo c n). Proof. unfold cmd_redo, last_insert. nf_auto. Qed.
  Lemma ni_term_binding k : ni (term_binding cfg k). Proof. unfold term_binding. ni_auto. Qed.
  Lemma nf_term_binding k : nf (term_binding cfg k). Proof. unfold term_binding. nf_auto. Qed.
  Lemma ni_custom_binding k n p : ni (custom_binding cfg k n p). Proof. unfold custom_binding. ni_auto. Qed.
  Lemma nf_custom_binding k n p : nf (custom_binding cfg k n p). Proof. unfold custom_binding. nf_auto. Qed.

  (* ---------- loops inside the keymap ---------- *)

  Lemma ni_custom_seq_binding fuel : forall ks, ni (custom_seq_binding U cfg fuel ks).
  Proof.
    induction fuel as [|f IH]; intros ks; cbn [custom_seq_binding]; [apply ni_ret|].
    ni_auto; try apply ni_next_key; apply IH.
  Qed.
  Lemma nf_custom_seq_binding fuel : forall ks, nf (custom_seq_binding U cfg fuel ks).
  Proof.
    induction fuel as [|f IH]; intros ks; cbn [custom_seq_binding]; [apply nf_ret|].
    nf_auto; try apply nf_next_key; apply IH.
  Qed.

  Lemma ni_emacs_digit_loop fuel : forall m, ni (emacs_digit_loop U cfg fuel m).
  Proof.
    induction fuel as [|f IH]; intros m; cbn [emacs_digit_loop]; [apply ni_fuel|].
    ni_auto; try apply ni_next_key; try apply ni_refresh_line; try apply ni_refresh_pl; apply IH.
  Qed.
  (* each round of the digit loop reads a key: with more fuel than input it cannot run dry *)
  Lemma nfb_emacs_digit_loop fuel : forall m, nfb fuel (emacs_digit_loop U cfg fuel m).
  Proof.
    induction fuel as [|f IH]; intros m; cbn [emacs_digit_loop]; [intros s Hs; lia|].
    apply nfb_bind; [apply nfb_of_nf, nf_get|apply ni_get|]. intros s0.
    apply nfb_bind; [apply nfb_of_nf, nf_refresh_pl|apply ni_refresh_pl|]. intros _.
    apply nfb_step; [apply nfb_of_nf, nf_next_key|apply dec_next_key|]. intros k.
    destruct k as [[c| | | | | | | | | | | | | | | | | | | |] md];
      try (apply nfb_of_nf; nf_auto; apply nf_refresh_line).
    destruct (is_digit c && is_plain_or_alt md).
    - apply nfb_bind; [apply nfb_of_nf, nf_get|apply ni_get|]. intros s1.
      destruct m; [apply nfb_bind; [apply nfb_of_nf, nf_set_num_args|apply ni_set_num_args|]; intros; apply IH|].
      destruct (Z.abs (i_num_args s1) <? 1000)%Z; [|apply IH].
      apply nfb_bind; [apply nfb_of_nf, nf_set_num_args|apply ni_set_num_args|]; intros; apply IH.
    - destruct ((c =? 45)%N && is_plain_or_alt md); [apply IH|].
      apply nfb_of_nf. nf_auto. apply nf_refresh_line.
  Qed.

  Lemma ni_vi_arg_digit_loop fuel : ni (vi_arg_digit_loop U cfg fuel).
  Proof.
    induction fuel as [|f IH]; cbn [vi_arg_digit_loop]; [apply ni_fuel|].
    ni_auto; try apply ni_next_key; try apply ni_refresh_line; try apply ni_refresh_pl; apply IH.
  Qed.
  Lemma nfb_vi_arg_digit_loop fuel : nfb fuel (vi_arg_digit_loop U cfg fuel).
  Proof.
    induction fuel as [|f IH]; cbn [vi_arg_digit_loop]; [intros s Hs; lia|].
    apply nfb_bind; [apply nfb_of_nf, nf_get|apply ni_get|]. intros s0.
    apply nfb_bind; [apply nfb_of_nf, nf_refresh_pl|apply ni_refresh_pl|]. intros _.
    apply nfb_step; [apply nfb_of_nf, nf_next_key|apply dec_next_key|]. intros k.
    destruct k as [[c| | | | | | | | | | | | | | | | | | | |] md];
      try (apply nfb_of_nf; nf_auto; apply nf_refresh_line).
    destruct (is_digit c && mods_eqb md M_NONE).
    - apply nfb_bind; [apply nfb_of_nf, nf_get|apply ni_get|]. intros s1.
      destruct (Z.abs (i_num_args s1) <? 1000)%Z; [|apply IH].
      apply nfb_bind; [apply nfb_of_nf, nf_set_num_args|apply ni_set_num_args|]; intros; apply IH.
    - apply nfb_of_nf. nf_auto. apply nf_refresh_line.
  Qed.

  Lemma nf_paste {B} (k : str -> E B) :
    (forall t, nf (k t)) ->
    nf (edo s1 <- eget; edo text <- read_pasted U cfg (S (stream_size (e_inp s1))) []; k text).
  Proof.
    intros Hk s. unfold ebind at 1. cbn [eget]. unfold ebind.
    destruct (read_pasted U cfg (S (stream_size (e_inp s))) [] s) eqn:E; try discriminate.
    - apply Hk.
    - intros _. apply (nfb_read_pasted (S (stream_size (e_inp s))) [] s); [unfold sz; lia|exact E].
  Qed.

  Ltac ni_known :=
    first [ apply ni_next_key | apply ni_next_char | apply ni_refresh_line | apply ni_refresh_pl
          | apply ni_emacs_digit_loop | apply ni_vi_arg_digit_loop | apply ni_custom_binding | apply ni_cmd_redo
          | apply ni_term_binding | apply ni_custom_seq_binding | apply ni_read_pasted | apply ni_lb_changes
          | apply ni_lb_quiet | apply ni_move_cursor | apply ni_execute | apply ni_poll ].
  Ltac ni_all :=
    repeat (first [ ni_known | apply ni_ret | apply ni_get | apply ni_fail | apply ni_panic | apply ni_fuel
                  | apply ni_write | apply ni_set_layout | apply ni_set_hint | apply ni_set_kr | apply ni_set_hidx
                  | apply ni_set_saved | apply ni_set_changes | apply ni_set_line | apply ni_observe
                  | apply ni_set_input_mode | apply ni_set_num_args | apply ni_set_last_cmd | apply ni_set_last_cs
                  | match goal with |- ni (ebind _ _) => apply ni_bind; [|intros] end ] ||
            match goal with
            | |- ni (if ?c then _ else _) => destruct c
            | |- ni (match ?x with _ => _ end) => destruct x
            | |- ni (let '(_, _) := ?x in _) => destruct x
            | |- ni (let _ := _ in _) => cbv zeta
            end).
  Ltac nf_known :=
    first [ apply nf_next_key | apply nf_next_char | apply nf_refresh_line | apply nf_refresh_pl
          | apply nf_custom_binding | apply nf_cmd_redo | apply nf_term_binding | apply nf_custom_seq_binding
          | apply nf_lb_changes | apply nf_lb_quiet | apply nf_move_cursor | apply nf_execute | apply nf_poll
          | (apply nf_paste; intros) ].
  Ltac nf_all :=
    repeat (first [ nf_known | apply nf_ret | apply nf_get | apply nf_fail | apply nf_panic | apply nf_set_inp
                  | apply nf_write | apply nf_set_layout | apply nf_set_hint | apply nf_set_kr | apply nf_set_hidx
                  | apply nf_set_saved | apply nf_set_changes | apply nf_set_line | apply nf_observe
                  | apply nf_set_input_mode | apply nf_set_num_args | apply nf_set_last_cmd | apply nf_set_last_cs
                  | match goal with |- nf (ebind _ _) => apply nf_bind; [|intros] end ] ||
            match goal with
            | |- nf (if ?c then _ else _) => destruct c
            | |- nf (match ?x with _ => _ end) => destruct x
            | |- nf (let '(_, _) := ?x in _) => destruct x
            | |- nf (let _ := _ in _) => cbv zeta
            end).

  Lemma ni_common fuel k n p : ni (common U cfg fuel k n p). Proof. unfold common. ni_all. Qed.
  Lemma nf_common fuel k n p : nf (common U cfg fuel k n p). Proof. unfold common. nf_all. Qed.

  (* fuelled pieces: decompose binds and branches; atomic leaves are fuel-free (nf) or have their own lemma *)
  Ltac nf_leaf :=
    first [ nf_known | apply nf_ret | apply nf_get | apply nf_fail | apply nf_panic | apply nf_set_inp
          | apply nf_write | apply nf_set_layout | apply nf_set_hint | apply nf_set_kr | apply nf_set_hidx
          | apply nf_set_saved | apply nf_set_changes | apply nf_set_line | apply nf_observe
          | apply nf_set_input_mode | apply nf_set_num_args | apply nf_set_last_cmd | apply nf_set_last_cs ].
  Ltac nfb_all known :=
    repeat (first [ known
                  | match goal with |- nfb _ (ebind _ _) => apply nfb_bind; [|ni_all; fail|intros] end
                  | (apply nfb_of_nf; nf_leaf) ] ||
            match goal with
            | |- nfb _ (if ?c then _ else _) => destruct c
            | |- nfb _ (match ?x with _ => _ end) => destruct x
            | |- nfb _ (let '(_, _) := ?x in _) => destruct x
            | |- nfb _ (let _ := _ in _) => cbv zeta
            end).

  Lemma ni_emacs fuel k : ni (emacs U cfg fuel k).
  Proof.
    unfold emacs, emacs_digit_argument, emacs_num_args, take_num_args, has_hint_at_end. ni_all; apply ni_common.
  Qed.
  Lemma nfb_emacs fuel k : nfb fuel (emacs U cfg fuel k).
  Proof.
    unfold emacs. apply nfb_bind.
    - unfold emacs_digit_argument. nfb_all ltac:(apply nfb_emacs_digit_loop).
    - unfold emacs_digit_argument. ni_all.
    - intros k1. apply nfb_of_nf. unfold emacs_num_args, take_num_args, has_hint_at_end. nf_all; apply nf_common.
  Qed.

  Lemma ni_vi_char_search c : ni (vi_char_search U cfg c). Proof. unfold vi_char_search. ni_all. Qed.
  Lemma nf_vi_char_search c : nf (vi_char_search U cfg c). Proof. unfold vi_char_search. nf_all. Qed.
  Lemma ni_vi_cmd_motion fuel k n : ni (vi_cmd_motion U cfg fuel k n).
  Proof. unfold vi_cmd_motion, vi_arg_digit, vi_num_args, take_num_args. ni_all; apply ni_vi_char_search. Qed.
  (* the motion key has been read when the count loop starts: one unit of fuel to spare *)
  Lemma nfb_vi_cmd_motion fuel k n : nfb (S fuel) (vi_cmd_motion U cfg fuel k n).
  Proof.
    unfold vi_cmd_motion. apply nfb_step; [apply nfb_of_nf, nf_next_key|apply dec_next_key|]. intros mvt0.
    destruct (key_eqb mvt0 k); [apply nfb_of_nf, nf_ret|].
    apply nfb_bind.
    - unfold vi_arg_digit, vi_num_args, take_num_args.
      nfb_all ltac:(apply nfb_vi_arg_digit_loop).
    - unfold vi_arg_digit, vi_num_args, take_num_args. ni_all.
    - intros mn. apply nfb_of_nf. nf_all; apply nf_vi_char_search.
  Qed.

  Ltac ni_known ::=
    first [ apply ni_next_key | apply ni_next_char | apply ni_refresh_line | apply ni_refresh_pl
          | apply ni_emacs_digit_loop | apply ni_vi_arg_digit_loop | apply ni_custom_binding | apply ni_cmd_redo
          | apply ni_term_binding | apply ni_custom_seq_binding | apply ni_read_pasted | apply ni_lb_changes
          | apply ni_lb_quiet | apply ni_move_cursor | apply ni_execute | apply ni_poll
          | apply ni_common | apply ni_vi_char_search | apply ni_vi_cmd_motion | apply ni_emacs ].
  Ltac nf_known ::=
    first [ apply nf_next_key | apply nf_next_char | apply nf_refresh_line | apply nf_refresh_pl
          | apply nf_custom_binding | apply nf_cmd_redo | apply nf_term_binding | apply nf_custom_seq_binding
          | apply nf_lb_changes | apply nf_lb_quiet | apply nf_move_cursor | apply nf_execute | apply nf_poll
          | (apply nf_paste; intros) | apply nf_common | apply nf_vi_char_search ].

  Lemma ni_vi_command fuel k : ni (vi_command U cfg fuel k).
  Proof.
    unfold vi_command, vi_arg_digit, vi_num_args, take_num_args, doing_insert, changes_begin.
    ni_all; try apply ni_vi_char_search; try apply ni_vi_cmd_motion; try apply ni_common.
  Qed.
  Lemma nfb_vi_command fuel k : nfb fuel (vi_command U cfg fuel k).
  Proof.
    unfold vi_command. apply nfb_bind.
    - unfold vi_arg_digit. nfb_all ltac:(apply nfb_vi_arg_digit_loop).
    - unfold vi_arg_digit. ni_all.
    - intros k1. unfold vi_num_args, take_num_args, doing_insert, changes_begin.
      nfb_all ltac:(first [ (apply (nfb_mono (S fuel)); [apply nfb_vi_cmd_motion|lia])
                          | (apply nfb_of_nf, nf_common) | (apply nfb_of_nf, nf_vi_char_search) ]).
  Qed.
  Ltac ni_known ::=
    first [ apply ni_next_key | apply ni_next_char | apply ni_refresh_line | apply ni_refresh_pl
          | apply ni_emacs_digit_loop | apply ni_vi_arg_digit_loop | apply ni_custom_binding | apply ni_cmd_redo
          | apply ni_term_binding | apply ni_custom_seq_binding | apply ni_read_pasted | apply ni_lb_changes
          | apply ni_lb_quiet | apply ni_move_cursor | apply ni_execute | apply ni_poll
          | apply ni_common | apply ni_vi_char_search | apply ni_vi_cmd_motion | apply ni_emacs | apply ni_vi_command ].

  Lemma ni_vi_insert fuel k : ni (vi_insert U cfg fuel k).
  Proof.
    unfold vi_insert, has_hint_at_end, done_inserting, changes_end. ni_all; try apply ni_common; try apply ni_vi_command.
  Qed.
  Lemma nfb_vi_insert fuel k : nfb fuel (vi_insert U cfg fuel k).
  Proof.
    unfold vi_insert, has_hint_at_end, done_inserting, changes_end.
    nfb_all ltac:(first [ apply nfb_vi_command | (apply nfb_of_nf, nf_common) ]).
  Qed.

  Ltac ni_known ::=
    first [ apply ni_next_key | apply ni_next_char | apply ni_refresh_line | apply ni_refresh_pl
          | apply ni_emacs_digit_loop | apply ni_vi_arg_digit_loop | apply ni_custom_binding | apply ni_cmd_redo
          | apply ni_term_binding | apply ni_custom_seq_binding | apply ni_read_pasted | apply ni_lb_changes
          | apply ni_lb_quiet | apply ni_move_cursor | apply ni_execute | apply ni_poll
          | apply ni_common | apply ni_vi_char_search | apply ni_vi_cmd_motion | apply ni_emacs | apply ni_vi_command
          | apply ni_vi_insert ].

  (* reading one command costs at least one character; with at most [fuel] characters left it cannot run dry *)
  Lemma dec_next_cmd fuel sea : dec (next_cmd U cfg fuel sea).
  Proof.
    unfold next_cmd. apply dec_bind_l; [apply dec_next_key|]. intros k. unfold changes_begin.
    ni_all; try apply ni_emacs; try apply ni_vi_command; try apply ni_vi_insert.
  Qed.
  Lemma ni_next_cmd fuel sea : ni (next_cmd U cfg fuel sea). Proof. apply ni_of_dec, dec_next_cmd. Qed.
  Lemma nfb_next_cmd fuel sea : nfb (S fuel) (next_cmd U cfg fuel sea).
  Proof.
    unfold next_cmd. apply nfb_step; [apply nfb_of_nf, nf_next_key|apply dec_next_key|]. intros k. unfold changes_begin.
    nfb_all ltac:(first [ apply nfb_emacs | apply nfb_vi_command | apply nfb_vi_insert ]).
  Qed.

  (* ---------- the sub-loops ---------- *)

  Lemma ni_circular_branch rec cands backup mark i c :
    (forall j, ni (rec j)) -> ni (circular_branch U cfg rec cands backup mark i c).
  Proof. intros Hr. unfold circular_branch. disp. destruct c; ni_all; apply Hr. Qed.
  Lemma nfb_circular_branch n rec cands backup mark i c :
    (forall j, nfb n (rec j)) -> nfb n (circular_branch U cfg rec cands backup mark i c).
  Proof. intros Hr. unfold circular_branch. disp. destruct c; nfb_all ltac:(apply Hr). Qed.

  Lemma ni_complete_circular fuel : forall start cands backup mark i,
    ni (complete_circular U cfg fuel start cands backup mark i).
  Proof.
    induction fuel as [|f IH]; intros start cands backup mark i; cbn [complete_circular]; [apply ni_fuel|].
    apply ni_bind; [unfold show_candidate; disp; ni_all|]. intros _. apply ni_bind; [apply ni_refresh_line|]. intros _.
    apply ni_bind; [apply ni_next_cmd|]. intros c. apply ni_circular_branch. intros j. apply IH.
  Qed.
  Lemma nfb_complete_circular fuel : forall start cands backup mark i,
    nfb fuel (complete_circular U cfg fuel start cands backup mark i).
  Proof.
    induction fuel as [|f IH]; intros start cands backup mark i; cbn [complete_circular]; [intros s Hs; lia|].
    apply nfb_bind; [apply nfb_of_nf; unfold show_candidate; disp; nf_all|unfold show_candidate; disp; ni_all|]. intros _.
    apply nfb_bind; [apply nfb_of_nf, nf_refresh_line|apply ni_refresh_line|]. intros _.
    apply nfb_step; [apply nfb_next_cmd|apply dec_next_cmd|]. intros c.
    apply nfb_circular_branch. intros j. apply IH.
  Qed.

  Lemma ni_wait_yn fuel : forall c, ni (wait_yn U cfg fuel c).
  Proof.
    induction fuel as [|f IH]; intros c; cbn [wait_yn]; [apply ni_fuel|].
    ni_all; try apply ni_next_cmd; apply IH.
  Qed.
  Lemma nfb_wait_yn fuel : forall c, nfb fuel (wait_yn U cfg fuel c).
  Proof.
    induction fuel as [|f IH]; intros c; cbn [wait_yn]; [intros s Hs; lia|].
    assert (Hgo : nfb (S f) (edo c' <- next_cmd U cfg f false; wait_yn U cfg f c')).
    { apply nfb_step; [apply nfb_next_cmd|apply dec_next_cmd|]. intros c'. apply IH. }
    destruct c; try exact Hgo; try (apply nfb_of_nf, nf_ret).
    - destruct m; try exact Hgo. destruct n as [|[|n]]; try exact Hgo. apply nfb_of_nf, nf_ret.
    - destruct n as [|[|n]]; try exact Hgo.
      repeat (match goal with |- nfb _ (match ?x with _ => _ end) => destruct x end); try exact Hgo; apply nfb_of_nf, nf_ret.
  Qed.

  Lemma ni_rows (row_text : nat -> str) : forall k row,
    ni ((fix rows (k : nat) (row : nat) : E unit :=
           match k with 0 => eret tt | S k' => write [10%N] ;;; write (row_text row) ;;; rows k' (S row) end) k row).
  Proof. induction k as [|k IH]; intros row; [apply ni_ret|]. ni_all. apply IH. Qed.
  Lemma nf_rows (row_text : nat -> str) : forall k row,
    nf ((fix rows (k : nat) (row : nat) : E unit :=
           match k with 0 => eret tt | S k' => write [10%N] ;;; write (row_text row) ;;; rows k' (S row) end) k row).
  Proof. induction k as [|k IH]; intros row; [apply nf_ret|]. nf_all. apply IH. Qed.
  Lemma ni_page cands : ni (page_completions_simple U cfg cands).
  Proof.
    unfold page_completions_simple. cbv zeta.
    destruct (Nat.eqb _ 0); [apply ni_panic|]. destruct (Nat.eqb _ 0); [apply ni_panic|].
    apply ni_bind; [apply ni_rows|]. intros _. ni_all.
  Qed.
  Lemma nf_page cands : nf (page_completions_simple U cfg cands).
  Proof.
    unfold page_completions_simple. cbv zeta.
    destruct (Nat.eqb _ 0); [apply nf_panic|]. destruct (Nat.eqb _ 0); [apply nf_panic|].
    apply nf_bind; [apply nf_rows|]. intros _. nf_all.
  Qed.

  Lemma ni_complete_line fuel : ni (complete_line U cfg fuel).
  Proof.
    unfold complete_line, list_span_step. disp.
    ni_all; try apply ni_complete_circular; try apply ni_next_cmd; try apply ni_wait_yn; try apply ni_page.
  Qed.
  Ltac ni_known ::=
    first [ apply ni_next_key | apply ni_next_char | apply ni_refresh_line | apply ni_refresh_pl
          | apply ni_emacs_digit_loop | apply ni_vi_arg_digit_loop | apply ni_custom_binding | apply ni_cmd_redo
          | apply ni_term_binding | apply ni_custom_seq_binding | apply ni_read_pasted | apply ni_lb_changes
          | apply ni_lb_quiet | apply ni_move_cursor | apply ni_execute | apply ni_poll
          | apply ni_common | apply ni_vi_char_search | apply ni_vi_cmd_motion | apply ni_emacs | apply ni_vi_command
          | apply ni_vi_insert | apply ni_next_cmd | apply ni_complete_circular | apply ni_wait_yn | apply ni_page ].
  Ltac nf_known ::=
    first [ apply nf_next_key | apply nf_next_char | apply nf_refresh_line | apply nf_refresh_pl
          | apply nf_custom_binding | apply nf_cmd_redo | apply nf_term_binding | apply nf_custom_seq_binding
          | apply nf_lb_changes | apply nf_lb_quiet | apply nf_move_cursor | apply nf_execute | apply nf_poll
          | (apply nf_paste; intros) | apply nf_common | apply nf_vi_char_search | apply nf_page ].

  Lemma nfb_complete_line fuel : nfb fuel (complete_line U cfg fuel).
  Proof.
    unfold complete_line, list_span_step. disp.
    nfb_all ltac:(first [ (apply (nfb_mono (S fuel)); [apply nfb_next_cmd|lia])
                        | apply nfb_complete_circular | apply nfb_wait_yn | (apply nfb_of_nf, nf_page) ]).
  Qed.

  Lemma ni_isearch_branch rec backup mark term idx d success c :
    (forall t i d' su, ni (rec t i d' su)) -> ni (isearch_branch U cfg rec backup mark term idx d success c).
  Proof.
    intros Hr. unfold isearch_branch. disp. apply ni_bind; [apply ni_get|]. intros s. cbv zeta.
    destruct c; ni_all; apply Hr.
  Qed.
  Lemma nfb_isearch_branch n rec backup mark term idx d success c :
    (forall t i d' su, nfb n (rec t i d' su)) -> nfb n (isearch_branch U cfg rec backup mark term idx d success c).
  Proof.
    intros Hr. unfold isearch_branch. disp. apply nfb_bind; [apply nfb_of_nf, nf_get|apply ni_get|]. intros s. cbv zeta.
    destruct c; nfb_all ltac:(apply Hr).
  Qed.
  Lemma ni_isearch_loop fuel : forall backup mark term idx d success,
    ni (isearch_loop U cfg fuel backup mark term idx d success).
  Proof.
    induction fuel as [|f IH]; intros backup mark term idx d success; cbn [isearch_loop]; [apply ni_fuel|].
    apply ni_bind; [apply ni_refresh_pl|]. intros _. apply ni_bind; [apply ni_next_cmd|]. intros c.
    apply ni_isearch_branch. intros t i d' su. apply IH.
  Qed.
  Lemma nfb_isearch_loop fuel : forall backup mark term idx d success,
    nfb fuel (isearch_loop U cfg fuel backup mark term idx d success).
  Proof.
    induction fuel as [|f IH]; intros backup mark term idx d success; cbn [isearch_loop]; [intros s Hs; lia|].
    apply nfb_bind; [apply nfb_of_nf, nf_refresh_pl|apply ni_refresh_pl|]. intros _.
    apply nfb_step; [apply nfb_next_cmd|apply dec_next_cmd|]. intros c.
    apply nfb_isearch_branch. intros t i d' su. apply IH.
  Qed.
  Lemma ni_incremental_search fuel : ni (incremental_search U cfg fuel).
  Proof. unfold incremental_search, changes_begin. ni_all. apply ni_isearch_loop. Qed.
  Lemma nfb_incremental_search fuel : nfb fuel (incremental_search U cfg fuel).
  Proof. unfold incremental_search, changes_begin. nfb_all ltac:(apply nfb_isearch_loop). Qed.

  (* ---------- the main loop ---------- *)

  Lemma peek_first_size rest : forall m i, peek_first rest = Some (m, i) ->
    S (stream_size i) <= fold_left (fun a ch => a + length ch) rest 0.
  Proof.
    induction rest as [|ch rest IH]; intros m i H; cbn [peek_first] in H; [discriminate|].
    cbn [fold_left]. rewrite (fold_len_shift rest (0 + length ch)).
    destruct ch as [|x t]; [apply IH in H; cbn [length]; lia|].
    destruct x; try discriminate. inversion H; subst. unfold stream_size. cbn [in_cur in_rest length]. lia.
  Qed.
  Lemma peek_print_size inp m i : peek_print inp = Some (m, i) -> stream_size i < stream_size inp.
  Proof.
    unfold peek_print. destruct inp as [cur rest]. cbn [in_cur in_rest]. destruct cur as [|x t].
    - intros H. apply peek_first_size in H. unfold stream_size in *. cbn [in_cur in_rest length] in *. lia.
    - destruct x; try discriminate. intros H. inversion H; subst. unfold stream_size. cbn [in_cur in_rest length]. lia.
  Qed.
  Lemma ni_external_print m : ni (external_print U cfg m). Proof. unfold external_print. disp. ni_all. Qed.
  Lemma nf_external_print m : nf (external_print U cfg m). Proof. unfold external_print. disp. nf_all. Qed.
  Lemma ni_drain_prints fuel : ni (drain_prints U cfg fuel).
  Proof.
    induction fuel as [|f IH]; cbn [drain_prints]; [apply ni_ret|].
    intros s a s' H. apply ebind_inv in H. destruct H as [s0 [s0' [H0 H]]]. inversion H0; subst s0 s0'.
    destruct (peek_print (e_inp s)) as [[m i]|] eqn:E; [|inversion H; apply le_n].
    apply ebind_inv in H. destruct H as [u [s1 [H1 H]]]. inversion H1; subst.
    apply ebind_inv in H. destruct H as [u2 [s2 [H2 H]]].
    pose proof (ni_external_print m _ _ _ H2) as L2. pose proof (IH _ _ _ H) as L3.
    apply peek_print_size in E. unfold sz in *. cbn [e_inp] in *. lia.
  Qed.
  Lemma nf_drain_prints fuel : nf (drain_prints U cfg fuel).
  Proof.
    induction fuel as [|f IH]; cbn [drain_prints]; [apply nf_ret|].
    apply nf_bind; [apply nf_get|]. intros s. destruct (peek_print (e_inp s)) as [[m i]|]; [|apply nf_ret].
    apply nf_bind; [apply nf_set_inp|]. intros _. apply nf_bind; [apply nf_external_print|]. intros _. exact IH.
  Qed.

  Theorem main_loop_never_dry fuel : nfb fuel (main_loop U cfg fuel).
  Proof.
    induction fuel as [|f IH]; cbn [main_loop]; [intros s Hs; lia|].
    apply nfb_bind; [apply nfb_of_nf, nf_get|apply ni_get|]. intros s00.
    apply nfb_bind; [apply nfb_of_nf, nf_drain_prints|apply ni_drain_prints|]. intros _.
    apply nfb_step; [apply nfb_next_cmd|apply dec_next_cmd|]. intros c0.
    apply nfb_bind; [apply nfb_of_nf; nf_all|ni_all|]. intros _.
    apply nfb_bind; [destruct c0; try (apply nfb_of_nf, nf_ret); destruct (c_has_helper cfg);
                     [apply nfb_complete_line|apply nfb_of_nf, nf_ret]
                    |destruct c0; try apply ni_ret; destruct (c_has_helper cfg); [apply ni_complete_line|apply ni_ret]|].
    intros oc. destruct oc as [c1|]; [|apply IH].
    apply nfb_bind; [destruct c1; try (apply nfb_of_nf, nf_ret); apply nfb_incremental_search
                    |destruct c1; try apply ni_ret; apply ni_incremental_search|].
    intros oc2. destruct oc2 as [c2|]; [|apply IH].
    assert (Hex : nfb f (edo st <- execute U cfg c2; match st with Proceed => main_loop U cfg f | Submit => eret tt end)).
    { apply nfb_bind; [apply nfb_of_nf, nf_execute|apply ni_execute|]. intros st.
      destruct st; [apply IH|apply nfb_of_nf, nf_ret]. }
    destruct c2; try exact Hex.
    2:{ apply nfb_bind; [apply nfb_of_nf, nf_refresh_line|apply ni_refresh_line|]. intros _. apply IH. }
    apply nfb_bind; [apply nfb_of_nf, nf_next_char|apply ni_next_char|]. intros ch.
    apply nfb_bind; [apply nfb_of_nf; unfold edit_insert; disp; nf_all|unfold edit_insert; disp; ni_all|]. intros _. apply IH.
  Qed.

  (* C17: whatever arrives on the terminal, a read of the model never ends in OutOfFuel *)
  Theorem read_never_out_of_fuel prompt initial history kr inp :
    fst (read_line U cfg prompt initial history kr inp) <> OOutOfFuel.
  Proof.
    unfold read_line. cbv zeta.
    match goal with |- fst (match ?p ?s0 with _ => _ end) <> _ => destruct (p s0) as [a s|e s| |] eqn:E end;
      try (destruct e); try discriminate.
    exfalso. revert E.
    match goal with |- ?p ?s0 = EFuel -> False => change (p s0 <> EFuel) end.
    assert (Hsz : sz (initial_state U cfg prompt history (kr_reset kr) inp) = stream_size inp) by reflexivity.
    set (s0 := initial_state U cfg prompt history (kr_reset kr) inp) in *.
    set (fuel := S (S (stream_size inp)) * 4).
    assert (Hall : nfb fuel ((match initial with
                              | Some (l, r) => lb_changes U (update (l ++ r) (blen l))
                              | None => eret tt
                              end) ;;; (refresh_line U cfg ;;; (main_loop U cfg fuel ;;; moved U cfg move_buffer_end)))).
    { apply nfb_bind; [apply nfb_of_nf; destruct initial as [[l r]|]; nf_all|destruct initial as [[l r]|]; ni_all|]. intros _.
      apply nfb_bind; [apply nfb_of_nf, nf_refresh_line|apply ni_refresh_line|]. intros _.
      apply nfb_bind_nf; [apply main_loop_never_dry|intros; unfold moved; nf_all]. }
    apply Hall. unfold fuel. rewrite Hsz. lia.
  Qed.
End Progress.

