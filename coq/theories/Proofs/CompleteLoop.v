(* C14, the whole circular-completion loop. The line is l ++ w ++ r with the cursor after w when Tab is pressed; the completer
   reported the start of w and the candidates. For EVERY sequence of keys read inside the loop (Tab, Shift-Tab, anything
   else, any number of rounds):
   - if the loop ends by an abort, the line and the cursor are exactly the original ones;
   - if it ends by another key, the line is l ++ x ++ r with the cursor after x, where x is one of the candidates or w
     itself: l and r are never touched;
   - the stored history is untouched either way. *)
From RL Require Import UData LineBuffer LineBufferTotal Undo KillRing Render Keys History
     Editor EditorRun EditorProofs RecallProofs SearchProofs SearchReport CompleteProofs.

Section CompleteLoop.
  Variable U : UData.
  Variable cfg : config.
  Variables l w r : str.
  Variable cands : list str.
  Variable mark : nat.

  Let start := blen l.
  Let backup : str * nat := (l ++ w ++ r, blen l + blen w).

  (* the span between the reported start and the cursor holds x; everything else is the original text *)
  Definition span_holds (s : est) (x : str) : Prop :=
    buf (e_line s) = l ++ x ++ r /\ pos (e_line s) = blen l + blen x /\ grow (e_line s) = true.

  Definition offered (x : str) : Prop := x = w \/ In x cands.

  Lemma backup_ok : snd backup <= blen (fst backup).
  Proof. unfold backup. cbn [fst snd]. rewrite !blen_app. lia. Qed.

  (* what a round shows *)
  Lemma round_shows i s x :
    span_holds s x ->
    forall s1, show_candidate U start cands backup i s = EOk tt s1 ->
    exists y, span_holds s1 y /\ offered y /\ e_hist s1 = e_hist s
              /\ (length cands <= i -> y = w).
  Proof.
    intros [Hb [Hp Hg]] s1 E. destruct (Nat.lt_ge_cases i (length cands)) as [Hi|Hi].
    - destruct (nth_error cands i) as [c|] eqn:En; [|apply nth_error_None in En; lia].
      destruct (shows_candidate U s start cands backup i c l x r Hi En Hb eq_refl Hp) as [s' [E' [B [P [H G]]]]].
      rewrite E in E'. inversion E'; subst s'. exists c. split; [split; [exact B|split; [exact P|rewrite G; exact Hg]]|].
      split; [right; eapply nth_error_In; exact En|]. split; [exact H|intros; lia].
    - destruct (shows_original U s start cands backup i Hi Hg backup_ok) as [s' [E' [B [P H]]]].
      rewrite E in E'. inversion E'; subst s'. exists w. split.
      + split; [exact B|]. split; [exact P|].
        (* grow: update keeps it *)
        revert E. unfold show_candidate.
        replace (Nat.ltb i (length cands)) with false by (symmetry; apply Nat.ltb_ge; exact Hi).
        destruct (update_spec (e_line s) (fst backup) (snd backup) Hg backup_ok) as [ev Hu].
        unfold lb_changes, ebind, eget. rewrite Hu. cbn. intros E. inversion E. cbn. exact Hg.
      + split; [left; reflexivity|]. split; [exact H|intros; reflexivity].
  Qed.

  Lemma span_of_line s s' x : e_line s' = e_line s -> span_holds s x -> span_holds s' x.
  Proof. intros E [A [B C]]. unfold span_holds. rewrite E. repeat split; assumption. Qed.

  (* the result of the whole loop *)
  Theorem circular_result fuel : forall i s x res s',
    span_holds s x ->
    complete_circular U cfg fuel start cands backup mark i s = EOk res s' ->
    e_hist s' = e_hist s
    /\ (res = None -> buf (e_line s') = l ++ w ++ r /\ pos (e_line s') = blen l + blen w)
    /\ (forall c, res = Some c -> exists y, offered y /\ buf (e_line s') = l ++ y ++ r /\ pos (e_line s') = blen l + blen y).
  Proof.
    induction fuel as [|f IH]; intros i s x res s' Hs E; [discriminate E|].
    cbn [complete_circular] in E.
    apply ebind_inv in E. destruct E as [u1 [s1 [E1 E]]]. destruct u1.
    destruct (round_shows i s x Hs s1 E1) as [y [Hy [Hoff [Hh1 Hlast]]]].
    apply ebind_inv in E. destruct E as [u2 [s2 [E2 E]]].
    destruct (kl_refresh_line U cfg _ _ _ E2) as [L2 H2].
    apply ebind_inv in E. destruct E as [c [s3 [E3 E]]].
    destruct (kl_next_cmd U cfg _ _ _ _ _ E3) as [L3 H3].
    assert (Hy3 : span_holds s3 y) by (apply (span_of_line s1); [rewrite L3, L2; reflexivity|exact Hy]).
    assert (Hh3 : e_hist s3 = e_hist s) by (rewrite H3, H2, Hh1; reflexivity).
    set (rec := fun i' => complete_circular U cfg f start cands backup mark i') in *.
    destruct c; try (
      (* any other key: the shown text stays *)
      match type of E with circular_branch _ _ _ _ _ _ _ ?cc _ = _ =>
        destruct (other_key_accepts U cfg rec s3 cands backup mark i cc eq_refl) as [s4 [E4 [L4 [H4 _]]]] end;
      rewrite E in E4; inversion E4; subst res s4;
      split; [rewrite H4; exact Hh3|]; split; [discriminate|];
      intros c0 _; exists y; destruct Hy3 as [B [P _]]; rewrite L4; repeat split; assumption).
    - (* abort *)
      destruct (Nat.lt_ge_cases i (length cands)) as [Hi|Hi].
      + destruct Hy3 as [_ [_ G3]].
        destruct (abort_restores_original U cfg rec s3 cands backup mark i Hi G3 backup_ok) as [s4 [E4 [B [P [H4 _]]]]].
        rewrite E in E4. inversion E4; subst res s4. split; [rewrite H4; exact Hh3|].
        split; [intros _; split; [exact B|exact P]|discriminate].
      + destruct (abort_on_original U cfg rec s3 cands backup mark i Hi) as [s4 [E4 [L4 [H4 _]]]].
        rewrite E in E4. inversion E4; subst res s4. split; [rewrite H4; exact Hh3|].
        split; [|discriminate]. intros _. rewrite L4. destruct Hy3 as [B [P _]]. rewrite (Hlast Hi) in B, P. split; assumption.
    - (* Tab *)
      destruct (tab_advances U cfg rec s3 cands backup mark i) as [s4 [E4 [L4 [_ H4]]]].
      rewrite E4 in E. destruct (IH _ s4 y res s' (span_of_line s3 s4 y L4 Hy3) E) as [Hh [Hn Hsome]].
      split; [rewrite Hh, H4; exact Hh3|]. split; assumption.
    - (* Shift-Tab *)
      destruct (backtab_goes_back U cfg rec s3 cands backup mark i) as [s4 [E4 [L4 [_ H4]]]].
      rewrite E4 in E. destruct (IH _ s4 y res s' (span_of_line s3 s4 y L4 Hy3) E) as [Hh [Hn Hsome]].
      split; [rewrite Hh, H4; exact Hh3|]. split; assumption.
  Qed.
End CompleteLoop.
