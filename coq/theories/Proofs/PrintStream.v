(* C19, editor side over whole reads: what happens to the messages lying in the input stream.
   A calculus like keeps_hist (RecallProofs): every building block of the read either leaves the pending messages alone
   (all raw reads: key sequences, searches, completions) or takes them off the front to show them (the main loop's wait). *)
From RL Require Import UData LineBuffer LineBufferTotal Undo KillRing Render Keys Editor EditorRun EditorProofs.

(* the messages lying in the input stream, in order *)
Definition msgs_of (l : list inchar) : list str :=
  flat_map (fun c => match c with Print m => [m] | _ => [] end) l.
Definition msgs (i : istream) : list str := msgs_of (in_cur i) ++ flat_map msgs_of (in_rest i).

(* [m] takes some messages off the FRONT of those pending -- the ones it shows -- and leaves the others as they are *)
Definition shows_msgs {A} (m : E A) : Prop :=
  forall s a s', m s = EOk a s' -> exists shown, msgs (e_inp s) = shown ++ msgs (e_inp s').
Lemma sm_bind {A B} (m : E A) (f : A -> E B) : shows_msgs m -> (forall a, shows_msgs (f a)) -> shows_msgs (ebind m f).
Proof.
  intros Hm Hf s b s2 H. apply ebind_inv in H. destruct H as [a [s1 [H1 H2]]].
  destruct (Hm _ _ _ H1) as [sh1 E1]. destruct (Hf _ _ _ _ H2) as [sh2 E2].
  exists (sh1 ++ sh2). rewrite E1, E2, app_assoc. reflexivity.
Qed.
Ltac sm_leaf := intros s a' s' H; first [discriminate | (inversion H; subst; exists []; reflexivity)].
Lemma sm_ret {A} (a : A) : shows_msgs (eret a). Proof. sm_leaf. Qed.
Lemma sm_get : shows_msgs eget. Proof. sm_leaf. Qed.
Lemma sm_fail {A} e : shows_msgs (@efail A e). Proof. sm_leaf. Qed.
Lemma sm_panic {A} : shows_msgs (@epanic A). Proof. sm_leaf. Qed.
Lemma sm_fuel {A} : shows_msgs (@efuel A). Proof. sm_leaf. Qed.
Lemma sm_write b : shows_msgs (write b). Proof. sm_leaf. Qed.
Lemma sm_set_layout l : shows_msgs (set_layout l). Proof. sm_leaf. Qed.
Lemma sm_set_hint h : shows_msgs (set_hint h). Proof. sm_leaf. Qed.
Lemma sm_set_kr k : shows_msgs (set_kr k). Proof. sm_leaf. Qed.
Lemma sm_set_hidx k : shows_msgs (set_hidx k). Proof. sm_leaf. Qed.
Lemma sm_set_saved k : shows_msgs (set_saved k). Proof. sm_leaf. Qed.
Lemma sm_set_changes k : shows_msgs (set_changes k). Proof. sm_leaf. Qed.
Lemma sm_set_line k : shows_msgs (set_line k). Proof. sm_leaf. Qed.
Lemma sm_observe o : shows_msgs (observe o). Proof. sm_leaf. Qed.
Lemma sm_set_input_mode m : shows_msgs (set_input_mode m). Proof. sm_leaf. Qed.
Lemma sm_set_num_args z : shows_msgs (set_num_args z). Proof. sm_leaf. Qed.
Lemma sm_set_last_cmd c : shows_msgs (set_last_cmd c). Proof. sm_leaf. Qed.
Lemma sm_set_last_cs c : shows_msgs (set_last_cs c). Proof. sm_leaf. Qed.

Ltac sm_auto :=
  repeat (first [ apply sm_ret | apply sm_get | apply sm_fail | apply sm_panic | apply sm_fuel | apply sm_write
                | apply sm_set_layout | apply sm_set_hint | apply sm_set_kr | apply sm_set_hidx | apply sm_set_saved
                | apply sm_set_changes | apply sm_set_line
                | apply sm_observe | apply sm_set_input_mode | apply sm_set_num_args | apply sm_set_last_cmd
                | apply sm_set_last_cs
                | match goal with |- shows_msgs (ebind _ _) => apply sm_bind; [|intros] end ] ||
          match goal with
          | |- shows_msgs (if ?c then _ else _) => destruct c
          | |- shows_msgs (match ?x with _ => _ end) => destruct x
          | |- shows_msgs (let '(_, _) := ?x in _) => destruct x
          | |- shows_msgs (let _ := _ in _) => cbv zeta
          end).

Section Messages.
  Variable U : UData.
  Variable cfg : config.

  (* every command: the whole of execute is built from the state accessors above, none of which
     writes the history field *)
  Theorem execute_shows_msgs c : shows_msgs (execute U cfg c).
  Proof.
    unfold execute, complete_hint_line, edit_insert, edit_yank, edit_yank_pop, edit_kill, edit_insert_text,
      edit_replace_char, edit_overwrite_char, grouped, moved, edit_move_line_up, edit_move_line_down,
      edit_history_next, edit_history, edit_history_search, validate, restore, backup, beep,
      refresh_line, refresh_line_with_msg, refresh_prompt_and_line, refresh, update_hint, move_cursor,
      move_cursor_to_end, lb_changes, lb_quiet, lb_kill, changes_begin, changes_end.
    destruct c; sm_auto.
  Qed.

  (* ---------- ... nor does anything else a read can do: the reader, the keymaps, the sub-loops ---------- *)

  (* a raw read takes a character and leaves every message where it was, in order *)
  Lemma take_in_chunk_msgs ch : forall c t, take_in_chunk ch = Some (c, t) -> msgs_of t = msgs_of ch.
  Proof.
    induction ch as [|x ch IH]; intros c t H; cbn [take_in_chunk] in H; [discriminate|].
    destruct x as [k| |m]; try (inversion H; subst; reflexivity).
    destruct (take_in_chunk ch) as [[c0 t']|] eqn:E; [|discriminate].
    inversion H; subst. cbn [msgs_of flat_map app]. f_equal. exact (IH _ _ eq_refl).
  Qed.
  Lemma msgs_of_app a b : msgs_of (a ++ b) = msgs_of a ++ msgs_of b.
  Proof. unfold msgs_of. apply flat_map_app. Qed.
  Lemma take_first_msgs rest : forall pending c i, take_first pending rest = Some (c, i) ->
    msgs i = msgs_of pending ++ flat_map msgs_of rest.
  Proof.
    induction rest as [|ch rest IH]; intros pending c i H; cbn [take_first] in H; [discriminate|].
    destruct (take_in_chunk ch) as [[c0 t]|] eqn:E.
    - inversion H; subst. unfold msgs. cbn [in_cur in_rest flat_map]. rewrite msgs_of_app, (take_in_chunk_msgs _ _ _ E), app_assoc. reflexivity.
    - rewrite (IH _ _ _ H). cbn [flat_map]. rewrite msgs_of_app, app_assoc. reflexivity.
  Qed.
  Lemma take_char_msgs cur rest c i : take_char cur rest = Some (c, i) -> msgs i = msgs (mkIn cur rest).
  Proof.
    unfold take_char. destruct (take_in_chunk cur) as [[c0 t]|] eqn:E.
    - intros H. inversion H; subst. unfold msgs. cbn [in_cur in_rest]. rewrite (take_in_chunk_msgs _ _ _ E). reflexivity.
    - intros H. rewrite (take_first_msgs _ _ _ _ H). reflexivity.
  Qed.
  Theorem next_char_keeps_msgs s c s' : next_char s = EOk c s' -> msgs (e_inp s') = msgs (e_inp s).
  Proof.
    intros H. unfold next_char in H.
    destruct (take_char (in_cur (e_inp s)) (in_rest (e_inp s))) as [[[k| |pm] i]|] eqn:E; try discriminate;
      cbn in H; inversion H; subst. cbn [e_inp].
    rewrite (take_char_msgs _ _ _ _ E). destruct (e_inp s); reflexivity.
  Qed.
  Lemma sm_next_char : shows_msgs next_char.
  Proof.
    intros s a s' H. unfold next_char in H.
    destruct (take_char (in_cur (e_inp s)) (in_rest (e_inp s))) as [[[c| |pm] i]|] eqn:E; try discriminate;
      cbn in H; inversion H; subst. exists []. cbn [e_inp app].
    rewrite (take_char_msgs _ _ _ _ E). destruct (e_inp s); reflexivity.
  Qed.
  Lemma sm_poll t : shows_msgs (poll t). Proof. unfold poll. sm_auto. Qed.
  Lemma sm_escape_o : shows_msgs escape_o. Proof. unfold escape_o. sm_auto; apply sm_next_char. Qed.
  Lemma sm_extended_escape c : shows_msgs (extended_escape c).
  Proof. unfold extended_escape. sm_auto; try apply sm_next_char. Qed.
  Lemma sm_escape_csi : shows_msgs escape_csi.
  Proof. unfold escape_csi. sm_auto; try apply sm_next_char; try apply sm_extended_escape. Qed.
  Lemma sm_do_escape_sequence r : shows_msgs (do_escape_sequence U cfg r).
  Proof.
    unfold do_escape_sequence. sm_auto; try apply sm_next_char; try apply sm_escape_csi; try apply sm_escape_o;
      try apply sm_poll.
  Qed.
  Lemma sm_next_key sea : shows_msgs (next_key U cfg sea).
  Proof. unfold next_key. sm_auto; try apply sm_next_char; try apply sm_poll; try apply sm_do_escape_sequence. Qed.
  Lemma sm_read_pasted fuel : forall acc, shows_msgs (read_pasted U cfg fuel acc).
  Proof.
    induction fuel as [|f IH]; intros acc; cbn [read_pasted]; [apply sm_fuel|].
    sm_auto; try apply sm_next_char; try apply sm_do_escape_sequence; apply IH.
  Qed.

  Ltac sm_display :=
    unfold refresh_line, refresh_line_with_msg, refresh_prompt_and_line, refresh, update_hint, move_cursor,
      move_cursor_to_end, lb_changes, lb_quiet, lb_kill, changes_begin, changes_end, beep, backup, restore,
      completer_update, moved, doing_insert, done_inserting.

  Lemma sm_lb_changes {A} (m : M A) : shows_msgs (lb_changes U m). Proof. unfold lb_changes. sm_auto. Qed.
  Lemma sm_lb_quiet {A} (m : M A) : shows_msgs (lb_quiet m). Proof. unfold lb_quiet. sm_auto. Qed.
  Lemma sm_lb_kill {A} (m : M A) : shows_msgs (lb_kill U m). Proof. unfold lb_kill. sm_auto. Qed.

  Lemma sm_move_cursor : shows_msgs (move_cursor U cfg). Proof. unfold move_cursor. sm_auto. Qed.
  Lemma sm_refresh_line : shows_msgs (refresh_line U cfg). Proof. sm_display. sm_auto. Qed.
  Lemma sm_refresh_prompt_and_line p : shows_msgs (refresh_prompt_and_line U cfg p). Proof. sm_display. sm_auto. Qed.

  Lemma sm_custom_seq_binding fuel : forall ks, shows_msgs (custom_seq_binding U cfg fuel ks).
  Proof.
    induction fuel as [|f IH]; intros ks; cbn [custom_seq_binding]; [apply sm_ret|].
    sm_auto; try apply sm_next_key; apply IH.
  Qed.
  Lemma sm_emacs_digit_loop fuel : forall m, shows_msgs (emacs_digit_loop U cfg fuel m).
  Proof.
    induction fuel as [|f IH]; intros m; cbn [emacs_digit_loop]; [apply sm_fuel|].
    sm_auto; try apply sm_next_key; try apply sm_refresh_line; try apply sm_refresh_prompt_and_line; apply IH.
  Qed.
  Lemma sm_vi_arg_digit_loop fuel : shows_msgs (vi_arg_digit_loop U cfg fuel).
  Proof.
    induction fuel as [|f IH]; cbn [vi_arg_digit_loop]; [apply sm_fuel|].
    sm_auto; try apply sm_next_key; try apply sm_refresh_line; try apply sm_refresh_prompt_and_line; apply IH.
  Qed.
  Lemma sm_common fuel k n p : shows_msgs (common U cfg fuel k n p).
  Proof. unfold common. sm_auto; try apply sm_read_pasted; try apply sm_custom_seq_binding. Qed.
  Lemma sm_cmd_redo c n : shows_msgs (cmd_redo c n).
  Proof. unfold cmd_redo, last_insert. sm_auto. Qed.
  Lemma sm_term_binding k : shows_msgs (term_binding cfg k). Proof. unfold term_binding. sm_auto. Qed.
  Lemma sm_custom_binding k n p : shows_msgs (custom_binding cfg k n p). Proof. unfold custom_binding. sm_auto. Qed.

  Ltac sm_keymap :=
    try apply sm_emacs_digit_loop; try apply sm_vi_arg_digit_loop; try apply sm_custom_binding; try apply sm_cmd_redo;
    try apply sm_term_binding; try apply sm_common; try apply sm_custom_seq_binding; try apply sm_next_key.

  Lemma sm_emacs fuel k : shows_msgs (emacs U cfg fuel k).
  Proof.
    unfold emacs, emacs_digit_argument, emacs_num_args, take_num_args, has_hint_at_end. sm_auto; sm_keymap.
  Qed.
  Lemma sm_vi_char_search c : shows_msgs (vi_char_search U cfg c).
  Proof. unfold vi_char_search. sm_auto; sm_keymap. Qed.
  Lemma sm_vi_cmd_motion fuel k n : shows_msgs (vi_cmd_motion U cfg fuel k n).
  Proof.
    unfold vi_cmd_motion, vi_arg_digit, vi_num_args, take_num_args. sm_auto; sm_keymap; try apply sm_vi_char_search.
  Qed.
  Lemma sm_vi_command fuel k : shows_msgs (vi_command U cfg fuel k).
  Proof.
    unfold vi_command, vi_arg_digit, vi_num_args, take_num_args, doing_insert, changes_begin.
    sm_auto; sm_keymap; try apply sm_vi_char_search; try apply sm_vi_cmd_motion.
  Qed.
  Lemma sm_vi_insert fuel k : shows_msgs (vi_insert U cfg fuel k).
  Proof.
    unfold vi_insert, has_hint_at_end, done_inserting, changes_end. sm_auto; sm_keymap; try apply sm_vi_command.
  Qed.
  Lemma sm_next_cmd fuel sea : shows_msgs (next_cmd U cfg fuel sea).
  Proof.
    unfold next_cmd, changes_begin. sm_auto; sm_keymap; try apply sm_emacs; try apply sm_vi_command; try apply sm_vi_insert.
  Qed.

  Lemma sm_circular_branch rec cands backup mark i c :
    (forall j, shows_msgs (rec j)) -> shows_msgs (circular_branch U cfg rec cands backup mark i c).
  Proof.
    intros Hr. unfold circular_branch. sm_display.
    destruct c; sm_auto; try apply Hr; try apply sm_lb_changes; try apply sm_refresh_line.
  Qed.
  Lemma sm_complete_circular fuel : forall start cands backup mark i,
    shows_msgs (complete_circular U cfg fuel start cands backup mark i).
  Proof.
    induction fuel as [|f IH]; intros start cands backup mark i; cbn [complete_circular]; [apply sm_fuel|].
    apply sm_bind; [unfold show_candidate; sm_display; sm_auto; apply sm_lb_changes|]. intros _.
    apply sm_bind; [apply sm_refresh_line|]. intros _.
    apply sm_bind; [apply sm_next_cmd|]. intros c.
    apply sm_circular_branch. intros j. apply IH.
  Qed.
  Lemma sm_wait_yn fuel : forall c, shows_msgs (wait_yn U cfg fuel c).
  Proof.
    induction fuel as [|f IH]; intros c; cbn [wait_yn]; [apply sm_fuel|].
    sm_auto; try apply sm_next_cmd; try apply IH.
  Qed.
  Lemma sm_rows (row_text : nat -> str) : forall k row,
    shows_msgs ((fix rows (k : nat) (row : nat) : E unit :=
                   match k with 0 => eret tt | S k' => write [10%N] ;;; write (row_text row) ;;; rows k' (S row) end) k row).
  Proof. induction k as [|k IH]; intros row; [apply sm_ret|]. sm_auto. apply IH. Qed.
  Lemma sm_page cands : shows_msgs (page_completions_simple U cfg cands).
  Proof.
    unfold page_completions_simple. cbv zeta.
    destruct (Nat.eqb _ 0); [apply sm_panic|]. destruct (Nat.eqb _ 0); [apply sm_panic|].
    apply sm_bind; [apply sm_rows|]. intros _. sm_display. sm_auto.
  Qed.
  Lemma sm_complete_line fuel : shows_msgs (complete_line U cfg fuel).
  Proof.
    unfold complete_line, list_span_step. sm_display.
    sm_auto; try apply sm_complete_circular; try apply sm_next_cmd; try apply sm_wait_yn; try apply sm_page;
      try apply sm_lb_changes; try apply sm_lb_quiet; try apply sm_move_cursor; try apply sm_refresh_line.
  Qed.
  Lemma sm_isearch_branch rec backup mark term idx d success c :
    (forall t i d' su, shows_msgs (rec t i d' su)) ->
    shows_msgs (isearch_branch U cfg rec backup mark term idx d success c).
  Proof.
    intros Hr. unfold isearch_branch. sm_display.
    apply sm_bind; [apply sm_get|]. intros s. cbv zeta.
    destruct c; sm_auto; try apply Hr; try apply sm_lb_changes; try apply sm_refresh_line.
  Qed.
  Lemma sm_isearch_loop fuel : forall backup mark term idx d success,
    shows_msgs (isearch_loop U cfg fuel backup mark term idx d success).
  Proof.
    induction fuel as [|f IH]; intros backup mark term idx d success; cbn [isearch_loop]; [apply sm_fuel|].
    apply sm_bind; [apply sm_refresh_prompt_and_line|]. intros _.
    apply sm_bind; [apply sm_next_cmd|]. intros c.
    apply sm_isearch_branch. intros t i d' su. apply IH.
  Qed.
  Lemma sm_incremental_search fuel : shows_msgs (incremental_search U cfg fuel).
  Proof. unfold incremental_search, changes_begin. sm_auto; apply sm_isearch_loop. Qed.

  Lemma sm_external_print m : shows_msgs (external_print U cfg m).
  Proof. unfold external_print. sm_display. sm_auto. Qed.
  (* the main loop's wait takes the message at the very front *)
  Lemma peek_first_msgs rest : forall m i, peek_first rest = Some (m, i) ->
    flat_map msgs_of rest = m :: msgs i.
  Proof.
    induction rest as [|ch rest IH]; intros m i H; cbn [peek_first] in H; [discriminate|].
    destruct ch as [|x t]; [cbn [flat_map msgs_of app]; apply IH; exact H|].
    destruct x as [k| |m0]; try discriminate. inversion H; subst. reflexivity.
  Qed.
  Lemma peek_print_msgs inp m i : peek_print inp = Some (m, i) -> msgs inp = m :: msgs i.
  Proof.
    unfold peek_print, msgs. destruct inp as [cur rest]. cbn [in_cur in_rest]. destruct cur as [|x t].
    - intros H. cbn [msgs_of flat_map app]. exact (peek_first_msgs _ _ _ H).
    - destruct x as [k| |m0]; try discriminate. intros H. inversion H; subst. reflexivity.
  Qed.
  Lemma sm_set_inp_after i m0 : forall s, msgs (e_inp s) = m0 :: msgs i ->
    forall a s', set_inp i s = EOk a s' -> msgs (e_inp s) = [m0] ++ msgs (e_inp s').
  Proof. intros s Hs a s' H. inversion H; subst. exact Hs. Qed.
  Lemma sm_drain_prints fuel : shows_msgs (drain_prints U cfg fuel).
  Proof.
    induction fuel as [|f IH]; cbn [drain_prints]; [apply sm_ret|].
    intros s a s' H. unfold ebind at 1 in H. cbn [eget] in H.
    destruct (peek_print (e_inp s)) as [[m i]|] eqn:E; [|inversion H; subst; exists []; reflexivity].
    pose proof (peek_print_msgs _ _ _ E) as Hm.
    apply ebind_inv in H. destruct H as [u [s1 [H1 H2]]].
    assert (Hs1 : msgs (e_inp s1) = msgs i) by (inversion H1; subst; reflexivity).
    assert (Hrest : shows_msgs (external_print U cfg m ;;; drain_prints U cfg f)).
    { apply sm_bind; [apply sm_external_print|]. intros _. exact IH. }
    destruct (Hrest _ _ _ H2) as [sh Hsh]. exists (m :: sh). rewrite Hm, <- Hs1, Hsh. reflexivity.
  Qed.

  (* C19: over a whole read, for EVERY input: the messages still pending at the end are a SUFFIX of those pending at the start
     (none lost, reordered or duplicated in the stream); the others were taken, one by one and in order, by the main
     loop's wait, which shows each (external_print) *)
  Theorem main_loop_shows_msgs fuel : shows_msgs (main_loop U cfg fuel).
  Proof.
    induction fuel as [|f IH]; cbn [main_loop]; [apply sm_fuel|].
    apply sm_bind; [apply sm_get|]. intros s00. apply sm_bind; [apply sm_drain_prints|]. intros _.
    apply sm_bind; [apply sm_next_cmd|]. intros c0.
    apply sm_bind; [sm_auto|]. intros _.
    apply sm_bind; [destruct c0; sm_auto; apply sm_complete_line|]. intros oc.
    destruct oc as [c1|]; [|apply IH].
    apply sm_bind; [destruct c1; sm_auto; apply sm_incremental_search|]. intros oc2.
    destruct oc2 as [c2|]; [|apply IH].
    assert (Hex : shows_msgs (edo st <- execute U cfg c2; match st with Proceed => main_loop U cfg f | Submit => eret tt end)).
    { apply sm_bind; [apply execute_shows_msgs|]. intros st. destruct st; [apply IH|apply sm_ret]. }
    destruct c2; try exact Hex.
    2:{ apply sm_bind; [apply sm_refresh_line|]. intros _. apply IH. }
    apply sm_bind; [apply sm_next_char|]. intros ch.
    apply sm_bind; [|intros; apply IH].
    unfold edit_insert. sm_display. sm_auto.
  Qed.
End Messages.
