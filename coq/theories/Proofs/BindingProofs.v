(* C01: the keymap maps every documented key to the documented command --
   a finite table, checked by computation for arbitrary surrounding state. *)
From RL Require Import UData LineBuffer Keys Editor EditorRun Bindings.

Section Table.
  Variables (U : UData) (cs : changeset) (kr : KillRing.killring) (hist : list str) (hidx : nat)
            (saved : str * nat) (lay : Render.layout) (prompt : str) (ps : Render.pos2)
            (lc : cmd) (lcs : option char_search) (inp : istream) (out : list (list N)) (obs : list observation)
            (txt : str) (c0 : N) (p cap : nat) (g : bool).

  (* any non-empty line (so that C-d is not end-of-file) *)
  Let b : lb := mkLb (c0 :: txt) p cap g.

  Theorem binding_table_emacs :
    map (fun row : key * cmd =>
           cmd_of (emacs U (cfg_plain Emacs) 4 (fst row)
                         (plain_state b cs kr hist hidx saved lay prompt ps IMInsert lc lcs inp out obs)))
        doc_emacs
    = map (fun row => Some (snd row)) doc_emacs.
  Proof. vm_compute. reflexivity. Qed.

  Theorem binding_table_vi_command :
    map (fun row : key * cmd =>
           cmd_of (vi_command U (cfg_plain Vi) 4 (fst row)
                              (plain_state b cs kr hist hidx saved lay prompt ps IMCommand lc lcs inp out obs)))
        doc_vi_command
    = map (fun row => Some (snd row)) doc_vi_command.
  Proof. vm_compute. reflexivity. Qed.

  Theorem binding_table_vi_insert :
    map (fun row : key * cmd =>
           cmd_of (vi_insert U (cfg_plain Vi) 4 (fst row)
                             (plain_state b cs kr hist hidx saved lay prompt ps IMInsert lc lcs inp out obs)))
        doc_vi_insert
    = map (fun row => Some (snd row)) doc_vi_insert.
  Proof. destruct lc; vm_compute; reflexivity. Qed.

  (* Esc in insert mode: back to command mode, the insert group is closed, cursor one left *)
  Theorem vi_insert_esc :
    let s := plain_state b cs kr hist hidx saved lay prompt ps IMInsert lc lcs inp out obs in
    exists s', vi_insert U (cfg_plain Vi) 4 (KEsc, M_NONE) s = EOk (CMove (MBackwardChar 1)) s'
               /\ i_input_mode s' = IMCommand.
  Proof.
    intros s. subst s. cbv -[cs_end]. destruct (cs_end cs) as [c' t'].
    eexists. split; reflexivity.
  Qed.
End Table.

Section Arguments.
  Variables (U : UData) (cs : changeset) (kr : KillRing.killring) (hist : list str) (hidx : nat)
            (saved : str * nat) (lay : Render.layout) (prompt : str) (ps : Render.pos2)
            (lc : cmd) (lcs : option char_search) (inp : istream) (out : list (list N)) (obs : list observation)
            (txt : str) (c0 : N) (p cap : nat) (g : bool).
  Let b : lb := mkLb (c0 :: txt) p cap g.

  (* a negative argument runs the opposite command *)
  Theorem neg_arg_flips :
    map (fun row : key * cmd =>
           cmd_of (emacs U (cfg_plain Emacs) 4 (fst row)
                         (with_arg (plain_state b cs kr hist hidx saved lay prompt ps IMInsert lc lcs inp out obs) (-3))))
        doc_emacs_neg3
    = map (fun row => Some (snd row)) doc_emacs_neg3.
  Proof. vm_compute. reflexivity. Qed.

  Theorem pos_arg_counts :
    map (fun row : key * cmd =>
           cmd_of (emacs U (cfg_plain Emacs) 4 (fst row)
                         (with_arg (plain_state b cs kr hist hidx saved lay prompt ps IMInsert lc lcs inp out obs) 7)))
        doc_emacs_pos7
    = map (fun row => Some (snd row)) doc_emacs_pos7.
  Proof. vm_compute. reflexivity. Qed.

  Theorem vi_arg_counts :
    map (fun row : key * cmd =>
           cmd_of (vi_command U (cfg_plain Vi) 4 (fst row)
                              (with_arg (plain_state b cs kr hist hidx saved lay prompt ps IMCommand lc lcs inp out obs) 5)))
        doc_vi_command_5
    = map (fun row => Some (snd row)) doc_vi_command_5.
  Proof. vm_compute. reflexivity. Qed.
End Arguments.

Section Decoder.
  Variables (U : UData) (cfg : config) (s : est) (rest : list (list inchar)) (sea : bool).

  (* every standard encoding decodes to its key and consumes exactly its characters, whatever
     follows in later chunks, whatever the timeout configuration *)
  Theorem decode_roundtrip :
    map (fun row : list N * key => decode_one (with_cc U) cfg sea s rest (fst row)) doc_encodings
    = map (fun row => Some (snd row, [], rest)) doc_encodings.
  Proof. vm_compute. reflexivity. Qed.
End Decoder.
