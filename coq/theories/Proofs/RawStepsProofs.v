(* C16 over the step-level model (Model/RawSteps.v): for every list of actions -- suspend episodes with arbitrary changes of
   the settings while stopped included --, every way out and EVERY pattern of failing writes, the settings after the read
   are those in force before it; and when the terminal takes what is written, bracketed paste is off afterwards. *)
From Coq Require Import List Bool Arith Lia.
From RL Require Import RawMode RawModeProofs RawSteps.
Import ListNotations.

Section RawStepsProofs.
  Variable settings : Type.
  Variable raw_of : settings -> settings.
  Notation term := (term settings).

  Lemma try_write_tio t w o : t_tio settings (fst (fst (try_write settings t w o))) = t_tio settings t.
  Proof. destruct o as [|[|] o]; reflexivity. Qed.

  Lemma disable_raw_tio orig po t o : t_tio settings (fst (fst (disable_raw settings orig po t o))) = orig.
  Proof. unfold disable_raw. destruct po; [rewrite try_write_tio|]; reflexivity. Qed.

  (* the settings: whatever happened in between, the last statement executed is the Guard's tcsetattr of the settings
     remembered by the FIRST enable_raw_mode *)
  Theorem read_steps_restores paste acts x t oracle :
    t_tio settings (fst (fst (read_steps settings raw_of paste acts x t oracle))) = t_tio settings t.
  Proof.
    unfold read_steps.
    assert (He : snd (fst (fst (enable_raw settings raw_of paste t oracle))) = t_tio settings t).
    { unfold enable_raw. destruct paste; [|reflexivity].
      destruct (try_write settings _ PasteOn oracle) as [[t2 ok] o2]. reflexivity. }
    destruct (enable_raw settings raw_of paste t oracle) as [[[t1 orig] po] o1]. cbn [fst snd] in He. subst orig.
    destruct (run_actions settings raw_of paste (t_tio settings t) po acts x t1 o1) as [[t2 res] o2].
    pose proof (disable_raw_tio (t_tio settings t) po t2 o2) as H.
    destruct (disable_raw settings (t_tio settings t) po t2 o2) as [[t3 ok] o3]. exact H.
  Qed.

  (* ---------- paste, when the terminal takes everything ---------- *)
  Definition all_ok (o : list bool) : Prop := Forall (fun b => b = true) o.

  Lemma try_write_ok t w o : all_ok o ->
    try_write settings t w o = (write settings t [w], true, tl o) /\ all_ok (tl o).
  Proof.
    intros H. destruct o as [|b o]; [split; [reflexivity|constructor]|].
    inversion H; subst. split; [reflexivity|assumption].
  Qed.

  Lemma switches_app a b : switches (a ++ b) = switches a ++ switches b.
  Proof. induction a as [|w a IH]; [reflexivity|]. destruct w; cbn [switches app]; rewrite ?IH; reflexivity. Qed.

  (* on / off alternate and end on off: (on off)^n; a suspend episode contributes off on *)
  Fixpoint pairs (n : nat) : list bool := match n with 0 => [] | S k => true :: false :: pairs k end.
  Fixpoint offon (n : nat) : list bool := match n with 0 => [] | S k => false :: true :: offon k end.
  Lemma on_offon_off n : true :: offon n ++ [false] = pairs (S n).
  Proof. induction n as [|n IH]; [reflexivity|]. cbn [offon app pairs] in *. rewrite IH. reflexivity. Qed.

  Definition suspends (acts : list (action settings)) : nat :=
    length (filter (fun a => match a with ASuspend _ _ => true | AWrite _ => false end) acts).

  (* the loop, paste on and every write taken: it runs to its end, each suspend episode writes off ... on *)
  Lemma run_actions_ok orig acts x : forall t o,
    all_ok o ->
    exists t' o', run_actions settings raw_of true orig true acts x t o = (t', OExit x, o') /\ all_ok o'
      /\ switches (t_out settings t') = switches (t_out settings t) ++ offon (suspends acts).
  Proof.
    induction acts as [|a acts IH]; intros t o Ho; cbn [run_actions].
    - exists t, o. split; [reflexivity|]. split; [exact Ho|]. cbn [suspends filter length offon]. rewrite app_nil_r. reflexivity.
    - destruct a as [|f].
      + destruct (try_write_ok t Other o Ho) as [E Ho1]. rewrite E.
        destruct (IH (write settings t [Other]) (tl o) Ho1) as [t' [o' [Er [Ho' Hs]]]].
        exists t', o'. split; [exact Er|]. split; [exact Ho'|].
        unfold write in Hs. cbn [t_out] in Hs. rewrite switches_app in Hs. cbn [switches] in Hs. rewrite app_nil_r in Hs.
        exact Hs.
      + unfold disable_raw. cbn [t_out].
        destruct (try_write_ok (mkTerm settings orig (t_out settings t)) PasteOff o Ho) as [E1 Ho1]. rewrite E1. cbn [negb].
        unfold enable_raw. cbn [t_tio t_out write].
        match goal with |- context [try_write settings ?tt PasteOn (tl o)] =>
          destruct (try_write_ok tt PasteOn (tl o) Ho1) as [E2 Ho2]; rewrite E2 end.
        match goal with |- context [try_write settings ?tt Other (tl (tl o))] =>
          destruct (try_write_ok tt Other (tl (tl o)) Ho2) as [E3 Ho3]; rewrite E3 end.
        match goal with |- context [run_actions settings raw_of true orig true acts x ?tt ?oo] =>
          destruct (IH tt oo Ho3) as [t' [o' [Er [Ho' Hs]]]] end.
        exists t', o'. split; [exact Er|]. split; [exact Ho'|].
        unfold write in Hs. cbn [t_out t_tio] in Hs. rewrite !switches_app in Hs. cbn [switches] in Hs.
        rewrite !app_nil_r in Hs. rewrite Hs. rewrite <- !app_assoc. reflexivity.
  Qed.

  (* the whole read with paste enabled and a terminal that takes everything: what the terminal saw of paste switching is
     on off, once for the read and once more per suspend episode -- in particular paste is off at the end *)
  Theorem read_steps_paste acts x t oracle :
    all_ok oracle ->
    let '(t', res, _) := read_steps settings raw_of true acts x t oracle in
    res = OExit x
    /\ switches (t_out settings t') = switches (t_out settings t) ++ pairs (S (suspends acts)).
  Proof.
    intros Ho. unfold read_steps, enable_raw.
    destruct (try_write_ok (mkTerm settings (raw_of (t_tio settings t)) (t_out settings t)) PasteOn oracle Ho) as [E1 Ho1].
    rewrite E1.
    destruct (run_actions_ok (t_tio settings t) acts x
                (write settings (mkTerm settings (raw_of (t_tio settings t)) (t_out settings t)) [PasteOn]) (tl oracle) Ho1)
      as [t2 [o2 [Er [Ho2 Hs]]]]. rewrite Er.
    unfold disable_raw.
    destruct (try_write_ok (mkTerm settings (t_tio settings t) (t_out settings t2)) PasteOff o2 Ho2) as [E3 _]. rewrite E3.
    split; [reflexivity|]. unfold write. cbn [t_out]. rewrite switches_app. cbn [switches].
    unfold write in Hs. cbn [t_out] in Hs. rewrite switches_app in Hs. cbn [switches] in Hs.
    rewrite Hs, <- !app_assoc. f_equal. cbn [app]. apply on_offon_off.
  Qed.

  (* with paste disabled nothing is switched, whatever the writes do *)
  Lemma run_actions_nopaste orig acts x : forall t o,
    switches (t_out settings (fst (fst (run_actions settings raw_of false orig false acts x t o)))) = switches (t_out settings t).
  Proof.
    induction acts as [|a acts IH]; intros t o; cbn [run_actions]; [reflexivity|]. destruct a as [|f].
    - destruct o as [|[|] o]; cbn [try_write]; [rewrite IH| rewrite IH|reflexivity];
        unfold write; cbn [t_out]; rewrite switches_app; cbn [switches]; apply app_nil_r.
    - unfold disable_raw, enable_raw. cbn [negb].
      destruct o as [|[|] o]; cbn [try_write]; try (rewrite IH); unfold write; cbn [t_out fst];
        rewrite ?switches_app; cbn [switches]; rewrite ?app_nil_r; reflexivity.
  Qed.

  Theorem read_steps_nopaste acts x t oracle :
    switches (t_out settings (fst (fst (read_steps settings raw_of false acts x t oracle)))) = switches (t_out settings t).
  Proof.
    unfold read_steps, enable_raw.
    pose proof (run_actions_nopaste (t_tio settings t) acts x (mkTerm settings (raw_of (t_tio settings t)) (t_out settings t)) oracle) as H.
    destruct (run_actions settings raw_of false (t_tio settings t) false acts x _ oracle) as [[t2 res] o2].
    unfold disable_raw. cbn [fst t_out] in *. exact H.
  Qed.
End RawStepsProofs.
