(* C02 (partial chain): rustyline's position arithmetic agrees with the terminal for text made of
   width-1 characters (no line break, tab or escape), each its own cluster. *)
From Coq Require Import List Bool Arith NArith Lia.
From RL Require Import UData Render Vt.
Import ListNotations.

Section Agree.
  Variable U : UData.
  Variable seg : str -> list str.
  Variable W : nat.
  Variable tab_stop : nat.
  Hypothesis HW : 1 <= W.

  (* the class of texts of this partial chain *)
  Definition plain_char (c : N) : Prop := u_width U c = 1 /\ c <> 10%N /\ c <> 9%N /\ c <> 27%N.
  Definition plain (s : str) : Prop := Forall plain_char s /\ seg s = map (fun c => [c]) s.

  Lemma gwidth_plain c : plain_char c -> gwidth U [c] 0 = (1, 0).
  Proof.
    intros [Hw [H10 [H9 H27]]]. unfold gwidth, str_eqb. cbn [Ustr.str_eqb].
    destruct (N.eqb_spec c 27); [congruence|]. destruct (N.eqb_spec c 10); [congruence|].
    cbn. unfold wcwidth. cbn [fold_left]. rewrite Hw. reflexivity.
  Qed.

  Definition pos_of (p : nat * nat) : pos2 := mkP (snd p) (fst p).

  (* one character: the emulator's (row, column count) moves exactly as calc_go's position does *)
  Lemma step_agrees c v rest :
    plain_char c -> wf W v ->
    calc_go U W tab_stop ([c] :: rest) (pos_of (epos W v)) 0
    = calc_go U W tab_stop rest (pos_of (epos W (put1 W c v))) 0 /\ wf W (put1 W c v).
  Proof.
    intros Hc [Hcol Hpend]. pose proof Hc as [Hw [H10 [H9 H27]]].
    cbn [calc_go]. unfold str_eqb. cbn [Ustr.str_eqb].
    destruct (N.eqb_spec c 10); [congruence|]. destruct (N.eqb_spec c 9); [congruence|]. cbn [andb].
    rewrite (gwidth_plain c Hc). unfold epos, pos_of, put1. cbn [fst snd p_col p_row].
    destruct (v_pending v) eqn:Ep.
    - (* deferred wrap pending: column count W, the character goes to the next row *)
      cbn [v_row v_col]. replace (Nat.ltb W (W + 1)) with true by (symmetry; apply Nat.ltb_lt; lia).
      destruct (Nat.eqb_spec 1 W) as [E1|E1]; cbn [v_pending v_row v_col].
      + split; [subst W; reflexivity|]. unfold wf. cbn. split; [lia|intros _; lia].
      + split; [reflexivity|]. unfold wf. cbn. split; [lia|discriminate].
    - cbn [v_row v_col]. replace (Nat.ltb W (v_col v + 1)) with false by (symmetry; apply Nat.ltb_ge; lia).
      destruct (Nat.eqb_spec (S (v_col v)) W) as [E1|E1]; cbn [v_pending v_row v_col].
      + split; [rewrite <- E1; f_equal; f_equal; lia|]. unfold wf. cbn. split; [lia|intros _; exact E1].
      + split; [f_equal; f_equal; lia|]. unfold wf. cbn. split; [lia|discriminate].
  Qed.

  Theorem print_agrees s : forall v,
    Forall plain_char s -> wf W v ->
    calc_go U W tab_stop (map (fun c => [c]) s) (pos_of (epos W v)) 0 = pos_of (epos W (print W s v))
    /\ wf W (print W s v).
  Proof.
    induction s as [|c s IH]; intros v Hs Hv; cbn [map print fold_left].
    - split; [reflexivity|exact Hv].
    - inversion Hs as [|c' s' Hc Hs']; subst.
      destruct (step_agrees c v (map (fun c => [c]) s) Hc Hv) as [E Hv'].
      rewrite E. apply IH; assumption.
  Qed.

  (* calculate_position = the cell where the next character goes *)
  Theorem layout_agrees s v :
    plain s -> wf W v ->
    calculate_position U seg W tab_stop s (pos_of (epos W v))
    = (let n := next_cell (print W s v) in mkP (snd n) (fst n)).
  Proof.
    intros [Hs Hseg] Hv. unfold calculate_position. rewrite Hseg.
    destruct (print_agrees s v Hs Hv) as [E [Hc Hp]]. rewrite E.
    unfold pos_of, epos, next_cell. cbn [fst snd p_col p_row].
    destruct (v_pending (print W s v)) eqn:Ep.
    - rewrite Nat.eqb_refl. reflexivity.
    - replace (Nat.eqb (v_col (print W s v)) W) with false by (symmetry; apply Nat.eqb_neq; lia). reflexivity.
  Qed.
End Agree.
