(* C14 / C05: a completion accepted INSIDE an open undo group (a vi insert session): [Changeset::end] closes both
   groups, and one Undo then takes back the whole session -- the completion and what was typed before it in that
   session -- giving exactly the text and the undo list from before the session. (The clause `one Undo after an
   accepted completion restores the pre-completion text` is [group_then_undo], for a completion outside any group.) *)
From RL Require Import UData LineBuffer LineBufferTotal LineBufferProofs Undo KillRing Render Keys Editor EditorRun
     EditorProofs UndoProofs CompleteProofs.

Section Nested.
  Variable U : UData.
  Variable seg : str -> list str.

  (* changes without markers, undone while the loop is waiting for [w] > 0 group starts: all undone, still waiting *)
  Lemma undo_body_waiting body : forall tail (b : lb) undone (w : Z),
    (0 < w)%Z -> forallb no_marker body = true -> valid (body ++ tail) (buf b) ->
    exists b' d, cs_undo_loop (body ++ tail) b 1 0 w undone = cs_undo_loop tail b' 1 0 w d /\ valid tail (buf b').
  Proof.
    induction body as [|ch body IH]; intros tail b undone w Hw Hm Hv.
    - cbn [app]. exists b, undone. split; [reflexivity|exact Hv].
    - cbn in Hm. apply andb_true_iff in Hm. destruct Hm as [Hc Hm]. cbn [app] in *.
      destruct (change_undo_ok ch (body ++ tail) b Hv) as [b1 [Hcu [Hv1 _]]];
        try (destruct ch; discriminate).
      replace (w <=? 0)%Z with false in * by (symmetry; apply Z.leb_gt; exact Hw).
      destruct ch; try discriminate; cbn [cs_undo_loop]; rewrite Hcu;
        replace (w <=? 0)%Z with false by (symmetry; apply Z.leb_gt; exact Hw);
        apply IH; assumption.
  Qed.

  Theorem undo_nested_group inner outer rest (b : lb) :
    forallb no_marker inner = true -> forallb no_marker outer = true ->
    valid (UEnd :: UEnd :: inner ++ UBegin :: outer ++ UBegin :: rest) (buf b) ->
    exists b' d, cs_undo_loop (UEnd :: UEnd :: inner ++ UBegin :: outer ++ UBegin :: rest) b 1 0 0%Z false = Ok (rest, b', d)
                 /\ valid rest (buf b').
  Proof.
    intros Hi Ho Hv. cbn [cs_undo_loop]. cbn [Z.add Z.leb Z.compare Pos.add Pos.succ].
    change (0 + 1)%Z with 1%Z. change (1 <=? 0)%Z with false. cbn iota.
    cbn [cs_undo_loop]. change (1 + 1)%Z with 2%Z. change (2 <=? 0)%Z with false. cbn iota.
    cbn [valid] in Hv.
    destruct (undo_body_waiting inner (UBegin :: outer ++ UBegin :: rest) b false 2%Z ltac:(lia) Hi Hv) as [b1 [d1 [H1 Hv1]]].
    rewrite H1. cbn [cs_undo_loop]. change (2 - 1)%Z with 1%Z. change (1 <=? 0)%Z with false. cbn iota.
    cbn [valid] in Hv1.
    apply undo_group_body; assumption.
  Qed.

  (* the editor's sequence: a group is open (level 1, [outer] recorded in it so far); begin; the completion's
     notifications (at least one change recorded); end -- then Undo 1 *)
  Theorem group_in_group_then_undo base outer es (b00 b : lb) :
    forallb no_marker outer = true ->
    valid base (buf b00) ->
    let c := mkCs 1 (outer ++ UBegin :: base) in
    let c2 := cs_notify_all U seg (fst (cs_begin c)) es in
    valid (cs_undos c2) (buf b) ->
    cs_undos c2 <> UBegin :: cs_undos c ->
    exists b' d, cs_undo (fst (cs_end c2)) b 1 = Ok (mkCs 0 base, b', d) /\ buf b' = buf b00.
  Proof.
    intros Ho Hv0 c c2 Hv2 Hne.
    assert (Hshape : exists new, c2 = mkCs 2 (new ++ UBegin :: cs_undos c) /\ forallb no_marker new = true).
    { unfold c2, cs_begin. cbn [fst cs_level cs_undos c].
      assert (G : forall es new, forallb no_marker new = true ->
                exists new', cs_notify_all U seg (mkCs 2 (new ++ UBegin :: cs_undos c)) es
                             = mkCs 2 (new' ++ UBegin :: cs_undos c) /\ forallb no_marker new' = true).
      { clear. induction es as [|e es IH]; intros new Hn; cbn [cs_notify_all fold_left].
        - exists new. auto.
        - destruct (cs_notify_above U seg c new e 2 Hn) as [new' [-> Hn']]. apply IH. exact Hn'. }
      apply (G es []). reflexivity. }
    destruct Hshape as [new [Hc2 Hnew]].
    destruct new as [|ch new].
    { exfalso. apply Hne. rewrite Hc2. reflexivity. }
    assert (Hend : fst (cs_end c2) = mkCs 0 (UEnd :: UEnd :: (ch :: new) ++ UBegin :: outer ++ UBegin :: base)).
    { rewrite Hc2. unfold cs_end. cbn [cs_level cs_undos cs_end_loop app c].
      cbn in Hnew. apply andb_true_iff in Hnew. destruct Hnew as [Hch _].
      destruct ch; try discriminate; reflexivity. }
    rewrite Hend. unfold cs_undo. cbn [cs_undos cs_level].
    assert (Hv : valid (UEnd :: UEnd :: (ch :: new) ++ UBegin :: outer ++ UBegin :: base) (buf b)).
    { cbn [valid]. rewrite Hc2 in Hv2. exact Hv2. }
    destruct (undo_nested_group (ch :: new) outer base b Hnew Ho Hv) as [b' [d [Hu Hvb]]].
    rewrite Hu. exists b', d. split; [reflexivity|]. eapply valid_unique; eauto.
  Qed.
End Nested.
