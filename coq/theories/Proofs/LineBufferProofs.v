(* C03: every line-buffer operation reports notifications that, replayed on
   the old text, give the new text; motions are pure. Generic over the
   segmentation function and the Unicode data. *)
From RL Require Import UData LineBuffer LineBufferOps.

(* ---------- replaying notifications on a text ---------- *)

Fixpoint strip_prefix (p s : str) : option str :=
  match p, s with
  | [], _ => Some s
  | x :: p', y :: s' => if (x =? y)%N then strip_prefix p' s' else None
  | _ :: _, [] => None
  end.

Definition replay1 (t : str) (e : event) : option str :=
  match e with
  | EInsertChar idx c => match bsplit t idx with Some (l, r) => Some (l ++ [c] ++ r) | None => None end
  | EInsertStr idx s => match bsplit t idx with Some (l, r) => Some (l ++ s ++ r) | None => None end
  | EDelete idx s _ =>
    match bsplit t idx with
    | Some (l, r) => match strip_prefix s r with Some r' => Some (l ++ r') | None => None end
    | None => None
    end
  | EReplace idx old new =>
    match bsplit t idx with
    | Some (l, r) => match strip_prefix old r with Some r' => Some (l ++ new ++ r') | None => None end
    | None => None
    end
  | EStartKill | EStopKill => Some t
  end.

Fixpoint replay (t : str) (es : list event) : option str :=
  match es with
  | [] => Some t
  | e :: rest => match replay1 t e with Some t' => replay t' rest | None => None end
  end.

Lemma replay_app t e1 e2 t1 : replay t e1 = Some t1 -> replay t (e1 ++ e2) = replay t1 e2.
Proof.
  revert t. induction e1 as [|e e1 IH]; intros t H; cbn [replay app] in *.
  - inversion H; reflexivity.
  - destruct (replay1 t e); [apply IH; exact H|discriminate].
Qed.

Lemma strip_prefix_app p r : strip_prefix p (p ++ r) = Some r.
Proof. induction p as [|x p IH]; [reflexivity|]. cbn. rewrite N.eqb_refl. exact IH. Qed.

Section Replay.
  Variable U : UData.
  Variable seg : str -> list str.

  Definition good {A} (m : M A) : Prop :=
    forall b a b' ev, m b = Ok (a, b', ev) -> replay (buf b) ev = Some (buf b').

  Lemma good_ret {A} (a : A) : good (ret a).
  Proof. intros b a' b' ev H. inversion H; subst. reflexivity. Qed.
  Lemma good_get : good get.
  Proof. intros b a' b' ev H. inversion H; subst. reflexivity. Qed.
  Lemma good_put p : good (put_pos p).
  Proof. intros b a' b' ev H. inversion H; subst. reflexivity. Qed.
  Lemma good_fail {A} : good (@fail A).
  Proof. intros b a' b' ev H. discriminate. Qed.
  Lemma good_lift {A} (r : res A) : good (lift r).
  Proof. intros b a' b' ev H. unfold lift in H. destruct r; inversion H; subst. reflexivity. Qed.
  Lemma good_emit_kill1 : good (emit EStartKill).
  Proof. intros b a' b' ev H. inversion H; subst. reflexivity. Qed.
  Lemma good_emit_kill2 : good (emit EStopKill).
  Proof. intros b a' b' ev H. inversion H; subst. reflexivity. Qed.

  Lemma good_bind {A B} (m : M A) (f : A -> M B) :
    good m -> (forall a, good (f a)) -> good (bind m f).
  Proof.
    intros Hm Hf b r b' ev H. unfold bind in H.
    destruct (m b) as [[[a b1] e1]|] eqn:E1; [|discriminate].
    destruct (f a b1) as [[[r' b2] e2]|] eqn:E2; [|discriminate].
    inversion H; subst. rewrite (replay_app _ _ _ _ (Hm _ _ _ _ E1)). eapply Hf; eauto.
  Qed.

  Lemma good_drain a e d : good (drain a e d).
  Proof.
    intros b r b' ev H. unfold drain, str_drain in H.
    destruct (Nat.ltb e a); [discriminate|].
    destruct (bsplit (buf b) a) as [[l r0]|] eqn:E1; [|discriminate].
    destruct (bsplit r0 (e - a)) as [[m r']|] eqn:E2; [|discriminate].
    inversion H; subst. cbn [replay replay1 set_buf buf]. rewrite E1.
    apply bsplit_some in E2. destruct E2 as [-> _]. rewrite strip_prefix_app. reflexivity.
  Qed.

  Lemma good_insert_str i s : good (insert_str i s).
  Proof.
    intros b r b' ev H. unfold insert_str, str_insert in H.
    destruct (bsplit (buf b) i) as [[l r0]|] eqn:E1; [|discriminate].
    inversion H; subst. cbn [replay replay1 set_buf buf]. rewrite E1. reflexivity.
  Qed.

  Lemma good_insert_char i c : good (insert_char_at i c).
  Proof.
    intros b r b' ev H. unfold insert_char_at, str_insert in H.
    destruct (bsplit (buf b) i) as [[l r0]|] eqn:E1; [|discriminate].
    inversion H; subst. cbn [replay replay1 set_buf buf]. rewrite E1. reflexivity.
  Qed.

  Lemma good_replace a e t : good (replace_range a e t).
  Proof.
    intros b r b' ev H. unfold replace_range, slice, str_drain, str_insert in H.
    destruct (Nat.ltb e a); [discriminate|].
    destruct (bsplit (buf b) a) as [[l r0]|] eqn:E1; [|discriminate].
    destruct (bsplit r0 (e - a)) as [[m r']|] eqn:E2; [|discriminate].
    destruct (bsplit (l ++ r') a) as [[l2 r2]|] eqn:E3; [|discriminate].
    inversion H; subst. cbn [replay replay1 buf]. rewrite E1.
    pose proof (bsplit_some _ _ _ _ E1) as [_ Hl].
    apply bsplit_some in E2. destruct E2 as [-> _]. rewrite strip_prefix_app.
    rewrite <- Hl in E3. rewrite bsplit_app in E3. inversion E3; subst. reflexivity.
  Qed.

  Ltac good_step :=
    first [ apply good_ret | apply good_get | apply good_put | apply good_fail | apply good_lift
          | apply good_emit_kill1 | apply good_emit_kill2
          | apply good_drain | apply good_insert_str | apply good_insert_char | apply good_replace
          | (apply good_bind; [|intros]) ].
  Ltac good_auto :=
    repeat (good_step ||
            match goal with
            | |- good (if ?c then _ else _) => destruct c
            | |- good (match ?x with _ => _ end) => destruct x
            | |- good (let '(_, _) := ?x in _) => destruct x
            | |- good (let _ := _ in _) => cbv zeta
            end).

  Lemma good_set_pos p : good (set_pos p). Proof. unfold set_pos. good_auto. Qed.
  Lemma good_move_backward n : good (move_backward seg n). Proof. unfold move_backward. good_auto. Qed.
  Lemma good_move_forward n : good (move_forward seg n). Proof. unfold move_forward. good_auto. Qed.
  Lemma good_move_buffer_start : good move_buffer_start. Proof. unfold move_buffer_start. good_auto. Qed.
  Lemma good_move_buffer_end : good move_buffer_end. Proof. unfold move_buffer_end. good_auto. Qed.
  Lemma good_move_home : good move_home. Proof. unfold move_home. good_auto. Qed.
  Lemma good_move_end : good move_end. Proof. unfold move_end. good_auto. Qed.
  Lemma good_insert c n : good (insert c n). Proof. unfold insert. good_auto. Qed.
  Lemma good_yank s n : good (yank s n). Proof. unfold yank. good_auto. Qed.
  Lemma good_yank_pop k s : good (yank_pop k s).
  Proof. unfold yank_pop. good_auto; try apply good_yank. Qed.
  Lemma good_delete n : good (delete seg n). Proof. unfold delete. good_auto. Qed.
  Lemma good_backspace n : good (backspace seg n). Proof. unfold backspace. good_auto. Qed.
  Lemma good_kill_line : good (kill_line seg).
  Proof. unfold kill_line. good_auto; try apply good_delete. Qed.
  Lemma good_kill_buffer : good kill_buffer. Proof. unfold kill_buffer. good_auto. Qed.
  Lemma good_discard_line : good (discard_line seg).
  Proof. unfold discard_line. good_auto; try apply good_backspace. Qed.
  Lemma good_discard_buffer : good discard_buffer. Proof. unfold discard_buffer. good_auto. Qed.
  Lemma good_transpose_chars : good (transpose_chars seg).
  Proof.
    unfold transpose_chars. good_auto;
      try apply good_move_backward; try apply good_move_forward; try apply good_delete; try apply good_yank.
  Qed.
  Lemma good_move_to_prev_word w n : good (move_to_prev_word U seg w n).
  Proof. unfold move_to_prev_word. good_auto. Qed.
  Lemma good_delete_prev_word w n : good (delete_prev_word U seg w n).
  Proof. unfold delete_prev_word. good_auto. Qed.
  Lemma good_move_to_next_word a w n : good (move_to_next_word U seg a w n).
  Proof. unfold move_to_next_word. good_auto. Qed.
  Lemma good_delete_word a w n : good (delete_word U seg a w n).
  Proof. unfold delete_word. good_auto. Qed.
  Lemma good_move_to cs n : good (move_to seg cs n). Proof. unfold move_to. good_auto. Qed.
  Lemma good_delete_to cs n : good (delete_to seg cs n). Proof. unfold delete_to. good_auto. Qed.
  Lemma good_edit_word a : good (edit_word U seg a). Proof. unfold edit_word. good_auto. Qed.
  Lemma good_transpose_words n : good (transpose_words U seg n).
  Proof.
    unfold transpose_words. good_auto; try apply good_move_to_next_word; try apply good_move_to_prev_word.
  Qed.
  Lemma good_delete_range a e : good (delete_range a e).
  Proof. unfold delete_range. good_auto; try apply good_set_pos. Qed.
  Lemma good_update s p : good (update s p). Proof. unfold update. good_auto. Qed.

  Lemma good_kill m : good (kill U seg m).
  Proof.
    unfold kill. good_auto;
      try apply good_delete; try apply good_backspace; try apply good_kill_line; try apply good_move_home;
      try apply good_discard_line; try apply good_delete_prev_word; try apply good_delete_word;
      try apply good_delete_to; try apply good_delete_range; try apply good_kill_buffer;
      try apply good_discard_buffer; try apply good_move_buffer_start.
  Qed.

  Lemma good_dedent_lines lines : forall amount index, good (dedent_lines U lines amount index).
  Proof. induction lines as [|l lines IH]; intros amount index; cbn [dedent_lines]; good_auto; try apply IH. Qed.
  Lemma good_indent_chunks fuel : forall amount off index, good (indent_chunks amount off fuel index).
  Proof. induction fuel as [|f IH]; intros amount off index; cbn [indent_chunks]; good_auto; try apply IH. Qed.
  Lemma good_indent_lines lines : forall amount index, good (indent_lines lines amount index).
  Proof.
    induction lines as [|l lines IH]; intros amount index; cbn [indent_lines]; good_auto;
      try apply good_indent_chunks; try apply IH.
  Qed.
  Lemma good_indent m amount d : good (indent U seg m amount d).
  Proof. unfold indent. good_auto; try apply good_dedent_lines; try apply good_indent_lines. Qed.

  (* C03: the notifications of every operation of the stream, replayed on the old
     text, give the new text *)
  Theorem lb_replay (o : lbop) (b : lb) r b' ev :
    lb_apply U seg o b = Ok (r, b', ev) -> replay (buf b) ev = Some (buf b').
  Proof.
    assert (Hmap : forall A B (f : A -> B) (m : M A), good m -> good (mapM f m)).
    { intros A B f m Hm. unfold mapM. apply good_bind; [exact Hm|intros; apply good_ret]. }
    assert (Hpure : forall A (f : lb -> res A), good (pureM f)).
    { intros A f. unfold pureM. apply good_bind; [apply good_get|intros; apply good_lift]. }
    revert b r b' ev. change (good (lb_apply U seg o)).
    destruct o; cbn [lb_apply]; try apply Hpure; apply Hmap;
      first [ apply good_insert | apply good_yank | apply good_yank_pop | apply good_move_backward
            | apply good_move_forward | apply good_move_buffer_start | apply good_move_buffer_end
            | apply good_move_home | apply good_move_end | apply good_delete | apply good_backspace
            | apply good_kill_line | apply good_kill_buffer | apply good_discard_line | apply good_discard_buffer
            | apply good_transpose_chars | apply good_move_to_prev_word | apply good_delete_prev_word
            | apply good_move_to_next_word | apply good_move_to | apply good_delete_word | apply good_delete_to
            | apply good_edit_word | apply good_transpose_words | apply good_replace | apply good_insert_str
            | apply good_delete_range | apply good_kill | apply good_indent | apply good_update | apply good_set_pos ].
  Qed.

  (* ---------- motions and copies are pure ---------- *)

  Definition pure {A} (m : M A) : Prop :=
    forall b a b' ev, m b = Ok (a, b', ev) -> buf b' = buf b /\ ev = [].

  Lemma pure_ret {A} (a : A) : pure (ret a).
  Proof. intros b a' b' ev H. inversion H; subst. split; reflexivity. Qed.
  Lemma pure_get : pure get.
  Proof. intros b a' b' ev H. inversion H; subst. split; reflexivity. Qed.
  Lemma pure_put p : pure (put_pos p).
  Proof. intros b a' b' ev H. inversion H; subst. split; reflexivity. Qed.
  Lemma pure_fail {A} : pure (@fail A).
  Proof. intros b a' b' ev H. discriminate. Qed.
  Lemma pure_lift {A} (r : res A) : pure (lift r).
  Proof. intros b a' b' ev H. unfold lift in H. destruct r; inversion H; subst. split; reflexivity. Qed.
  Lemma pure_bind {A B} (m : M A) (f : A -> M B) : pure m -> (forall a, pure (f a)) -> pure (bind m f).
  Proof.
    intros Hm Hf b r b' ev H. unfold bind in H.
    destruct (m b) as [[[a b1] e1]|] eqn:E1; [|discriminate].
    destruct (f a b1) as [[[r' b2] e2]|] eqn:E2; [|discriminate].
    inversion H; subst. destruct (Hm _ _ _ _ E1) as [H1 ->]. destruct (Hf _ _ _ _ _ E2) as [H2 ->].
    split; [congruence|reflexivity].
  Qed.
  Ltac pure_auto :=
    repeat (first [ apply pure_ret | apply pure_get | apply pure_put | apply pure_fail | apply pure_lift
                  | (apply pure_bind; [|intros]) ] ||
            match goal with
            | |- pure (if ?c then _ else _) => destruct c
            | |- pure (match ?x with _ => _ end) => destruct x
            | |- pure (let _ := _ in _) => cbv zeta
            end).

  Definition is_motion (o : lbop) : bool :=
    match o with
    | OpMoveBackward _ | OpMoveForward _ | OpBufferStart | OpBufferEnd | OpHome | OpEnd | OpIsEndOfInput
    | OpPrevWord _ _ | OpNextWord _ _ _ | OpMoveTo _ _ | OpCopy _ | OpSetPos _ | OpNextPos _ => true
    | _ => false
    end.

  Theorem lb_motion_pure (o : lbop) (b : lb) r b' ev :
    is_motion o = true -> lb_apply U seg o b = Ok (r, b', ev) -> buf b' = buf b /\ ev = [].
  Proof.
    intros Hm. revert b r b' ev. change (pure (lb_apply U seg o)).
    destruct o; try discriminate; cbn [lb_apply]; unfold mapM, pureM, move_backward, move_forward,
      move_buffer_start, move_buffer_end, move_home, move_end, move_to_prev_word, move_to_next_word,
      move_to, set_pos; pure_auto.
  Qed.
End Replay.
