(* C17 at the level of a whole read: for EVERY input stream (any characters, undecodable bytes, any
   chunking, messages from other threads), either mode, any bindings, history and helpers whose completer
   keeps its contract, a read of the model never ends in a Panic. *)
From RL Require Import UData Uax29 LineBuffer LineBufferOps LineBufferProofs LineBufferTotal LineBufferAll
     Undo KillRing History Render Keys Editor EditorRun EditorProofs UndoProofs UndoEditor KillRingProofs HistoryProofs
     NoPanic.
From RL Require DecoderProofs.

(* steps that touch neither line, undo stack, kill ring, saved line nor the numeric argument, and cannot panic *)
Definition quiet5 {A} (m : E A) : Prop :=
  forall s, match m s with
            | EPanic => False
            | EOk _ s' => core_eq s s' /\ i_num_args s' = i_num_args s
            | _ => True
            end.

Lemma quiet5_bind {A B} (m : E A) (f : A -> E B) : quiet5 m -> (forall a, quiet5 (f a)) -> quiet5 (ebind m f).
Proof.
  intros Hm Hf s. specialize (Hm s). unfold ebind. destruct (m s) as [a s1| | |]; auto.
  specialize (Hf a s1). destruct (f a s1) as [b s2| | |]; auto.
  destruct Hm as [[L1 [C1 [K1 S1]]] N1]. destruct Hf as [[L2 [C2 [K2 S2]]] N2].
  split; [repeat split; congruence|congruence].
Qed.
Lemma q5_ret {A} (a : A) : quiet5 (eret a). Proof. intros s. cbn. repeat split. Qed.
Lemma q5_get : quiet5 eget. Proof. intros s. cbn. repeat split. Qed.
Lemma q5_fail {A} e : quiet5 (@efail A e). Proof. intros s. exact Logic.I. Qed.
Lemma q5_fuel {A} : quiet5 (@efuel A). Proof. intros s. exact Logic.I. Qed.
Lemma q5_write b : quiet5 (write b). Proof. intros s. cbn. repeat split. Qed.
Lemma q5_set_layout l : quiet5 (set_layout l). Proof. intros s. cbn. repeat split. Qed.
Lemma q5_set_hint h : quiet5 (set_hint h). Proof. intros s. cbn. repeat split. Qed.
Lemma q5_set_hidx k : quiet5 (set_hidx k). Proof. intros s. cbn. repeat split. Qed.
Lemma q5_observe o : quiet5 (observe o). Proof. intros s. cbn. repeat split. Qed.
Lemma q5_set_input_mode m : quiet5 (set_input_mode m). Proof. intros s. cbn. repeat split. Qed.
Lemma q5_set_last_cmd c : quiet5 (set_last_cmd c). Proof. intros s. cbn. repeat split. Qed.
Lemma q5_set_last_cs c : quiet5 (set_last_cs c). Proof. intros s. cbn. repeat split. Qed.
Lemma q5_set_inp i : quiet5 (set_inp i). Proof. intros s. cbn. repeat split. Qed.

Ltac q5_auto :=
  repeat (first [ apply q5_ret | apply q5_get | apply q5_fail | apply q5_fuel | apply q5_write
                | apply q5_set_layout | apply q5_set_hint | apply q5_set_hidx
                | apply q5_observe | apply q5_set_input_mode | apply q5_set_last_cmd
                | apply q5_set_last_cs | apply q5_set_inp
                | match goal with |- quiet5 (ebind _ _) => apply quiet5_bind; [|intros] end ] ||
          match goal with
          | |- quiet5 (if ?c then _ else _) => destruct c
          | |- quiet5 (match ?x with _ => _ end) => destruct x
          | |- quiet5 (let '(_, _) := ?x in _) => destruct x
          | |- quiet5 (let _ := _ in _) => cbv zeta
          end).

Section ReadNoPanic.
  Variable U : UData.
  Variable cfg : config.
  Let seg := useg U.

  (* ---------- reading keys ---------- *)

  Lemma q5_next_char : quiet5 next_char.
  Proof.
    intros s. unfold next_char.
    destruct (take_char (in_cur (e_inp s)) (in_rest (e_inp s))) as [[[c| |m] i]|] eqn:E; cbn; auto.
    - repeat split.
    - exact (DecoderProofs.take_char_no_print _ _ _ _ E).
  Qed.
  Lemma q5_poll t : quiet5 (poll t). Proof. unfold poll. q5_auto. Qed.
  Lemma q5_escape_o : quiet5 escape_o. Proof. unfold escape_o. q5_auto; apply q5_next_char. Qed.
  Lemma q5_extended_escape c : quiet5 (extended_escape c).
  Proof. unfold extended_escape. q5_auto; try apply q5_next_char. Qed.
  Lemma q5_escape_csi : quiet5 escape_csi.
  Proof. unfold escape_csi. q5_auto; try apply q5_next_char; try apply q5_extended_escape. Qed.
  Lemma q5_do_escape_sequence r : quiet5 (do_escape_sequence U cfg r).
  Proof.
    unfold do_escape_sequence. q5_auto; try apply q5_next_char; try apply q5_escape_csi; try apply q5_escape_o;
      try apply q5_poll.
  Qed.
  Lemma q5_next_key sea : quiet5 (next_key U cfg sea).
  Proof. unfold next_key. q5_auto; try apply q5_next_char; try apply q5_poll; try apply q5_do_escape_sequence. Qed.
  Lemma q5_read_pasted fuel : forall acc, quiet5 (read_pasted U cfg fuel acc).
  Proof.
    induction fuel as [|f IH]; intros acc; cbn [read_pasted]; [apply q5_fuel|].
    q5_auto; try apply q5_next_char; try apply q5_do_escape_sequence; try apply IH.
  Qed.

  (* ---------- display ---------- *)
  Lemma q5_update_hint : quiet5 (update_hint cfg). Proof. unfold update_hint. q5_auto. Qed.
  Lemma q5_refresh p ps d i : quiet5 (refresh U cfg p ps d i). Proof. unfold refresh. q5_auto. Qed.
  Lemma q5_refresh_line : quiet5 (refresh_line U cfg).
  Proof. unfold refresh_line. q5_auto; try apply q5_update_hint; apply q5_refresh. Qed.
  Lemma q5_refresh_prompt_and_line p : quiet5 (refresh_prompt_and_line U cfg p).
  Proof. unfold refresh_prompt_and_line. q5_auto; try apply q5_update_hint; apply q5_refresh. Qed.
  Lemma q5_beep : quiet5 (beep cfg). Proof. unfold beep. q5_auto. Qed.

  (* ---------- the read-level invariant ---------- *)

  Definition Nv (s : est) : Prop := is_emacs cfg = false -> (0 <= i_num_args s)%Z.
  Definition R (s : est) : Prop := J s /\ Nv s.

  (* keymap steps: no panic, R kept, line and kill ring untouched *)
  Definition kq {A} (m : E A) : Prop :=
    forall s, R s -> match m s with
                     | EPanic => False
                     | EOk _ s' => R s' /\ e_line s' = e_line s /\ e_kr s' = e_kr s
                     | _ => True
                     end.

  Lemma kq_bind {A B} (m : E A) (f : A -> E B) : kq m -> (forall a, kq (f a)) -> kq (ebind m f).
  Proof.
    intros Hm Hf s HR. specialize (Hm s HR). unfold ebind. destruct (m s) as [a s1| | |]; auto.
    destruct Hm as [HR1 [L1 K1]]. specialize (Hf a s1 HR1). destruct (f a s1) as [b s2| | |]; auto.
    destruct Hf as [HR2 [L2 K2]]. split; [exact HR2|split; congruence].
  Qed.
  Lemma kq_of_q5 {A} (m : E A) : quiet5 m -> kq m.
  Proof.
    intros H s [HJ HN]. specialize (H s). destruct (m s) as [a s'| | |]; auto. destruct H as [Hc Hn].
    split; [split; [eapply core_eq_J; eauto|unfold Nv; rewrite Hn; exact HN]|]. destruct Hc as [L [_ [K _]]]. split; assumption.
  Qed.
  Lemma kq_of_np_keep {A} (m : E A) :
    np m -> (forall s a s', m s = EOk a s' -> e_line s' = e_line s /\ e_kr s' = e_kr s /\ i_num_args s' = i_num_args s) -> kq m.
  Proof.
    intros Hn Hk s [HJ HN]. specialize (Hn s HJ). unfold npr in Hn. destruct (m s) as [a s'| | |] eqn:E; auto.
    destruct (Hk _ _ _ E) as [L [K N']]. split; [split; [exact Hn|unfold Nv; rewrite N'; exact HN]|split; assumption].
  Qed.
  Lemma kq_changes_begin : kq changes_begin.
  Proof.
    apply kq_of_np_keep; [apply np_changes_begin|]. intros s a s' H. unfold changes_begin in H.
    apply ebind_inv in H. destruct H as [x [s1 [H1 H]]]. inversion H1; subst.
    destruct (cs_begin (e_changes s1)) as [c mark]. apply ebind_inv in H. destruct H as [y [s2 [H2 H]]].
    inversion H2; subst. inversion H; subst. repeat split.
  Qed.
  Lemma kq_changes_end : kq changes_end.
  Proof.
    apply kq_of_np_keep; [apply np_changes_end|]. intros s a s' H. unfold changes_end in H.
    apply ebind_inv in H. destruct H as [x [s1 [H1 H]]]. inversion H1; subst.
    destruct (cs_end (e_changes s1)) as [c t]. apply ebind_inv in H. destruct H as [y [s2 [H2 H]]].
    inversion H2; subst. inversion H; subst. repeat split.
  Qed.
  Lemma kq_set_num_args z : (is_emacs cfg = false -> (0 <= z)%Z) -> kq (set_num_args z).
  Proof.
    intros Hz s [HJ HN]. cbn. split; [split; [|exact Hz]|split; reflexivity].
    destruct HJ as [Hw [Hi [Hk Hs]]]. split; [exact Hw|split; [exact Hi|split; [exact Hk|exact Hs]]].
  Qed.
  Lemma kq_get_bind {A} (f : est -> E A) : (forall s0, R s0 -> kq (f s0)) -> kq (ebind eget f).
  Proof. intros H s HR. unfold ebind, eget. apply H; exact HR. Qed.

  Ltac kq_q := apply kq_of_q5;
    q5_auto; try first [ apply q5_next_key | apply q5_next_char | apply q5_read_pasted | apply q5_refresh_line
                       | apply q5_refresh_prompt_and_line | apply q5_beep | apply q5_update_hint | apply q5_refresh ]; fail.
  Ltac kq_step :=
    first [ apply kq_changes_begin | apply kq_changes_end | kq_q
          | match goal with |- kq (ebind _ _) => apply kq_bind; [|intros] end ].
  Ltac kq_auto :=
    repeat (kq_step ||
            match goal with
            | |- kq (if ?c then _ else _) => destruct c
            | |- kq (match ?x with _ => _ end) => destruct x
            | |- kq (let '(_, _) := ?x in _) => destruct x
            | |- kq (let _ := _ in _) => cbv zeta
            end).

  (* ---------- bindings, numeric arguments ---------- *)

  Lemma kq_custom_binding k n p : kq (custom_binding cfg k n p). Proof. unfold custom_binding. kq_auto. Qed.
  Lemma kq_custom_seq_binding fuel : forall ks, kq (custom_seq_binding U cfg fuel ks).
  Proof. induction fuel as [|f IH]; intros ks; cbn [custom_seq_binding]; kq_auto; apply IH. Qed.
  Lemma kq_term_binding k : kq (term_binding cfg k). Proof. unfold term_binding. kq_auto. Qed.
  Lemma kq_last_insert : kq last_insert. Proof. unfold last_insert. kq_auto. Qed.
  Lemma kq_cmd_redo c new : is_repeatable c = true -> kq (cmd_redo c new).
  Proof.
    intros Hr. destruct c; try discriminate; cbn [cmd_redo]; unfold last_insert; kq_auto.
  Qed.

  Lemma kq_take_num_args : kq take_num_args.
  Proof. unfold take_num_args. apply kq_get_bind. intros s0 _. apply kq_bind; [apply kq_set_num_args; lia|]. intros _. kq_auto. Qed.

  Lemma kq_has_hint_at_end : kq has_hint_at_end. Proof. unfold has_hint_at_end. kq_auto. Qed.

  Lemma kq_common fuel k n p : kq (common U cfg fuel k n p).
  Proof. unfold common. kq_auto; try apply kq_custom_seq_binding. Qed.

  Lemma kq_redo_if c new : kq (if is_repeatable c then cmd_redo c new else eret c).
  Proof. destruct (is_repeatable c) eqn:E; [apply kq_cmd_redo; exact E|kq_auto]. Qed.
  Lemma kq_dot c new : kq (if negb (is_repeatable c) then eret CNoop else cmd_redo c new).
  Proof. destruct (is_repeatable c) eqn:E; cbn [negb]; [apply kq_cmd_redo; exact E|kq_auto]. Qed.

  Lemma kq_emacs_num_args : kq emacs_num_args.
  Proof. unfold emacs_num_args. apply kq_bind; [apply kq_take_num_args|]. intros z. kq_auto. Qed.

  Lemma i16_sat_nonneg z : (0 <= z)%Z -> (0 <= i16_sat z)%Z.
  Proof. unfold i16_sat. lia. Qed.
  Lemma digit_val_nonneg c : (0 <= digit_val c)%Z.
  Proof. unfold digit_val. lia. Qed.

  Ltac kq_known :=
    first [ apply kq_custom_binding | apply kq_custom_seq_binding | apply kq_term_binding | apply kq_last_insert
          | apply kq_redo_if | apply kq_dot | apply kq_take_num_args | apply kq_emacs_num_args
          | apply kq_has_hint_at_end | apply kq_common ].
  Ltac kq_all :=
    repeat (first [ kq_known | kq_step ] ||
            match goal with
            | |- kq (if ?c then _ else _) => destruct c
            | |- kq (match ?x with _ => _ end) => destruct x
            | |- kq (let '(_, _) := ?x in _) => destruct x
            | |- kq (let _ := _ in _) => cbv zeta
            end).

  Section Emacs.
    Hypothesis Hem : is_emacs cfg = true.

    Lemma kq_set_num_args_e z : kq (set_num_args z).
    Proof. apply kq_set_num_args. rewrite Hem. discriminate. Qed.

    Lemma kq_emacs_digit_loop fuel : forall mo, kq (emacs_digit_loop U cfg fuel mo).
    Proof.
      induction fuel as [|f IH]; intros mo; cbn [emacs_digit_loop]; [kq_auto|].
      apply kq_get_bind. intros s0 _. apply kq_bind; [kq_q|]. intros _. apply kq_bind; [kq_q|]. intros k.
      destruct k as [[] m]; try (kq_all; fail).
      match goal with |- kq (if ?c then _ else _) => destruct c end.
      - apply kq_get_bind. intros s1 _. cbv zeta. destruct mo.
        + apply kq_bind; [apply kq_set_num_args_e|]. intros _. apply IH.
        + match goal with |- kq (if ?c then _ else _) => destruct c end; [|apply IH].
          apply kq_bind; [apply kq_set_num_args_e|]. intros _. apply IH.
      - match goal with |- kq (if ?c then _ else _) => destruct c end; [apply IH|kq_all].
    Qed.

    Lemma kq_emacs_digit_argument fuel d : kq (emacs_digit_argument U cfg fuel d).
    Proof.
      unfold emacs_digit_argument. apply kq_bind; [destruct (d =? 45)%N; apply kq_set_num_args_e|]. intros _.
      apply kq_emacs_digit_loop.
    Qed.

    Lemma kq_emacs fuel k0 : kq (emacs U cfg fuel k0).
    Proof.
      unfold emacs. apply kq_bind.
      { destruct k0 as [[] m]; try (kq_all; fail).
        match goal with |- kq (if ?c then _ else _) => destruct c end; [apply kq_emacs_digit_argument|kq_all]. }
      intros k. apply kq_bind; [apply kq_emacs_num_args|]. intros [n positive].
      apply kq_bind; [apply kq_custom_binding|]. intros cb. destruct cb as [c|]; [apply kq_redo_if|].
      apply kq_bind; [apply kq_term_binding|]. intros tb. destruct tb as [c|]; [kq_all|].
      cbv zeta. kq_all.
    Qed.
  End Emacs.

  Section Vi.
    Hypothesis Hvi : is_emacs cfg = false.

    Lemma kq_vi_num_args : kq vi_num_args.
    Proof.
      intros s [HJ HN]. specialize (HN Hvi). unfold vi_num_args, take_num_args, ebind, eget, set_num_args, eret, epanic. cbv beta zeta.
      assert (HR' : forall s', e_line s' = e_line s -> e_changes s' = e_changes s -> e_kr s' = e_kr s -> e_saved s' = e_saved s ->
                     i_num_args s' = 0%Z -> R s' /\ e_line s' = e_line s /\ e_kr s' = e_kr s).
      { intros s' L C K S N0. split; [split; [apply (core_eq_J s s'); [repeat split; assumption|exact HJ]|intros _; rewrite N0; lia]|split; assumption]. }
      destruct (i_num_args s =? 0)%Z eqn:E0.
      - cbn. match goal with |- R ?s1 /\ _ => exact (HR' s1 eq_refl eq_refl eq_refl eq_refl eq_refl) end.
      - replace (i_num_args s <? 0)%Z with false by (symmetry; apply Z.ltb_ge; lia). cbn.
        match goal with |- R ?s1 /\ _ => exact (HR' s1 eq_refl eq_refl eq_refl eq_refl eq_refl) end.
    Qed.

    Lemma kq_vi_arg_digit_loop fuel : kq (vi_arg_digit_loop U cfg fuel).
    Proof.
      induction fuel as [|f IH]; cbn [vi_arg_digit_loop]; [kq_auto|].
      apply kq_get_bind. intros s0 _. apply kq_bind; [kq_q|]. intros _. apply kq_bind; [kq_q|]. intros k.
      destruct k as [[] m]; try (kq_all; fail).
      match goal with |- kq (if ?c then _ else _) => destruct c end; [|kq_all].
      apply kq_get_bind. intros s1 [_ HN1]. specialize (HN1 Hvi).
      match goal with |- kq (if ?c then _ else _) => destruct c end; [|apply IH].
      apply kq_bind; [|intros _; apply IH]. apply kq_set_num_args. intros _.
      apply i16_sat_nonneg. pose proof (digit_val_nonneg c). pose proof (i16_sat_nonneg (i_num_args s1 * 10) ltac:(lia)). lia.
    Qed.
    Lemma kq_vi_arg_digit fuel d : kq (vi_arg_digit U cfg fuel d).
    Proof.
      unfold vi_arg_digit. apply kq_bind; [apply kq_set_num_args; intros _; apply digit_val_nonneg|]. intros _.
      apply kq_vi_arg_digit_loop.
    Qed.

    Lemma kq_vi_char_search c : kq (vi_char_search U cfg c).
    Proof. unfold vi_char_search. kq_all. Qed.

    Lemma kq_vi_cmd_motion fuel k n0 : kq (vi_cmd_motion U cfg fuel k n0).
    Proof.
      unfold vi_cmd_motion. apply kq_bind; [kq_q|]. intros mvt0.
      match goal with |- kq (if ?c then _ else _) => destruct c end; [kq_all|].
      apply kq_bind.
      { destruct mvt0 as [[] m]; try (kq_all; fail).
        match goal with |- kq (if ?c then _ else _) => destruct c end; [|kq_all].
        apply kq_bind; [apply kq_vi_arg_digit|]. intros mvt'. apply kq_bind; [apply kq_vi_num_args|]. intros a. kq_all. }
      intros [mvt n]. cbv zeta.
      destruct mvt as [[] m]; try (kq_all; fail).
      repeat match goal with
             | |- kq (if ?c then _ else _) => destruct c
             | |- kq (ebind (vi_char_search _ _ _) _) => apply kq_bind; [apply kq_vi_char_search|intros]
             | |- _ => kq_step
             end.
    Qed.

    Ltac kq_vi :=
      repeat (first [ apply kq_vi_num_args | apply kq_vi_arg_digit | apply kq_vi_char_search | apply kq_vi_cmd_motion
                    | kq_known | kq_step ] ||
              match goal with
              | |- kq (if ?c then _ else _) => destruct c
              | |- kq (match ?x with _ => _ end) => destruct x
              | |- kq (let '(_, _) := ?x in _) => destruct x
              | |- kq (let _ := _ in _) => cbv zeta
              end).

    Lemma kq_doing_insert : kq doing_insert. Proof. unfold doing_insert. kq_all. Qed.
    Lemma kq_done_inserting : kq done_inserting. Proof. unfold done_inserting. kq_all. Qed.

    Lemma kq_vi_command fuel k0 : kq (vi_command U cfg fuel k0).
    Proof.
      unfold vi_command. apply kq_bind.
      { destruct k0 as [[] m]; try (kq_all; fail).
        match goal with |- kq (if ?c then _ else _) => destruct c end; [apply kq_vi_arg_digit|kq_all]. }
      intros k. apply kq_get_bind. intros s0 _. cbv zeta.
      apply kq_bind; [apply kq_vi_num_args|]. intros n.
      apply kq_bind; [apply kq_custom_binding|]. intros cb. destruct cb as [c|]; [apply kq_redo_if|].
      apply kq_bind; [apply kq_term_binding|]. intros tb. destruct tb as [c|]; [kq_all|].
      cbv zeta. apply kq_bind; [|intros c; kq_all].
      unfold doing_insert.
      destruct k as [[] m]; try (kq_vi; fail).
    Qed.

    Lemma kq_vi_insert fuel k : kq (vi_insert U cfg fuel k).
    Proof.
      unfold vi_insert. apply kq_bind; [apply kq_custom_binding|]. intros cb. destruct cb as [c|]; [apply kq_redo_if|].
      apply kq_bind; [apply kq_term_binding|]. intros tb. destruct tb as [c|]; [kq_all|].
      cbv zeta. apply kq_bind; [|intros c; kq_all].
      unfold done_inserting.
      destruct k as [[] m];
        repeat (first [ apply kq_vi_command | kq_known | kq_step ] ||
                match goal with
                | |- kq (if ?c then _ else _) => destruct c
                | |- kq (match ?x with _ => _ end) => destruct x
                | |- kq (let _ := _ in _) => cbv zeta
                end).
    Qed.
  End Vi.

  Theorem kq_next_cmd fuel sea : kq (next_cmd U cfg fuel sea).
  Proof.
    unfold next_cmd. apply kq_bind; [kq_q|]. intros k. apply kq_get_bind. intros s0 _.
    apply kq_bind; [|intros c; kq_all].
    destruct (is_emacs cfg) eqn:Em.
    - apply kq_emacs. exact Em.
    - destruct (i_input_mode s0); [apply kq_vi_command|apply kq_vi_insert|apply kq_vi_insert]; exact Em.
  Qed.
End ReadNoPanic.
