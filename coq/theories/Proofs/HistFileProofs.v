(* Proofs about the history file format (C10, C12). *)
From RL Require Import Utf8 History HistFile Utf8Proofs.
From Coq Require Import ZifyBool ZifyN ZifyNat.

Local Open Scope N_scope.

(* ---------- escaping ---------- *)

Lemma unesc_bs_bs t : unesc (92 :: 92 :: t) = omap (cons 92) (unesc t).
Proof. reflexivity. Qed.
Lemma unesc_bs_n t : unesc (92 :: 110 :: t) = omap (cons 10) (unesc t).
Proof. reflexivity. Qed.
Lemma unesc_bs_r t : unesc (92 :: 114 :: t) = omap (cons 13) (unesc t).
Proof. reflexivity. Qed.
Lemma unesc_other c t : (c =? 92) = false -> unesc (c :: t) = omap (cons c) (unesc t).
Proof. intros H. cbn [unesc]. rewrite H. reflexivity. Qed.

Lemma esc_cons c s : esc (c :: s) = esc_char c ++ esc s.
Proof. reflexivity. Qed.

Lemma unesc_esc s : unesc (esc s) = Some s.
Proof.
  induction s as [|c s IH]; [reflexivity|].
  rewrite esc_cons. unfold esc_char.
  destruct (c =? 92) eqn:E1.
  { apply N.eqb_eq in E1; subst. cbn [app]. rewrite unesc_bs_bs, IH. reflexivity. }
  destruct (c =? 10) eqn:E2.
  { apply N.eqb_eq in E2; subst. cbn [app]. rewrite unesc_bs_n, IH. reflexivity. }
  destruct (c =? 13) eqn:E3.
  { apply N.eqb_eq in E3; subst. cbn [app]. rewrite unesc_bs_r, IH. reflexivity. }
  cbn [app]. rewrite unesc_other, IH by assumption. reflexivity.
Qed.

Lemma in_esc_char b c : In b (esc_char c) -> b <> 10 /\ b <> 13.
Proof.
  unfold esc_char.
  destruct (c =? 92) eqn:E1; [cbn; intros [<-|[<-|[]]]; lia|].
  destruct (c =? 10) eqn:E2; [cbn; intros [<-|[<-|[]]]; lia|].
  destruct (c =? 13) eqn:E3; [cbn; intros [<-|[<-|[]]]; lia|].
  cbn; intros [<-|[]]; lia.
Qed.

Lemma in_esc b s : In b (esc s) -> b <> 10 /\ b <> 13.
Proof.
  unfold esc. rewrite in_flat_map. intros [c [_ H]]. eapply in_esc_char; eauto.
Qed.

Lemma esc_no_lf s : ~ In 10 (esc s).
Proof. intros H. apply in_esc in H. lia. Qed.
Lemma esc_no_cr s : ~ In 13 (esc s).
Proof. intros H. apply in_esc in H. lia. Qed.

Lemma valid_esc s : valid_str s = true -> valid_str (esc s) = true.
Proof.
  unfold valid_str, esc. rewrite !forallb_forall. intros H x Hx.
  apply in_flat_map in Hx. destruct Hx as [c [Hc Hx]]. specialize (H c Hc).
  unfold esc_char in Hx.
  destruct (c =? 92); [destruct Hx as [<-|[<-|[]]]; reflexivity|].
  destruct (c =? 10); [destruct Hx as [<-|[<-|[]]]; reflexivity|].
  destruct (c =? 13); [destruct Hx as [<-|[<-|[]]]; reflexivity|].
  destruct Hx as [<-|[]]; assumption.
Qed.

Lemma esc_nil_iff s : esc s = [] <-> s = [].
Proof.
  split; [|intros ->; reflexivity].
  destruct s as [|c s]; [reflexivity|]. rewrite esc_cons. unfold esc_char.
  destruct (c =? 92); [discriminate|]. destruct (c =? 10); [discriminate|].
  destruct (c =? 13); discriminate.
Qed.

Lemma encode_no_lf s : ~ In 10 (encode (esc s)).
Proof. intros H. apply in_encode_ascii in H; [|lia]. exact (esc_no_lf _ H). Qed.
Lemma encode_no_cr s : ~ In 13 (encode (esc s)).
Proof. intros H. apply in_encode_ascii in H; [|lia]. exact (esc_no_cr _ H). Qed.

(* ---------- lines ---------- *)

Lemma split_lines_aux_line l rest cur :
  ~ In 10 l ->
  split_lines_aux (l ++ 10 :: rest) cur = (rev cur ++ l, true) :: split_lines_aux rest [].
Proof.
  revert cur. induction l as [|b l IH]; intros cur Hn.
  - cbn [app split_lines_aux]. change (10 =? 10) with true. cbn match. rewrite app_nil_r. reflexivity.
  - cbn [app split_lines_aux].
    destruct (b =? 10) eqn:E; [apply N.eqb_eq in E; subst; exfalso; apply Hn; left; reflexivity|].
    rewrite IH by (intros H; apply Hn; right; exact H).
    cbn [rev]. rewrite <- app_assoc. reflexivity.
Qed.

Lemma split_lines_line l rest :
  ~ In 10 l -> split_lines (l ++ 10 :: rest) = (l, true) :: split_lines rest.
Proof. intros H. unfold split_lines. rewrite split_lines_aux_line by assumption. reflexivity. Qed.

Definition line_of (e : str) : list N * bool := (encode (esc e), true).

Lemma split_lines_entries es rest :
  split_lines (entries_bytes es ++ rest) = map line_of es ++ split_lines rest.
Proof.
  induction es as [|e es IH]; [reflexivity|].
  unfold entries_bytes in *. cbn [flat_map map]. unfold entry_bytes at 1.
  rewrite <- !app_assoc. cbn [app]. rewrite split_lines_line by apply encode_no_lf.
  rewrite IH. reflexivity.
Qed.

Lemma strip_cr_notin l : ~ In 13 l -> strip_cr l = l.
Proof.
  intros H. unfold strip_cr. destruct (rev l) as [|c r] eqn:E; [reflexivity|].
  destruct (c =? 13) eqn:E1; [|reflexivity].
  apply N.eqb_eq in E1; subst. exfalso. apply H. apply in_rev. rewrite E. left; reflexivity.
Qed.

Lemma decode_line_of e : valid_str e = true -> decode_line (line_of e) = Some (esc e).
Proof.
  intros Hv. unfold decode_line, line_of.
  rewrite strip_cr_notin by apply encode_no_cr.
  rewrite decode_encode by (apply valid_esc; assumption). reflexivity.
Qed.

(* ---------- loading what was saved ---------- *)

Definition f_reset (f : fhist) : fhist := mkF (f_mem f) 0 (f_pinfo f).

Lemma f_add_pinfo U f l : f_pinfo (fst (f_add U f l)) = f_pinfo f.
Proof. unfold f_add. destruct (h_add U (f_mem f) l) as [m []]; reflexivity. Qed.

Lemma f_add_nil U f : f_add U f [] = (f, false).
Proof.
  unfold f_add, h_add, h_ignore. destruct (Nat.eqb (h_max (f_mem f)) 0); reflexivity.
Qed.

Lemma load_rest_entries U es : forall f app,
  Forall (fun e => valid_str e = true) es ->
  exists app', load_rest U true f app (map line_of es) = LOk (f_reset (f_add_all U f es)) app'.
Proof.
  induction es as [|e es IH]; intros f app Hv.
  - eexists. reflexivity.
  - inversion Hv as [|? ? He Hes]; subst. cbn [map load_rest f_add_all].
    rewrite decode_line_of by assumption.
    destruct (esc e) as [|x xs] eqn:E.
    + apply (proj1 (esc_nil_iff e)) in E. subst e. rewrite f_add_nil. cbn [fst]. apply IH; assumption.
    + rewrite <- E. rewrite unesc_esc.
      destruct (f_add U f e) as [f' b] eqn:Ea. cbn [fst]. apply IH; assumption.
Qed.

Lemma decode_line_header : decode_line (header, true) = Some header.
Proof. reflexivity. Qed.

Lemma split_lines_save es : split_lines (save_bytes es) = (header, true) :: map line_of es.
Proof.
  unfold save_bytes. cbn [app].
  change (header ++ 10 :: entries_bytes es) with (header ++ 10 :: entries_bytes es).
  rewrite split_lines_line.
  - rewrite <- (app_nil_r (entries_bytes es)). rewrite split_lines_entries. rewrite app_nil_r. reflexivity.
  - cbn. intros [H|[H|[H|[]]]]; discriminate.
Qed.

(* Loading a saved file offers exactly the saved entries, in order, to add. *)
Theorem load_save_general U f es :
  Forall (fun e => valid_str e = true) es ->
  exists app, load_from U f (save_bytes es) = LOk (f_reset (f_add_all U f es)) app.
Proof.
  intros Hv. unfold load_from. rewrite split_lines_save. rewrite decode_line_header.
  rewrite str_eqb_refl. apply load_rest_entries. assumption.
Qed.

(* ---------- well-formed entry lists: what adds can produce ---------- *)

Fixpoint no_consec_dup (es : list str) : Prop :=
  match es with
  | a :: ((b :: _) as t) => a <> b /\ no_consec_dup t
  | _ => True
  end.

Definition entry_ok (U : UData) (igs : bool) (e : str) : Prop :=
  match e with [] => False | c :: _ => (igs && u_is_whitespace U c) = false end.

Record wf_entries (U : UData) (max : nat) (igs igd : bool) (es : list str) : Prop := {
  wf_len : (length es <= max)%nat;
  wf_ok : Forall (entry_ok U igs) es;
  wf_dup : igd = true -> no_consec_dup es;
}.

Lemma no_consec_dup_snoc es e :
  no_consec_dup es -> last_opt es <> Some e -> no_consec_dup (es ++ [e]).
Proof.
  induction es as [|a es IH]; intros Hn Hl; [exact I|].
  destruct es as [|b es].
  - cbn. split; [intros ->; apply Hl; reflexivity|exact I].
  - cbn [app no_consec_dup] in *. destruct Hn as [Hab Hn]. split; [assumption|].
    apply IH; assumption.
Qed.

Lemma no_consec_dup_tl es : no_consec_dup es -> no_consec_dup (tl es).
Proof. destruct es as [|a [|b es]]; cbn; tauto. Qed.

Lemma last_opt_snoc {A} (l : list A) x : last_opt (l ++ [x]) = Some x.
Proof.
  induction l as [|a l IH]; [reflexivity|]. cbn [app last_opt].
  destruct (l ++ [x]) eqn:E; [destruct l; discriminate|]. exact IH.
Qed.

Lemma last_opt_tl {A} (l : list A) : (2 <= length l)%nat -> last_opt (tl l) = last_opt l.
Proof. destruct l as [|a [|b l]]; cbn [length]; try lia. reflexivity. Qed.

Definition cfg_of (f : fhist) := (h_max (f_mem f), h_ign_space (f_mem f), h_ign_dups (f_mem f)).

Lemma f_add_cfg U f l : cfg_of (fst (f_add U f l)) = cfg_of f.
Proof.
  unfold f_add, h_add. destruct (h_ignore U (f_mem f) l); [reflexivity|].
  unfold cfg_of. reflexivity.
Qed.

Lemma f_add_all_cfg U ls : forall f, cfg_of (f_add_all U f ls) = cfg_of f.
Proof.
  induction ls as [|l ls IH]; intros f; [reflexivity|]. cbn [f_add_all]. rewrite IH. apply f_add_cfg.
Qed.

Definition wf_f U (f : fhist) : Prop :=
  wf_entries U (h_max (f_mem f)) (h_ign_space (f_mem f)) (h_ign_dups (f_mem f)) (f_entries f).

Lemma tl_length {A} (l : list A) : length (tl l) = (length l - 1)%nat.
Proof. destruct l; cbn; lia. Qed.

Lemma Forall_tl {A} (P : A -> Prop) l : Forall P l -> Forall P (tl l).
Proof. destruct l; [auto|]. intros H; inversion H; assumption. Qed.

Definition f_inserted (f : fhist) (l : str) : fhist :=
  mkF (h_insert (f_mem f) l) (Nat.min (S (f_new f)) (hlen (h_insert (f_mem f) l))) (f_pinfo f).

Lemma f_add_spec U f l :
  f_add U f l = (f, false) \/
  (f_add U f l = (f_inserted f l, true)
   /\ h_max (f_mem f) <> 0%nat /\ entry_ok U (h_ign_space (f_mem f)) l
   /\ (h_ign_dups (f_mem f) = true -> last_opt (h_entries (f_mem f)) <> Some l)).
Proof.
  unfold f_add, h_add, h_ignore.
  destruct (Nat.eqb (h_max (f_mem f)) 0) eqn:Emax; [left; reflexivity|].
  apply Nat.eqb_neq in Emax.
  destruct l as [|c l]; [left; reflexivity|].
  destruct (h_ign_space (f_mem f) && u_is_whitespace U c) eqn:Ews; [left; reflexivity|].
  destruct (h_ign_dups (f_mem f)) eqn:Edup.
  - destruct (last_opt (h_entries (f_mem f))) as [s|] eqn:El.
    + destruct (str_eqb s (c :: l)) eqn:Eeq; [left; reflexivity|].
      right. split; [reflexivity|]. split; [assumption|]. split; [exact Ews|].
      intros _ H. inversion H; subst. rewrite str_eqb_refl in Eeq. discriminate.
    + right. split; [reflexivity|]. split; [assumption|]. split; [exact Ews|]. intros _ H; discriminate.
  - right. split; [reflexivity|]. split; [assumption|]. split; [exact Ews|]. intros H; discriminate.
Qed.

Lemma f_add_wf U f l : wf_f U f -> wf_f U (fst (f_add U f l)).
Proof.
  intros Hwf. destruct (f_add_spec U f l) as [->|[-> [Hmax [Hok Hnd]]]]; [exact Hwf|].
  destruct Hwf as [Hl Ho Hd]. cbn [fst].
  unfold wf_f, f_inserted, f_entries, h_insert, hlen in *. cbn [f_mem h_entries h_max h_ign_space h_ign_dups].
  destruct (Nat.eqb (length (h_entries (f_mem f))) (h_max (f_mem f))) eqn:Efull.
  - apply Nat.eqb_eq in Efull. split.
    + rewrite app_length, tl_length. cbn [length]. lia.
    + apply Forall_app. split; [apply Forall_tl; assumption|]. constructor; [exact Hok|constructor].
    + intros Hd'. apply no_consec_dup_snoc; [apply no_consec_dup_tl; auto|].
      destruct (Nat.le_gt_cases 2 (length (h_entries (f_mem f)))) as [H2|H2].
      * rewrite last_opt_tl by assumption. auto.
      * destruct (h_entries (f_mem f)) as [|a [|b t]]; cbn [length] in *; try lia; cbn; discriminate.
  - apply Nat.eqb_neq in Efull. split.
    + rewrite app_length. cbn [length]. lia.
    + apply Forall_app. split; [assumption|]. constructor; [exact Hok|constructor].
    + intros Hd'. apply no_consec_dup_snoc; auto.
Qed.

Lemma f_add_all_wf U ls : forall f, wf_f U f -> wf_f U (f_add_all U f ls).
Proof.
  induction ls as [|l ls IH]; intros f H; [exact H|]. cbn [f_add_all]. apply IH. apply f_add_wf. exact H.
Qed.

Lemma wf_fresh U max igs igd : wf_f U (f_new_cfg max igs igd).
Proof. split; cbn; [lia|constructor|intros; exact I]. Qed.

(* every history built from a fresh one by adds (and loads, which are adds) is well formed *)
Lemma adds_wf U max igs igd ls : wf_f U (f_add_all U (f_new_cfg max igs igd) ls).
Proof. apply f_add_all_wf. apply wf_fresh. Qed.

Lemma adds_wf_entries U max igs igd ls :
  wf_entries U max igs igd (f_entries (f_add_all U (f_new_cfg max igs igd) ls)).
Proof.
  pose proof (adds_wf U max igs igd ls) as H. unfold wf_f in H.
  pose proof (f_add_all_cfg U ls (f_new_cfg max igs igd)) as Hc. unfold cfg_of in Hc.
  cbn [f_new_cfg hist_new f_mem h_max h_ign_space h_ign_dups] in Hc.
  injection Hc as H1 H2 H3. rewrite H1, H2, H3 in H. exact H.
Qed.

(* re-adding a well-formed list to a history that holds a well-formed prefix *)
Lemma f_add_all_accepts U es2 : forall f,
  wf_entries U (h_max (f_mem f)) (h_ign_space (f_mem f)) (h_ign_dups (f_mem f)) (f_entries f ++ es2) ->
  f_entries (f_add_all U f es2) = f_entries f ++ es2.
Proof.
  induction es2 as [|e es2 IH]; intros f Hwf; [cbn; rewrite app_nil_r; reflexivity|].
  cbn [f_add_all].
  assert (Hadd : f_entries (fst (f_add U f e)) = f_entries f ++ [e] /\ cfg_of (fst (f_add U f e)) = cfg_of f).
  { split; [|apply f_add_cfg].
    destruct Hwf as [Hl Ho Hd]. unfold f_add, h_add, h_ignore.
    rewrite app_length in Hl. cbn [length] in Hl. unfold f_entries in *.
    destruct (Nat.eqb (h_max (f_mem f)) 0) eqn:Emax; [apply Nat.eqb_eq in Emax; lia|].
    apply Forall_app in Ho. destruct Ho as [_ Ho]. inversion Ho as [|? ? He _]; subst.
    destruct e as [|c e]; [destruct He|]. cbn in He. rewrite He.
    assert (Hins : f_entries (mkF (h_insert (f_mem f) (c :: e))
                     (Nat.min (S (f_new f)) (hlen (h_insert (f_mem f) (c :: e)))) (f_pinfo f))
                   = h_entries (f_mem f) ++ [c :: e]).
    { unfold f_entries, h_insert, hlen. cbn [f_mem h_entries].
      destruct (Nat.eqb (length (h_entries (f_mem f))) (h_max (f_mem f))) eqn:Efull;
        [apply Nat.eqb_eq in Efull; lia|reflexivity]. }
    destruct (h_ign_dups (f_mem f)) eqn:Edup; [|exact Hins].
    destruct (last_opt (h_entries (f_mem f))) as [s|] eqn:El; [|exact Hins].
    destruct (str_eqb s (c :: e)) eqn:Eeq; [|exact Hins].
    exfalso. apply str_eqb_eq in Eeq. subst s. specialize (Hd eq_refl).
    clear - Hd El. revert Hd El. generalize (h_entries (f_mem f)) as l.
    induction l as [|a l IHl]; [discriminate|]. intros Hd El.
    destruct l as [|b l].
    - cbn in El. inversion El; subst. cbn in Hd. destruct Hd as [Hd _]. apply Hd; reflexivity.
    - apply IHl; [cbn [app no_consec_dup] in *; tauto|exact El]. }
  destruct Hadd as [He Hc]. rewrite IH.
  - rewrite He. rewrite <- app_assoc. reflexivity.
  - unfold cfg_of in Hc. inversion Hc as [[H1 H2 H3]]. rewrite H1, H2, H3, He, <- app_assoc. exact Hwf.
Qed.

(* C10: save, then load into a fresh history with the same settings *)
Theorem save_load U max igs igd es :
  Forall (fun e => valid_str e = true) es ->
  wf_entries U max igs igd es ->
  exists f app, load_from U (f_new_cfg max igs igd) (save_bytes es) = LOk f app
                /\ f_entries f = es.
Proof.
  intros Hv Hwf. destruct (load_save_general U (f_new_cfg max igs igd) es Hv) as [app H].
  eexists; eexists; split; [exact H|].
  unfold f_reset, f_entries. cbn [f_mem].
  change (h_entries (f_mem (f_add_all U (f_new_cfg max igs igd) es)))
    with (f_entries (f_add_all U (f_new_cfg max igs igd) es)).
  rewrite f_add_all_accepts; [reflexivity|exact Hwf].
Qed.

(* append fast path: the bytes are those of one save of old ++ new *)
Lemma save_bytes_app a b : save_bytes a ++ entries_bytes b = save_bytes (a ++ b).
Proof. unfold save_bytes, entries_bytes. rewrite flat_map_app, <- !app_assoc. reflexivity. Qed.

(* ---------- legacy files ---------- *)

Lemma load_rest_legacy U ls : forall f lines,
  map decode_line lines = map Some ls ->
  load_rest U false f false lines = LOk (f_reset (f_add_all U f ls)) false.
Proof.
  induction ls as [|l ls IH]; intros f lines H.
  - destruct lines; [reflexivity|discriminate].
  - destruct lines as [|lb lines]; [discriminate|]. cbn [map] in H. inversion H as [[H1 H2]].
    cbn [load_rest f_add_all]. rewrite H1.
    destruct l as [|c l].
    + rewrite f_add_nil. cbn [fst]. apply IH; assumption.
    + destruct (f_add U f (c :: l)) as [f' b]. cbn [fst andb]. apply IH; assumption.
Qed.

(* C10: a file whose first line is not "#V2": every line is offered,
   verbatim and in order, to add (which refuses the empty ones) *)
Theorem legacy_load U f bytes ls :
  map decode_line (split_lines bytes) = map Some ls ->
  hd [] ls <> header ->
  load_from U f bytes = LOk (f_reset (f_add_all U f ls)) false.
Proof.
  intros H Hh. unfold load_from.
  destruct (split_lines bytes) as [|lb lines].
  - destruct ls; [reflexivity|discriminate].
  - destruct ls as [|l ls]; [discriminate|]. cbn [map] in H. inversion H as [[H1 H2]].
    rewrite H1. cbn [hd] in Hh.
    destruct (str_eqb l header) eqn:E; [apply str_eqb_eq in E; contradiction|].
    cbn [f_add_all]. destruct (f_add U f l) as [f' b]. cbn [fst].
    apply load_rest_legacy. assumption.
Qed.

(* ---------- torn files (C12) ---------- *)

Lemma firstn_entries_bytes es : forall m,
  exists j partial,
    firstn m (entries_bytes es) = entries_bytes (firstn j es) ++ partial
    /\ (partial = [] \/ exists e r, nth_error es j = Some e /\ encode (esc e) = partial ++ r).
Proof.
  induction es as [|e es IH]; intros m.
  - exists 0%nat, []. rewrite firstn_nil. split; [reflexivity|left; reflexivity].
  - unfold entries_bytes in *. cbn [flat_map].
    destruct (Nat.le_gt_cases (length (entry_bytes e)) m) as [Hle|Hgt].
    + destruct (IH (m - length (entry_bytes e))%nat) as [j [p [H1 H2]]].
      exists (S j), p. cbn [firstn flat_map nth_error]. rewrite firstn_app, H1.
      rewrite firstn_all2 by assumption. rewrite <- app_assoc. split; [reflexivity|exact H2].
    + exists 0%nat, (firstn m (encode (esc e))). cbn [firstn flat_map app nth_error].
      unfold entry_bytes in *. rewrite app_length in Hgt. cbn [length] in Hgt.
      rewrite firstn_app. replace (m - length (encode (esc e) ++ [10%N]))%nat with 0%nat
        by (rewrite app_length; cbn [length]; lia).
      cbn [firstn]. rewrite app_nil_r. rewrite firstn_app.
      replace (m - length (encode (esc e)))%nat with 0%nat by lia. cbn [firstn]. rewrite app_nil_r.
      split; [reflexivity|]. right. exists e, (skipn m (encode (esc e))).
      split; [reflexivity|]. symmetry. apply firstn_skipn.
Qed.

Lemma split_lines_aux_nolf p : forall cur,
  ~ In 10 p ->
  split_lines_aux p cur = match rev cur ++ p with [] => [] | l => [(l, false)] end.
Proof.
  induction p as [|b p IH]; intros cur Hn.
  - cbn [split_lines_aux]. rewrite app_nil_r. destruct cur as [|c cur]; [reflexivity|].
    destruct (rev (c :: cur)) eqn:E; [|reflexivity].
    apply (f_equal (@length N)) in E. rewrite rev_length in E. discriminate.
  - cbn [split_lines_aux].
    destruct (b =? 10) eqn:E; [apply N.eqb_eq in E; subst; exfalso; apply Hn; left; reflexivity|].
    rewrite IH by (intros H; apply Hn; right; exact H). cbn [rev]. rewrite <- app_assoc. reflexivity.
Qed.

Lemma split_lines_nolf p : ~ In 10 p ->
  split_lines p = match p with [] => [] | l => [(l, false)] end.
Proof. intros H. unfold split_lines. rewrite split_lines_aux_nolf by assumption. cbn [rev app]. destruct p; reflexivity. Qed.

(* a cut of an escaped entry unescapes to a cut of the entry *)
Lemma unesc_prefix e : forall s' r,
  esc e = s' ++ r -> exists e' r', unesc s' = Some e' /\ e = e' ++ r'.
Proof.
  induction e as [|c e IH]; intros s' r H.
  - destruct s'; [|discriminate]. exists [], []. split; reflexivity.
  - destruct s' as [|x s'].
    { exists [], (c :: e). split; reflexivity. }
    rewrite esc_cons in H. unfold esc_char in H.
    assert (Hspecial : forall y, esc_char c = [92; y] ->
               (forall t, unesc (92 :: y :: t) = omap (cons c) (unesc t)) ->
               ([92; y] ++ esc e = (x :: s') ++ r) ->
               exists e' r', unesc (x :: s') = Some e' /\ c :: e = e' ++ r').
    { intros y _ Hu Heq. cbn [app] in Heq. inversion Heq as [[Hx Hrest]]. subst x.
      destruct s' as [|x2 s'].
      - exists [], (c :: e). split; reflexivity.
      - cbn [app] in Hrest. inversion Hrest as [[Hx2 Hrest']]. subst x2.
        destruct (IH s' r Hrest') as [e' [r' [H1 H2]]]. 
        exists (c :: e'), r'. rewrite Hu, H1. split; [reflexivity|]. cbn [app]. rewrite H2. reflexivity. }
    destruct (c =? 92) eqn:E1.
    { apply N.eqb_eq in E1. subst c. apply (Hspecial 92); [reflexivity|exact unesc_bs_bs|exact H]. }
    destruct (c =? 10) eqn:E2.
    { apply N.eqb_eq in E2. subst c. apply (Hspecial 110); [reflexivity|exact unesc_bs_n|exact H]. }
    destruct (c =? 13) eqn:E3.
    { apply N.eqb_eq in E3. subst c. apply (Hspecial 114); [reflexivity|exact unesc_bs_r|exact H]. }
    cbn [app] in H. inversion H as [[Hx Hrest]]. subst x.
    destruct (IH s' r Hrest) as [e' [r' [H1 H2]]].
    exists (c :: e'), r'. rewrite unesc_other by assumption. rewrite H1. split; [reflexivity|].
    cbn [app]. rewrite H2. reflexivity.
Qed.

Lemma load_rest_app U v2 l1 : forall f ap f' ap',
  load_rest U v2 f ap l1 = LOk f' ap' ->
  exists f1 ap1, f' = f_reset f1
                  /\ forall l2, load_rest U v2 f ap (l1 ++ l2) = load_rest U v2 f1 ap1 l2.
Proof.
  induction l1 as [|lb l1 IH]; intros f ap f' ap' H.
  - cbn [load_rest] in H. inversion H; subst. exists f, ap'. split; [reflexivity|]. intros; reflexivity.
  - cbn [load_rest app] in *. destruct (decode_line lb) as [line|]; [|discriminate].
    destruct line as [|c line].
    + destruct (IH f ap f' ap' H) as [f1 [ap1 [H1 H2]]]. exists f1, ap1. split; [exact H1|].
      intros l2'. apply H2.
    + destruct (f_add U f _) as [fa b].
      destruct (IH fa (ap && b) f' ap' H) as [f1 [ap1 [H1 H2]]]. exists f1, ap1.
      split; [exact H1|]. intros l2'. apply H2.
Qed.

Definition is_prefix (a b : str) : Prop := exists r, b = a ++ r.

Lemma f_add_all_app U a b f : f_add_all U f (a ++ b) = f_add_all U (f_add_all U f a) b.
Proof. revert f; induction a as [|x a IH]; intros f; [reflexivity|]. cbn [app f_add_all]. apply IH. Qed.

Lemma f_entries_reset f : f_entries (f_reset f) = f_entries f.
Proof. reflexivity. Qed.

(* C12: a prefix (>= the 4 header bytes) of a written file *)
Theorem torn_load U f es k :
  Forall (fun e => valid_str e = true) es -> (4 <= k)%nat -> length header = 3%nat ->
  exists j last,
    (last = [] \/ exists e' e, last = [e'] /\ nth_error es j = Some e /\ is_prefix e' e)
    /\ match load_from U f (firstn k (save_bytes es)) with
       | LOk f' _ => f_entries f' = f_entries (f_add_all U f (firstn j es ++ last))
       | LErr f' => f_entries f' = f_entries (f_add_all U f (firstn j es))
       end.
Proof.
  intros Hv Hk Hh. unfold save_bytes.
  rewrite firstn_app. rewrite firstn_all2 by lia. rewrite Hh.
  destruct (k - 3)%nat as [|m] eqn:Ek; [lia|]. cbn [app firstn].
  destruct (firstn_entries_bytes es m) as [j [p [Hf Hp]]]. rewrite Hf.
  assert (Hvj : Forall (fun e => valid_str e = true) (firstn j es)).
  { apply Forall_forall. intros x Hx. rewrite Forall_forall in Hv. apply Hv.
    rewrite <- (firstn_skipn j es). apply in_or_app. left. exact Hx. }
  unfold load_from.
  rewrite split_lines_line by (intros Hin; pose proof Hh; unfold header, GenConsts.file_version_v2 in Hin;
                               cbn in Hin; destruct Hin as [Hx|[Hx|[Hx|[]]]]; discriminate).
  rewrite decode_line_header, str_eqb_refl. rewrite split_lines_entries.
  destruct (load_rest_entries U (firstn j es) f true Hvj) as [app1 Hl1].
  destruct (load_rest_app U true (map line_of (firstn j es)) f true _ _ Hl1) as [f1 [app2 [Hf1 Hcont]]].
  rewrite Hcont.
  assert (Hent1 : f_entries f1 = f_entries (f_add_all U f (firstn j es))).
  { rewrite <- (f_entries_reset f1), <- Hf1. reflexivity. }
  destruct Hp as [->|[e [r [Hn Henc]]]].
  - exists j, []. split; [left; reflexivity|]. change (split_lines []) with (@nil (list N * bool)).
    cbn [load_rest]. rewrite app_nil_r. exact Hent1.
  - assert (Hnolf : ~ In 10 p).
    { intros Hin. apply (encode_no_lf e). rewrite Henc. apply in_or_app. left. exact Hin. }
    rewrite split_lines_nolf by assumption.
    destruct p as [|b p'].
    { exists j, []. split; [left; reflexivity|]. cbn [load_rest]. rewrite app_nil_r. exact Hent1. }
    cbn [load_rest]. unfold decode_line.
    destruct (decode (b :: p')) as [s'|] eqn:Ed.
    + apply decode_sound in Ed. destruct Ed as [Eenc Evs].
      assert (Hve : valid_str e = true).
      { rewrite Forall_forall in Hv. apply Hv. eapply nth_error_In. exact Hn. }
      destruct (encode_prefix s' (esc e) r Evs (valid_esc e Hve)) as [t Ht]; [rewrite Eenc; symmetry; exact Henc|].
      destruct (unesc_prefix e s' t Ht) as [e' [r' [Hu He]]].
      exists j, [e']. split; [right; exists e', e; split; [reflexivity|split; [exact Hn|exists r'; exact He]]|].
      destruct s' as [|c0 s0]; [cbn in Eenc; discriminate Eenc|].
      rewrite Hu. destruct (f_add U f1 e') as [fa ba] eqn:Ea. cbn [load_rest].
      change (f_entries (mkF (f_mem fa) 0 (f_pinfo fa))) with (f_entries fa).
      rewrite f_add_all_app. cbn [f_add_all].
      assert (Hsame : forall g1 g2 l, f_entries g1 = f_entries g2 -> cfg_of g1 = cfg_of g2 ->
                                       f_entries (fst (f_add U g1 l)) = f_entries (fst (f_add U g2 l))).
      { intros g1 g2 l He1 Hc1. unfold f_add, h_add, h_ignore, f_entries, cfg_of, h_insert, hlen in *.
        inversion Hc1 as [[Hm Hs Hd]]. rewrite He1, Hm, Hs, Hd.
        destruct (Nat.eqb (h_max (f_mem g2)) 0); [cbn [fst]; exact He1|].
        destruct l as [|c l]; [cbn [fst]; exact He1|].
        destruct (h_ign_space (f_mem g2) && u_is_whitespace U c); [cbn [fst]; exact He1|].
        destruct (h_ign_dups (f_mem g2)).
        - destruct (last_opt (h_entries (f_mem g2))) as [s|].
          + destruct (str_eqb s (c :: l)); cbn [fst f_mem h_entries]; [exact He1|reflexivity].
          + cbn [fst f_mem h_entries]. reflexivity.
        - cbn [fst f_mem h_entries]. reflexivity. }
      replace fa with (fst (f_add U f1 e')) by (rewrite Ea; reflexivity).
      apply Hsame; [exact Hent1|].
      rewrite f_add_all_cfg.
      assert (Hc : cfg_of (f_reset f1) = cfg_of f1) by reflexivity.
      rewrite <- Hc, <- Hf1. unfold f_reset, cfg_of. cbn [f_mem].
      change (h_max (f_mem (f_add_all U f (firstn j es))), h_ign_space (f_mem (f_add_all U f (firstn j es))),
              h_ign_dups (f_mem (f_add_all U f (firstn j es)))) with (cfg_of (f_add_all U f (firstn j es))).
      apply f_add_all_cfg.
    + exists j, []. split; [left; reflexivity|]. exact Hent1.
Qed.

Lemma header_len : length header = 3%nat.
Proof. reflexivity. Qed.

Lemma no_consec_dup_firstn j : forall es, no_consec_dup es -> no_consec_dup (firstn j es).
Proof.
  induction j as [|j IH]; intros es H; [exact I|].
  destruct es as [|a es]; [exact I|]. cbn [firstn].
  destruct es as [|b es]; [destruct j; exact I|].
  destruct H as [Hab H]. specialize (IH _ H). destruct j as [|j]; [exact I|].
  cbn [firstn] in *. split; assumption.
Qed.

Lemma wf_firstn U max igs igd es j : wf_entries U max igs igd es -> wf_entries U max igs igd (firstn j es).
Proof.
  intros [Hl Ho Hd]. split.
  - rewrite firstn_length. lia.
  - apply Forall_forall. intros x Hx. rewrite Forall_forall in Ho. apply Ho.
    rewrite <- (firstn_skipn j es). apply in_or_app. left. exact Hx.
  - intros H. apply no_consec_dup_firstn. auto.
Qed.

(* C12 for the files rustyline itself writes: what is loaded from a prefix is
   a prefix of the entry list, then at most one cut-short entry *)
Theorem torn_load_wf U max igs igd es k :
  Forall (fun e => valid_str e = true) es -> wf_entries U max igs igd es -> (4 <= k)%nat ->
  exists j last,
    (last = [] \/ exists e' e, last = [e'] /\ nth_error es j = Some e /\ is_prefix e' e)
    /\ match load_from U (f_new_cfg max igs igd) (firstn k (save_bytes es)) with
       | LOk f' _ | LErr f' => f_entries f' = firstn j es ++ last
       end.
Proof.
  intros Hv Hwf Hk.
  destruct (torn_load U (f_new_cfg max igs igd) es k Hv Hk header_len) as [j [last [Hlast Hload]]].
  set (f0 := f_new_cfg max igs igd) in *.
  assert (Hpre : f_entries (f_add_all U f0 (firstn j es)) = firstn j es).
  { rewrite f_add_all_accepts; [reflexivity|]. cbn. apply wf_firstn. exact Hwf. }
  destruct (load_from U f0 (firstn k (save_bytes es))) as [f' ap|f'] eqn:El.
  2:{ exists j, []. split; [left; reflexivity|]. rewrite app_nil_r. rewrite Hload. exact Hpre. }
  destruct Hlast as [->|[e' [e [-> [Hn Hp]]]]].
  - exists j, []. split; [left; reflexivity|]. rewrite app_nil_r in *. rewrite Hload. exact Hpre.
  - rewrite f_add_all_app in Hload. cbn [f_add_all] in Hload.
    set (f1 := f_add_all U f0 (firstn j es)) in *.
    destruct (f_add_spec U f1 e') as [Hs|[Hs _]].
    + exists j, []. split; [left; reflexivity|]. rewrite app_nil_r. rewrite Hs in Hload. cbn [fst] in Hload.
      rewrite Hload. exact Hpre.
    + exists j, [e']. split; [right; exists e', e; auto|].
      rewrite Hs in Hload. cbn [fst] in Hload. rewrite Hload.
      unfold f_inserted, f_entries, h_insert, hlen. cbn [f_mem h_entries].
      change (h_entries (f_mem f1)) with (f_entries f1). rewrite Hpre.
      assert (Hcfg : cfg_of f1 = cfg_of f0) by (unfold f1; apply f_add_all_cfg).
      unfold cfg_of in Hcfg. cbn in Hcfg. inversion Hcfg as [[Hm Hx Hy]]. rewrite Hm.
      destruct Hwf as [Hl _ _].
      assert (Hj : (j < length es)%nat) by (apply nth_error_Some; rewrite Hn; discriminate).
      rewrite firstn_length. replace (Nat.min j (length es)) with j by lia.
      destruct (Nat.eqb j max) eqn:E; [apply Nat.eqb_eq in E; lia|reflexivity].
Qed.

(* ---------- arbitrary bytes (C12): nothing is invented, errors keep what was loaded ---------- *)

Definition unesc_or_raw (l : str) : str := match unesc l with Some s => s | None => l end.

Definition offered (raws : list str) : list str :=
  match raws with
  | [] => []
  | r0 :: rest => if str_eqb r0 header then map unesc_or_raw rest else raws
  end.

Lemma load_rest_sound U v2 lines : forall f ap,
  exists n raws,
    map decode_line (firstn n lines) = map Some raws
    /\ match load_rest U v2 f ap lines with
       | LOk f' _ => n = length lines
                     /\ f_entries f' = f_entries (f_add_all U f (if v2 then map unesc_or_raw raws else raws))
       | LErr f' => (n < length lines)%nat
                    /\ nth_error (map decode_line lines) n = Some None
                    /\ f_entries f' = f_entries (f_add_all U f (if v2 then map unesc_or_raw raws else raws))
       end.
Proof.
  induction lines as [|lb lines IH]; intros f ap.
  - exists 0%nat, []. split; [reflexivity|]. cbn [load_rest]. split; [reflexivity|]. destruct v2; reflexivity.
  - cbn [load_rest]. destruct (decode_line lb) as [line|] eqn:Ed.
    2:{ exists 0%nat, []. split; [reflexivity|]. split; [cbn; lia|]. split; [cbn; rewrite Ed; reflexivity|].
        destruct v2; reflexivity. }
    assert (Hgoal : forall f1 ap1, f1 = fst (f_add U f (if v2 then unesc_or_raw line else line)) ->
      exists n raws,
        map decode_line (firstn n (lb :: lines)) = map Some raws
        /\ match load_rest U v2 f1 ap1 lines with
           | LOk f' _ => n = length (lb :: lines)
                         /\ f_entries f' = f_entries (f_add_all U f (if v2 then map unesc_or_raw raws else raws))
           | LErr f' => (n < length (lb :: lines))%nat
                        /\ nth_error (map decode_line (lb :: lines)) n = Some None
                        /\ f_entries f' = f_entries (f_add_all U f (if v2 then map unesc_or_raw raws else raws))
           end).
    { intros f1 ap1 Hf1. destruct (IH f1 ap1) as [n [raws [H1 H2]]].
      exists (S n), (line :: raws). split; [cbn [firstn map]; rewrite Ed, H1; reflexivity|].
      assert (Hall : f_add_all U f (if v2 then map unesc_or_raw (line :: raws) else line :: raws)
                     = f_add_all U f1 (if v2 then map unesc_or_raw raws else raws)).
      { subst f1. destruct v2; reflexivity. }
      rewrite Hall. destruct (load_rest U v2 f1 ap1 lines).
      - destruct H2 as [H2 H3]. split; [cbn [length]; lia|exact H3].
      - destruct H2 as [H2 [H3 H4]]. split; [cbn [length]; lia|]. split; [exact H3|exact H4]. }
    destruct line as [|c line].
    + apply (Hgoal f ap). destruct v2; [cbn|]; rewrite f_add_nil; reflexivity.
    + match goal with |- context [f_add U f ?x] => destruct (f_add U f x) as [fa b] eqn:Ea end.
      apply (Hgoal fa (ap && b)). unfold unesc_or_raw. rewrite Ea. reflexivity.
Qed.

Theorem load_sound U f bytes :
  exists n raws,
    map decode_line (firstn n (split_lines bytes)) = map Some raws
    /\ match load_from U f bytes with
       | LOk f' _ => n = length (split_lines bytes)
                     /\ f_entries f' = f_entries (f_add_all U f (offered raws))
       | LErr f' => (n < length (split_lines bytes))%nat
                    /\ nth_error (map decode_line (split_lines bytes)) n = Some None
                    /\ f_entries f' = f_entries (f_add_all U f (offered raws))
       end.
Proof.
  unfold load_from. destruct (split_lines bytes) as [|lb lines].
  - exists 0%nat, []. split; [reflexivity|]. split; reflexivity.
  - destruct (decode_line lb) as [line|] eqn:Ed.
    2:{ exists 0%nat, []. split; [reflexivity|]. split; [cbn; lia|]. split; [cbn; rewrite Ed; reflexivity|reflexivity]. }
    destruct (str_eqb line header) eqn:Eh.
    + destruct (load_rest_sound U true lines f true) as [n [raws [H1 H2]]].
      exists (S n), (line :: raws). split; [cbn [firstn map]; rewrite Ed, H1; reflexivity|].
      unfold offered. rewrite Eh. destruct (load_rest U true f true lines).
      * destruct H2 as [H2 H3]. split; [cbn [length]; lia|exact H3].
      * destruct H2 as [H2 [H3 H4]]. split; [cbn [length]; lia|]. split; [exact H3|exact H4].
    + destruct (f_add U f line) as [fa b] eqn:Ea.
      destruct (load_rest_sound U false lines fa false) as [n [raws [H1 H2]]].
      exists (S n), (line :: raws). split; [cbn [firstn map]; rewrite Ed, H1; reflexivity|].
      unfold offered. rewrite Eh. cbn [f_add_all]. rewrite Ea. cbn [fst].
      destruct (load_rest U false fa false lines).
      * destruct H2 as [H2 H3]. split; [cbn [length]; lia|exact H3].
      * destruct H2 as [H2 [H3 H4]]. split; [cbn [length]; lia|]. split; [exact H3|exact H4].
Qed.
