(* Proofs about the history file format (C10, C12). *)
From RL Require Import Utf8 History HistFile Utf8Proofs.
From Coq Require Import ZifyBool ZifyN ZifyNat.

Local Open Scope N_scope.

(* ---------- escaping ---------- *)

Lemma unesc_bs_bs t : unesc (92 :: 92 :: t) = omap (cons 92) (unesc t).
Proof. reflexivity. Qed.
Lemma unesc_bs_n t : unesc (92 :: 110 :: t) = omap (cons 10) (unesc t).
Proof. reflexivity. Qed.
Lemma unesc_bs_r t : unesc (92 :: 114 :: t) = omap (cons 13) (unesc t).
Proof. reflexivity. Qed.
Lemma unesc_other c t : (c =? 92) = false -> unesc (c :: t) = omap (cons c) (unesc t).
Proof. intros H. cbn [unesc]. rewrite H. reflexivity. Qed.

Lemma esc_cons c s : esc (c :: s) = esc_char c ++ esc s.
Proof. reflexivity. Qed.

Lemma unesc_esc s : unesc (esc s) = Some s.
Proof.
  induction s as [|c s IH]; [reflexivity|].
  rewrite esc_cons. unfold esc_char.
  destruct (c =? 92) eqn:E1.
  { apply N.eqb_eq in E1; subst. cbn [app]. rewrite unesc_bs_bs, IH. reflexivity. }
  destruct (c =? 10) eqn:E2.
  { apply N.eqb_eq in E2; subst. cbn [app]. rewrite unesc_bs_n, IH. reflexivity. }
  destruct (c =? 13) eqn:E3.
  { apply N.eqb_eq in E3; subst. cbn [app]. rewrite unesc_bs_r, IH. reflexivity. }
  cbn [app]. rewrite unesc_other, IH by assumption. reflexivity.
Qed.

Lemma in_esc_char b c : In b (esc_char c) -> b <> 10 /\ b <> 13.
Proof.
  unfold esc_char.
  destruct (c =? 92) eqn:E1; [cbn; intros [<-|[<-|[]]]; lia|].
  destruct (c =? 10) eqn:E2; [cbn; intros [<-|[<-|[]]]; lia|].
  destruct (c =? 13) eqn:E3; [cbn; intros [<-|[<-|[]]]; lia|].
  cbn; intros [<-|[]]; lia.
Qed.

Lemma in_esc b s : In b (esc s) -> b <> 10 /\ b <> 13.
Proof.
  unfold esc. rewrite in_flat_map. intros [c [_ H]]. eapply in_esc_char; eauto.
Qed.

Lemma esc_no_lf s : ~ In 10 (esc s).
Proof. intros H. apply in_esc in H. lia. Qed.
Lemma esc_no_cr s : ~ In 13 (esc s).
Proof. intros H. apply in_esc in H. lia. Qed.

Lemma valid_esc s : valid_str s = true -> valid_str (esc s) = true.
Proof.
  unfold valid_str, esc. rewrite !forallb_forall. intros H x Hx.
  apply in_flat_map in Hx. destruct Hx as [c [Hc Hx]]. specialize (H c Hc).
  unfold esc_char in Hx.
  destruct (c =? 92); [destruct Hx as [<-|[<-|[]]]; reflexivity|].
  destruct (c =? 10); [destruct Hx as [<-|[<-|[]]]; reflexivity|].
  destruct (c =? 13); [destruct Hx as [<-|[<-|[]]]; reflexivity|].
  destruct Hx as [<-|[]]; assumption.
Qed.

Lemma esc_nil_iff s : esc s = [] <-> s = [].
Proof.
  split; [|intros ->; reflexivity].
  destruct s as [|c s]; [reflexivity|]. rewrite esc_cons. unfold esc_char.
  destruct (c =? 92); [discriminate|]. destruct (c =? 10); [discriminate|].
  destruct (c =? 13); discriminate.
Qed.

Lemma encode_no_lf s : ~ In 10 (encode (esc s)).
Proof. intros H. apply in_encode_ascii in H; [|lia]. exact (esc_no_lf _ H). Qed.
Lemma encode_no_cr s : ~ In 13 (encode (esc s)).
Proof. intros H. apply in_encode_ascii in H; [|lia]. exact (esc_no_cr _ H). Qed.

(* ---------- lines ---------- *)

Lemma split_lines_aux_line l rest cur :
  ~ In 10 l ->
  split_lines_aux (l ++ 10 :: rest) cur = (rev cur ++ l, true) :: split_lines_aux rest [].
Proof.
  revert cur. induction l as [|b l IH]; intros cur Hn.
  - cbn [app split_lines_aux]. change (10 =? 10) with true. cbn match. rewrite app_nil_r. reflexivity.
  - cbn [app split_lines_aux].
    destruct (b =? 10) eqn:E; [apply N.eqb_eq in E; subst; exfalso; apply Hn; left; reflexivity|].
    rewrite IH by (intros H; apply Hn; right; exact H).
    cbn [rev]. rewrite <- app_assoc. reflexivity.
Qed.

Lemma split_lines_line l rest :
  ~ In 10 l -> split_lines (l ++ 10 :: rest) = (l, true) :: split_lines rest.
Proof. intros H. unfold split_lines. rewrite split_lines_aux_line by assumption. reflexivity. Qed.

Definition line_of (e : str) : list N * bool := (encode (esc e), true).

Lemma split_lines_entries es rest :
  split_lines (entries_bytes es ++ rest) = map line_of es ++ split_lines rest.
Proof.
  induction es as [|e es IH]; [reflexivity|].
  unfold entries_bytes in *. cbn [flat_map map]. unfold entry_bytes at 1.
  rewrite <- !app_assoc. cbn [app]. rewrite split_lines_line by apply encode_no_lf.
  rewrite IH. reflexivity.
Qed.

Lemma strip_cr_notin l : ~ In 13 l -> strip_cr l = l.
Proof.
  intros H. unfold strip_cr. destruct (rev l) as [|c r] eqn:E; [reflexivity|].
  destruct (c =? 13) eqn:E1; [|reflexivity].
  apply N.eqb_eq in E1; subst. exfalso. apply H. apply in_rev. rewrite E. left; reflexivity.
Qed.

Lemma decode_line_of e : valid_str e = true -> decode_line (line_of e) = Some (esc e).
Proof.
  intros Hv. unfold decode_line, line_of.
  rewrite strip_cr_notin by apply encode_no_cr.
  rewrite decode_encode by (apply valid_esc; assumption). reflexivity.
Qed.

(* ---------- loading what was saved ---------- *)

Definition f_reset (f : fhist) : fhist := mkF (f_mem f) 0 (f_pinfo f).

Lemma f_add_pinfo U f l : f_pinfo (fst (f_add U f l)) = f_pinfo f.
Proof. unfold f_add. destruct (h_add U (f_mem f) l) as [m []]; reflexivity. Qed.

Lemma f_add_nil U f : f_add U f [] = (f, false).
Proof.
  unfold f_add, h_add, h_ignore. destruct (Nat.eqb (h_max (f_mem f)) 0); reflexivity.
Qed.

Lemma load_rest_entries U es : forall f app,
  Forall (fun e => valid_str e = true) es ->
  exists app', load_rest U true f app (map line_of es) = LOk (f_reset (f_add_all U f es)) app'.
Proof.
  induction es as [|e es IH]; intros f app Hv.
  - eexists. reflexivity.
  - inversion Hv as [|? ? He Hes]; subst. cbn [map load_rest f_add_all].
    rewrite decode_line_of by assumption.
    destruct (esc e) as [|x xs] eqn:E.
    + apply (proj1 (esc_nil_iff e)) in E. subst e. rewrite f_add_nil. cbn [fst]. apply IH; assumption.
    + rewrite <- E. rewrite unesc_esc.
      destruct (f_add U f e) as [f' b] eqn:Ea. cbn [fst]. apply IH; assumption.
Qed.

Lemma decode_line_header : decode_line (header, true) = Some header.
Proof. reflexivity. Qed.

Lemma split_lines_save es : split_lines (save_bytes es) = (header, true) :: map line_of es.
Proof.
  unfold save_bytes. cbn [app].
  change (header ++ 10 :: entries_bytes es) with (header ++ 10 :: entries_bytes es).
  rewrite split_lines_line.
  - rewrite <- (app_nil_r (entries_bytes es)). rewrite split_lines_entries. rewrite app_nil_r. reflexivity.
  - cbn. intros [H|[H|[H|[]]]]; discriminate.
Qed.

(* Loading a saved file offers exactly the saved entries, in order, to add. *)
Theorem load_save_general U f es :
  Forall (fun e => valid_str e = true) es ->
  exists app, load_from U f (save_bytes es) = LOk (f_reset (f_add_all U f es)) app.
Proof.
  intros Hv. unfold load_from. rewrite split_lines_save. rewrite decode_line_header.
  rewrite str_eqb_refl. apply load_rest_entries. assumption.
Qed.

(* ---------- well-formed entry lists: what adds can produce ---------- *)

Fixpoint no_consec_dup (es : list str) : Prop :=
  match es with
  | a :: ((b :: _) as t) => a <> b /\ no_consec_dup t
  | _ => True
  end.

Definition entry_ok (U : UData) (igs : bool) (e : str) : Prop :=
  match e with [] => False | c :: _ => (igs && u_is_whitespace U c) = false end.

Record wf_entries (U : UData) (max : nat) (igs igd : bool) (es : list str) : Prop := {
  wf_len : (length es <= max)%nat;
  wf_ok : Forall (entry_ok U igs) es;
  wf_dup : igd = true -> no_consec_dup es;
}.

Lemma no_consec_dup_snoc es e :
  no_consec_dup es -> last_opt es <> Some e -> no_consec_dup (es ++ [e]).
Proof.
  induction es as [|a es IH]; intros Hn Hl; [exact I|].
  destruct es as [|b es].
  - cbn. split; [intros ->; apply Hl; reflexivity|exact I].
  - cbn [app no_consec_dup] in *. destruct Hn as [Hab Hn]. split; [assumption|].
    apply IH; assumption.
Qed.

Lemma no_consec_dup_tl es : no_consec_dup es -> no_consec_dup (tl es).
Proof. destruct es as [|a [|b es]]; cbn; tauto. Qed.

Lemma last_opt_snoc {A} (l : list A) x : last_opt (l ++ [x]) = Some x.
Proof.
  induction l as [|a l IH]; [reflexivity|]. cbn [app last_opt].
  destruct (l ++ [x]) eqn:E; [destruct l; discriminate|]. exact IH.
Qed.

Lemma last_opt_tl {A} (l : list A) : (2 <= length l)%nat -> last_opt (tl l) = last_opt l.
Proof. destruct l as [|a [|b l]]; cbn [length]; try lia. reflexivity. Qed.

Definition cfg_of (f : fhist) := (h_max (f_mem f), h_ign_space (f_mem f), h_ign_dups (f_mem f)).

Lemma f_add_cfg U f l : cfg_of (fst (f_add U f l)) = cfg_of f.
Proof.
  unfold f_add, h_add. destruct (h_ignore U (f_mem f) l); [reflexivity|].
  unfold cfg_of. reflexivity.
Qed.

Lemma f_add_all_cfg U ls : forall f, cfg_of (f_add_all U f ls) = cfg_of f.
Proof.
  induction ls as [|l ls IH]; intros f; [reflexivity|]. cbn [f_add_all]. rewrite IH. apply f_add_cfg.
Qed.

Definition wf_f U (f : fhist) : Prop :=
  wf_entries U (h_max (f_mem f)) (h_ign_space (f_mem f)) (h_ign_dups (f_mem f)) (f_entries f).

Lemma tl_length {A} (l : list A) : length (tl l) = (length l - 1)%nat.
Proof. destruct l; cbn; lia. Qed.

Lemma Forall_tl {A} (P : A -> Prop) l : Forall P l -> Forall P (tl l).
Proof. destruct l; [auto|]. intros H; inversion H; assumption. Qed.

Definition f_inserted (f : fhist) (l : str) : fhist :=
  mkF (h_insert (f_mem f) l) (Nat.min (S (f_new f)) (hlen (h_insert (f_mem f) l))) (f_pinfo f).

Lemma f_add_spec U f l :
  f_add U f l = (f, false) \/
  (f_add U f l = (f_inserted f l, true)
   /\ h_max (f_mem f) <> 0%nat /\ entry_ok U (h_ign_space (f_mem f)) l
   /\ (h_ign_dups (f_mem f) = true -> last_opt (h_entries (f_mem f)) <> Some l)).
Proof.
  unfold f_add, h_add, h_ignore.
  destruct (Nat.eqb (h_max (f_mem f)) 0) eqn:Emax; [left; reflexivity|].
  apply Nat.eqb_neq in Emax.
  destruct l as [|c l]; [left; reflexivity|].
  destruct (h_ign_space (f_mem f) && u_is_whitespace U c) eqn:Ews; [left; reflexivity|].
  destruct (h_ign_dups (f_mem f)) eqn:Edup.
  - destruct (last_opt (h_entries (f_mem f))) as [s|] eqn:El.
    + destruct (str_eqb s (c :: l)) eqn:Eeq; [left; reflexivity|].
      right. split; [reflexivity|]. split; [assumption|]. split; [exact Ews|].
      intros _ H. inversion H; subst. rewrite str_eqb_refl in Eeq. discriminate.
    + right. split; [reflexivity|]. split; [assumption|]. split; [exact Ews|]. intros _ H; discriminate.
  - right. split; [reflexivity|]. split; [assumption|]. split; [exact Ews|]. intros H; discriminate.
Qed.

Lemma f_add_wf U f l : wf_f U f -> wf_f U (fst (f_add U f l)).
Proof.
  intros Hwf. destruct (f_add_spec U f l) as [->|[-> [Hmax [Hok Hnd]]]]; [exact Hwf|].
  destruct Hwf as [Hl Ho Hd]. cbn [fst].
  unfold wf_f, f_inserted, f_entries, h_insert, hlen in *. cbn [f_mem h_entries h_max h_ign_space h_ign_dups].
  destruct (Nat.eqb (length (h_entries (f_mem f))) (h_max (f_mem f))) eqn:Efull.
  - apply Nat.eqb_eq in Efull. split.
    + rewrite app_length, tl_length. cbn [length]. lia.
    + apply Forall_app. split; [apply Forall_tl; assumption|]. constructor; [exact Hok|constructor].
    + intros Hd'. apply no_consec_dup_snoc; [apply no_consec_dup_tl; auto|].
      destruct (Nat.le_gt_cases 2 (length (h_entries (f_mem f)))) as [H2|H2].
      * rewrite last_opt_tl by assumption. auto.
      * destruct (h_entries (f_mem f)) as [|a [|b t]]; cbn [length] in *; try lia; cbn; discriminate.
  - apply Nat.eqb_neq in Efull. split.
    + rewrite app_length. cbn [length]. lia.
    + apply Forall_app. split; [assumption|]. constructor; [exact Hok|constructor].
    + intros Hd'. apply no_consec_dup_snoc; auto.
Qed.

Lemma f_add_all_wf U ls : forall f, wf_f U f -> wf_f U (f_add_all U f ls).
Proof.
  induction ls as [|l ls IH]; intros f H; [exact H|]. cbn [f_add_all]. apply IH. apply f_add_wf. exact H.
Qed.

Lemma wf_fresh U max igs igd : wf_f U (f_new_cfg max igs igd).
Proof. split; cbn; [lia|constructor|intros; exact I]. Qed.

(* every history built from a fresh one by adds (and loads, which are adds) is well formed *)
Lemma adds_wf U max igs igd ls : wf_f U (f_add_all U (f_new_cfg max igs igd) ls).
Proof. apply f_add_all_wf. apply wf_fresh. Qed.

Lemma adds_wf_entries U max igs igd ls :
  wf_entries U max igs igd (f_entries (f_add_all U (f_new_cfg max igs igd) ls)).
Proof.
  pose proof (adds_wf U max igs igd ls) as H. unfold wf_f in H.
  pose proof (f_add_all_cfg U ls (f_new_cfg max igs igd)) as Hc. unfold cfg_of in Hc.
  cbn [f_new_cfg hist_new f_mem h_max h_ign_space h_ign_dups] in Hc.
  injection Hc as H1 H2 H3. rewrite H1, H2, H3 in H. exact H.
Qed.

(* re-adding a well-formed list to a history that holds a well-formed prefix *)
Lemma f_add_all_accepts U es2 : forall f,
  wf_entries U (h_max (f_mem f)) (h_ign_space (f_mem f)) (h_ign_dups (f_mem f)) (f_entries f ++ es2) ->
  f_entries (f_add_all U f es2) = f_entries f ++ es2.
Proof.
  induction es2 as [|e es2 IH]; intros f Hwf; [cbn; rewrite app_nil_r; reflexivity|].
  cbn [f_add_all].
  assert (Hadd : f_entries (fst (f_add U f e)) = f_entries f ++ [e] /\ cfg_of (fst (f_add U f e)) = cfg_of f).
  { split; [|apply f_add_cfg].
    destruct Hwf as [Hl Ho Hd]. unfold f_add, h_add, h_ignore.
    rewrite app_length in Hl. cbn [length] in Hl. unfold f_entries in *.
    destruct (Nat.eqb (h_max (f_mem f)) 0) eqn:Emax; [apply Nat.eqb_eq in Emax; lia|].
    apply Forall_app in Ho. destruct Ho as [_ Ho]. inversion Ho as [|? ? He _]; subst.
    destruct e as [|c e]; [destruct He|]. cbn in He. rewrite He.
    assert (Hins : f_entries (mkF (h_insert (f_mem f) (c :: e))
                     (Nat.min (S (f_new f)) (hlen (h_insert (f_mem f) (c :: e)))) (f_pinfo f))
                   = h_entries (f_mem f) ++ [c :: e]).
    { unfold f_entries, h_insert, hlen. cbn [f_mem h_entries].
      destruct (Nat.eqb (length (h_entries (f_mem f))) (h_max (f_mem f))) eqn:Efull;
        [apply Nat.eqb_eq in Efull; lia|reflexivity]. }
    destruct (h_ign_dups (f_mem f)) eqn:Edup; [|exact Hins].
    destruct (last_opt (h_entries (f_mem f))) as [s|] eqn:El; [|exact Hins].
    destruct (str_eqb s (c :: e)) eqn:Eeq; [|exact Hins].
    exfalso. apply str_eqb_eq in Eeq. subst s. specialize (Hd eq_refl).
    clear - Hd El. revert Hd El. generalize (h_entries (f_mem f)) as l.
    induction l as [|a l IHl]; [discriminate|]. intros Hd El.
    destruct l as [|b l].
    - cbn in El. inversion El; subst. cbn in Hd. destruct Hd as [Hd _]. apply Hd; reflexivity.
    - apply IHl; [cbn [app no_consec_dup] in *; tauto|exact El]. }
  destruct Hadd as [He Hc]. rewrite IH.
  - rewrite He. rewrite <- app_assoc. reflexivity.
  - unfold cfg_of in Hc. inversion Hc as [[H1 H2 H3]]. rewrite H1, H2, H3, He, <- app_assoc. exact Hwf.
Qed.

(* C10: save, then load into a fresh history with the same settings *)
Theorem save_load U max igs igd es :
  Forall (fun e => valid_str e = true) es ->
  wf_entries U max igs igd es ->
  exists f app, load_from U (f_new_cfg max igs igd) (save_bytes es) = LOk f app
                /\ f_entries f = es.
Proof.
  intros Hv Hwf. destruct (load_save_general U (f_new_cfg max igs igd) es Hv) as [app H].
  eexists; eexists; split; [exact H|].
  unfold f_reset, f_entries. cbn [f_mem].
  change (h_entries (f_mem (f_add_all U (f_new_cfg max igs igd) es)))
    with (f_entries (f_add_all U (f_new_cfg max igs igd) es)).
  rewrite f_add_all_accepts; [reflexivity|exact Hwf].
Qed.

(* append fast path: the bytes are those of one save of old ++ new *)
Lemma save_bytes_app a b : save_bytes a ++ entries_bytes b = save_bytes (a ++ b).
Proof. unfold save_bytes, entries_bytes. rewrite flat_map_app, <- !app_assoc. reflexivity. Qed.

(* ---------- legacy files ---------- *)

Lemma load_rest_legacy U ls : forall f lines,
  map decode_line lines = map Some ls ->
  load_rest U false f false lines = LOk (f_reset (f_add_all U f ls)) false.
Proof.
  induction ls as [|l ls IH]; intros f lines H.
  - destruct lines; [reflexivity|discriminate].
  - destruct lines as [|lb lines]; [discriminate|]. cbn [map] in H. inversion H as [[H1 H2]].
    cbn [load_rest f_add_all]. rewrite H1.
    destruct l as [|c l].
    + rewrite f_add_nil. cbn [fst]. apply IH; assumption.
    + destruct (f_add U f (c :: l)) as [f' b]. cbn [fst andb]. apply IH; assumption.
Qed.

(* C10: a file whose first line is not "#V2": every line is offered,
   verbatim and in order, to add (which refuses the empty ones) *)
Theorem legacy_load U f bytes ls :
  map decode_line (split_lines bytes) = map Some ls ->
  hd [] ls <> header ->
  load_from U f bytes = LOk (f_reset (f_add_all U f ls)) false.
Proof.
  intros H Hh. unfold load_from.
  destruct (split_lines bytes) as [|lb lines].
  - destruct ls; [reflexivity|discriminate].
  - destruct ls as [|l ls]; [discriminate|]. cbn [map] in H. inversion H as [[H1 H2]].
    rewrite H1. cbn [hd] in Hh.
    destruct (str_eqb l header) eqn:E; [apply str_eqb_eq in E; contradiction|].
    cbn [f_add_all]. destruct (f_add U f l) as [f' b]. cbn [fst].
    apply load_rest_legacy. assumption.
Qed.
