(* C06, chronology: read from the most recent kill backwards, the ring is the list of the last
   [cap] kills; a kill after anything but a kill puts its text in front (dropping the oldest
   when the ring is full) and points the yanking pointer at it, a kill after a kill extends the
   front entry, yank shows the entry under the pointer, yank-pop moves the pointer one kill
   further back -- wrapping after the OLDEST kill held -- and shows that entry.
   Refinement of kill_ring.rs (slots, index, newest) to (list, pointer). *)
From Coq Require Import List Arith ZArith Lia.
From RL Require Import UData LineBuffer KillRing KillRingProofs.
Import ListNotations.

Ltac Zify.zify_post_hook ::= Z.div_mod_to_equations.

Definition kn (k : killring) : nat := length (kr_slots k).

(* slot of the kill that is [a] kills old (0 = the most recent) *)
Definition slot_of (k : killring) (a : nat) : nat := (kr_newest k + kn k - a) mod kn k.
Definition aged (k : killring) (a : nat) : option str :=
  if a <? kn k then nth_error (kr_slots k) (slot_of k a) else None.
(* how many kills back the yanking pointer is *)
Definition ptr (k : killring) : nat := (kr_newest k + kn k - kr_index k) mod kn k.

(* the abstract ring: the kills held, most recent first *)
Definition chron (k : killring) : list str :=
  map (fun a => match aged k a with Some s => s | None => [] end) (seq 0 (kn k)).

Definition kc_inv (k : killring) : Prop :=
  kr_ok k
  /\ (kn k < kr_cap k -> 0 < kn k -> kr_newest k = kn k - 1)
  /\ (kr_last k = KAKill -> kr_index k = kr_newest k /\ 0 < kn k).

Lemma kc_new n : 0 < n -> kc_inv (kr_new n).
Proof.
  intros H. split; [apply kr_new_ok; exact H|]. split.
  - unfold kn. cbn. lia.
  - cbn. discriminate.
Qed.

Lemma nth_error_ext {A} : forall (l l' : list A), (forall i, nth_error l i = nth_error l' i) -> l = l'.
Proof.
  induction l as [|x l IH]; intros [|y l'] H; try reflexivity.
  - specialize (H 0). discriminate.
  - specialize (H 0). discriminate.
  - pose proof (H 0) as H0. cbn in H0. inversion H0; subst. f_equal. apply IH. intros i. exact (H (S i)).
Qed.

Lemma nth_firstn_lt {A} (l : list A) : forall n i, i < n -> nth_error (firstn n l) i = nth_error l i.
Proof.
  induction l as [|x l IH]; intros n i H; [destruct n; destruct i; reflexivity|].
  destruct n as [|n]; [lia|]. destruct i as [|i]; [reflexivity|]. cbn. apply IH. lia.
Qed.

Lemma slot_lt k a : 0 < kn k -> slot_of k a < kn k.
Proof. intros H. unfold slot_of. apply Nat.mod_upper_bound. lia. Qed.

Lemma aged_some k a : a < kn k -> exists s, aged k a = Some s.
Proof.
  intros H. unfold aged. replace (a <? kn k) with true by (symmetry; apply Nat.ltb_lt; exact H).
  destruct (nth_error (kr_slots k) (slot_of k a)) as [s|] eqn:E; [exists s; reflexivity|].
  apply nth_error_None in E. pose proof (slot_lt k a ltac:(lia)). unfold kn in *. lia.
Qed.

Lemma aged_none k a : kn k <= a -> aged k a = None.
Proof. intros H. unfold aged. replace (a <? kn k) with false by (symmetry; apply Nat.ltb_ge; exact H). reflexivity. Qed.

Lemma chron_length k : length (chron k) = kn k.
Proof. unfold chron. rewrite map_length, seq_length. reflexivity. Qed.

Lemma chron_nth k a : nth_error (chron k) a = aged k a.
Proof.
  destruct (Nat.lt_ge_cases a (kn k)) as [H|H].
  - unfold chron. rewrite nth_error_map, (nth_error_nth' _ 0) by (rewrite seq_length; exact H).
    rewrite seq_nth by exact H. cbn [option_map Nat.add].
    destruct (aged_some k a H) as [s ->]. reflexivity.
  - rewrite aged_none by exact H. apply nth_error_None. rewrite chron_length. exact H.
Qed.

(* two rings with the same entries by age have the same chronology *)
Lemma chron_ext k k' : kn k' = kn k -> (forall a, aged k' a = aged k a) -> chron k' = chron k.
Proof. intros Hn H. apply nth_error_ext. intros i. rewrite !chron_nth. apply H. Qed.

(* ---------- a kill after anything but a kill ---------- *)

Theorem kc_new_kill k t m :
  kc_inv k -> kr_last k <> KAKill ->
  exists k', kr_kill k t m = Ok k' /\ kc_inv k' /\ kr_cap k' = kr_cap k /\ kr_last k' = KAKill
    /\ chron k' = firstn (kr_cap k) (t :: chron k) /\ ptr k' = 0.
Proof.
  intros [Hok [Hfill Hkill]] Hl. pose proof Hok as [Hc [Hlen [Hi0 [Hi1 [Hn0 Hn1]]]]].
  rewrite (kr_kill_not_kill k t m Hl Hc).
  pose proof (new_index_bound k Hok) as [Hb1 Hb2]. unfold new_index in *. unfold kn in *.
  set (n := length (kr_slots k)) in *.
  destruct (Nat.eq_dec n (kr_cap k)) as [Hfull|Hnot].
  - (* full ring: the oldest slot, the one after the newest, is overwritten *)
    assert (Hne : kr_slots k <> []) by (intros E; unfold n in Hfull; rewrite E in Hfull; cbn in Hfull; lia).
    specialize (Hn1 Hne). fold n in Hn1.
    set (idx := if Nat.eqb (kr_newest k) (kr_cap k - 1) then 0
                else if negb (Nat.eqb n 0) then S (kr_newest k) else kr_newest k) in *.
    assert (Hidx : idx < n /\ ((idx = 0 /\ kr_newest k = n - 1) \/ idx = S (kr_newest k))).
    { unfold idx. destruct (Nat.eqb (kr_newest k) (kr_cap k - 1)) eqn:E1.
      - apply Nat.eqb_eq in E1. split; [lia|]. left. split; [reflexivity|lia].
      - apply Nat.eqb_neq in E1. replace (Nat.eqb n 0) with false by (symmetry; apply Nat.eqb_neq; lia). cbn [negb].
        split; [lia|]. right. reflexivity. }
    destruct Hidx as [Hidx1 Hidx2].
    replace (Nat.eqb idx n) with false by (symmetry; apply Nat.eqb_neq; lia).
    replace (Nat.ltb idx n) with true by (symmetry; apply Nat.ltb_lt; lia).
    eexists. split; [reflexivity|].
    set (k' := mkKr (list_set (kr_slots k) idx t) (kr_cap k) idx KAKill (kr_killing k) idx).
    assert (Hn' : kn k' = n) by (unfold kn, k'; cbn; apply list_set_length).
    assert (Hinv : kc_inv k').
    { split; [|split].
      - unfold kr_ok, k'. cbn. rewrite list_set_length. fold n.
        repeat split; try lia; intros E; try lia;
          try (exfalso; apply (f_equal (@length str)) in E; rewrite list_set_length in E; fold n in E; cbn in E; lia).
      - rewrite Hn'. unfold k'. cbn. lia.
      - intros _. rewrite Hn'. unfold k'. cbn. split; [reflexivity|lia]. }
    split; [exact Hinv|]. split; [reflexivity|]. split; [reflexivity|]. split.
    + apply nth_error_ext. intros a. rewrite chron_nth.
      destruct (Nat.lt_ge_cases a n) as [Ha|Ha].
      * rewrite nth_firstn_lt by lia.
        unfold aged. rewrite Hn'. replace (a <? n) with true by (symmetry; apply Nat.ltb_lt; exact Ha).
        unfold slot_of. rewrite Hn'. unfold k'. cbn [kr_slots kr_newest].
        destruct a as [|a].
        -- replace (idx + n - 0) with (idx + 1 * n) by lia. rewrite Nat.mod_add, Nat.mod_small by lia.
           cbn [nth_error]. apply nth_list_set. fold n. exact Hidx1.
        -- cbn [nth_error]. rewrite chron_nth. unfold aged, slot_of, kn. fold n.
           replace (a <? n) with true by (symmetry; apply Nat.ltb_lt; lia).
           assert (Hs : (idx + n - S a) mod n = (kr_newest k + n - a) mod n).
           { destruct Hidx2 as [[H0 Hnw]|HS].
             - rewrite H0, Hnw. replace (n - 1 + n - a) with ((n - 1 - a) + 1 * n) by lia.
               rewrite Nat.mod_add by lia. rewrite !Nat.mod_small by lia. lia.
             - rewrite HS. replace (S (kr_newest k) + n - S a) with (kr_newest k + n - a) by lia. reflexivity. }
           rewrite Hs. apply nth_list_set_other.
           intros E.
           destruct Hidx2 as [[H0 Hnw]|HS].
           ++ rewrite H0, Hnw in E. replace (n - 1 + n - a) with ((n - 1 - a) + 1 * n) in E by lia.
              rewrite Nat.mod_add, Nat.mod_small in E by lia. lia.
           ++ rewrite HS in E. destruct (Nat.le_gt_cases a (kr_newest k)) as [Hle|Hgt].
              ** replace (kr_newest k + n - a) with ((kr_newest k - a) + 1 * n) in E by lia.
                 rewrite Nat.mod_add, Nat.mod_small in E by lia. lia.
              ** rewrite Nat.mod_small in E by lia. lia.
      * rewrite aged_none by (rewrite Hn'; exact Ha).
        symmetry. apply nth_error_None. rewrite firstn_length. cbn [length]. rewrite chron_length. unfold kn. fold n. lia.
    + unfold ptr. rewrite Hn'. unfold k'. cbn. replace (idx + n - idx) with (0 + 1 * n) by lia.
      rewrite Nat.mod_add by lia. apply Nat.mod_small. lia.
  - (* room left: a new slot at the end *)
    assert (Hlt : n < kr_cap k) by lia.
    set (idx := if Nat.eqb (kr_newest k) (kr_cap k - 1) then 0
                else if negb (Nat.eqb n 0) then S (kr_newest k) else kr_newest k) in *.
    assert (Hidx : idx = n).
    { unfold idx. destruct (Nat.eq_dec n 0) as [Hz|Hnz].
      - assert (Hnil : kr_slots k = []) by (destruct (kr_slots k); [reflexivity|unfold n in Hz; cbn in Hz; lia]).
        rewrite (Hn0 Hnil), Hz. destruct (Nat.eqb 0 (kr_cap k - 1)); reflexivity.
      - assert (Hne : kr_slots k <> []) by (intros E; unfold n in Hnz; rewrite E in Hnz; cbn in Hnz; lia).
        specialize (Hn1 Hne).
        assert (Hnew : kr_newest k = n - 1) by (apply Hfill; lia).
        replace (Nat.eqb (kr_newest k) (kr_cap k - 1)) with false by (symmetry; apply Nat.eqb_neq; lia).
        replace (Nat.eqb n 0) with false by (symmetry; apply Nat.eqb_neq; lia).
        cbn [negb]. lia. }
    rewrite Hidx. rewrite Nat.eqb_refl.
    eexists. split; [reflexivity|].
    set (k' := mkKr (kr_slots k ++ [t]) (kr_cap k) n KAKill (kr_killing k) n).
    assert (Hn' : kn k' = S n) by (unfold kn, k'; cbn; rewrite app_length; cbn; fold n; lia).
    assert (Hinv : kc_inv k').
    { split; [|split].
      - unfold kr_ok, k'. cbn. rewrite app_length. cbn [length]. fold n.
        repeat split; try lia; intros E; try lia; exfalso; destruct (kr_slots k); discriminate.
      - rewrite Hn'. unfold k'. cbn. lia.
      - intros _. rewrite Hn'. unfold k'. cbn. split; [reflexivity|lia]. }
    split; [exact Hinv|]. split; [reflexivity|]. split; [reflexivity|]. split.
    + rewrite firstn_all2 by (cbn [length]; rewrite chron_length; unfold kn; fold n; lia).
      apply nth_error_ext. intros a. rewrite chron_nth.
      destruct (Nat.lt_ge_cases a (S n)) as [Ha|Ha].
      * unfold aged. rewrite Hn'. replace (a <? S n) with true by (symmetry; apply Nat.ltb_lt; exact Ha).
        unfold slot_of. rewrite Hn'. unfold k'. cbn [kr_slots kr_newest].
        destruct a as [|a].
        -- replace (n + S n - 0) with (n + 1 * S n) by lia. rewrite Nat.mod_add, Nat.mod_small by lia.
           cbn [nth_error]. rewrite nth_error_app2 by (fold n; lia). fold n. rewrite Nat.sub_diag. reflexivity.
        -- cbn [nth_error]. rewrite chron_nth. unfold aged, slot_of, kn. fold n.
           replace (a <? n) with true by (symmetry; apply Nat.ltb_lt; lia).
           assert (Hnew : kr_newest k = n - 1).
           { apply Hfill; unfold kn; fold n; lia. }
           replace (n + S n - S a) with ((n - 1 - a) + 1 * S n) by lia. rewrite Nat.mod_add, Nat.mod_small by lia.
           rewrite Hnew. replace (n - 1 + n - a) with ((n - 1 - a) + 1 * n) by lia. rewrite Nat.mod_add, Nat.mod_small by lia.
           apply nth_error_app1. fold n. lia.
      * rewrite aged_none by (rewrite Hn'; exact Ha).
        symmetry. apply nth_error_None. cbn [length]. rewrite chron_length. unfold kn. fold n. lia.
    + unfold ptr. rewrite Hn'. unfold k'. cbn [kr_newest kr_index]. replace (n + S n - n) with (0 + 1 * S n) by lia.
      rewrite Nat.mod_add by lia. apply Nat.mod_small. lia.
Qed.

(* ---------- a kill right after a kill extends the most recent entry ---------- *)

Theorem kc_more_kill k t m :
  kc_inv k -> kr_last k = KAKill ->
  exists s rest k', chron k = s :: rest /\ kr_kill k t m = Ok k' /\ kc_inv k' /\ kr_cap k' = kr_cap k
    /\ kr_last k' = KAKill
    /\ chron k' = (match m with KAppend => s ++ t | KPrepend => t ++ s end) :: rest /\ ptr k' = 0.
Proof.
  intros [Hok [Hfill Hkill]] Hl. pose proof Hok as [Hc [Hlen [Hi0 [Hi1 [Hn0 Hn1]]]]].
  destruct (Hkill Hl) as [Hidx Hpos]. unfold kn in *. set (n := length (kr_slots k)) in *.
  assert (Hne : kr_slots k <> []) by (intros E; unfold n in Hpos; rewrite E in Hpos; cbn in Hpos; lia).
  specialize (Hn1 Hne). fold n in Hn1.
  assert (Hs0 : slot_of k 0 = kr_newest k).
  { unfold slot_of, kn. fold n. replace (kr_newest k + n - 0) with (kr_newest k + 1 * n) by lia.
    rewrite Nat.mod_add by lia. apply Nat.mod_small. exact Hn1. }
  destruct (nth_error (kr_slots k) (kr_newest k)) as [s|] eqn:Es.
  2:{ apply nth_error_None in Es. fold n in Es. lia. }
  assert (Hch : chron k = s :: tl (chron k)).
  { pose proof (chron_nth k 0) as H0. unfold aged, kn in H0. fold n in H0.
    replace (0 <? n) with true in H0 by (symmetry; apply Nat.ltb_lt; lia). rewrite Hs0, Es in H0.
    destruct (chron k) as [|c0 cr]; [discriminate|]. cbn in H0. inversion H0; subst. reflexivity. }
  exists s, (tl (chron k)).
  unfold kr_kill. rewrite Hl. replace (Nat.eqb (kr_cap k) 0) with false by (symmetry; apply Nat.eqb_neq; lia).
  rewrite Hidx, Es. eexists. split; [exact Hch|]. split; [reflexivity|].
  set (s' := match m with KAppend => s ++ t | KPrepend => t ++ s end).
  set (k' := mkKr (list_set (kr_slots k) (kr_newest k) s') (kr_cap k) (kr_newest k) KAKill (kr_killing k) (kr_newest k)).
  assert (Hn' : kn k' = n) by (unfold kn, k'; cbn; apply list_set_length).
  assert (Hinv : kc_inv k').
  { split; [|split].
    - unfold kr_ok, k'. cbn. rewrite list_set_length. fold n.
      repeat split; try lia; intros E; try lia;
        try (exfalso; apply (f_equal (@length str)) in E; rewrite list_set_length in E; fold n in E; cbn in E; lia).
    - rewrite Hn'. unfold k'. cbn [kr_cap kr_newest]. intros H1 H2. apply Hfill; assumption.
    - intros _. rewrite Hn'. unfold k'. cbn. split; [reflexivity|lia]. }
  split; [exact Hinv|]. split; [reflexivity|]. split; [reflexivity|]. split.
  - apply nth_error_ext. intros a. rewrite chron_nth. destruct a as [|a].
    + unfold aged. rewrite Hn'. replace (0 <? n) with true by (symmetry; apply Nat.ltb_lt; lia).
      assert (Hs0' : slot_of k' 0 = kr_newest k).
      { unfold slot_of. rewrite Hn'. unfold k'. cbn [kr_newest]. replace (kr_newest k + n - 0) with (kr_newest k + 1 * n) by lia.
        rewrite Nat.mod_add by lia. apply Nat.mod_small. exact Hn1. }
      rewrite Hs0'. unfold k'. cbn [kr_slots nth_error]. apply nth_list_set. fold n. exact Hn1.
    + cbn [nth_error]. replace (nth_error (tl (chron k)) a) with (nth_error (chron k) (S a)) by (rewrite Hch at 1; reflexivity).
      rewrite (chron_nth k (S a)). unfold aged. rewrite Hn'. unfold kn. fold n.
      destruct (S a <? n) eqn:Ea; [|reflexivity]. apply Nat.ltb_lt in Ea.
      assert (Hsl : slot_of k' (S a) = slot_of k (S a)) by (unfold slot_of; rewrite Hn'; reflexivity).
      rewrite Hsl. unfold k'. cbn [kr_slots]. apply nth_list_set_other.
      unfold slot_of, kn. fold n. intros E.
      destruct (Nat.le_gt_cases (S a) (kr_newest k)) as [Hle|Hgt].
      * replace (kr_newest k + n - S a) with ((kr_newest k - S a) + 1 * n) in E by lia.
        rewrite Nat.mod_add, Nat.mod_small in E by lia. lia.
      * rewrite Nat.mod_small in E by lia. lia.
  - unfold ptr. rewrite Hn'. unfold k'. cbn [kr_newest kr_index]. replace (kr_newest k + n - kr_newest k) with (0 + 1 * n) by lia.
    rewrite Nat.mod_add by lia. apply Nat.mod_small. lia.
Qed.

(* ---------- yank and yank-pop ---------- *)

Lemma ptr_lt k : 0 < kn k -> ptr k < kn k.
Proof. intros H. unfold ptr. apply Nat.mod_upper_bound. lia. Qed.

(* the slot under the pointer *)
Lemma slot_of_ptr k : kr_ok k -> 0 < kn k -> slot_of k (ptr k) = kr_index k.
Proof.
  intros [Hc [Hlen [Hi0 [Hi1 [Hn0 Hn1]]]]] Hpos. unfold kn in *. set (n := length (kr_slots k)) in *.
  assert (Hne : kr_slots k <> []) by (intros E; unfold n in Hpos; rewrite E in Hpos; cbn in Hpos; lia).
  specialize (Hi1 Hne). specialize (Hn1 Hne). fold n in Hi1, Hn1.
  unfold slot_of, ptr, kn. fold n.
  destruct (Nat.le_gt_cases (kr_index k) (kr_newest k)) as [Hle|Hgt].
  - replace (kr_newest k + n - kr_index k) with ((kr_newest k - kr_index k) + 1 * n) by lia.
    rewrite Nat.mod_add, (Nat.mod_small (kr_newest k - kr_index k)) by lia.
    replace (kr_newest k + n - (kr_newest k - kr_index k)) with (kr_index k + 1 * n) by lia.
    rewrite Nat.mod_add by lia. apply Nat.mod_small. exact Hi1.
  - rewrite (Nat.mod_small (kr_newest k + n - kr_index k)) by lia.
    replace (kr_newest k + n - (kr_newest k + n - kr_index k)) with (kr_index k) by lia.
    apply Nat.mod_small. exact Hi1.
Qed.

Theorem kc_yank k :
  kc_inv k -> 0 < kn k ->
  exists s k', kr_yank k = (k', Some s) /\ nth_error (chron k) (ptr k) = Some s
    /\ kc_inv k' /\ kr_cap k' = kr_cap k /\ chron k' = chron k /\ ptr k' = ptr k /\ kr_last k' = KAYank (blen s).
Proof.
  intros [Hok [Hfill Hkill]] Hpos.
  pose proof (slot_of_ptr k Hok Hpos) as Hsp. pose proof (ptr_lt k Hpos) as Hpl.
  destruct (aged_some k (ptr k) Hpl) as [s Hs].
  pose proof Hs as Hs2. unfold aged in Hs2. replace (ptr k <? kn k) with true in Hs2 by (symmetry; apply Nat.ltb_lt; exact Hpl).
  rewrite Hsp in Hs2.
  exists s. unfold kr_yank. rewrite Hs2. eexists. split; [reflexivity|].
  split; [rewrite chron_nth; exact Hs|].
  split; [|split; [reflexivity|split; [reflexivity|split; [reflexivity|reflexivity]]]].
  split; [exact Hok|]. split; [exact Hfill|]. cbn. discriminate.
Qed.

Theorem kc_yank_pop k size :
  kc_inv k -> kr_last k = KAYank size -> 0 < kn k ->
  exists s k', kr_yank_pop k = (k', Some (size, s))
    /\ ptr k' = (ptr k + 1) mod kn k /\ nth_error (chron k) (ptr k') = Some s
    /\ kc_inv k' /\ kr_cap k' = kr_cap k /\ chron k' = chron k /\ kr_last k' = KAYank (blen s).
Proof.
  intros [Hok [Hfill Hkill]] Hl Hpos. pose proof Hok as [Hc [Hlen [Hi0 [Hi1 [Hn0 Hn1]]]]].
  unfold kn in *. set (n := length (kr_slots k)) in *.
  assert (Hne : kr_slots k <> []) by (intros E; unfold n in Hpos; rewrite E in Hpos; cbn in Hpos; lia).
  specialize (Hi1 Hne). specialize (Hn1 Hne). fold n in Hi1, Hn1.
  set (idx := if Nat.eqb (kr_index k) 0 then n - 1 else kr_index k - 1).
  assert (Hidx : idx < n) by (unfold idx; destruct (Nat.eqb (kr_index k) 0); lia).
  destruct (nth_error (kr_slots k) idx) as [s|] eqn:Es.
  2:{ apply nth_error_None in Es. fold n in Es. lia. }
  exists s.
  assert (Hm : forall (X Y : killring * option (nat * str)), match kr_slots k with [] => X | _ :: _ => Y end = Y)
    by (intros; destruct (kr_slots k); [congruence|reflexivity]).
  unfold kr_yank_pop. rewrite Hl, Hm. cbv zeta. fold n. fold idx. rewrite Es.
  eexists. split; [reflexivity|].
  set (k' := mkKr (kr_slots k) (kr_cap k) idx (KAYank (blen s)) (kr_killing k) (kr_newest k)).
  assert (Hok' : kr_ok k').
  { unfold kr_ok, k'. cbn. fold n. repeat split; auto; try lia; intros E; try congruence. }
  assert (Hinv : kc_inv k') by (split; [exact Hok'|split; [exact Hfill|cbn; discriminate]]).
  assert (Hkn : kn k' = n) by reflexivity.
  assert (Hptr : ptr k' = (ptr k + 1) mod n).
  { unfold ptr. rewrite Hkn. unfold kn. fold n. unfold k'. cbn [kr_newest kr_index]. unfold idx.
    destruct (Nat.eqb (kr_index k) 0) eqn:E0.
    - apply Nat.eqb_eq in E0. rewrite E0.
      replace (kr_newest k + n - 0) with (kr_newest k + 1 * n) by lia. rewrite Nat.mod_add, (Nat.mod_small (kr_newest k)) by lia.
      replace (kr_newest k + n - (n - 1)) with (kr_newest k + 1) by lia. reflexivity.
    - apply Nat.eqb_neq in E0.
      replace (kr_newest k + n - (kr_index k - 1)) with (kr_newest k + n - kr_index k + 1) by lia.
      rewrite (Nat.add_mod (kr_newest k + n - kr_index k) 1 n) by lia.
      rewrite (Nat.add_mod ((kr_newest k + n - kr_index k) mod n) 1 n) by lia.
      rewrite Nat.mod_mod by lia. reflexivity. }
  split; [exact Hptr|]. split.
  - rewrite chron_nth.
    assert (Hch : forall a, aged k' a = aged k a) by reflexivity.
    rewrite <- Hch. unfold aged. rewrite Hkn.
    replace (ptr k' <? n) with true by (symmetry; apply Nat.ltb_lt; rewrite <- Hkn; apply ptr_lt; rewrite Hkn; lia).
    rewrite (slot_of_ptr k' Hok' ltac:(rewrite Hkn; lia)). exact Es.
  - split; [exact Hinv|]. split; [reflexivity|]. split; [reflexivity|reflexivity].
Qed.

(* ---------- what leaves the chronology alone ---------- *)

Lemma kc_reset k : kc_inv k -> kc_inv (kr_reset k) /\ chron (kr_reset k) = chron k /\ ptr (kr_reset k) = ptr k.
Proof.
  intros [Hok [Hfill Hkill]]. split; [|split; reflexivity].
  split; [exact Hok|]. split; [exact Hfill|]. cbn. discriminate.
Qed.

Lemma kc_repeated k n : kc_inv k -> kc_inv (kr_repeated k n) /\ chron (kr_repeated k n) = chron k /\ ptr (kr_repeated k n) = ptr k.
Proof.
  intros Hinv. unfold kr_repeated. destruct (kr_last k) eqn:El; try (split; [exact Hinv|split; reflexivity]).
  destruct Hinv as [Hok [Hfill Hkill]]. split; [|split; reflexivity].
  split; [exact Hok|]. split; [exact Hfill|]. cbn. discriminate.
Qed.

(* ---------- yank then j yank-pops: cycling through ALL kills held, oldest last, then round again ---------- *)

Fixpoint pops (j : nat) (k : killring) : killring * option str :=
  match j with
  | 0 => (k, None)
  | S j' => match kr_yank_pop k with
            | (k1, Some (_, s)) => match j' with 0 => (k1, Some s) | _ => pops j' k1 end
            | (k1, None) => (k1, None)
            end
  end.

Theorem kc_pops j : forall k size,
  kc_inv k -> kr_last k = KAYank size -> 0 < kn k -> 0 < j ->
  exists s k', pops j k = (k', Some s) /\ nth_error (chron k) ((ptr k + j) mod kn k) = Some s
    /\ chron k' = chron k /\ ptr k' = (ptr k + j) mod kn k /\ kc_inv k'.
Proof.
  induction j as [|j IH]; intros k size Hinv Hl Hpos Hj; [lia|].
  destruct (kc_yank_pop k size Hinv Hl Hpos) as [s [k1 [Hp [Hptr [Hnth [Hinv1 [Hcap [Hch Hl1]]]]]]]].
  cbn [pops]. rewrite Hp. destruct j as [|j].
  - exists s, k1. replace (ptr k + 1) with (ptr k + 1) by lia. rewrite <- Hptr.
    split; [reflexivity|]. split; [exact Hnth|]. split; [exact Hch|]. split; [reflexivity|exact Hinv1].
  - assert (Hkn1 : kn k1 = kn k) by (rewrite <- (chron_length k1), Hch, chron_length; reflexivity).
    destruct (IH k1 (blen s) Hinv1 Hl1 ltac:(rewrite Hkn1; exact Hpos) ltac:(lia)) as [s2 [k2 [Hp2 [Hn2 [Hc2 [Hptr2 Hinv2]]]]]].
    exists s2, k2. rewrite Hkn1, Hch, Hptr in Hn2. rewrite Hkn1, Hptr in Hptr2.
    assert (Hmod : ((ptr k + 1) mod kn k + S j) mod kn k = (ptr k + S (S j)) mod kn k).
    { rewrite Nat.add_mod_idemp_l by lia. f_equal. lia. }
    rewrite Hmod in Hn2, Hptr2.
    split; [exact Hp2|]. split; [exact Hn2|]. split; [congruence|]. split; [exact Hptr2|exact Hinv2].
Qed.

(* ---------- the whole ring as a list machine ---------- *)

Inductive kop := OKill (t : str) (m : kr_mode) | OYank | OPop | OReset | ORepeated (n : nat) | OKilling (on : bool).

(* the concrete ring *)
Definition cstep (k : killring) (o : kop) : res (killring * option str) :=
  match o with
  | OKill t m => match kr_kill k t m with Ok k' => Ok (k', None) | Panic => Panic end
  | OYank => Ok (kr_yank k)
  | OPop => let '(k', r) := kr_yank_pop k in Ok (k', match r with Some (_, s) => Some s | None => None end)
  | OReset => Ok (kr_reset k, None)
  | ORepeated n => Ok (kr_repeated k n, None)
  | OKilling on => match kr_notify k (if on then EStartKill else EStopKill) with Ok k' => Ok (k', None) | Panic => Panic end
  end.

(* the specification: the kills held, most recent first; the yanking pointer; what happened last *)
Record aring := mkA { a_list : list str; a_ptr : nat; a_last : kr_action }.
Definition astep (cap : nat) (a : aring) (o : kop) : aring * option str :=
  match o with
  | OKill t m =>
    match a_last a, a_list a with
    | KAKill, s :: rest => (mkA ((match m with KAppend => s ++ t | KPrepend => t ++ s end) :: rest) 0 KAKill, None)
    | KAKill, [] => (a, None)
    | _, l => (mkA (firstn cap (t :: l)) 0 KAKill, None)
    end
  | OYank =>
    match nth_error (a_list a) (a_ptr a) with
    | Some s => (mkA (a_list a) (a_ptr a) (KAYank (blen s)), Some s)
    | None => (a, None)
    end
  | OPop =>
    match a_last a, a_list a with
    | KAYank _, _ :: _ =>
      let p := (a_ptr a + 1) mod length (a_list a) in
      match nth_error (a_list a) p with
      | Some s => (mkA (a_list a) p (KAYank (blen s)), Some s)
      | None => (a, None)
      end
    | _, _ => (a, None)
    end
  | OReset => (mkA (a_list a) (a_ptr a) KAOther, None)
  | ORepeated n => (mkA (a_list a) (a_ptr a) (match a_last a with KAYank size => KAYank (size * n) | x => x end), None)
  | OKilling _ => (a, None)
  end.

Definition abs (k : killring) : aring := mkA (chron k) (ptr k) (kr_last k).

Lemma kn_zero_chron k : kn k = 0 -> chron k = [].
Proof. intros H. apply length_zero_iff_nil. rewrite chron_length. exact H. Qed.

Theorem cstep_refines k o :
  kc_inv k ->
  exists k' out, cstep k o = Ok (k', out) /\ kc_inv k' /\ kr_cap k' = kr_cap k
                 /\ (abs k', out) = astep (kr_cap k) (abs k) o.
Proof.
  intros Hinv. destruct o as [t m| | | |n|on].
  - (* kill *)
    destruct (kr_last k) eqn:El.
    + destruct (kc_more_kill k t m Hinv El) as [s [rest [k' [Hch [Hk [Hi' [Hc' [Hl' [Hch' Hp']]]]]]]]].
      exists k', None. cbn [cstep]. rewrite Hk. split; [reflexivity|]. split; [exact Hi'|]. split; [exact Hc'|].
      unfold abs, astep. cbn [a_last a_list]. rewrite El, Hch, Hch', Hp', Hl'. reflexivity.
    + destruct (kc_new_kill k t m Hinv ltac:(rewrite El; discriminate)) as [k' [Hk [Hi' [Hc' [Hl' [Hch' Hp']]]]]].
      exists k', None. cbn [cstep]. rewrite Hk. split; [reflexivity|]. split; [exact Hi'|]. split; [exact Hc'|].
      unfold abs, astep. cbn [a_last a_list]. rewrite El, Hch', Hp', Hl'. reflexivity.
    + destruct (kc_new_kill k t m Hinv ltac:(rewrite El; discriminate)) as [k' [Hk [Hi' [Hc' [Hl' [Hch' Hp']]]]]].
      exists k', None. cbn [cstep]. rewrite Hk. split; [reflexivity|]. split; [exact Hi'|]. split; [exact Hc'|].
      unfold abs, astep. cbn [a_last a_list]. rewrite El, Hch', Hp', Hl'. reflexivity.
  - (* yank *)
    destruct (Nat.eq_dec (kn k) 0) as [Hz|Hnz].
    + exists k, None. cbn [cstep]. unfold kr_yank.
      assert (Hnil : kr_slots k = []) by (unfold kn in Hz; destruct (kr_slots k); [reflexivity|cbn in Hz; lia]).
      rewrite Hnil. destruct (kr_index k); cbn [nth_error]; (split; [reflexivity|]); (split; [exact Hinv|]); (split; [reflexivity|]);
        unfold abs, astep; cbn [a_list a_ptr]; rewrite (kn_zero_chron k Hz); destruct (ptr k); reflexivity.
    + destruct (kc_yank k Hinv ltac:(lia)) as [s [k' [Hy [Hn [Hi' [Hc' [Hch' [Hp' Hl']]]]]]]].
      exists k', (Some s). cbn [cstep]. rewrite Hy. split; [reflexivity|]. split; [exact Hi'|]. split; [exact Hc'|].
      unfold abs, astep. cbn [a_list a_ptr]. rewrite Hn, Hch', Hp', Hl'. reflexivity.
  - (* yank-pop *)
    destruct (kr_last k) eqn:El.
    + exists k, None. cbn [cstep]. unfold kr_yank_pop. rewrite El. split; [reflexivity|]. split; [exact Hinv|]. split; [reflexivity|].
      unfold abs, astep. cbn [a_last]. rewrite El. reflexivity.
    + destruct (Nat.eq_dec (kn k) 0) as [Hz|Hnz].
      * exists k, None. cbn [cstep]. unfold kr_yank_pop. rewrite El.
        assert (Hnil : kr_slots k = []) by (unfold kn in Hz; destruct (kr_slots k); [reflexivity|cbn in Hz; lia]).
        rewrite Hnil. split; [reflexivity|]. split; [exact Hinv|]. split; [reflexivity|].
        unfold abs, astep. cbn [a_last a_list]. rewrite El, (kn_zero_chron k Hz). reflexivity.
      * destruct (kc_yank_pop k size Hinv El ltac:(lia)) as [s [k' [Hy [Hp' [Hn [Hi' [Hc' [Hch' Hl']]]]]]]].
        exists k', (Some s). cbn [cstep]. rewrite Hy. split; [reflexivity|]. split; [exact Hi'|]. split; [exact Hc'|].
        unfold abs, astep. cbn [a_last a_list a_ptr]. rewrite El, Hch', Hl'.
        pose proof (chron_length k) as Hlen.
        assert (Hpos : 0 < length (chron k)) by (rewrite Hlen; lia).
        rewrite Hp' in Hn |- *. rewrite <- Hlen in Hn |- *. clear Hlen.
        generalize dependent (chron k). intros l Hn' _ Hpos'.
        destruct l as [|c0 cr]; [cbn [length] in Hpos'; lia|]. rewrite Hn'. reflexivity.
    + exists k, None. cbn [cstep]. unfold kr_yank_pop. rewrite El. split; [reflexivity|]. split; [exact Hinv|]. split; [reflexivity|].
      unfold abs, astep. cbn [a_last]. rewrite El. reflexivity.
  - (* reset *)
    destruct (kc_reset k Hinv) as [Hi' [Hch' Hp']].
    exists (kr_reset k), None. split; [reflexivity|]. split; [exact Hi'|]. split; [reflexivity|].
    unfold abs, astep. rewrite Hch', Hp'. reflexivity.
  - (* repeated *)
    destruct (kc_repeated k n Hinv) as [Hi' [Hch' Hp']].
    exists (kr_repeated k n), None. split; [reflexivity|]. split; [exact Hi'|].
    split; [unfold kr_repeated; destruct (kr_last k); reflexivity|].
    unfold abs, astep. rewrite Hch', Hp'. cbn [a_last a_list a_ptr]. unfold kr_repeated. destruct (kr_last k) eqn:El; cbn [kr_last]; rewrite ?El; reflexivity.
  - (* start / stop of a kill *)
    destruct Hinv as [Hok [Hfill Hkill]].
    destruct on; cbn [cstep kr_notify]; eexists _, None; (split; [reflexivity|]);
      (split; [split; [exact Hok|split; [exact Hfill|exact Hkill]]|]); (split; reflexivity).
Qed.

Fixpoint crun (k : killring) (os : list kop) : res (killring * list (option str)) :=
  match os with
  | [] => Ok (k, [])
  | o :: t => match cstep k o with
              | Panic => Panic
              | Ok (k', out) => match crun k' t with Panic => Panic | Ok (k2, outs) => Ok (k2, out :: outs) end
              end
  end.
Fixpoint arun (cap : nat) (a : aring) (os : list kop) : aring * list (option str) :=
  match os with
  | [] => (a, [])
  | o :: t => let '(a', out) := astep cap a o in let '(a2, outs) := arun cap a' t in (a2, out :: outs)
  end.

(* every operation sequence: the ring never panics and answers exactly as the list machine *)
Theorem crun_refines os : forall k,
  kc_inv k ->
  exists k' outs, crun k os = Ok (k', outs) /\ kc_inv k' /\ (abs k', outs) = arun (kr_cap k) (abs k) os.
Proof.
  induction os as [|o os IH]; intros k Hinv.
  - exists k, []. split; [reflexivity|]. split; [exact Hinv|reflexivity].
  - destruct (cstep_refines k o Hinv) as [k1 [out [Hs [Hi1 [Hc1 Ha]]]]].
    destruct (IH k1 Hi1) as [k2 [outs [Hr [Hi2 Ha2]]]].
    exists k2, (out :: outs). cbn [crun arun]. rewrite Hs, Hr. split; [reflexivity|]. split; [exact Hi2|].
    rewrite <- Ha. rewrite Hc1 in Ha2. rewrite <- Ha2. reflexivity.
Qed.
