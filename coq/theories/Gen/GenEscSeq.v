(* GENERATED on every check by tools/gen_tables.py from src/tty/unix.rs -- do not edit. *)
From Coq Require Import List NArith.
From RL Require Import Keys.
Import ListNotations.

Definition tab_csi_ansi : list (list N * key) :=
  [([65]%N, (KUp, (mkMods false false false)));
   ([66]%N, (KDown, (mkMods false false false)));
   ([67]%N, (KRight, (mkMods false false false)));
   ([68]%N, (KLeft, (mkMods false false false)));
   ([70]%N, (KEnd, (mkMods false false false)));
   ([72]%N, (KHome, (mkMods false false false)));
   ([90]%N, (KBackTab, (mkMods false false false)));
   ([97]%N, (KUp, (mkMods false false true)));
   ([98]%N, (KDown, (mkMods false false true)));
   ([99]%N, (KRight, (mkMods false false true)));
   ([100]%N, (KLeft, (mkMods false false true)))].

Definition tab_csi_linux : list (list N * key) :=
  [([65]%N, ((KF 1), (mkMods false false false)));
   ([66]%N, ((KF 2), (mkMods false false false)));
   ([67]%N, ((KF 3), (mkMods false false false)));
   ([68]%N, ((KF 4), (mkMods false false false)));
   ([69]%N, ((KF 5), (mkMods false false false)))].

Definition tab_ext_tilde : list (list N * key) :=
  [([49]%N, (KHome, (mkMods false false false)));
   ([55]%N, (KHome, (mkMods false false false)));
   ([50]%N, (KInsert, (mkMods false false false)));
   ([51]%N, (KDelete, (mkMods false false false)));
   ([52]%N, (KEnd, (mkMods false false false)));
   ([56]%N, (KEnd, (mkMods false false false)));
   ([53]%N, (KPageUp, (mkMods false false false)));
   ([54]%N, (KPageDown, (mkMods false false false)))].

Definition tab_ext_2d_tilde : list (list N * key) :=
  [([49; 49]%N, ((KF 1), (mkMods false false false)));
   ([49; 50]%N, ((KF 2), (mkMods false false false)));
   ([49; 51]%N, ((KF 3), (mkMods false false false)));
   ([49; 52]%N, ((KF 4), (mkMods false false false)));
   ([49; 53]%N, ((KF 5), (mkMods false false false)));
   ([49; 55]%N, ((KF 6), (mkMods false false false)));
   ([49; 56]%N, ((KF 7), (mkMods false false false)));
   ([49; 57]%N, ((KF 8), (mkMods false false false)));
   ([50; 48]%N, ((KF 9), (mkMods false false false)));
   ([50; 49]%N, ((KF 10), (mkMods false false false)));
   ([50; 51]%N, ((KF 11), (mkMods false false false)));
   ([50; 52]%N, ((KF 12), (mkMods false false false)))].

Definition tab_ext_2d_mod_tilde : list (list N * key) :=
  [([49; 53; 53]%N, ((KF 5), (mkMods true false false)));
   ([49; 55; 53]%N, ((KF 6), (mkMods true false false)));
   ([49; 56; 53]%N, ((KF 7), (mkMods true false false)));
   ([49; 57; 53]%N, ((KF 8), (mkMods true false false)));
   ([50; 48; 53]%N, ((KF 9), (mkMods true false false)));
   ([50; 49; 53]%N, ((KF 10), (mkMods true false false)));
   ([50; 51; 53]%N, ((KF 11), (mkMods true false false)));
   ([50; 52; 53]%N, ((KF 12), (mkMods true false false)))].

Definition tab_ext_3d_tilde : list (list N * key) :=
  [([50; 48; 48]%N, (KPasteStart, (mkMods false false false)));
   ([50; 48; 49]%N, (KPasteEnd, (mkMods false false false)))].

Definition tab_ext_1_mod : list (list N * key) :=
  [([50; 65]%N, (KUp, (mkMods false false true)));
   ([50; 66]%N, (KDown, (mkMods false false true)));
   ([50; 67]%N, (KRight, (mkMods false false true)));
   ([50; 68]%N, (KLeft, (mkMods false false true)));
   ([50; 70]%N, (KEnd, (mkMods false false true)));
   ([50; 72]%N, (KHome, (mkMods false false true)));
   ([51; 65]%N, (KUp, (mkMods false true false)));
   ([51; 66]%N, (KDown, (mkMods false true false)));
   ([51; 67]%N, (KRight, (mkMods false true false)));
   ([51; 68]%N, (KLeft, (mkMods false true false)));
   ([51; 70]%N, (KEnd, (mkMods false true false)));
   ([51; 72]%N, (KHome, (mkMods false true false)));
   ([52; 65]%N, (KUp, (mkMods false true true)));
   ([52; 66]%N, (KDown, (mkMods false true true)));
   ([52; 67]%N, (KRight, (mkMods false true true)));
   ([52; 68]%N, (KLeft, (mkMods false true true)));
   ([52; 70]%N, (KEnd, (mkMods false true true)));
   ([52; 72]%N, (KHome, (mkMods false true true)));
   ([53; 65]%N, (KUp, (mkMods true false false)));
   ([53; 66]%N, (KDown, (mkMods true false false)));
   ([53; 67]%N, (KRight, (mkMods true false false)));
   ([53; 68]%N, (KLeft, (mkMods true false false)));
   ([53; 70]%N, (KEnd, (mkMods true false false)));
   ([53; 72]%N, (KHome, (mkMods true false false)));
   ([53; 80]%N, ((KF 1), (mkMods true false false)));
   ([53; 81]%N, ((KF 2), (mkMods true false false)));
   ([53; 83]%N, ((KF 4), (mkMods true false false)));
   ([53; 112]%N, ((KChar 48%N), (mkMods true false false)));
   ([53; 113]%N, ((KChar 49%N), (mkMods true false false)));
   ([53; 114]%N, ((KChar 50%N), (mkMods true false false)));
   ([53; 115]%N, ((KChar 51%N), (mkMods true false false)));
   ([53; 116]%N, ((KChar 52%N), (mkMods true false false)));
   ([53; 117]%N, ((KChar 53%N), (mkMods true false false)));
   ([53; 118]%N, ((KChar 54%N), (mkMods true false false)));
   ([53; 119]%N, ((KChar 55%N), (mkMods true false false)));
   ([53; 120]%N, ((KChar 56%N), (mkMods true false false)));
   ([53; 121]%N, ((KChar 57%N), (mkMods true false false)));
   ([54; 65]%N, (KUp, (mkMods true false true)));
   ([54; 66]%N, (KDown, (mkMods true false true)));
   ([54; 67]%N, (KRight, (mkMods true false true)));
   ([54; 68]%N, (KLeft, (mkMods true false true)));
   ([54; 70]%N, (KEnd, (mkMods true false true)));
   ([54; 72]%N, (KHome, (mkMods true false true)));
   ([54; 112]%N, ((KChar 48%N), (mkMods true false true)));
   ([54; 113]%N, ((KChar 49%N), (mkMods true false true)));
   ([54; 114]%N, ((KChar 50%N), (mkMods true false true)));
   ([54; 115]%N, ((KChar 51%N), (mkMods true false true)));
   ([54; 116]%N, ((KChar 52%N), (mkMods true false true)));
   ([54; 117]%N, ((KChar 53%N), (mkMods true false true)));
   ([54; 118]%N, ((KChar 54%N), (mkMods true false true)));
   ([54; 119]%N, ((KChar 55%N), (mkMods true false true)));
   ([54; 120]%N, ((KChar 56%N), (mkMods true false true)));
   ([54; 121]%N, ((KChar 57%N), (mkMods true false true)));
   ([55; 65]%N, (KUp, (mkMods true true false)));
   ([55; 66]%N, (KDown, (mkMods true true false)));
   ([55; 67]%N, (KRight, (mkMods true true false)));
   ([55; 68]%N, (KLeft, (mkMods true true false)));
   ([55; 70]%N, (KEnd, (mkMods true true false)));
   ([55; 72]%N, (KHome, (mkMods true true false)));
   ([55; 112]%N, ((KChar 48%N), (mkMods true true false)));
   ([55; 113]%N, ((KChar 49%N), (mkMods true true false)));
   ([55; 114]%N, ((KChar 50%N), (mkMods true true false)));
   ([55; 115]%N, ((KChar 51%N), (mkMods true true false)));
   ([55; 116]%N, ((KChar 52%N), (mkMods true true false)));
   ([55; 117]%N, ((KChar 53%N), (mkMods true true false)));
   ([55; 118]%N, ((KChar 54%N), (mkMods true true false)));
   ([55; 119]%N, ((KChar 55%N), (mkMods true true false)));
   ([55; 120]%N, ((KChar 56%N), (mkMods true true false)));
   ([55; 121]%N, ((KChar 57%N), (mkMods true true false)));
   ([56; 65]%N, (KUp, (mkMods true true true)));
   ([56; 66]%N, (KDown, (mkMods true true true)));
   ([56; 67]%N, (KRight, (mkMods true true true)));
   ([56; 68]%N, (KLeft, (mkMods true true true)));
   ([56; 70]%N, (KEnd, (mkMods true true true)));
   ([56; 72]%N, (KHome, (mkMods true true true)));
   ([56; 112]%N, ((KChar 48%N), (mkMods true true true)));
   ([56; 113]%N, ((KChar 49%N), (mkMods true true true)));
   ([56; 114]%N, ((KChar 50%N), (mkMods true true true)));
   ([56; 115]%N, ((KChar 51%N), (mkMods true true true)));
   ([56; 116]%N, ((KChar 52%N), (mkMods true true true)));
   ([56; 117]%N, ((KChar 53%N), (mkMods true true true)));
   ([56; 118]%N, ((KChar 54%N), (mkMods true true true)));
   ([56; 119]%N, ((KChar 55%N), (mkMods true true true)));
   ([56; 120]%N, ((KChar 56%N), (mkMods true true true)));
   ([56; 121]%N, ((KChar 57%N), (mkMods true true true)));
   ([57; 65]%N, (KUp, (mkMods false true false)));
   ([57; 66]%N, (KDown, (mkMods false true false)));
   ([57; 67]%N, (KRight, (mkMods false true false)));
   ([57; 68]%N, (KLeft, (mkMods false true false)))].

Definition tab_ext_mod_tilde : list (list N * key) :=
  [([50; 50]%N, (KInsert, (mkMods false false true)));
   ([50; 51]%N, (KInsert, (mkMods false true false)));
   ([50; 52]%N, (KInsert, (mkMods false true true)));
   ([50; 53]%N, (KInsert, (mkMods true false false)));
   ([50; 54]%N, (KInsert, (mkMods true false true)));
   ([50; 55]%N, (KInsert, (mkMods true true false)));
   ([50; 56]%N, (KInsert, (mkMods true true true)));
   ([51; 50]%N, (KDelete, (mkMods false false true)));
   ([51; 51]%N, (KDelete, (mkMods false true false)));
   ([51; 52]%N, (KDelete, (mkMods false true true)));
   ([51; 53]%N, (KDelete, (mkMods true false false)));
   ([51; 54]%N, (KDelete, (mkMods true false true)));
   ([51; 55]%N, (KDelete, (mkMods true true false)));
   ([51; 56]%N, (KDelete, (mkMods true true true)));
   ([53; 50]%N, (KPageUp, (mkMods false false true)));
   ([53; 51]%N, (KPageUp, (mkMods false true false)));
   ([53; 52]%N, (KPageUp, (mkMods false true true)));
   ([53; 53]%N, (KPageUp, (mkMods true false false)));
   ([53; 54]%N, (KPageUp, (mkMods true false true)));
   ([53; 55]%N, (KPageUp, (mkMods true true false)));
   ([53; 56]%N, (KPageUp, (mkMods true true true)));
   ([54; 50]%N, (KPageDown, (mkMods false false true)));
   ([54; 51]%N, (KPageDown, (mkMods false true false)));
   ([54; 52]%N, (KPageDown, (mkMods false true true)));
   ([54; 53]%N, (KPageDown, (mkMods true false false)));
   ([54; 54]%N, (KPageDown, (mkMods true false true)));
   ([54; 55]%N, (KPageDown, (mkMods true true false)));
   ([54; 56]%N, (KPageDown, (mkMods true true true)))].

Definition tab_ext_rxvt : list (list N * key) :=
  [([51; 30]%N, (KDelete, (mkMods true false false)));
   ([51; 64]%N, (KDelete, (mkMods true false true)));
   ([53; 65]%N, (KUp, (mkMods true false false)));
   ([53; 66]%N, (KDown, (mkMods true false false)));
   ([53; 67]%N, (KRight, (mkMods true false false)));
   ([53; 68]%N, (KLeft, (mkMods true false false)));
   ([53; 30]%N, (KPageUp, (mkMods true false false)));
   ([53; 36]%N, (KPageUp, (mkMods false false true)));
   ([53; 64]%N, (KPageUp, (mkMods true false true)));
   ([54; 30]%N, (KPageDown, (mkMods true false false)));
   ([54; 36]%N, (KPageDown, (mkMods false false true)));
   ([54; 64]%N, (KPageDown, (mkMods true false true)));
   ([55; 30]%N, (KHome, (mkMods true false false)));
   ([55; 36]%N, (KHome, (mkMods false false true)));
   ([55; 64]%N, (KHome, (mkMods true false true)));
   ([56; 30]%N, (KEnd, (mkMods true false false)));
   ([56; 36]%N, (KEnd, (mkMods false false true)));
   ([56; 64]%N, (KEnd, (mkMods true false true)))].

Definition tab_ss3 : list (list N * key) :=
  [([65]%N, (KUp, (mkMods false false false)));
   ([66]%N, (KDown, (mkMods false false false)));
   ([67]%N, (KRight, (mkMods false false false)));
   ([68]%N, (KLeft, (mkMods false false false)));
   ([70]%N, (KEnd, (mkMods false false false)));
   ([72]%N, (KHome, (mkMods false false false)));
   ([77]%N, (KEnter, mkMods false false false));
   ([80]%N, ((KF 1), (mkMods false false false)));
   ([81]%N, ((KF 2), (mkMods false false false)));
   ([82]%N, ((KF 3), (mkMods false false false)));
   ([83]%N, ((KF 4), (mkMods false false false)));
   ([97]%N, (KUp, (mkMods true false false)));
   ([98]%N, (KDown, (mkMods true false false)));
   ([99]%N, (KRight, (mkMods true false false)));
   ([100]%N, (KLeft, (mkMods true false false)));
   ([108]%N, ((KF 8), (mkMods false false false)));
   ([116]%N, ((KF 5), (mkMods false false false)));
   ([117]%N, ((KF 6), (mkMods false false false)));
   ([118]%N, ((KF 7), (mkMods false false false)));
   ([119]%N, ((KF 9), (mkMods false false false)));
   ([120]%N, ((KF 10), (mkMods false false false)))].

