(* GENERATED on every check by tools/gen_tables.py from /repo/src -- do not edit. *)
From Coq Require Import List NArith.
Import ListNotations.

Definition file_version_v2 : list N := [35; 86; 50]%N.
Definition max_line : N := 4096%N.
Definition indent_max : nat := 32.
Definition kill_ring_size : nat := 60.
Definition default_max_history_size : nat := 100.
Definition default_tab_stop : nat := 8.
Definition default_indent_size : nat := 2.
Definition default_completion_prompt_limit : nat := 100.
Definition default_break_chars : list N := [32; 9; 10; 34; 92; 39; 96; 64; 36; 62; 60; 61; 59; 124; 38; 123; 40; 0]%N.
Definition escape_char : N := 92%N.
Definition double_quotes_special_chars : list N := [34; 36; 92; 96]%N.
Definition double_quotes_escape_char : N := 92%N.
