(* Strings as lists of Unicode scalar values, with UTF-8 byte lengths kept
   visible: rustyline's positions are byte offsets. *)
From RL Require Export Res.

Arguments N.add : simpl never.
Arguments N.sub : simpl never.
Arguments N.mul : simpl never.
Arguments N.eqb : simpl never.
Arguments N.ltb : simpl never.
Arguments N.leb : simpl never.
Arguments N.div : simpl never.
Arguments N.modulo : simpl never.

Definition char := N.
Definition str := list N.

Definition clen (c : N) : nat :=
  if (c <? 128)%N then 1
  else if (c <? 2048)%N then 2
  else if (c <? 65536)%N then 3 else 4.

Fixpoint blen (s : str) : nat :=
  match s with [] => 0 | c :: t => clen c + blen t end.

(* A Rust [char]: a scalar value (no surrogate, <= 0x10FFFF). *)
Definition valid_char (c : N) : bool :=
  (c <? 55296)%N || ((57344 <=? c)%N && (c <=? 1114111)%N).
Definition valid_str (s : str) : bool := forallb valid_char s.

(* [bsplit s p]: split [s] at byte offset [p]; None when [p] is not on a
   character boundary of [s] (or beyond its end) -- where Rust's slicing
   panics. *)
Fixpoint bsplit (s : str) (p : nat) : option (str * str) :=
  match p with
  | 0 => Some ([], s)
  | _ =>
    match s with
    | [] => None
    | c :: t =>
      if Nat.leb (clen c) p then
        match bsplit t (p - clen c) with
        | Some (l, r) => Some (c :: l, r)
        | None => None
        end
      else None
    end
  end.

Definition is_boundary (s : str) (p : nat) : bool :=
  match bsplit s p with Some _ => true | None => false end.

Fixpoint str_eqb (a b : str) : bool :=
  match a, b with
  | [], [] => true
  | x :: a', y :: b' => (x =? y)%N && str_eqb a' b'
  | _, _ => false
  end.

Fixpoint prefix_b (p s : str) : bool :=
  match p, s with
  | [], _ => true
  | x :: p', y :: s' => (x =? y)%N && prefix_b p' s'
  | _ :: _, [] => false
  end.

(* [str::find]: byte offset of the first occurrence of [t] in [s]. *)
Fixpoint find_sub (t s : str) : option nat :=
  if prefix_b t s then Some 0
  else match s with
       | [] => None
       | c :: s' => match find_sub t s' with
                    | Some k => Some (clen c + k)
                    | None => None
                    end
       end.

Lemma clen_pos c : 1 <= clen c.
Proof. unfold clen. repeat destruct (_ <? _)%N; lia. Qed.
Lemma clen_le4 c : clen c <= 4.
Proof. unfold clen. repeat destruct (_ <? _)%N; lia. Qed.

Lemma blen_app a b : blen (a ++ b) = blen a + blen b.
Proof. induction a as [|c a IH]; cbn [blen app]; lia. Qed.

Lemma str_eqb_eq a b : str_eqb a b = true <-> a = b.
Proof.
  revert b; induction a as [|x a IH]; intros [|y b]; cbn [str_eqb]; try (split; congruence).
  rewrite andb_true_iff, N.eqb_eq, IH. split; [intros [-> ->]; reflexivity| intros H; inversion H; auto].
Qed.
Lemma str_eqb_refl a : str_eqb a a = true.
Proof. apply str_eqb_eq; reflexivity. Qed.

Lemma prefix_b_spec p s : prefix_b p s = true <-> exists r, s = p ++ r.
Proof.
  revert s; induction p as [|x p IH]; intros s; cbn [prefix_b].
  - split; [exists s; reflexivity | reflexivity].
  - destruct s as [|y s].
    + split; [discriminate | intros [r H]; discriminate].
    + rewrite andb_true_iff, N.eqb_eq, IH. split.
      * intros [-> [r ->]]. exists r; reflexivity.
      * intros [r H]. inversion H; subst. split; [reflexivity | eexists; reflexivity].
Qed.

Lemma bsplit_app l r : bsplit (l ++ r) (blen l) = Some (l, r).
Proof.
  induction l as [|c l IH]; cbn [blen app].
  - destruct r; reflexivity.
  - pose proof (clen_pos c).
    destruct (clen c + blen l) eqn:E; [lia|]. rewrite <- E. cbn [bsplit].
    replace (Nat.leb (clen c) (clen c + blen l)) with true by (symmetry; apply Nat.leb_le; lia).
    replace (clen c + blen l - clen c) with (blen l) by lia. rewrite IH.
    rewrite E. reflexivity.
Qed.

Lemma bsplit_some s p l r : bsplit s p = Some (l, r) -> s = l ++ r /\ blen l = p.
Proof.
  revert p l r; induction s as [|c s IH]; intros p l r H.
  - destruct p; cbn in H; inversion H; auto.
  - destruct p as [|p].
    + cbn in H. inversion H; auto.
    + cbn [bsplit] in H. destruct (Nat.leb (clen c) (S p)) eqn:E; [|discriminate].
      destruct (bsplit s (S p - clen c)) as [[l' r']|] eqn:E2; [|discriminate].
      inversion H; subst. apply IH in E2. destruct E2 as [-> E2]. apply Nat.leb_le in E.
      split; [reflexivity|]. cbn [blen]. lia.
Qed.
