(* Result type with an explicit Panic: "does not panic" is always a theorem
   [exists v, f x = Ok v], never a convention. *)
From Coq Require Export List NArith ZArith Arith Lia Bool.
Export ListNotations.

Inductive res (A : Type) : Type :=
| Ok (a : A)
| Panic.
Arguments Ok {A} a.
Arguments Panic {A}.

Definition rbind {A B} (r : res A) (f : A -> res B) : res B :=
  match r with Ok a => f a | Panic => Panic end.
Definition rmap {A B} (f : A -> B) (r : res A) : res B :=
  match r with Ok a => Ok (f a) | Panic => Panic end.

Notation "'let!' x ':=' r 'in' k" := (rbind r (fun x => k))
  (at level 200, x pattern, r at level 100, k at level 200).

Definition omap {A B} (f : A -> B) (o : option A) : option B :=
  match o with Some a => Some (f a) | None => None end.
Definition obind {A B} (o : option A) (f : A -> option B) : option B :=
  match o with Some a => f a | None => None end.

Definition is_ok {A} (r : res A) : bool := match r with Ok _ => true | Panic => false end.
