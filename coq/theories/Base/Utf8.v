(* UTF-8 encoding and a strict decoder (what Rust's [str::from_utf8]
   accepts: no overlong forms, no surrogates, nothing above U+10FFFF).
   Bytes are [N] values below 256. *)
From RL Require Export Ustr.

Definition byte := N.

Definition encode_char (c : N) : list N :=
  (if c <? 128 then [c]
   else if c <? 2048 then [192 + c / 64; 128 + c mod 64]
   else if c <? 65536 then [224 + c / 4096; 128 + (c / 64) mod 64; 128 + c mod 64]
   else [240 + c / 262144; 128 + (c / 4096) mod 64; 128 + (c / 64) mod 64; 128 + c mod 64])%N.

Definition encode (s : str) : list N := flat_map encode_char s.

Definition is_cont (b : N) : bool := ((128 <=? b) && (b <? 192))%N.

(* Decode one character from the head of a byte list. *)
Definition decode1 (bs : list N) : option (N * list N) :=
  (match bs with
   | [] => None
   | b0 :: t0 =>
     if b0 <? 128 then Some (b0, t0)
     else if b0 <? 192 then None
     else if b0 <? 224 then
       match t0 with
       | b1 :: t1 =>
         let c := (b0 - 192) * 64 + (b1 - 128) in
         if is_cont b1 && (128 <=? c) then Some (c, t1) else None
       | _ => None
       end
     else if b0 <? 240 then
       match t0 with
       | b1 :: b2 :: t2 =>
         let c := (b0 - 224) * 4096 + (b1 - 128) * 64 + (b2 - 128) in
         if is_cont b1 && is_cont b2 && (2048 <=? c) && valid_char c then Some (c, t2) else None
       | _ => None
       end
     else if b0 <? 248 then
       match t0 with
       | b1 :: b2 :: b3 :: t3 =>
         let c := (b0 - 240) * 262144 + (b1 - 128) * 4096 + (b2 - 128) * 64 + (b3 - 128) in
         if is_cont b1 && is_cont b2 && is_cont b3 && (65536 <=? c) && (c <=? 1114111)
         then Some (c, t3) else None
       | _ => None
       end
     else None
   end)%N.

(* Whole-string strict decoder; fuel = number of bytes (each step consumes
   at least one byte). *)
Fixpoint decode_fuel (fuel : nat) (bs : list N) : option str :=
  match bs with
  | [] => Some []
  | _ =>
    match fuel with
    | 0 => None
    | S f =>
      match decode1 bs with
      | Some (c, rest) =>
        match decode_fuel f rest with
        | Some s => Some (c :: s)
        | None => None
        end
      | None => None
      end
    end
  end.

Definition decode (bs : list N) : option str := decode_fuel (length bs) bs.
