(* Unicode data is a parameter of the model, never an axiom: every model
   function that needs a character property takes a [UData] record; the
   theorems are stated [forall U]. For execution the driver fills the record
   from tables dumped from the implementation's own libraries. *)
From RL Require Export Ustr.

(* Grapheme_Cluster_Break categories of unicode-segmentation (tables.rs) *)
Inductive gcat :=
| GC_Any | GC_CR | GC_Control | GC_Extend | GC_ExtPict | GC_InCBConsonant
| GC_L | GC_LF | GC_LV | GC_LVT | GC_Prepend | GC_RI | GC_SpacingMark
| GC_T | GC_V | GC_ZWJ.

Record UData := {
  u_is_whitespace : N -> bool;     (* char::is_whitespace *)
  u_is_alphanumeric : N -> bool;   (* char::is_alphanumeric *)
  u_is_alphabetic : N -> bool;     (* char::is_alphabetic *)
  u_is_control : N -> bool;        (* char::is_control *)
  u_is_lowercase : N -> bool;      (* char::is_lowercase *)
  u_is_uppercase : N -> bool;      (* char::is_uppercase *)
  u_to_upper : N -> list N;        (* char::to_uppercase *)
  u_to_lower : N -> list N;        (* char::to_lowercase *)
  u_width : N -> nat;              (* unicode_width::UnicodeWidthChar::width (None -> 0) *)
  u_gcat : N -> gcat;              (* grapheme_cat *)
  u_incb_extend : N -> bool;       (* is_incb_extend *)
  u_incb_linker : N -> bool;       (* is_incb_linker *)
}.

(* a small concrete instance, used only by the non-vacuity Examples *)
Definition ex_U : UData :=
  Build_UData (fun c => N.eqb c 32) (fun c => (N.leb 97 c && N.leb c 122) || (N.leb 48 c && N.leb c 57))
              (fun c => N.leb 97 c && N.leb c 122) (fun c => N.ltb c 32)
              (fun c => N.leb 97 c && N.leb c 122) (fun _ => false) (fun c => [c]) (fun c => [c])
              (fun c => if N.ltb c 32 then 0 else if N.leb 4352 c then 2 else 1)
              (fun c => if N.eqb c 10 then GC_LF else if N.eqb c 13 then GC_CR else if N.eqb c 769 then GC_Extend else GC_Any)
              (fun _ => false) (fun _ => false).
