(* Executable model of unicode-segmentation's extended grapheme clusters
   (GraphemeCursor, is_extended = true): check_pair + the three look-back
   handlers (GB9c, GB11, GB12/13), over the category function in UData.
   This is a dependency of rustyline: modelled, not verified; the `seg`
   correspondence stream compares it with the crate. *)
From RL Require Export UData.

Definition gcat_eqb (a b : gcat) : bool :=
  match a, b with
  | GC_Any, GC_Any | GC_CR, GC_CR | GC_Control, GC_Control | GC_Extend, GC_Extend
  | GC_ExtPict, GC_ExtPict | GC_InCBConsonant, GC_InCBConsonant | GC_L, GC_L | GC_LF, GC_LF
  | GC_LV, GC_LV | GC_LVT, GC_LVT | GC_Prepend, GC_Prepend | GC_RI, GC_RI
  | GC_SpacingMark, GC_SpacingMark | GC_T, GC_T | GC_V, GC_V | GC_ZWJ, GC_ZWJ => true
  | _, _ => false
  end.

(* GraphemeCursor::grapheme_category: ASCII fast path, then the table *)
Definition gcat_of (U : UData) (c : N) : gcat :=
  if (c <=? 126)%N then
    if (32 <=? c)%N then GC_Any
    else if (c =? 10)%N then GC_LF
    else if (c =? 13)%N then GC_CR
    else GC_Control
  else u_gcat U c.

Inductive pair_result := PNotBreak | PBreak | PExtended | PInCb | PRegional | PEmoji.

Definition is_ctl (g : gcat) : bool :=
  match g with GC_Control | GC_CR | GC_LF => true | _ => false end.

(* check_pair, same order of arms *)
Definition check_pair (b a : gcat) : pair_result :=
  match b, a with
  | GC_CR, GC_LF => PNotBreak
  | _, _ =>
    if is_ctl b then PBreak
    else if is_ctl a then PBreak
    else match b, a with
         | GC_L, (GC_L | GC_V | GC_LV | GC_LVT) => PNotBreak
         | (GC_LV | GC_V), (GC_V | GC_T) => PNotBreak
         | (GC_LVT | GC_T), GC_T => PNotBreak
         | _, (GC_Extend | GC_ZWJ) => PNotBreak
         | _, GC_SpacingMark => PExtended
         | GC_Prepend, _ => PExtended
         | _, GC_InCBConsonant => PInCb
         | GC_ZWJ, GC_ExtPict => PEmoji
         | GC_RI, GC_RI => PRegional
         | _, _ => PBreak
         end
  end.

(* handle_incb_consonant over the reversed text before the position: true = break *)
Fixpoint incb_break (U : UData) (rb : list N) (seen_linker : bool) : bool :=
  match rb with
  | [] => true
  | c :: t =>
    if u_incb_linker U c then incb_break U t true
    else if u_incb_extend U c then incb_break U t seen_linker
    else negb (seen_linker && gcat_eqb (gcat_of U c) GC_InCBConsonant)
  end.

(* handle_regional: number of RI immediately before the position *)
Fixpoint ri_run (U : UData) (rb : list N) : nat :=
  match rb with
  | c :: t => if gcat_eqb (gcat_of U c) GC_RI then S (ri_run U t) else 0
  | [] => 0
  end.

(* handle_emoji after the ZWJ: Extend* then Extended_Pictographic *)
Fixpoint emoji_break (U : UData) (rb : list N) : bool :=
  match rb with
  | [] => true
  | c :: t => match gcat_of U c with
              | GC_Extend => emoji_break U t
              | GC_ExtPict => false
              | _ => true
              end
  end.

(* is there a cluster boundary between (rev rb) and a :: ...? rb non-empty *)
Definition is_break (U : UData) (rb : list N) (a : N) : bool :=
  match rb with
  | [] => true
  | b :: rest =>
    match check_pair (gcat_of U b) (gcat_of U a) with
    | PNotBreak => false
    | PBreak => true
    | PExtended => false
    | PInCb => incb_break U rb false
    | PRegional => Nat.even (ri_run U rb)
    | PEmoji => emoji_break U rest
    end
  end.

(* segmentation: [rb] = reversed text so far, [cur] = reversed current cluster *)
Fixpoint seg_go (U : UData) (rb cur : list N) (s : str) : list str :=
  match s with
  | [] => match cur with [] => [] | _ => [rev cur] end
  | c :: t =>
    match cur with
    | [] => seg_go U (c :: rb) [c] t
    | _ => if is_break U rb c then rev cur :: seg_go U (c :: rb) [c] t
           else seg_go U (c :: rb) (c :: cur) t
    end
  end.

Definition useg (U : UData) (s : str) : list str := seg_go U [] [] s.

(* the two laws of a segmentation that hold by construction *)
Lemma seg_go_concat U s : forall rb cur, concat (seg_go U rb cur s) = rev cur ++ s.
Proof.
  induction s as [|c s IH]; intros rb cur; cbn [seg_go].
  - destruct cur; cbn; rewrite ?app_nil_r; reflexivity.
  - destruct cur as [|x cur].
    + rewrite IH. reflexivity.
    + destruct (is_break U rb c).
      * cbn [concat]. rewrite IH. cbn [rev app]. reflexivity.
      * rewrite IH. cbn [rev]. rewrite <- !app_assoc. reflexivity.
Qed.

Theorem useg_concat U s : concat (useg U s) = s.
Proof. unfold useg. rewrite seg_go_concat. reflexivity. Qed.

Lemma seg_go_nonempty U s : forall rb cur, Forall (fun g => g <> []) (seg_go U rb cur s).
Proof.
  induction s as [|c s IH]; intros rb cur; cbn [seg_go].
  - destruct cur as [|x cur]; [constructor|]. constructor; [|constructor].
    intros H. apply (f_equal (@length N)) in H. rewrite rev_length in H. discriminate.
  - destruct cur as [|x cur]; [apply IH|].
    destruct (is_break U rb c); [|apply IH].
    constructor; [|apply IH].
    intros H. apply (f_equal (@length N)) in H. rewrite rev_length in H. discriminate.
Qed.

Theorem useg_nonempty U s : Forall (fun g => g <> []) (useg U s).
Proof. apply seg_go_nonempty. Qed.
