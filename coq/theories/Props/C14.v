(* C14 -- Completion replaces only the word being completed and can always be backed out.
   Property theorems only. Circular mode: Editor.show_candidate is what round i shows,
   Editor.circular_branch what the key read then does ([rec] = the rest of the loop). *)
From RL Require Import UData LineBuffer Undo Editor EditorRun UndoProofs CompleteProofs CompleteLoop NestedGroupUndo.

(* round i < n: only the span between the reported start and the cursor is rewritten -- the text before
   (l) and after (r) is intact, the cursor is after the candidate *)
Theorem C14_shows_candidate :
  forall (U : UData) (s : est) start cands backup i c l w r,
  i < length cands -> nth_error cands i = Some c ->
  buf (e_line s) = l ++ w ++ r -> start = blen l -> pos (e_line s) = blen l + blen w ->
  exists s', show_candidate U start cands backup i s = EOk tt s'
             /\ buf (e_line s') = l ++ c ++ r /\ pos (e_line s') = blen l + blen c
             /\ e_hist s' = e_hist s /\ grow (e_line s') = grow (e_line s).
Proof. exact shows_candidate. Qed.
Print Assumptions C14_shows_candidate.

(* round n: the original text and cursor *)
Theorem C14_shows_original :
  forall (U : UData) (s : est) start cands backup i,
  length cands <= i -> grow (e_line s) = true -> snd backup <= blen (fst backup) ->
  exists s', show_candidate U start cands backup i s = EOk tt s'
             /\ buf (e_line s') = fst backup /\ pos (e_line s') = snd backup /\ e_hist s' = e_hist s.
Proof. exact shows_original. Qed.
Print Assumptions C14_shows_original.

(* Tab: next index modulo n+1 (so: each candidate in order, then the original, then wrap);
   Shift-Tab: the previous one *)
Theorem C14_tab_advances :
  forall (U : UData) (cfg : config) rec (s : est) cands backup mark i,
  exists s', circular_branch U cfg rec cands backup mark i CComplete s = rec ((i + 1) mod (length cands + 1)) s'
             /\ e_line s' = e_line s /\ e_changes s' = e_changes s /\ e_hist s' = e_hist s.
Proof. exact tab_advances. Qed.
Print Assumptions C14_tab_advances.

Theorem C14_backtab_goes_back :
  forall (U : UData) (cfg : config) rec (s : est) cands backup mark i,
  exists s', circular_branch U cfg rec cands backup mark i CCompleteBackward s
             = rec (if Nat.eqb i 0 then length cands else (i - 1) mod (length cands + 1)) s'
             /\ e_line s' = e_line s /\ e_changes s' = e_changes s /\ e_hist s' = e_hist s.
Proof. exact backtab_goes_back. Qed.
Print Assumptions C14_backtab_goes_back.

(* Escape / Ctrl-G: original text and cursor exactly, undo stack cut back to the mark *)
Theorem C14_abort_restores_original :
  forall (U : UData) (cfg : config) rec (s : est) cands backup mark i,
  i < length cands -> grow (e_line s) = true -> snd backup <= blen (fst backup) ->
  exists s', circular_branch U cfg rec cands backup mark i CAbort s = EOk None s'
             /\ buf (e_line s') = fst backup /\ pos (e_line s') = snd backup /\ e_hist s' = e_hist s
             /\ exists c1, e_changes s' = cs_truncate c1 mark.
Proof. exact abort_restores_original. Qed.
Print Assumptions C14_abort_restores_original.

Theorem C14_abort_on_original :
  forall (U : UData) (cfg : config) rec (s : est) cands backup mark i,
  length cands <= i ->
  exists s', circular_branch U cfg rec cands backup mark i CAbort s = EOk None s'
             /\ e_line s' = e_line s /\ e_hist s' = e_hist s /\ e_changes s' = cs_truncate (e_changes s) mark.
Proof. exact abort_on_original. Qed.
Print Assumptions C14_abort_on_original.

(* any other key keeps the shown candidate and is then executed by the main loop *)
Theorem C14_other_key_accepts :
  forall (U : UData) (cfg : config) rec (s : est) cands backup mark i c,
  ends_completion c = true ->
  exists s', circular_branch U cfg rec cands backup mark i c s = EOk (Some c) s'
             /\ e_line s' = e_line s /\ e_hist s' = e_hist s /\ e_changes s' = fst (cs_end (e_changes s)).
Proof. exact other_key_accepts. Qed.
Print Assumptions C14_other_key_accepts.

(* one Undo after an accepted completion: begin, the completion's changes, end -- Undo 1 pops exactly that
   group and the text is the pre-completion text *)
Theorem C14_accept_then_undo :
  forall (U : UData) (seg : str -> list str) (c : changeset) (es : list event) (b0 b : lb),
  cs_level c = 0 -> valid (cs_undos c) (buf b0) ->
  let c2 := cs_notify_all U seg (fst (cs_begin c)) es in
  valid (cs_undos c2) (buf b) ->
  cs_undos c2 <> UBegin :: cs_undos c ->
  exists b' d, cs_undo (fst (cs_end c2)) b 1 = Ok (mkCs 0 (cs_undos c), b', d) /\ buf b' = buf b0.
Proof. exact group_then_undo. Qed.
Print Assumptions C14_accept_then_undo.

(* list mode: the text put in the span is the longest common prefix of the candidates *)
Theorem C14_lcp :
  forall (cands : list str) (p : str),
  lcp_all cands = Some p ->
  (forall c, In c cands -> is_prefix p c)
  /\ (forall q, (forall c, In c cands -> is_prefix q c) -> is_prefix q p).
Proof. exact lcp_all_spec. Qed.
Print Assumptions C14_lcp.

(* LIST MODE, first step of complete_line (Editor.list_span_step; what follows it -- beep, a second Tab listing the
   candidates -- does not touch the line): when the longest common prefix is longer than the span, or there is one
   candidate, exactly the span is replaced by it, text before and after intact, cursor after it ... *)
Theorem C14_list_span_extends :
  forall (U : UData) (cfg : config) (s : est) start cands lcp l w r,
  lcp_all cands = Some lcp -> blen w < blen lcp \/ length cands = 1 ->
  buf (e_line s) = l ++ w ++ r -> start = blen l -> pos (e_line s) = blen l + blen w ->
  exists s', list_span_step U cfg start cands s = EOk tt s'
             /\ buf (e_line s') = l ++ lcp ++ r /\ pos (e_line s') = blen l + blen lcp
             /\ e_hist s' = e_hist s /\ grow (e_line s') = grow (e_line s).
Proof. exact list_span_extends. Qed.
Print Assumptions C14_list_span_extends.

(* ... and when it does not extend the span (or there is no common prefix) nothing changes at all *)
Theorem C14_list_span_keeps :
  forall (U : UData) (cfg : config) (s : est) start cands,
  (lcp_all cands = None
   \/ exists lcp, lcp_all cands = Some lcp /\ blen lcp <= pos (e_line s) - start /\ length cands <> 1) ->
  list_span_step U cfg start cands s = EOk tt s.
Proof. exact list_span_keeps. Qed.
Print Assumptions C14_list_span_keeps.

(* THE WHOLE LOOP of circular completion. The line was l ++ w ++ r with the cursor after w when Tab was pressed, the completer
   reported the start of w. For every sequence of keys read inside the loop (any number of Tabs, Shift-Tabs, then whatever
   ends it): the stored history is untouched; an abort leaves exactly the original line and cursor; any other ending leaves
   l ++ y ++ r with the cursor after y, where y is one of the candidates offered or w itself -- l and r are never touched *)
Theorem C14_whole_completion_loop :
  forall (U : UData) (cfg : config) (l w r : str) (cands : list str) (mark fuel i : nat) (s : est) (x : str) res (s' : est),
  span_holds l r s x ->
  complete_circular U cfg fuel (blen l) cands (l ++ w ++ r, blen l + blen w) mark i s = EOk res s' ->
  e_hist s' = e_hist s
  /\ (res = None -> buf (e_line s') = l ++ w ++ r /\ pos (e_line s') = blen l + blen w)
  /\ (forall c, res = Some c ->
      exists y, offered w cands y /\ buf (e_line s') = l ++ y ++ r /\ pos (e_line s') = blen l + blen y).
Proof. exact circular_result. Qed.
Print Assumptions C14_whole_completion_loop.

(* the same inside an open undo group -- a vi insert session that has recorded [outer] so far: [end] closes both groups and
   one Undo takes back the whole session (the completion AND what was typed before it in that session), giving the
   text and the undo list from before the session; the session is the undo unit there (C05) *)
Theorem C14_accept_in_session_then_undo :
  forall (U : UData) (seg : str -> list str) (base outer : list change) (es : list event) (b00 b : lb),
  forallb no_marker outer = true ->
  valid base (buf b00) ->
  let c := mkCs 1 (outer ++ UBegin :: base) in
  let c2 := cs_notify_all U seg (fst (cs_begin c)) es in
  valid (cs_undos c2) (buf b) ->
  cs_undos c2 <> UBegin :: cs_undos c ->
  exists b' d, cs_undo (fst (cs_end c2)) b 1 = Ok (mkCs 0 base, b', d) /\ buf b' = buf b00.
Proof. exact group_in_group_then_undo. Qed.
Print Assumptions C14_accept_in_session_then_undo.

(* both, on the whole model: vi, candidates foobar / foobaz. (1) `fo` Tab Esc u: the read starts in insert mode with no
   group open, the Undo gives back `fo`. (2) `x` Esc a `fo` Tab Esc u: the completion happens inside the session opened by
   `a`, the Undo gives back `x`. *)
Example C14_example_undo_outside_and_inside_a_session :
  let cfg := mk_config Vi CTCircular true 80 true [[102;111;111;98;97;114]; [102;111;111;98;97;122]]%N [] VKNone [] in
  fst (read_line ex_U cfg [62; 32]%N None [] (KillRing.kr_new 60)
                 (mkIn [] [[Ch 102]; [Ch 111]; [Ch 9]; [Ch 27]; [Ch 117]; [Ch 13]]%N)) = OLine [102; 111]%N
  /\ fst (read_line ex_U cfg [62; 32]%N None [] (KillRing.kr_new 60)
                    (mkIn [] [[Ch 120]; [Ch 27]; [Ch 97]; [Ch 102]; [Ch 111]; [Ch 9]; [Ch 27]; [Ch 117]; [Ch 13]]%N)) = OLine [120]%N.
Proof. vm_compute. split; reflexivity. Qed.

(* non-vacuity: "cd fo| | wc", candidates foobar, foobaz: Tab Tab shows foobaz in place; Enter keeps it *)
Example C14_example :
  let cfg := mk_config Emacs CTCircular true 80 true [[102;111;111;98;97;114]; [102;111;111;98;97;122]]%N [] VKNone [] in
  let inp := mkIn [] [[Ch 9]; [Ch 9]; [Ch 13]]%N in
  fst (read_line ex_U cfg [62; 32]%N (Some ([99;100;32;102;111], [32;124;32;119;99])%N) [] (KillRing.kr_new 60) inp)
  = OLine [99;100;32;102;111;111;98;97;122;32;124;32;119;99]%N.
Proof. vm_compute. reflexivity. Qed.
