(* C18 -- Reading from a pipe or file returns the input lines exactly, one
   per call. Property theorems only. They hold for EVERY segmentation
   function [seg] (no law of the segmentation is needed). *)
From RL Require Import Uax29 Direct DirectProofs.

(* the byte arithmetic of apply_backspace_direct never panics -- whatever the
   byte length of a cluster -- and computes the stack semantics: each
   backspace cluster removes the cluster before it *)
Theorem C18_apply_bs_total : forall (seg : str -> list str) (s : str),
  apply_bs_impl seg s = Ok (apply_bs seg s).
Proof. exact apply_bs_impl_ok. Qed.
Print Assumptions C18_apply_bs_total.

(* what remains are clusters of the input, in order, none of them a backspace *)
Theorem C18_apply_bs_clusters : forall (seg : str -> list str) (s : str),
  exists kept, sublist kept (seg s) /\ apply_bs seg s = concat kept
               /\ Forall (fun g => g <> [8%N]) kept.
Proof. exact apply_bs_clusters. Qed.
Print Assumptions C18_apply_bs_clusters.

(* without a validator: successive reads return the successive lines without
   their LF / CRLF, backspaces applied, then end-of-file; a final
   unterminated line is one of the lines *)
Theorem C18_direct_lines : forall (seg : str -> list str) (input : str),
  direct_all seg None input
  = map (fun l => DLine (apply_bs seg (strip l))) (dlines input) ++ [DEof]
  /\ concat (dlines input) = input.
Proof. intros seg input. exact (conj (direct_lines seg (dlines input)) (dlines_concat input)). Qed.
Print Assumptions C18_direct_lines.

(* with a validator: only a string the validator accepts is returned, and
   nothing panics *)
Theorem C18_direct_validated : forall (seg : str -> list str) (vf : str -> vres) (input : str),
  Forall (fun r => match r with DLine x => vf x = VValid | DPanic => False | _ => True end)
         (direct_all seg (Some vf) input).
Proof. intros seg vf input. exact (direct_validated seg vf (dlines input) []). Qed.
Print Assumptions C18_direct_validated.

(* on Incomplete the text is kept WITH its terminator and the next line is appended *)
Theorem C18_direct_incomplete : forall seg vf acc l t s tn tr,
  strip_terminator (acc ++ l) = (s, tn, tr) -> vf (apply_bs seg s) = VIncomplete ->
  direct_go seg (Some vf) acc (l :: t)
  = direct_go seg (Some vf) (apply_bs seg s ++ (if tr then [13%N] else []) ++ (if tn then [10%N] else [])) t.
Proof. exact direct_incomplete. Qed.
Print Assumptions C18_direct_incomplete.

Example C18_example :
  (* "a" + 3 combining marks, backspace, "b(", CRLF, ")", LF, "x" *)
  let input := [97; 769; 769; 769; 8; 98; 40; 13; 10; 41; 10; 120]%N in
  direct_all (useg ex_U) None input = [DLine [98; 40]%N; DLine [41]%N; DLine [120]%N; DEof]
  /\ direct_all (useg ex_U) (Some bracket_validator) input
     = [DLine [98; 40; 13; 10; 41]%N; DLine [120]%N; DEof].
Proof. vm_compute. split; reflexivity. Qed.
