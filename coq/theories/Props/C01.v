(* C01 -- Keystrokes produce the documented edit. Property theorems only.
   The composition over whole key sequences is the function Editor.read_line itself,
   tied to the implementation by the `keys` correspondence stream; the theorems below
   are the laws the property names. *)
From RL Require Import UData LineBuffer Keys Editor EditorRun Bindings BindingProofs EditorProofs.

(* The README tables, row by row: with no pending argument, on any non-empty line, in
   any editor state, the keymap maps the key to the documented command.
   (finite tables: 52 + 42 + 5 rows, listed in Spec/Bindings.v) *)
Theorem C01_binding_table_emacs :
  forall (U : UData) cs kr hist hidx saved lay prompt ps lc lcs inp out obs txt c0 p cap g,
  map (fun row : key * cmd =>
         cmd_of (emacs U (cfg_plain Emacs) 4 (fst row)
                       (plain_state (mkLb (c0 :: txt) p cap g) cs kr hist hidx saved lay prompt ps IMInsert lc lcs inp out obs)))
      doc_emacs
  = map (fun row => Some (snd row)) doc_emacs.
Proof. exact binding_table_emacs. Qed.
Print Assumptions C01_binding_table_emacs.

Theorem C01_binding_table_vi_command :
  forall (U : UData) cs kr hist hidx saved lay prompt ps lc lcs inp out obs txt c0 p cap g,
  map (fun row : key * cmd =>
         cmd_of (vi_command U (cfg_plain Vi) 4 (fst row)
                            (plain_state (mkLb (c0 :: txt) p cap g) cs kr hist hidx saved lay prompt ps IMCommand lc lcs inp out obs)))
      doc_vi_command
  = map (fun row => Some (snd row)) doc_vi_command.
Proof. exact binding_table_vi_command. Qed.
Print Assumptions C01_binding_table_vi_command.

Theorem C01_binding_table_vi_insert :
  forall (U : UData) cs kr hist hidx saved lay prompt ps lc lcs inp out obs txt c0 p cap g,
  map (fun row : key * cmd =>
         cmd_of (vi_insert U (cfg_plain Vi) 4 (fst row)
                           (plain_state (mkLb (c0 :: txt) p cap g) cs kr hist hidx saved lay prompt ps IMInsert lc lcs inp out obs)))
      doc_vi_insert
  = map (fun row => Some (snd row)) doc_vi_insert.
Proof. exact binding_table_vi_insert. Qed.
Print Assumptions C01_binding_table_vi_insert.

(* numeric arguments: a count is handed to the command, a negative argument runs the
   opposite command (tables doc_emacs_neg3, doc_emacs_pos7, doc_vi_command_5) *)
Theorem C01_neg_arg_flips :
  forall (U : UData) cs kr hist hidx saved lay prompt ps lc lcs inp out obs txt c0 p cap g,
  map (fun row : key * cmd =>
         cmd_of (emacs U (cfg_plain Emacs) 4 (fst row)
                       (with_arg (plain_state (mkLb (c0 :: txt) p cap g) cs kr hist hidx saved lay prompt ps IMInsert lc lcs inp out obs) (-3))))
      doc_emacs_neg3
  = map (fun row => Some (snd row)) doc_emacs_neg3.
Proof. exact neg_arg_flips. Qed.
Print Assumptions C01_neg_arg_flips.

Theorem C01_pos_arg_counts :
  forall (U : UData) cs kr hist hidx saved lay prompt ps lc lcs inp out obs txt c0 p cap g,
  map (fun row : key * cmd =>
         cmd_of (emacs U (cfg_plain Emacs) 4 (fst row)
                       (with_arg (plain_state (mkLb (c0 :: txt) p cap g) cs kr hist hidx saved lay prompt ps IMInsert lc lcs inp out obs) 7)))
      doc_emacs_pos7
  = map (fun row => Some (snd row)) doc_emacs_pos7.
Proof. exact pos_arg_counts. Qed.
Print Assumptions C01_pos_arg_counts.

Theorem C01_vi_arg_counts :
  forall (U : UData) cs kr hist hidx saved lay prompt ps lc lcs inp out obs txt c0 p cap g,
  map (fun row : key * cmd =>
         cmd_of (vi_command U (cfg_plain Vi) 4 (fst row)
                            (with_arg (plain_state (mkLb (c0 :: txt) p cap g) cs kr hist hidx saved lay prompt ps IMCommand lc lcs inp out obs) 5)))
      doc_vi_command_5
  = map (fun row => Some (snd row)) doc_vi_command_5.
Proof. exact vi_arg_counts. Qed.
Print Assumptions C01_vi_arg_counts.

(* the byte decoder: each standard encoding of a documented key (control characters, CSI / SS3
   sequences, ESC-prefixed Meta keys, multi-byte text) decodes to that key and consumes exactly
   its characters -- for any editor state, any later chunks, either timeout setting.
   Unicode data: any, with the control class being the C0/C1 controls. *)
Theorem C01_decode_roundtrip :
  forall (U : UData) (cfg : config) (s : est) (rest : list (list inchar)) (sea : bool),
  map (fun row : list N * key => decode_one (with_cc U) cfg sea s rest (fst row)) doc_encodings
  = map (fun row => Some (snd row, [], rest)) doc_encodings.
Proof. exact decode_roundtrip. Qed.
Print Assumptions C01_decode_roundtrip.

(* every printable character typed is inserted exactly once at the cursor: for EVERY character,
   text l ++ r with the cursor between, configuration and display state *)
Theorem C01_self_insert_once :
  forall (U : UData) (cfg : config) (s : est) (c : N) (l r : str),
  buf (e_line s) = l ++ r -> pos (e_line s) = blen l -> grow (e_line s) = true ->
  exists s', execute U cfg (CSelfInsert 1 c) s = EOk Proceed s'
             /\ buf (e_line s') = l ++ [c] ++ r /\ pos (e_line s') = blen l + clen c.
Proof. exact self_insert_once. Qed.
Print Assumptions C01_self_insert_once.

(* no motion changes the text: for EVERY movement (char, word, line, char search, buffer ends),
   count, text, cursor and configuration *)
Theorem C01_motions_preserve_text :
  forall (U : UData) (cfg : config) (m : movement) (s : est) (st : status) (s' : est),
  execute U cfg (CMove m) s = EOk st s' -> buf (e_line s') = buf (e_line s).
Proof. exact motions_preserve_text. Qed.
Print Assumptions C01_motions_preserve_text.

(* Esc in vi insert mode returns to command mode and moves one character left *)
Theorem C01_vi_insert_esc :
  forall (U : UData) cs kr hist hidx saved lay prompt ps lc lcs inp out obs txt c0 p cap g,
  let s := plain_state (mkLb (c0 :: txt) p cap g) cs kr hist hidx saved lay prompt ps IMInsert lc lcs inp out obs in
  exists s', vi_insert U (cfg_plain Vi) 4 (KEsc, M_NONE) s = EOk (CMove (MBackwardChar 1)) s'
             /\ i_input_mode s' = IMCommand.
Proof. exact vi_insert_esc. Qed.
Print Assumptions C01_vi_insert_esc.

(* non-vacuity: a whole read through the model -- "ab", Left, "c", Enter -- returns "acb" *)
Example C01_example :
  let cfg := cfg_plain Emacs in
  let inp := mkIn [] [[Ch 97; Ch 98]; [Ch 27; Ch 91; Ch 68]; [Ch 99]; [Ch 13]]%N in
  fst (read_line ex_U cfg [62; 32]%N None [] (KillRing.kr_new 60) inp) = OLine [97; 99; 98]%N.
Proof. vm_compute. reflexivity. Qed.
