(* C15 -- File name completion offers exactly the matches, quoted so they read
   back intact. Property theorems only. The facts about the unix character
   sets are discharged by computation on the constants regenerated from
   src/completion.rs on every run (Gen/GenConsts.v). *)
From RL Require Import Utf8 Completion CompletionProofs.
From RL Require Editor CompleteProofs LcpProofs.
Notation lcp_all := Editor.lcp_all.
Notation is_prefix := CompleteProofs.is_prefix.

(* escaping then unescaping any name is the identity (bare and double-quote
   rules); inside single quotes nothing is escaped *)
Theorem C15_unescape_escape_bare : forall s : str,
  unescape escape_char (escape escape_char is_break QNone s) = s.
Proof. intros s. exact (unescape_escape escape_char is_break QNone s eq_refl (fun H => match H with eq_refl => I end)). Qed.
Print Assumptions C15_unescape_escape_bare.

Theorem C15_unescape_escape_double : forall s : str,
  unescape double_quotes_escape_char (escape double_quotes_escape_char is_dq_special QDouble s) = s.
Proof. intros s. exact (unescape_escape double_quotes_escape_char is_dq_special QDouble s eq_refl (fun H => match H with eq_refl => I end)). Qed.
Print Assumptions C15_unescape_escape_double.

Theorem C15_escape_single : forall esc brk (s : str), escape esc brk QSingle s = s.
Proof. exact escape_single. Qed.
Print Assumptions C15_escape_single.

(* a replacement inserted after text that ends outside quotes and at a word
   boundary is parsed back to the same start and the same path -- bare *)
Theorem C15_reparse_bare : forall (root : list dentry) (p path : str),
  ends_normal p -> word_boundary 92 is_break p ->
  complete_path root (p ++ escape escape_char is_break QNone path)
  = (blen p, filename_complete root path (Some escape_char) is_break QNone).
Proof. exact (reparse_bare eq_refl eq_refl eq_refl eq_refl). Qed.
Print Assumptions C15_reparse_bare.

(* ... inside an open double quote *)
Theorem C15_reparse_double : forall (root : list dentry) (p path : str),
  ends_normal p ->
  complete_path root (p ++ [34%N] ++ escape double_quotes_escape_char is_dq_special QDouble path)
  = (blen p + 1, filename_complete root path (Some double_quotes_escape_char) is_dq_special QDouble).
Proof. exact (reparse_double eq_refl eq_refl eq_refl eq_refl). Qed.
Print Assumptions C15_reparse_double.

(* ... inside an open single quote (names without a single quote) *)
Theorem C15_reparse_single : forall (root : list dentry) (p path : str),
  ends_normal p -> ~ In 39%N path ->
  complete_path root (p ++ [39%N] ++ path)
  = (blen p + 1, filename_complete root path None is_break QSingle).
Proof. exact (reparse_single eq_refl eq_refl). Qed.
Print Assumptions C15_reparse_single.

(* the candidates for [dir ++ partial] are exactly the entries of the addressed
   directory whose names start with the partial name, in directory order *)
Theorem C15_candidates_exact : forall root d f ents esc brk q,
  ~ In sep f -> (d = [] \/ exists d', d = d' ++ [sep]) -> lookup_dir root d = Some ents ->
  map fst (filename_complete root (d ++ f) esc brk q)
  = map fst (filter (fun e : str * bool => prefix_b f (fst e)) ents).
Proof. exact candidates_exact. Qed.
Print Assumptions C15_candidates_exact.

(* hence a file offered once is offered again when its own path is completed *)
Theorem C15_candidate_again : forall root d name ents esc brk q,
  ~ In sep name -> (d = [] \/ exists d', d = d' ++ [sep]) -> lookup_dir root d = Some ents ->
  In (name, false) ents ->
  In name (map fst (filename_complete root (d ++ name) esc brk q)).
Proof. exact candidate_again. Qed.
Print Assumptions C15_candidate_again.

(* LONGEST COMMON PREFIX. completion.rs compares BYTES of adjacent candidates and backs the
   count off to a character boundary of the first candidate; for every list of Rust strings
   that is exactly the greatest common prefix taken character by character (the function
   list-mode completion is specified with), the final slice never fails ... *)
Theorem C15_lcp_bytes_is_lcp_chars : forall cands : list str,
  Forall (fun c => valid_str c = true) cands -> longest_common_prefix cands = lcp_all cands.
Proof. exact LcpProofs.longest_common_prefix_is_lcp. Qed.
Print Assumptions C15_lcp_bytes_is_lcp_chars.

(* ... so an answer is a prefix of every candidate and every common prefix is a prefix of it *)
Theorem C15_lcp_greatest : forall (cands : list str) (p : str),
  Forall (fun c => valid_str c = true) cands -> longest_common_prefix cands = Some p ->
  (forall c, In c cands -> is_prefix p c)
  /\ (forall q, (forall c, In c cands -> is_prefix q c) -> is_prefix q p).
Proof. exact LcpProofs.longest_common_prefix_spec. Qed.
Print Assumptions C15_lcp_greatest.

(* ... and no answer means no candidates or no common first character *)
Theorem C15_lcp_none : forall cands : list str,
  Forall (fun c => valid_str c = true) cands -> longest_common_prefix cands = None ->
  cands = [] \/ forall q, (forall c, In c cands -> is_prefix q c) -> q = [].
Proof. exact LcpProofs.longest_common_prefix_none. Qed.
Print Assumptions C15_lcp_none.

(* two candidates that share the first byte of a two-byte character but not the character *)
Example C15_lcp_example :
  longest_common_prefix [[97; 233]%N; [97; 234; 98]%N] = Some [97%N]
  /\ Forall (fun c => valid_str c = true) [[97; 233]%N; [97; 234; 98]%N].
Proof. split; [vm_compute; reflexivity|repeat constructor]. Qed.

Example C15_example :
  let root := [mkD [97; 32; 98]%N false []; mkD [100]%N true [([39; 36]%N, false)]] in
  (* typed: ls, blank, double quote, d, slash, single quote *)
  complete_path root [108; 115; 32; 34; 100; 47; 39]%N
  = (4, [([39; 36]%N, [100; 47; 39; 92; 36]%N)])
  /\ ends_normal [108; 115; 32]%N /\ word_boundary 92 is_break [108; 115; 32]%N.
Proof.
  split; [vm_compute; reflexivity|]. split; [reflexivity|].
  right. exists [108; 115]%N, 32%N. split; [reflexivity|]. split; [reflexivity|].
  right. exists [108]%N, 115%N. split; [reflexivity|discriminate].
Qed.
