(* C03 -- Line buffer operations are total, keep the cursor valid and report
   every change. Property theorems only. *)
From RL Require Import UData Uax29 LineBuffer LineBufferOps LineBufferProofs LineBufferTotal LineBufferAll InsertStrRefuted.

(* EVERY operation of the line buffer, for every Unicode data, every
   segmentation function, every buffer/cursor/parameters: the insert / delete /
   replace notifications it sent, replayed on the old text (each delete/replace
   must name the text actually there), yield exactly the new text *)
Theorem C03_replay : forall (U : UData) (seg : str -> list str) (o : lbop) (b : lb) r b' ev,
  lb_apply U seg o b = Ok (r, b', ev) -> replay (buf b) ev = Some (buf b').
Proof. exact lb_replay. Qed.
Print Assumptions C03_replay.

(* motions and copies never change the text and notify nothing *)
Theorem C03_motion_pure : forall (U : UData) (seg : str -> list str) (o : lbop) (b : lb) r b' ev,
  is_motion o = true -> lb_apply U seg o b = Ok (r, b', ev) -> buf b' = buf b /\ ev = [].
Proof. exact lb_motion_pure. Qed.
Print Assumptions C03_motion_pure.

(* character- and line-level operations (insert, yank, forward/backward char,
   buffer/line start/end, delete, backspace, kill-line, kill-buffer,
   discard-line, discard-buffer, is_end_of_input): for every buffer, every
   cursor on a character boundary and every count they return (no panic) and
   leave the cursor on a character boundary -- for any segmentation that is a
   partition of the text *)
Theorem C03_core_total_wf : forall (seg : str -> list str),
  (forall s, concat (seg s) = s) ->
  forall (U : UData) (o : lbop), is_core o = true ->
  forall b, wf b -> exists a b' ev, lb_apply U seg o b = Ok (a, b', ev) /\ wf b'.
Proof. exact lb_core_total_wf. Qed.
Print Assumptions C03_core_total_wf.

(* the model segmentation is such a partition *)
Theorem C03_useg_partition : forall (U : UData) (s : str),
  concat (useg U s) = s /\ Forall (fun g => g <> []) (useg U s).
Proof. intros U s. exact (conj (useg_concat U s) (useg_nonempty U s)). Qed.
Print Assumptions C03_useg_partition.

(* fixed capacity: insert / yank refuse (nothing changes) or stay within it *)
Theorem C03_insert_capacity : forall c n b r b' ev,
  wf b -> grow b = false -> insert c n b = Ok (r, b', ev) ->
  (r = None /\ b' = b /\ ev = [] /\ cap b < lb_len b + clen c * n)
  \/ (r <> None /\ lb_len b' = lb_len b + clen c * n /\ lb_len b' <= cap b /\ cap b' = cap b).
Proof. exact insert_capacity. Qed.
Print Assumptions C03_insert_capacity.

Theorem C03_yank_capacity : forall s n b r b' ev,
  wf b -> grow b = false -> yank s n b = Ok (r, b', ev) ->
  (r = None /\ b' = b /\ ev = []) \/ (r <> None /\ lb_len b' <= cap b /\ cap b' = cap b).
Proof. exact yank_capacity. Qed.
Print Assumptions C03_yank_capacity.

(* EVERY operation -- word motions and kills with any count and word definition,
   character searches, transpositions, case changes, copy / kill of every
   Movement, indent / dedent, line ranges -- from any buffer whose cursor is on a
   character boundary: it returns (no slice off a boundary, no underflow, no
   unwrap of None: the model's Panic is unreachable) and the cursor is on a
   boundary again. Hypotheses on the segmentation: it is a partition into
   non-empty clusters. The five operations that take raw byte offsets carry the
   precondition of Rust's own String API (op_pre: offsets on boundaries, ordered) -- and, for insert_str, that the
   offset is not before the cursor: without that premise the statement is false (C03_insert_str_before_cursor_refuted,
   known finding K_insert_str_cursor). *)
Theorem C03_all_total_wf : forall (seg : str -> list str),
  (forall s, concat (seg s) = s) -> (forall s g, In g (seg s) -> g <> []) ->
  forall (U : UData) (o : lbop) (b : lb),
  wf b -> op_pre o b -> exists a b' ev, lb_apply U seg o b = Ok (a, b', ev) /\ wf b'.
Proof. exact lb_all_total_wf. Qed.
Print Assumptions C03_all_total_wf.

(* the premise on insert_str cannot be dropped: text inserted BEFORE the cursor leaves the byte cursor where it was --
   inside the inserted character (the same witness panics the next operation of the real code: K_insert_str_cursor) *)
Theorem C03_insert_str_before_cursor_refuted :
  exists (b : lb) (i : nat) (s : str) (b' : lb) r ev,
    wf b /\ bd (buf b) i /\ i < pos b
    /\ insert_str i s b = Ok (r, b', ev) /\ ~ wf b'.
Proof. exact insert_str_before_cursor_refuted. Qed.
Print Assumptions C03_insert_str_before_cursor_refuted.

(* ... in particular for the UAX #29 segmentation of the model itself: no hypothesis left *)
Theorem C03_all_total_wf_useg : forall (U : UData) (o : lbop) (b : lb),
  wf b -> op_pre o b -> exists a b' ev, lb_apply U (useg U) o b = Ok (a, b', ev) /\ wf b'.
Proof. exact lb_all_total_wf_useg. Qed.
Print Assumptions C03_all_total_wf_useg.

(* any sequence of operations that take no raw offsets, from any valid buffer:
   no step panics and every intermediate cursor is on a character boundary *)
Theorem C03_run_never_panics : forall (seg : str -> list str),
  (forall s, concat (seg s) = s) -> (forall s g, In g (seg s) -> g <> []) ->
  forall (U : UData) (ops : list lbop) (b : lb),
  wf b -> forallb user_op ops = true ->
  Forall (fun x => exists r b' ev, x = Some (r, b', ev) /\ wf b') (lb_run U seg ops b).
Proof. exact lb_run_never_panics. Qed.
Print Assumptions C03_run_never_panics.

(* cursor motion to the line above / below (any display-width function, any count, any prompt column) *)
Theorem C03_line_moves_total : forall (seg : str -> list str),
  (forall s, concat (seg s) = s) -> (forall s g, In g (seg s) -> g <> []) ->
  forall (width : str -> nat) (n pc : nat),
  total_wf (move_to_line_up seg width n pc) /\ total_wf (move_to_line_down seg width n pc).
Proof. intros seg H1 H2 width n pc. exact (conj (move_to_line_up_total seg H1 H2 width n pc) (move_to_line_down_total seg H1 H2 width n pc)). Qed.
Print Assumptions C03_line_moves_total.

(* update (replace the whole text) with a fixed capacity keeps the LONGEST prefix of the new text that ends on a
   character boundary and fits the capacity -- never more, never a split character; otherwise the whole text *)
Theorem C03_update_capacity : forall s p b r b' ev,
  bd s p -> update s p b = Ok (r, b', ev) ->
  exists t rest, s = t ++ rest /\ buf b' = t /\ pos b' = Nat.min (blen t) p /\ cap b' = cap b /\ grow b' = grow b
    /\ (must_truncate b (blen s) = false -> rest = [])
    /\ (must_truncate b (blen s) = true -> blen t <= cap b /\ forall q, bd s q -> q <= cap b -> q <= blen t).
Proof. exact update_spec. Qed.
Print Assumptions C03_update_capacity.

Example C03_example :
  let b := mkLb [97; 233; 769; 10; 26085]%N 3 16 false in
  wf b /\
  match lb_apply ex_U (useg ex_U) (OpKill (MBackwardWord 1 WEmacs)) b with
  | Ok (_, b', ev) => buf b' = [769; 10; 26085]%N /\ pos b' = 0 /\ replay (buf b) ev = Some (buf b')
  | Panic => False
  end.
Proof.
  split; [exists [97; 233]%N, [769; 10; 26085]%N; split; reflexivity|]. vm_compute. repeat split; reflexivity.
Qed.
