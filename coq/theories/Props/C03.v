(* C03 -- Line buffer operations are total, keep the cursor valid and report
   every change. Property theorems only. *)
From RL Require Import UData Uax29 LineBuffer LineBufferOps LineBufferProofs LineBufferTotal.

(* EVERY operation of the line buffer, for every Unicode data, every
   segmentation function, every buffer/cursor/parameters: the insert / delete /
   replace notifications it sent, replayed on the old text (each delete/replace
   must name the text actually there), yield exactly the new text *)
Theorem C03_replay : forall (U : UData) (seg : str -> list str) (o : lbop) (b : lb) r b' ev,
  lb_apply U seg o b = Ok (r, b', ev) -> replay (buf b) ev = Some (buf b').
Proof. exact lb_replay. Qed.
Print Assumptions C03_replay.

(* motions and copies never change the text and notify nothing *)
Theorem C03_motion_pure : forall (U : UData) (seg : str -> list str) (o : lbop) (b : lb) r b' ev,
  is_motion o = true -> lb_apply U seg o b = Ok (r, b', ev) -> buf b' = buf b /\ ev = [].
Proof. exact lb_motion_pure. Qed.
Print Assumptions C03_motion_pure.

(* character- and line-level operations (insert, yank, forward/backward char,
   buffer/line start/end, delete, backspace, kill-line, kill-buffer,
   discard-line, discard-buffer, is_end_of_input): for every buffer, every
   cursor on a character boundary and every count they return (no panic) and
   leave the cursor on a character boundary -- for any segmentation that is a
   partition of the text *)
Theorem C03_core_total_wf : forall (seg : str -> list str),
  (forall s, concat (seg s) = s) ->
  forall (U : UData) (o : lbop), is_core o = true ->
  forall b, wf b -> exists a b' ev, lb_apply U seg o b = Ok (a, b', ev) /\ wf b'.
Proof. exact lb_core_total_wf. Qed.
Print Assumptions C03_core_total_wf.

(* the model segmentation is such a partition *)
Theorem C03_useg_partition : forall (U : UData) (s : str),
  concat (useg U s) = s /\ Forall (fun g => g <> []) (useg U s).
Proof. intros U s. exact (conj (useg_concat U s) (useg_nonempty U s)). Qed.
Print Assumptions C03_useg_partition.

(* fixed capacity: insert / yank refuse (nothing changes) or stay within it *)
Theorem C03_insert_capacity : forall c n b r b' ev,
  wf b -> grow b = false -> insert c n b = Ok (r, b', ev) ->
  (r = None /\ b' = b /\ ev = [] /\ cap b < lb_len b + clen c * n)
  \/ (r <> None /\ lb_len b' = lb_len b + clen c * n /\ lb_len b' <= cap b /\ cap b' = cap b).
Proof. exact insert_capacity. Qed.
Print Assumptions C03_insert_capacity.

Theorem C03_yank_capacity : forall s n b r b' ev,
  wf b -> grow b = false -> yank s n b = Ok (r, b', ev) ->
  (r = None /\ b' = b /\ ev = []) \/ (r <> None /\ lb_len b' <= cap b /\ cap b' = cap b).
Proof. exact yank_capacity. Qed.
Print Assumptions C03_yank_capacity.

Example C03_example :
  let b := mkLb [97; 233; 769; 10; 26085]%N 3 16 false in
  wf b /\
  match lb_apply ex_U (useg ex_U) (OpKill (MBackwardWord 1 WEmacs)) b with
  | Ok (_, b', ev) => buf b' = [769; 10; 26085]%N /\ pos b' = 0 /\ replay (buf b) ev = Some (buf b')
  | Panic => False
  end.
Proof.
  split; [exists [97; 233]%N, [769; 10; 26085]%N; split; reflexivity|]. vm_compute. repeat split; reflexivity.
Qed.
