(* C17 -- No input can crash or wedge a read. Property theorems only (the model-level half; signals,
   unsafe code and the kernel are outside the model: see the junk stream). *)
From RL Require Import UData LineBuffer LineBufferAll KillRing Editor EditorRun ProgressProofs DecoderProofs UndoEditor KillRingProofs NoPanic ReadNoPanic MainLoop.

(* the byte decoder is total, for EVERY character stream and chunking, both timeout settings: it yields a
   key having consumed at least one character, or reports the end of the input / an undecodable byte;
   it never panics and never loops *)
Theorem C17_decode_total :
  forall (U : UData) (cfg : config) (sea : bool) (s : est),
  (exists k s', next_key U cfg sea s = EOk k s' /\ sz s' < sz s)
  \/ (exists s', next_key U cfg sea s = EErr EHangup s')
  \/ (exists s', next_key U cfg sea s = EErr EInvalidData s').
Proof. exact decode_total. Qed.
Print Assumptions C17_decode_total.

(* every command read from the terminal consumes at least one character (no loop of the editor spins
   without reading) ... *)
Theorem C17_every_command_consumes :
  forall (U : UData) (cfg : config) (fuel : nat) (sea : bool) (s : est) (c : cmd) (s' : est),
  next_cmd U cfg fuel sea s = EOk c s' -> sz s' < sz s.
Proof. intros U cfg fuel sea s c s'. exact (dec_next_cmd U cfg fuel sea s c s'). Qed.
Print Assumptions C17_every_command_consumes.

(* ... executing a command never touches the input ... *)
Theorem C17_execute_reads_nothing :
  forall (U : UData) (cfg : config) (c : cmd) (s : est) (st : status) (s' : est),
  execute U cfg c s = EOk st s' -> sz s' <= sz s.
Proof. intros U cfg c s st s'. exact (ni_execute U cfg c s st s'). Qed.
Print Assumptions C17_execute_reads_nothing.

(* ... so the main loop, with its digit-argument, key-sequence, paste, completion, pager and search
   sub-loops, always terminates by itself: with more fuel than characters left it never runs dry *)
Theorem C17_main_loop_never_dry :
  forall (U : UData) (cfg : config) (fuel : nat) (s : est),
  sz s < fuel -> main_loop U cfg fuel s <> EFuel.
Proof. intros U cfg fuel. exact (main_loop_never_dry U cfg fuel). Qed.
Print Assumptions C17_main_loop_never_dry.

(* whatever arrives on the terminal -- any characters, undecodable bytes, any chunking, either mode, any
   helper, bindings, history -- a read of the model ends with a line or an error, never OutOfFuel *)
Theorem C17_read_never_out_of_fuel :
  forall (U : UData) (cfg : config) prompt initial history kr inp,
  fst (read_line U cfg prompt initial history kr inp) <> OOutOfFuel.
Proof. exact read_never_out_of_fuel. Qed.
Print Assumptions C17_read_never_out_of_fuel.

(* no panic from Undo, whatever the count, in any state a sequence of commands can reach (C05) *)
Theorem C17_undo_never_panics :
  forall (U : UData) (cfg : config) (s : est) (n : nat),
  I s -> exists s', execute U cfg (CUndo n) s = EOk Proceed s' /\ I s'.
Proof. exact undo_command_total. Qed.
Print Assumptions C17_undo_never_panics.

(* NO COMMAND PANICS. J s: the cursor is on a character boundary, the undo stack is a valid edit script to the
   current text, the kill ring is consistent, the saved line is valid, the buffer may grow. From any such state,
   executing ANY command -- every motion, kill, yank, yank-pop, transposition, case change, indent, history move and
   search, undo, accept, every Movement / count / word definition -- never reaches a Panic of the model (no slice off
   a character boundary, no arithmetic underflow, no unwrap of None, no unreachable!()) and leaves a state
   satisfying J again. Hence any sequence of commands. *)
Theorem C17_execute_never_panics :
  forall (U : UData) (cfg : config) (c : cmd) (s : est),
  J s -> match execute U cfg c s with EPanic => False | EOk _ s' => J s' | _ => True end.
Proof. exact execute_never_panics. Qed.
Print Assumptions C17_execute_never_panics.

Theorem C17_commands_never_panic :
  forall (U : UData) (cfg : config) (cs : list cmd) (s : est),
  J s -> match exec_all U cfg cs s with EPanic => False | EOk _ s' => J s' | _ => True end.
Proof. exact commands_never_panic. Qed.
Print Assumptions C17_commands_never_panic.

(* READING A COMMAND NEVER PANICS: from a state satisfying J (and, in vi mode, a non-negative pending count), for
   EVERY input stream, chunking and timeout setting, either mode, any custom bindings: decoding the next key,
   digit arguments (Emacs M-digits with sign and saturation, vi counts), key sequences, pastes, the whole Emacs /
   vi-command / vi-insert keymaps, repeat (.) -- never reaches a Panic (no unreachable!(), no failed conversion),
   re-establishes the invariant, and touches neither the line nor the kill ring *)
Theorem C17_next_cmd_never_panics :
  forall (U : UData) (cfg : config) (fuel : nat) (sea : bool) (s : est),
  J s -> (is_emacs cfg = false -> (0 <= i_num_args s)%Z) ->
  match next_cmd U cfg fuel sea s with
  | EPanic => False
  | EOk _ s' => (J s' /\ (is_emacs cfg = false -> (0 <= i_num_args s')%Z)) /\ e_line s' = e_line s /\ e_kr s' = e_kr s
  | _ => True
  end.
Proof. intros U cfg fuel sea s HJ HN. exact (kq_next_cmd U cfg fuel sea s (conj HJ HN)). Qed.
Print Assumptions C17_next_cmd_never_panics.

(* A WHOLE READ NEVER PANICS -- for EVERY input stream (any characters, undecodable bytes, any chunking, messages from
   other threads), BOTH edit modes, ANY key bindings, any prompt, initial text and kill ring contents -- when no helper
   is installed and the history is empty (the completion and search sub-loops are then never entered). *)
Theorem C17_read_never_panics :
  forall (U : UData) (cfg : config), c_has_helper cfg = false ->
  forall prompt initial kr inp, kr_inv kr -> fst (read_line U cfg prompt initial [] kr inp) <> OPanic.
Proof. intros U cfg Hh prompt initial kr inp. exact (read_never_panics U cfg prompt initial kr inp Hh). Qed.
Print Assumptions C17_read_never_panics.

(* ... and in EMACS MODE (the default), with ANY history and ANY helper whose completer keeps its contract (the span it
   asks to replace starts on a character boundary at or before the cursor; hinter, highlighter and validator are
   arbitrary): the incremental-search sub-loop (every key of the search, hits replacing the line, abort restoring
   the typed line and cutting the undo stack back to its mark -- which is then exactly the stack from before) and the
   completion sub-loops (circular: candidates shown in turn, the original again, abort; list: common prefix, listing,
   paging question, whose column arithmetic divides by the window width capped by the widest candidate: no zero divisor
   in a window of at least one column, which is what get_win_size guarantees) included. In vi mode with a history or a
   helper the same statement does not hold of the invariant used (known finding K9). *)
Theorem C17_read_never_panics_emacs :
  forall (U : UData) (cfg : config), is_emacs cfg = true ->
  (forall text p, bd text p -> bd text (fst (c_complete cfg text p)) /\ fst (c_complete cfg text p) <= p) ->
  1 <= c_cols cfg ->
  forall history prompt initial kr inp, kr_inv kr -> fst (read_line U cfg prompt initial history kr inp) <> OPanic.
Proof. intros U cfg He Hc Hw history prompt initial kr inp. exact (read_never_panics_emacs U cfg He history Hc Hw prompt initial kr inp). Qed.
Print Assumptions C17_read_never_panics_emacs.

(* non-vacuity of the hypotheses: an Emacs-mode configuration with a helper whose completer (the scripted one of the
   correspondence check) keeps the contract, and a consistent kill ring *)
Example C17_read_hypotheses_hold :
  let cfg := mk_config Emacs CTCircular true 80 true [[102; 111; 111]; [102; 111; 111; 98; 97; 114]]%N [] VKNone [] in
  is_emacs cfg = true
  /\ (forall text p, bd text p -> bd text (fst (c_complete cfg text p)) /\ fst (c_complete cfg text p) <= p)
  /\ 1 <= c_cols cfg
  /\ kr_inv (kr_new 60).
Proof.
  split; [reflexivity|]. split; [intros text p; apply script_complete_ok|]. split; [cbn; lia|].
  split; [apply KillRingProofs.kr_new_ok; lia|cbn; discriminate].
Qed.

(* the state every read starts from satisfies J *)
Theorem C17_initial_state_ok :
  forall (U : UData) (cfg : config) prompt history kr inp,
  kr_inv kr -> J (initial_state U cfg prompt history (kr_reset kr) inp).
Proof. exact initial_J. Qed.
Print Assumptions C17_initial_state_ok.

(* non-vacuity: junk -- ESC ESC ESC, a truncated CSI, an undecodable byte -- ends the read with an error *)
Example C17_example :
  let cfg := mk_config Emacs CTCircular true 80 false [] [] VKNone [] in
  let inp := mkIn [] [[Ch 27; Ch 27; Ch 27]; [Ch 27; Ch 91; Ch 49; Ch 59]; [Bad]; [Ch 13]]%N in
  fst (read_line ex_U cfg [62; 32]%N None [] (KillRing.kr_new 60) inp) = OInvalidData.
Proof. vm_compute. reflexivity. Qed.
