(* C06 -- Killed text is never lost: yank restores it, kills accumulate, yank-pop rotates.
   Property theorems only. The ring (src/kill_ring.rs) is the DeleteListener of kill commands:
   a kill command's notifications are StartKill, Delete(idx, text, direction), StopKill (C04). *)
From RL Require Import UData LineBuffer KillRing Editor EditorRun KillRingProofs KillEditor KillChron.

(* a kill that starts a run puts exactly the removed text in a fresh slot; the next yank returns it *)
Theorem C06_kill_then_yank :
  forall (k : killring) (i : nat) (t : str) (d : direction),
  kr_ok k -> kr_killing k = false -> kr_last k <> KAKill ->
  exists k1 k2, kr_notify_all k [EStartKill; EDelete i t d; EStopKill] = Ok k1
                /\ kr_yank k1 = (k2, Some t) /\ kr_last k2 = KAYank (blen t) /\ kr_killing k1 = false /\ kr_ok k1.
Proof. exact kill_then_yank. Qed.
Print Assumptions C06_kill_then_yank.

(* consecutive kills accumulate in one slot: forward kills append, backward kills prepend ... *)
Theorem C06_kill_run :
  forall (ks : list (direction * str)) (k : killring) (s : str),
  kr_last k = KAKill -> 0 < kr_cap k -> cur_slot k = Some s -> kr_killing k = false ->
  exists k', kr_notify_all k (kill_events ks) = Ok k' /\ cur_slot k' = Some (run_text ks s)
             /\ kr_last k' = KAKill /\ kr_index k' = kr_index k /\ kr_killing k' = false.
Proof. exact kr_kill_run. Qed.
Print Assumptions C06_kill_run.

(* ... so that, whatever mix of forward and backward kills removed pieces around the cursor, the slot
   holds them in their original left-to-right order: put back at the cursor it restores the text *)
Theorem C06_kill_run_order :
  forall (ks : list (direction * str)) (L R L' R' : str),
  kills_from ks L R L' R' -> forall acc, L' ++ run_text ks acc ++ R' = L ++ acc ++ R.
Proof. exact kill_run_restores. Qed.
Print Assumptions C06_kill_run_order.

Theorem C06_kill_run_then_yank :
  forall (ks : list (direction * str)) (L R L' R' : str) (k : killring),
  kills_from ks L R L' R' ->
  kr_last k = KAKill -> 0 < kr_cap k -> cur_slot k = Some [] -> kr_killing k = false ->
  exists k' s, kr_notify_all k (kill_events ks) = Ok k' /\ cur_slot k' = Some s /\ L' ++ s ++ R' = L ++ R.
Proof. exact kill_run_then_yank. Qed.
Print Assumptions C06_kill_run_then_yank.

(* deleting single characters neither enters nor extends the kill: their notifications (no StartKill)
   leave the ring untouched, and the command resets the "last command was a kill" flag *)
Theorem C06_char_delete_not_killed :
  forall (es : list event) (k : killring),
  kr_killing k = false -> forallb no_start es = true ->
  exists k', kr_notify_all k es = Ok k' /\ kr_slots k' = kr_slots k /\ kr_index k' = kr_index k
             /\ kr_last k' = kr_last k /\ kr_killing k' = false.
Proof. exact kr_ignores_plain_deletes. Qed.
Print Assumptions C06_char_delete_not_killed.

Theorem C06_reset_rule :
  forall n, should_reset_kill_ring (CKill (MForwardChar n)) = true
            /\ should_reset_kill_ring (CKill (MBackwardChar n)) = true
            /\ should_reset_kill_ring (CKill MEndOfLine) = false
            /\ should_reset_kill_ring (CYank n ABefore) = false
            /\ should_reset_kill_ring CYankPop = false
            /\ should_reset_kill_ring (CSelfInsert n 97) = true
            /\ should_reset_kill_ring (CMove MEndOfLine) = true.
Proof. exact reset_rule. Qed.
Print Assumptions C06_reset_rule.

(* yank inserts the text at the cursor; yank-pop replaces exactly the bytes the yank inserted ... *)
Theorem C06_yank_inserts :
  forall (b : lb) (l r t : str),
  buf b = l ++ r -> pos b = blen l -> grow b = true -> t <> [] ->
  yank t 1 b = Ok (Some (Nat.eqb (pos b) (lb_len b)),
                   mkLb (l ++ t ++ r) (blen l + blen t) (cap b) (grow b), [EInsertStr (blen l) t]).
Proof. exact yank_once_spec. Qed.
Print Assumptions C06_yank_inserts.

Theorem C06_yank_pop_replaces :
  forall (b : lb) (l old r new : str),
  buf b = l ++ old ++ r -> pos b = blen l + blen old -> grow b = true -> new <> [] ->
  exists ev p, yank_pop (blen old) new b = Ok (Some p, mkLb (l ++ new ++ r) (blen l + blen new) (cap b) (grow b), ev).
Proof. exact yank_pop_replaces. Qed.
Print Assumptions C06_yank_pop_replaces.

(* ... by the previous slot, cyclically, only directly after a yank or a yank-pop *)
Theorem C06_yank_pop_previous_slot :
  forall (k : killring) (size : nat),
  kr_last k = KAYank size -> kr_slots k <> [] -> kr_index k < length (kr_slots k) ->
  let idx := if Nat.eqb (kr_index k) 0 then length (kr_slots k) - 1 else kr_index k - 1 in
  exists s, nth_error (kr_slots k) idx = Some s
            /\ kr_yank_pop k = (mkKr (kr_slots k) (kr_cap k) idx (KAYank (blen s)) (kr_killing k) (kr_newest k), Some (size, s)).
Proof. exact kr_yank_pop_spec. Qed.
Print Assumptions C06_yank_pop_previous_slot.

Theorem C06_yank_pop_only_after_yank :
  forall k : killring, (forall size, kr_last k <> KAYank size) -> kr_yank_pop k = (k, None).
Proof. exact kr_yank_pop_not_after_yank. Qed.
Print Assumptions C06_yank_pop_only_after_yank.

(* non-vacuity: "one two", kill word backwards twice (C-w C-w), yank: the line is back *)
(* NO KILL IS LOST TO A YANK-POP: a kill that starts a new run goes into the slot after the MOST RECENT kill (the
   oldest slot when the ring is full) wherever yank-pop has rotated the yank index to, and leaves every other slot as
   it was (repair of finding K1) *)
Theorem C06_kill_after_yank_pop_keeps_others :
  forall (k : killring) (text : str) (m : kr_mode) (k' : killring),
  kr_ok k -> kr_last k <> KAKill -> kr_kill k text m = Ok k' ->
  kr_index k' = new_index k /\ kr_newest k' = new_index k
  /\ forall j, j <> new_index k -> j < length (kr_slots k) -> nth_error (kr_slots k') j = nth_error (kr_slots k) j.
Proof. exact kr_kill_new_others. Qed.
Print Assumptions C06_kill_after_yank_pop_keeps_others.

(* CHRONOLOGY. Read from the most recent kill backwards (chron), the ring of kill_ring.rs -- slots, index, newest -- is a list
   with a yanking pointer (ptr), and every ring operation is the obvious list operation:
   a kill after anything but a kill puts its text in front, dropping the oldest entry once [cap] are held ... *)
Theorem C06_new_kill_is_cons :
  forall (k : killring) (t : str) (m : kr_mode),
  kc_inv k -> kr_last k <> KAKill ->
  exists k', kr_kill k t m = Ok k' /\ kc_inv k' /\ kr_cap k' = kr_cap k /\ kr_last k' = KAKill
    /\ chron k' = firstn (kr_cap k) (t :: chron k) /\ ptr k' = 0.
Proof. exact kc_new_kill. Qed.
Print Assumptions C06_new_kill_is_cons.

(* ... yank-pop moves the pointer ONE kill further back, wrapping after the oldest kill held, and shows that entry ... *)
Theorem C06_yank_pop_is_next_older :
  forall (k : killring) (size : nat),
  kc_inv k -> kr_last k = KAYank size -> 0 < kn k ->
  exists s k', kr_yank_pop k = (k', Some (size, s))
    /\ ptr k' = (ptr k + 1) mod kn k /\ nth_error (chron k) (ptr k') = Some s
    /\ kc_inv k' /\ kr_cap k' = kr_cap k /\ chron k' = chron k /\ kr_last k' = KAYank (blen s).
Proof. exact kc_yank_pop. Qed.
Print Assumptions C06_yank_pop_is_next_older.

(* ... so j yank-pops after a yank show the kill j further back, cycling through ALL kills held and round again ... *)
Theorem C06_yank_pops_cycle :
  forall (j : nat) (k : killring) (size : nat),
  kc_inv k -> kr_last k = KAYank size -> 0 < kn k -> 0 < j ->
  exists s k', pops j k = (k', Some s) /\ nth_error (chron k) ((ptr k + j) mod kn k) = Some s
    /\ chron k' = chron k /\ ptr k' = (ptr k + j) mod kn k /\ kc_inv k'.
Proof. exact kc_pops. Qed.
Print Assumptions C06_yank_pops_cycle.

(* ... and for EVERY sequence of ring operations (kill in either direction, yank, yank-pop, reset by another command,
   counted yank, start / stop of a kill command) from a ring satisfying the invariant -- the empty ring does --
   nothing panics and every answer is the list machine's (astep: cons / extend the head / nth under the pointer /
   pointer + 1 modulo the number of kills held) *)
Theorem C06_ring_is_list_machine :
  forall (os : list kop) (k : killring),
  kc_inv k ->
  exists k' outs, crun k os = Ok (k', outs) /\ kc_inv k' /\ (abs k', outs) = arun (kr_cap k) (abs k) os.
Proof. exact crun_refines. Qed.
Print Assumptions C06_ring_is_list_machine.

Theorem C06_empty_ring_ok : forall n : nat, 0 < n -> kc_inv (kr_new n).
Proof. exact kc_new. Qed.
Print Assumptions C06_empty_ring_ok.

(* non-vacuity: a ring of 2 slots, three separate kills, yank and three yank-pops: c, b, c, b (a was dropped) *)
Example C06_chron_example :
  let ops := [OKill [97%N] KAppend; OReset; OKill [98%N] KAppend; OReset; OKill [99%N] KAppend; OReset; OYank; OPop; OPop; OPop] in
  match crun (kr_new 2) ops with
  | Ok (_, outs) => outs = [None; None; None; None; None; None; Some [99%N]; Some [98%N]; Some [99%N]; Some [98%N]]
  | Panic => False
  end.
Proof. vm_compute. reflexivity. Qed.

Example C06_example :
  let cfg := mk_config Emacs CTCircular true 80 false [] [] VKNone [] in
  let inp := mkIn [] [[Ch 111; Ch 110; Ch 101; Ch 32; Ch 116; Ch 119; Ch 111]; [Ch 23]; [Ch 23]; [Ch 25]; [Ch 13]]%N in
  fst (read_line ex_U cfg [62; 32]%N None [] (kr_new 60) inp) = OLine [111; 110; 101; 32; 116; 119; 111]%N.
Proof. vm_compute. reflexivity. Qed.
