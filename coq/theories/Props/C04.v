(* C04 -- Motions and kills cover exactly the grapheme, word, line or search
   range named. Property theorems only (the clauses without a theorem are
   decided by the oracle over the correspondence stream, see MANIFEST). *)
From RL Require Import UData Uax29 LineBuffer LineBufferOps LineBufferProofs LineBufferTotal LineBufferRanges LineBufferAll KillCopy CharSearchSpec.

(* character motion by a count n >= 1 from a character boundary lands exactly
   after the first min(n, remaining) whole clusters *)
Theorem C04_next_pos_spec : forall (seg : str -> list str),
  (forall s, concat (seg s) = s) ->
  forall b n l r, buf b = l ++ r -> pos b = blen l -> r <> [] ->
  next_pos seg b (S n) = Ok (Some (blen l + blen (concat (firstn (S n) (seg r))))).
Proof. exact next_pos_spec. Qed.
Print Assumptions C04_next_pos_spec.

(* deleting n characters removes exactly those clusters and nothing else;
   the single notification names them *)
Theorem C04_delete_spec : forall (seg : str -> list str),
  (forall s, concat (seg s) = s) ->
  forall b n l r, buf b = l ++ r -> pos b = blen l -> r <> [] ->
  let m := concat (firstn (S n) (seg r)) in
  let r' := concat (skipn (S n) (seg r)) in
  delete seg (S n) b = Ok (Some m, set_buf b (l ++ r'), [EDelete (blen l) m DForward]).
Proof. exact delete_spec. Qed.
Print Assumptions C04_delete_spec.

(* where a motion ends is a character boundary at/after (before) the cursor *)
Theorem C04_next_pos_boundary : forall (seg : str -> list str),
  (forall s, concat (seg s) = s) ->
  forall b n l r, buf b = l ++ r -> pos b = blen l ->
  exists o, next_pos seg b n = Ok o
            /\ forall p, o = Some p -> exists m r', r = m ++ r' /\ p = blen l + blen m.
Proof. exact next_pos_ok. Qed.
Print Assumptions C04_next_pos_boundary.

Theorem C04_prev_pos_boundary : forall (seg : str -> list str),
  (forall s, concat (seg s) = s) ->
  forall b n l r, buf b = l ++ r -> pos b = blen l ->
  exists o, prev_pos seg b n = Ok o
            /\ forall p, o = Some p -> exists l' m, l = l' ++ m /\ p = blen l'.
Proof. exact prev_pos_ok. Qed.
Print Assumptions C04_prev_pos_boundary.

(* end-of-line / start-of-line bracket the cursor with no line break in between *)
Theorem C04_end_of_line : forall b l r, buf b = l ++ r -> pos b = blen l ->
  exists m r', end_of_line b = Ok (blen l + blen m) /\ r = m ++ r' /\ ~ In LF m
               /\ (r' = [] \/ exists r'', r' = LF :: r'').
Proof. exact end_of_line_ok. Qed.
Print Assumptions C04_end_of_line.

(* A KILL REMOVES EXACTLY WHAT A COPY WITH THE SAME MOVEMENT RETURNS -- for EVERY movement (characters and words with
   any count / word definition / anchor, character searches on / before / after the n-th occurrence, line start / end,
   first printable, whole line, line ranges up / down, buffer start / end, whole buffer), every buffer and cursor on a
   character boundary: if copy returns t, then kill succeeds, t lay in the text, after the kill exactly t is gone,
   nothing else changed, and the cursor stands where t began. Hypotheses: the segmentation partitions the text into
   non-empty clusters (true of the model's UAX #29 segmentation). *)
Theorem C04_kill_is_copy : forall (seg : str -> list str),
  (forall s, concat (seg s) = s) -> (forall s g, In g (seg s) -> g <> []) ->
  forall (U : UData) (m : movement) (b : lb) (t : str),
  wf b -> copy U seg b m = Ok (Some t) ->
  exists r b' ev, kill U seg m b = Ok (r, b', ev)
                  /\ r = true
                  /\ exists l r', buf b = l ++ t ++ r' /\ buf b' = l ++ r' /\ pos b' = blen l /\ cap b' = cap b /\ grow b' = grow b.
Proof. exact kill_is_copy. Qed.
Print Assumptions C04_kill_is_copy.

(* character searches over occurrences ([occ c s] = how often c occurs in s). Backward (vi F): the search lands on an
   occurrence of c before the cursor with exactly min(n, occurrences before the cursor) - 1 further occurrences between it and
   the cursor: the n-th counted from the cursor, or the farthest when there are fewer (Iterator::take(n).last()); it finds
   nothing exactly when c does not occur there *)
Theorem C04_char_search_backward :
  forall (seg : str -> list str) (b : lb) (l r : str) (c : N) (n : nat),
  buf b = l ++ r -> pos b = blen l -> 1 <= n ->
  (occ c l = 0 -> search_char_pos seg b (CsBackward c) n = Ok None)
  /\ (1 <= occ c l ->
      exists a rest, l = a ++ c :: rest
        /\ search_char_pos seg b (CsBackward c) n = Ok (Some (blen a))
        /\ occ c rest = Nat.min n (occ c l) - 1).
Proof. exact search_backward_spec. Qed.
Print Assumptions C04_char_search_backward.

(* forward (vi f): the same towards the end, the search starting AFTER the cluster under the cursor *)
Theorem C04_char_search_forward :
  forall (seg : str -> list str) (b : lb) (l cc r2 : str) (gs : list str) (c : N) (n : nat),
  buf b = l ++ cc ++ r2 -> pos b = blen l -> seg (cc ++ r2) = cc :: gs -> 1 <= blen cc -> 1 <= n ->
  (occ c r2 = 0 -> search_char_pos seg b (CsForward c) n = Ok None)
  /\ (1 <= occ c r2 ->
      exists a rest, r2 = a ++ c :: rest
        /\ search_char_pos seg b (CsForward c) n = Ok (Some (blen l + blen cc + blen a))
        /\ occ c a = Nat.min n (occ c r2) - 1).
Proof. exact search_forward_spec. Qed.
Print Assumptions C04_char_search_forward.

(* KNOWN FINDING K_word_count (see known_findings.json): a word motion with a
   count is not the single motion iterated -- "a b,c", `2w` vs `w w` *)
Theorem C04_word_count_refuted :
  exists (b : lb),
    let U := ex_U in
    let seg := useg U in
    fst (fst (match move_to_next_word U seg AtStart WVi 2 b with Ok x => x | Panic => (false, b, []) end))
    = true /\
    pos (snd (fst (match move_to_next_word U seg AtStart WVi 2 b with Ok x => x | Panic => (false, b, []) end)))
    <> pos (snd (fst (match bind (move_to_next_word U seg AtStart WVi 1)
                                 (fun _ => move_to_next_word U seg AtStart WVi 1) b
                      with Ok x => x | Panic => (false, b, []) end))).
Proof. exact word_count_refuted. Qed.
Print Assumptions C04_word_count_refuted.

Example C04_example :
  let b := mkLb [97; 233; 769; 26085; 98]%N 1 64 false in
  next_pos (useg ex_U) b 2 = Ok (Some 8) /\ (exists l r, buf b = l ++ r /\ pos b = blen l /\ r <> []).
Proof.
  split; [vm_compute; reflexivity|]. exists [97]%N, [233; 769; 26085; 98]%N. repeat split; discriminate.
Qed.
