(* C07 -- History recall shows entries in order and returns the in-progress line intact.
   Property theorems only. Position p = e_hidx in [0, len]; p = len is "the line being typed". *)
From Coq Require Import List.
From RL Require Import UData Ustr LineBuffer LineBufferTotal Editor EditorRun RecallProofs RecallSpec NoPanic RecallWalk RecallLines.

(* the stored history is read-only for a read: NO input, in either mode, with any helper or binding,
   makes the main loop (reader, keymaps, completion and search sub-loops, every command) change it *)
Theorem C07_history_readonly :
  forall (U : UData) (cfg : config) (fuel : nat) (s : est) (s' : est),
  main_loop U cfg fuel s = EOk tt s' -> e_hist s' = e_hist s.
Proof. intros U cfg fuel s s'. exact (main_loop_keeps_history U cfg fuel s tt s'). Qed.
Print Assumptions C07_history_readonly.

Theorem C07_execute_keeps_history :
  forall (U : UData) (cfg : config) (c : cmd) (s : est) (st : status) (s' : est),
  execute U cfg c s = EOk st s' -> e_hist s' = e_hist s.
Proof. intros U cfg c s st s'. exact (execute_keeps_history U cfg c s st s'). Qed.
Print Assumptions C07_execute_keeps_history.

(* moving up shows the next older entry exactly as stored, cursor at its end, and captures the line
   being typed when (and only when) recall starts from it *)
Theorem C07_previous_shows_entry :
  forall (U : UData) (cfg : config) (s : est) (entry : str),
  0 < e_hidx s <= hlen s -> nth_error (e_hist s) (e_hidx s - 1) = Some entry -> grow (e_line s) = true ->
  exists s', edit_history_next U cfg true s = EOk tt s'
    /\ buf (e_line s') = entry /\ pos (e_line s') = blen entry /\ e_hidx s' = e_hidx s - 1
    /\ e_hist s' = e_hist s
    /\ e_saved s' = (if Nat.eqb (e_hidx s) (hlen s) then (buf (e_line s), pos (e_line s)) else e_saved s).
Proof. exact previous_shows_entry. Qed.
Print Assumptions C07_previous_shows_entry.

Theorem C07_previous_stops_at_oldest :
  forall (U : UData) (cfg : config) (s : est),
  0 < hlen s -> e_hidx s = 0 -> edit_history_next U cfg true s = EOk tt s.
Proof. exact previous_stops_at_oldest. Qed.
Print Assumptions C07_previous_stops_at_oldest.

(* moving down shows the next newer entry ... *)
Theorem C07_next_shows_entry :
  forall (U : UData) (cfg : config) (s : est) (entry : str),
  S (e_hidx s) < hlen s -> nth_error (e_hist s) (S (e_hidx s)) = Some entry -> grow (e_line s) = true ->
  exists s', edit_history_next U cfg false s = EOk tt s'
    /\ buf (e_line s') = entry /\ pos (e_line s') = blen entry /\ e_hidx s' = S (e_hidx s)
    /\ e_hist s' = e_hist s /\ e_saved s' = e_saved s.
Proof. exact next_shows_entry. Qed.
Print Assumptions C07_next_shows_entry.

(* ... and past the newest entry restores the captured line, character for character, with its cursor *)
Theorem C07_next_restores_line :
  forall (U : UData) (cfg : config) (s : est),
  S (e_hidx s) = hlen s -> snd (e_saved s) <= blen (fst (e_saved s)) -> grow (e_line s) = true ->
  exists s', edit_history_next U cfg false s = EOk tt s'
    /\ buf (e_line s') = fst (e_saved s) /\ pos (e_line s') = snd (e_saved s) /\ e_hidx s' = hlen s
    /\ e_hist s' = e_hist s.
Proof. exact next_restores_line. Qed.
Print Assumptions C07_next_restores_line.

Theorem C07_next_stops_at_newest :
  forall (U : UData) (cfg : config) (s : est),
  e_hidx s = hlen s -> edit_history_next U cfg false s = EOk tt s.
Proof. exact next_stops_at_newest. Qed.
Print Assumptions C07_next_stops_at_newest.

(* first / last entry commands: where enough ups / downs would end *)
Theorem C07_first_shows_oldest :
  forall (U : UData) (cfg : config) (s : est) (entry : str),
  0 < e_hidx s <= hlen s -> nth_error (e_hist s) 0 = Some entry -> grow (e_line s) = true ->
  exists s', edit_history U cfg true s = EOk tt s'
    /\ buf (e_line s') = entry /\ pos (e_line s') = blen entry /\ e_hidx s' = 0 /\ e_hist s' = e_hist s
    /\ e_saved s' = (if Nat.eqb (e_hidx s) (hlen s) then (buf (e_line s), pos (e_line s)) else e_saved s).
Proof. exact first_shows_oldest. Qed.
Print Assumptions C07_first_shows_oldest.

Theorem C07_last_restores_line :
  forall (U : UData) (cfg : config) (s : est),
  e_hidx s < hlen s -> snd (e_saved s) <= blen (fst (e_saved s)) -> grow (e_line s) = true ->
  exists s', edit_history U cfg false s = EOk tt s'
    /\ buf (e_line s') = fst (e_saved s) /\ pos (e_line s') = snd (e_saved s) /\ e_hidx s' = hlen s
    /\ e_hist s' = e_hist s.
Proof. exact last_restores_line. Qed.
Print Assumptions C07_last_restores_line.

(* non-vacuity: history [old; new]; type "wip", Up Up, edit the recalled entry, Down Down: "wip" is back *)
(* WHOLE WALKS. From the line being typed, in a state satisfying the editor's invariant J (NoPanic: the initial state
   of every read has it and every command keeps it), ANY sequence of Previous / Next steps (true / false) ends where
   walking an index over the stored list ends: on an entry it shows exactly that entry with the cursor at its end; back
   past the newest entry it shows the line that was being typed, character for character, with its cursor; the list is
   unchanged; nothing panics on the way. *)
Theorem C07_recall_walk :
  forall (U : UData) (cfg : config) (s : est) (ks : list bool),
  J s -> e_hidx s = hlen s ->
  exists s', walk_m U cfg ks s = EOk tt s'
    /\ e_hist s' = e_hist s
    /\ let i := walk_i ks (hlen s) (hlen s) in
       e_hidx s' = i
       /\ (i = hlen s -> buf (e_line s') = buf (e_line s) /\ pos (e_line s') = pos (e_line s))
       /\ (i < hlen s -> exists entry, nth_error (e_hist s) i = Some entry
                                       /\ buf (e_line s') = entry /\ pos (e_line s') = blen entry).
Proof. exact recall_walk. Qed.
Print Assumptions C07_recall_walk.

Example C07_example :
  let cfg := mk_config Emacs CTCircular true 80 false [] [] VKNone [] in
  let inp := mkIn [] [[Ch 119; Ch 105; Ch 112]; [Ch 16]; [Ch 16]; [Ch 33]; [Ch 14]; [Ch 14]; [Ch 13]]%N in
  fst (read_line ex_U cfg [62; 32]%N None [[111; 108; 100]; [110; 101; 119]]%N (KillRing.kr_new 60) inp)
  = OLine [119; 105; 112]%N.
Proof. vm_compute. reflexivity. Qed.

(* MULTI-LINE TEXT. Up / Down (and vi k / j, - / +) first move between the lines of the text and only recall at the top /
   bottom line. With a line break before the cursor, Up is a motion: text, history, position in the history, saved line,
   undo stack and kill ring are untouched, and the cursor lands at or before the last line break that preceded it (on an
   earlier line), on a character boundary ... *)
Theorem C07_up_inside_text :
  forall (U : UData) (cfg : config) (n : nat) (s : est) (l r : str),
  buf (e_line s) = l ++ r -> pos (e_line s) = blen l -> In LF l ->
  exists s' a c, execute U cfg (CLineUpOrPreviousHistory n) s = EOk Proceed s' /\ untouched s s'
    /\ l = a ++ LF :: c /\ ~ In LF c /\ pos (e_line s') <= blen a /\ wf (e_line s').
Proof. exact up_inside_text. Qed.
Print Assumptions C07_up_inside_text.

(* ... and on the top line Up is exactly the history step (C07_previous_shows_entry, C07_recall_walk) *)
Theorem C07_up_on_top_line :
  forall (U : UData) (cfg : config) (n : nat) (s : est) (l r : str),
  buf (e_line s) = l ++ r -> pos (e_line s) = blen l -> ~ In LF l ->
  execute U cfg (CLineUpOrPreviousHistory n) s = execute U cfg CPreviousHistory s.
Proof. exact up_on_top_line. Qed.
Print Assumptions C07_up_on_top_line.

Theorem C07_down_inside_text :
  forall (U : UData) (cfg : config) (n : nat) (s : est) (l r : str),
  buf (e_line s) = l ++ r -> pos (e_line s) = blen l -> In LF r ->
  exists s' a c, execute U cfg (CLineDownOrNextHistory n) s = EOk Proceed s' /\ untouched s s'
    /\ r = a ++ LF :: c /\ ~ In LF a /\ blen l + blen a + 1 <= pos (e_line s') /\ wf (e_line s').
Proof. exact down_inside_text. Qed.
Print Assumptions C07_down_inside_text.

Theorem C07_down_on_bottom_line :
  forall (U : UData) (cfg : config) (n : nat) (s : est) (l r : str),
  buf (e_line s) = l ++ r -> pos (e_line s) = blen l -> ~ In LF r ->
  execute U cfg (CLineDownOrNextHistory n) s = execute U cfg CNextHistory s.
Proof. exact down_on_bottom_line. Qed.
Print Assumptions C07_down_on_bottom_line.

(* EDITING A RECALLED ENTRY changes only the edit buffer. What a recall shows is determined by the stored list, the position
   in it and the saved line (the theorems above); no command other than the eight history-navigation commands writes any of
   the three, whatever it does to the text ... *)
Theorem C07_edits_keep_recall_state :
  forall (U : UData) (cfg : config) (c : cmd) (s : est) (st : status) (s' : est),
  edit_cmd c = true -> execute U cfg c s = EOk st s' ->
  e_hist s' = e_hist s /\ e_hidx s' = e_hidx s /\ e_saved s' = e_saved s.
Proof. intros U cfg c s st s' Hc. exact (execute_keeps_nav U cfg c Hc s st s'). Qed.
Print Assumptions C07_edits_keep_recall_state.

(* ... so after ANY edit of the entry being shown, Up shows the next older stored entry exactly as stored, Down the next newer
   one, and Down past the newest the line that was being typed -- never the edited text *)
Theorem C07_edit_then_previous :
  forall (U : UData) (cfg : config) (c : cmd) (s : est) (st : status) (s1 : est) (entry : str),
  edit_cmd c = true -> execute U cfg c s = EOk st s1 -> grow (e_line s1) = true ->
  0 < e_hidx s <= hlen s -> nth_error (e_hist s) (e_hidx s - 1) = Some entry ->
  exists s', edit_history_next U cfg true s1 = EOk tt s'
    /\ buf (e_line s') = entry /\ pos (e_line s') = blen entry /\ e_hidx s' = e_hidx s - 1 /\ e_hist s' = e_hist s.
Proof. exact edit_then_previous. Qed.
Print Assumptions C07_edit_then_previous.

Theorem C07_edit_then_next :
  forall (U : UData) (cfg : config) (c : cmd) (s : est) (st : status) (s1 : est) (entry : str),
  edit_cmd c = true -> execute U cfg c s = EOk st s1 -> grow (e_line s1) = true ->
  S (e_hidx s) < hlen s -> nth_error (e_hist s) (S (e_hidx s)) = Some entry ->
  exists s', edit_history_next U cfg false s1 = EOk tt s'
    /\ buf (e_line s') = entry /\ pos (e_line s') = blen entry /\ e_hidx s' = S (e_hidx s) /\ e_hist s' = e_hist s.
Proof. exact edit_then_next. Qed.
Print Assumptions C07_edit_then_next.

Theorem C07_edit_then_restore :
  forall (U : UData) (cfg : config) (c : cmd) (s : est) (st : status) (s1 : est),
  edit_cmd c = true -> execute U cfg c s = EOk st s1 -> grow (e_line s1) = true ->
  S (e_hidx s) = hlen s -> snd (e_saved s) <= blen (fst (e_saved s)) ->
  exists s', edit_history_next U cfg false s1 = EOk tt s'
    /\ buf (e_line s') = fst (e_saved s) /\ pos (e_line s') = snd (e_saved s) /\ e_hidx s' = hlen s
    /\ e_hist s' = e_hist s.
Proof. exact edit_then_restore. Qed.
Print Assumptions C07_edit_then_restore.
