(* C20 -- The SQLite history stores entries durably in order and its searches are safe.
   Property theorems only, over Model/SqlHist.v: the history table as rows in rowid order. SQLite is not
   modelled (INSERT OR REPLACE, rowid allocation, ORDER BY rowid LIMIT 1 are written down as documented, and
   checked against the real database by the sqlhist stream); durability across close/reopen is SQLite's and
   is observed, not proved; the full-text search clause has no theorem (oracle only, known finding K4). *)
From Coq Require Import List Arith.
From RL Require Import UData History SqlHist SqlHistProofs SqlHistSpec.

(* for every operation sequence (adds, gets, limit changes, reopens): rowids stay strictly increasing along
   the table -- which is the order of (last) entry, since an accepted line is appended with a fresh, larger
   rowid -- and the cached length is at least the largest rowid *)
Theorem C20_invariant :
  forall (U : UData) (ops : list sop) (max : nat) (igs igd : bool),
  sql_inv (fst (sql_run U (sql_new max igs igd) ops)).
Proof. exact reachable_sql_inv. Qed.
Print Assumptions C20_invariant.

(* an accepted line becomes the newest row; with ignore-duplicates a copy entered in the same session is
   removed (the line counts as its newest occurrence); everything else keeps its order *)
Theorem C20_add_appends :
  forall (U : UData) (h : sqlh) (l : str),
  sql_ignore U h l = false ->
  exists sess id, snd (sql_add U h l) = true
    /\ q_rows (fst (sql_add U h l))
       = (if q_igd h then filter (fun r => negb (same_key sess l r)) (q_rows h) else q_rows h) ++ (mkRow id sess l :: nil).
Proof. exact add_appends. Qed.
Print Assumptions C20_add_appends.

(* the refusal rules of the default history, minus duplicates *)
Theorem C20_refusal :
  forall (U : UData) (h : sqlh) (l : str),
  snd (sql_add U h l) = false <->
  (q_max h = 0 \/ l = nil \/ (q_igs h = true /\ exists c t, l = c :: t /\ u_is_whitespace U c = true)).
Proof. exact add_refusal. Qed.
Print Assumptions C20_refusal.

(* walking from the newest entry to the oldest (the next older row from an index is the largest rowid at or
   below it) visits every row exactly once, newest first ... *)
Theorem C20_walk_down :
  forall (rows : list row) (fuel b : nat),
  sorted rows -> (forall x, In x rows -> 1 <= r_id x) -> max_id rows <= b -> length rows <= fuel ->
  walk_down (S fuel) rows b = rev rows.
Proof. exact walk_down_all. Qed.
Print Assumptions C20_walk_down.

(* ... and back: every row exactly once, in the order entered; gaps in the rowids (after replacements and
   trimming) do not matter *)
Theorem C20_walk_up :
  forall (rows : list row) (fuel b : nat),
  sorted rows -> (forall x, In x rows -> b <= r_id x) -> length rows <= fuel ->
  walk_up (S fuel) rows b = rows.
Proof. exact walk_up_all. Qed.
Print Assumptions C20_walk_up.

(* The statement of the property as a specification (Proofs/SqlHistSpec.v): the list of (session, line) in the order
   entered -- an accepted line goes to the end; under ignore-duplicates an earlier copy from the SAME session goes; the size
   limit drops from the old end; a reopen changes nothing in the list; switching the duplicates policy on is refused when a
   session already holds a line twice. One operation of the model gives the specification's list and the same answer ... *)
Theorem C20_operation_refines_the_list :
  forall (U : UData) (h : sqlh) (o : sop),
  abs (fst (sql_step U h o)) = fst (spec_step U (abs h) o)
  /\ answer_of o (snd (sql_step U h o)) = snd (spec_step U (abs h) o).
Proof. exact step_refines. Qed.
Print Assumptions C20_operation_refines_the_list.

(* ... so after ANY sequence of operations (adds, gets, limit changes, reopens under the same or another Config, policy
   switches on the open object) the rows of the table in rowid order -- the order both walks follow -- are exactly that list *)
Theorem C20_table_is_the_list_entered :
  forall (U : UData) (ops : list sop) (max : nat) (igs igd : bool),
  map entry_of (q_rows (fst (sql_run U (sql_new max igs igd) ops)))
  = sp_list (spec_run U (mkSpec nil 0 0 max igs igd max) ops).
Proof. exact table_is_the_list. Qed.
Print Assumptions C20_table_is_the_list_entered.

Theorem C20_list_add_meaning :
  forall (U : UData) (s : sspec) (line : str),
  spec_refuses U s line = false ->
  exists sess, (sess = if Nat.eqb (sp_sess s) 0 then S (sp_nsess s) else sp_sess s)
    /\ snd (spec_add U s line) = true
    /\ sp_list (fst (spec_add U s line))
       = (if sp_igd s then filter (fun x => negb (key_is sess line x)) (sp_list s) else sp_list s) ++ ((sess, line) :: nil).
Proof. exact spec_add_meaning. Qed.
Print Assumptions C20_list_add_meaning.

(* non-vacuity of the policy switch: a b a under always-add, then ignore-duplicates is refused; after the limit dropped the
   older `a` it is accepted *)
Example C20_switch_example :
  let a := (97 :: nil)%N in let b := (98 :: nil)%N in
  map (answer_of (SSetDups true))
      (snd (sql_run ex_U (sql_new 100 false false) (SAdd a :: SAdd b :: SAdd a :: SSetDups true :: SSetMax 2 :: SSetDups true :: nil)))
  = (Some true :: Some true :: Some true :: Some false :: Some true :: Some true :: nil).
Proof. vm_compute. reflexivity. Qed.

(* non-vacuity: a b a (same session, ignore-duplicates), limit 2, reopen, c: the table is b? no -- [a; c] with gaps *)
Example C20_example :
  let ops := SAdd (97 :: nil)%N :: SAdd (98 :: nil)%N :: SAdd (97 :: nil)%N :: SSetMax 1 :: SReopen :: SAdd (99 :: nil)%N :: nil in
  map (fun r => (r_id r, r_entry r)) (q_rows (fst (sql_run ex_U (sql_new 100 false true) ops)))
  = ((3, (97 :: nil)%N) :: (4, (99 :: nil)%N) :: nil).
Proof. vm_compute. reflexivity. Qed.
