(* C20 -- The SQLite history stores entries durably in order and its searches are safe.
   Property theorems only, over Model/SqlHist.v: the history table as rows in rowid order. SQLite is not
   modelled (INSERT OR REPLACE, rowid allocation, ORDER BY rowid LIMIT 1 are written down as documented, and
   checked against the real database by the sqlhist stream); durability across close/reopen is SQLite's and
   is observed, not proved; the full-text search clause has no theorem (oracle only, known finding K4). *)
From Coq Require Import List Arith.
From RL Require Import UData History SqlHist SqlHistProofs.

(* for every operation sequence (adds, gets, limit changes, reopens): rowids stay strictly increasing along
   the table -- which is the order of (last) entry, since an accepted line is appended with a fresh, larger
   rowid -- and the cached length is at least the largest rowid *)
Theorem C20_invariant :
  forall (U : UData) (ops : list sop) (max : nat) (igs igd : bool),
  sql_inv (fst (sql_run U (sql_new max igs igd) ops)).
Proof. exact reachable_sql_inv. Qed.
Print Assumptions C20_invariant.

(* an accepted line becomes the newest row; with ignore-duplicates a copy entered in the same session is
   removed (the line counts as its newest occurrence); everything else keeps its order *)
Theorem C20_add_appends :
  forall (U : UData) (h : sqlh) (l : str),
  sql_ignore U h l = false ->
  exists sess id, snd (sql_add U h l) = true
    /\ q_rows (fst (sql_add U h l))
       = (if q_igd h then filter (fun r => negb (same_key sess l r)) (q_rows h) else q_rows h) ++ (mkRow id sess l :: nil).
Proof. exact add_appends. Qed.
Print Assumptions C20_add_appends.

(* the refusal rules of the default history, minus duplicates *)
Theorem C20_refusal :
  forall (U : UData) (h : sqlh) (l : str),
  snd (sql_add U h l) = false <->
  (q_max h = 0 \/ l = nil \/ (q_igs h = true /\ exists c t, l = c :: t /\ u_is_whitespace U c = true)).
Proof. exact add_refusal. Qed.
Print Assumptions C20_refusal.

(* walking from the newest entry to the oldest (the next older row from an index is the largest rowid at or
   below it) visits every row exactly once, newest first ... *)
Theorem C20_walk_down :
  forall (rows : list row) (fuel b : nat),
  sorted rows -> (forall x, In x rows -> 1 <= r_id x) -> max_id rows <= b -> length rows <= fuel ->
  walk_down (S fuel) rows b = rev rows.
Proof. exact walk_down_all. Qed.
Print Assumptions C20_walk_down.

(* ... and back: every row exactly once, in the order entered; gaps in the rowids (after replacements and
   trimming) do not matter *)
Theorem C20_walk_up :
  forall (rows : list row) (fuel b : nat),
  sorted rows -> (forall x, In x rows -> b <= r_id x) -> length rows <= fuel ->
  walk_up (S fuel) rows b = rows.
Proof. exact walk_up_all. Qed.
Print Assumptions C20_walk_up.

(* non-vacuity: a b a (same session, ignore-duplicates), limit 2, reopen, c: the table is b? no -- [a; c] with gaps *)
Example C20_example :
  let ops := SAdd (97 :: nil)%N :: SAdd (98 :: nil)%N :: SAdd (97 :: nil)%N :: SSetMax 1 :: SReopen :: SAdd (99 :: nil)%N :: nil in
  map (fun r => (r_id r, r_entry r)) (q_rows (fst (sql_run ex_U (sql_new 100 false true) ops)))
  = ((3, (97 :: nil)%N) :: (4, (99 :: nil)%N) :: nil).
Proof. vm_compute. reflexivity. Qed.
