(* C02 -- What the terminal shows is the prompt, the line and the cursor - always.
   Property theorems only. PARTIAL chain: the theorems are over text made of width-1 characters without
   line break / tab / escape, each its own cluster (`plain`); the terminal is Spec/Vt.v. Wide and
   zero-width characters, embedded line breaks, hints and the incremental redraw as a whole are decided
   by the screen stream: byte-for-byte correspondence with the render model, and an independent
   emulator (tools/vt.py) run on everything the implementation wrote. *)
From Coq Require Import List Arith NArith.
From RL Require Import UData Render Vt VtProofs VtRefresh VtFastPath.

(* printing plain text: the terminal's position (deferred wrap = column count W) is, character by
   character, the position rustyline's calc_go computes -- for every text, start position and width *)
Theorem C02_print_agrees_partial :
  forall (U : UData) (W tab_stop : nat), 1 <= W -> forall (s : str) (v : vt),
  Forall (plain_char U) s -> wf W v ->
  calc_go U W tab_stop (map (fun c => [c]) s) (pos_of (epos W v)) 0 = pos_of (epos W (print W s v))
  /\ wf W (print W s v).
Proof. exact print_agrees. Qed.
Print Assumptions C02_print_agrees_partial.

(* calculate_position (what prompt_size, the cursor and the end of the layout are computed with) is the
   cell where the terminal will draw the next character *)
Theorem C02_layout_agrees_partial :
  forall (U : UData) (seg : str -> list str) (W tab_stop : nat), 1 <= W -> forall (s : str) (v : vt),
  plain U seg s -> wf W v ->
  calculate_position U seg W tab_stop s (pos_of (epos W v))
  = (let n := next_cell (print W s v) in mkP (snd n) (fst n)).
Proof. exact layout_agrees. Qed.
Print Assumptions C02_layout_agrees_partial.

(* the bytes a refresh writes are the standard encoding (CR, ESC[K, ESC[A, ESC[nA/B/C, CR LF for a written LF)
   of a list of terminal operations *)
Theorem C02_refresh_bytes_encode :
  forall (prompt line : str) (old new : layout),
  refresh_bytes prompt line line None old new = encode_all (refresh_ops prompt line old new).
Proof. exact refresh_bytes_encode. Qed.
Print Assumptions C02_refresh_bytes_encode.

(* THE DISPLAY STEP (plain text): from ANY screen about which the old layout's bookkeeping is right -- cursor
   row known, nothing drawn below the old end row, whatever is on the rows above that -- a full redraw leaves
   exactly the prompt + line as a blank screen would show them, nothing left over, the terminal cursor on the
   cell of the logical cursor, no wrap pending, and the new layout's bookkeeping is right again *)
Theorem C02_refresh_ok_partial :
  forall (U : UData) (seg : str -> list str) (W tab_stop : nat), 1 <= W ->
  forall (p before after : str) (old : layout) (v : vt),
  plain U seg p -> plain U seg before -> plain U seg after ->
  tracks old v ->
  let line := before ++ after in
  let new := compute_layout U seg W tab_stop (calculate_position U seg W tab_stop p P0) true before after None in
  let v' := run W (refresh_ops p line old new) v in
  (forall r c, v_cells v' r c = shown W (p ++ line) r c)
  /\ cursor_cell v' = next_cell (print W (p ++ before) vt0)
  /\ v_pending v' = false
  /\ tracks new v'.
Proof. exact refresh_ok_partial. Qed.
Print Assumptions C02_refresh_ok_partial.

(* hence through any sequence of redraws (any edits in between) *)
Theorem C02_redraws_ok_partial :
  forall (U : UData) (seg : str -> list str) (W tab_stop : nat), 1 <= W ->
  forall (p : str) (edits : list (str * str)) (old : layout) (v : vt) (before after : str),
  plain U seg p -> Forall (fun e => plain U seg (fst e) /\ plain U seg (snd e)) (edits ++ (before, after) :: nil) ->
  tracks old v ->
  let '(lay, v') := redraws U seg W tab_stop p (edits ++ (before, after) :: nil) old v in
  (forall r c, v_cells v' r c = shown W (p ++ before ++ after) r c)
  /\ cursor_cell v' = next_cell (print W (p ++ before) vt0)
  /\ v_pending v' = false /\ tracks lay v'.
Proof. exact redraws_ok. Qed.
Print Assumptions C02_redraws_ok_partial.

(* THE FAST PATH of self-insert (plain text): a character appended at the end of the line, no hint, cursor column + 1 inside
   the window: rustyline writes just the character and moves the layout's cursor and end one column on. On a screen that shows
   exactly the text with the cursor at its end (what a full redraw leaves), the result shows exactly the text + the character,
   the cursor after it, no wrap pending, and the new layout's bookkeeping is right: so fast-path steps and full redraws
   (C02_refresh_ok_partial) can follow one another in any order *)
Theorem C02_fast_append_partial :
  forall (W : nat), 1 <= W -> forall (shown_text : str) (ch : N) (lay : layout) (v : vt),
  (forall r c, v_cells v r c = shown W shown_text r c) ->
  cursor_cell v = next_cell (print W shown_text vt0) ->
  v_pending v = false ->
  tracks lay v ->
  v_col v + 1 < W ->
  let v' := run W (OPrint (ch :: nil) :: nil) v in
  (forall r c, v_cells v' r c = shown W (shown_text ++ ch :: nil) r c)
  /\ cursor_cell v' = next_cell (print W (shown_text ++ ch :: nil) vt0)
  /\ v_pending v' = false
  /\ tracks (fast_layout lay) v'.
Proof. exact fast_append_ok. Qed.
Print Assumptions C02_fast_append_partial.

(* THE OTHER FAST PATH: a cursor motion without redraw (no hint, no highlighter). The bytes written are the standard encoding of
   at most two relative terminal motions; on a terminal whose cursor is on the old cell they put it on the new cell, change
   nothing on the screen, and (when the cell differs) leave no wrap pending *)
Theorem C02_move_bytes_encode :
  forall (old new : pos2), move_cursor_bytes old new = encode_all (move_ops old new).
Proof. exact move_bytes_encode. Qed.
Print Assumptions C02_move_bytes_encode.

Theorem C02_move_cursor_partial :
  forall (W : nat), 1 <= W -> forall (old new : pos2) (v : vt),
  cursor_cell v = (p_row old, p_col old) ->
  p_col new < W ->
  let v' := run W (move_ops old new) v in
  cursor_cell v' = (p_row new, p_col new)
  /\ (forall r c, v_cells v' r c = v_cells v r c)
  /\ (pos2_eqb old new = false -> v_pending v' = false)
  /\ (pos2_eqb old new = true -> v' = v).
Proof. exact move_cursor_ok. Qed.
Print Assumptions C02_move_cursor_partial.

(* non-vacuity: 7 letters in 5 columns from the anchor end on row 1, column 2 *)
Example C02_example :
  let s := [97; 98; 99; 100; 101; 102; 103]%N in
  next_cell (print 5 s vt0) = (1, 2)
  /\ calculate_position ex_U (fun s => map (fun c => [c]) s) 5 8 s P0 = mkP 2 1.
Proof. vm_compute. split; reflexivity. Qed.
