(* C16 -- The terminal is given back in the state it was found, on every way out.
   Property theorems only, over the deliberately small model of Model/RawMode.v: the editing loop is ANY
   function that writes ordinary output and ends in one of the six ways (line, end-of-file, interrupt,
   undecodable input, helper error, helper panic). That the code has this shape -- in particular that the
   restoring Guard's Drop runs on unwinding and that nothing else calls tcsetattr -- is checked by the
   rawmode stream with tcgetattr on a real pty, not proved. *)
From Coq Require Import List Bool.
From RL Require Import RawMode RawModeProofs.
Import ListNotations.

Theorem C16_read_restores :
  forall (settings : Type) (raw_of : settings -> settings) (paste : bool) (b : body settings) (t : term settings),
  body_ok settings b ->
  let '(t', x) := read_once settings raw_of paste b t in
  t_tio settings t' = t_tio settings t
  /\ paste_state (t_out settings t') false = paste_state (t_out settings t) false
     \/ paste_state (t_out settings t) false = true.
Proof. exact read_restores. Qed.
Print Assumptions C16_read_restores.

Theorem C16_reads_restore :
  forall (settings : Type) (raw_of : settings -> settings) (paste : bool)
         (rs : list (body settings * (settings -> settings))) (t : term settings),
  Forall (fun r => body_ok settings (fst r)) rs ->
  paste_state (t_out settings t) false = false ->
  let '(t', xs) := reads settings raw_of paste rs t in
  t_tio settings t' = app_changes settings rs (t_tio settings t)
  /\ paste_state (t_out settings t') false = false
  /\ length xs = length rs.
Proof. exact reads_restore. Qed.
Print Assumptions C16_reads_restore.

(* non-vacuity: two reads (a panic, then a line) with the settings changed in between *)
Example C16_example :
  let b1 : body nat := fun _ => ([Other; Other], XHelperPanic) in
  let b2 : body nat := fun _ => ([Other], XLine) in
  let '(t', xs) := reads nat (fun s => s + 100) true [(b1, fun s => s + 1); (b2, fun s => s)] (mkTerm nat 7 []) in
  t_tio nat t' = 8 /\ xs = [XHelperPanic; XLine] /\ paste_state (t_out nat t') false = false.
Proof. vm_compute. repeat split. Qed.
