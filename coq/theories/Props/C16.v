(* C16 -- The terminal is given back in the state it was found, on every way out.
   Property theorems only, over the deliberately small model of Model/RawMode.v: the editing loop is ANY
   function that writes ordinary output and ends in one of the six ways (line, end-of-file, interrupt,
   undecodable input, helper error, helper panic). That the code has this shape -- in particular that the
   restoring Guard's Drop runs on unwinding and that nothing else calls tcsetattr -- is checked by the
   rawmode stream with tcgetattr on a real pty, not proved. *)
From Coq Require Import List Bool.
From RL Require Import RawMode RawModeProofs RawSteps RawStepsProofs.
Import ListNotations.

Theorem C16_read_restores :
  forall (settings : Type) (raw_of : settings -> settings) (paste : bool) (b : body settings) (t : term settings),
  body_ok settings b ->
  let '(t', x) := read_once settings raw_of paste b t in
  t_tio settings t' = t_tio settings t
  /\ paste_state (t_out settings t') false = paste_state (t_out settings t) false
     \/ paste_state (t_out settings t) false = true.
Proof. exact read_restores. Qed.
Print Assumptions C16_read_restores.

Theorem C16_reads_restore :
  forall (settings : Type) (raw_of : settings -> settings) (paste : bool)
         (rs : list (body settings * (settings -> settings))) (t : term settings),
  Forall (fun r => body_ok settings (fst r)) rs ->
  paste_state (t_out settings t) false = false ->
  let '(t', xs) := reads settings raw_of paste rs t in
  t_tio settings t' = app_changes settings rs (t_tio settings t)
  /\ paste_state (t_out settings t') false = false
  /\ length xs = length rs.
Proof. exact reads_restore. Qed.
Print Assumptions C16_reads_restore.

(* The step-level model (Model/RawSteps.v): the statements of readline_with, the Guard, enable_raw_mode, disable_raw_mode and
   the Suspend command in their order, every write consulting an oracle that may refuse it. For EVERY list of actions of the
   editing loop (output, suspend episodes during which the application or the shell changes the settings at will), every
   way out and every pattern of failing writes, the settings after the read are those in force before it. *)
Theorem C16_steps_restore_settings :
  forall (settings : Type) (raw_of : settings -> settings) (paste : bool) (acts : list (action settings)) (x : exit)
         (t : term settings) (oracle : list bool),
  t_tio settings (fst (fst (read_steps settings raw_of paste acts x t oracle))) = t_tio settings t.
Proof. exact read_steps_restores. Qed.
Print Assumptions C16_steps_restore_settings.

(* ... and when the terminal takes what is written, what it saw of paste switching is on off, once for the read and once more
   per suspend episode: balanced, alternating, ending on off; the read ends the way the loop ended *)
Theorem C16_steps_paste_balanced :
  forall (settings : Type) (raw_of : settings -> settings) (acts : list (action settings)) (x : exit)
         (t : term settings) (oracle : list bool),
  all_ok oracle ->
  let '(t', res, _) := read_steps settings raw_of true acts x t oracle in
  res = OExit x
  /\ switches (t_out settings t') = switches (t_out settings t) ++ pairs (S (suspends settings acts)).
Proof. exact read_steps_paste. Qed.
Print Assumptions C16_steps_paste_balanced.

(* with bracketed paste disabled nothing is ever switched, whatever the writes do *)
Theorem C16_steps_no_paste :
  forall (settings : Type) (raw_of : settings -> settings) (acts : list (action settings)) (x : exit)
         (t : term settings) (oracle : list bool),
  switches (t_out settings (fst (fst (read_steps settings raw_of false acts x t oracle)))) = switches (t_out settings t).
Proof. exact read_steps_nopaste. Qed.
Print Assumptions C16_steps_no_paste.

(* non-vacuity: two suspend episodes (the settings changed while stopped), the repaint that ends the second episode refused: the read ends with an I/O error, paste still switched off *)
Example C16_steps_example :
  let acts := [AWrite nat; ASuspend nat (fun s => s + 5); ASuspend nat (fun s => s * 2); AWrite nat] in
  let '(t', res, _) := read_steps nat (fun s => s + 100) true acts XLine (mkTerm nat 7 []) [true; true; true; true; true; true; true; false] in
  t_tio nat t' = 7 /\ res = OIoError /\ switches (t_out nat t') = [true; false; true; false; true; false].
Proof. vm_compute. repeat split. Qed.

(* non-vacuity: two reads (a panic, then a line) with the settings changed in between *)
Example C16_example :
  let b1 : body nat := fun _ => ([Other; Other], XHelperPanic) in
  let b2 : body nat := fun _ => ([Other], XLine) in
  let '(t', xs) := reads nat (fun s => s + 100) true [(b1, fun s => s + 1); (b2, fun s => s)] (mkTerm nat 7 []) in
  t_tio nat t' = 8 /\ xs = [XHelperPanic; XLine] /\ paste_state (t_out nat t') false = false.
Proof. vm_compute. repeat split. Qed.
