(* C08 -- Incremental history search finds the nearest match and abort restores the line.
   Property theorems only. Editor.isearch_branch is what one key does during a search; [rec] is the
   rest of the loop (any continuation); `shows s s' entry p`: the line is now entry with the cursor at p,
   history, kill ring, input and output untouched. *)
From RL Require Import UData LineBuffer History Editor EditorRun SearchProofs SearchReport.

(* what a successful History.search means (from C09): a stored entry, containing the text at the reported
   offset, and the NEAREST such entry from the start index (inclusive) in the direction *)
Theorem C08_hit_meaning :
  forall (hist : list str) (t : str) (start : nat) (d : sdir) (i p : nat) (e : str),
  h_search (mkHist hist (length hist) false false) t start d = Some (i, p, e) ->
  t <> [] /\ start < length hist /\ nth_error hist i = Some e /\ contains_at t e p /\ p <= blen e
  /\ match d with
     | Forward => start <= i /\ forall j e', start <= j < i -> nth_error hist j = Some e' -> ~ matches t e'
     | Reverse => i <= start /\ forall j e', i < j <= start -> nth_error hist j = Some e' -> ~ matches t e'
     end.
Proof. exact hit_facts. Qed.
Print Assumptions C08_hit_meaning.

(* a typed character: search for the extended text from the current position, inclusive; on a hit the
   line shown is that entry with the cursor at the match, on a miss nothing moves *)
Theorem C08_typed_char_hit :
  forall (U : UData) (cfg : config) rec (s : est) backup mark term idx d success n ch i p entry,
  grow (e_line s) = true ->
  h_search (hist_of s) (term ++ [ch]) idx d = Some (i, p, entry) ->
  exists s', isearch_branch U cfg rec backup mark term idx d success (CSelfInsert n ch) s
             = rec (term ++ [ch]) i d true s' /\ shows s s' entry p.
Proof. exact typed_char_hit. Qed.
Print Assumptions C08_typed_char_hit.

Theorem C08_typed_char_miss :
  forall (U : UData) (cfg : config) rec (s : est) backup mark term idx d success n ch,
  h_search (hist_of s) (term ++ [ch]) idx d = None ->
  isearch_branch U cfg rec backup mark term idx d success (CSelfInsert n ch) s = rec (term ++ [ch]) idx d false s.
Proof. exact typed_char_miss. Qed.
Print Assumptions C08_typed_char_miss.

(* repeating the search key: the next nearest, i.e. the nearest from one entry further *)
Theorem C08_again_reverse_hit :
  forall (U : UData) (cfg : config) rec (s : est) backup mark term idx d success i p entry,
  grow (e_line s) = true -> 0 < idx ->
  h_search (hist_of s) term (idx - 1) Reverse = Some (i, p, entry) ->
  exists s', isearch_branch U cfg rec backup mark term idx d success CReverseSearchHistory s
             = rec term i Reverse true s' /\ shows s s' entry p.
Proof. exact again_reverse_hit. Qed.
Print Assumptions C08_again_reverse_hit.

Theorem C08_again_reverse_miss :
  forall (U : UData) (cfg : config) rec (s : est) backup mark term idx d success,
  (idx = 0 \/ h_search (hist_of s) term (idx - 1) Reverse = None) ->
  isearch_branch U cfg rec backup mark term idx d success CReverseSearchHistory s
  = rec term (if Nat.ltb 0 idx then idx - 1 else idx) Reverse false s.
Proof. exact again_reverse_miss. Qed.
Print Assumptions C08_again_reverse_miss.

Theorem C08_again_forward_hit :
  forall (U : UData) (cfg : config) rec (s : est) backup mark term idx d success i p entry,
  grow (e_line s) = true -> idx < hlen_e s - 1 ->
  h_search (hist_of s) term (S idx) Forward = Some (i, p, entry) ->
  exists s', isearch_branch U cfg rec backup mark term idx d success CForwardSearchHistory s
             = rec term i Forward true s' /\ shows s s' entry p.
Proof. exact again_forward_hit. Qed.
Print Assumptions C08_again_forward_hit.

Theorem C08_backspace_shortens :
  forall (U : UData) (cfg : config) rec (s : est) backup mark term idx d success n,
  isearch_branch U cfg rec backup mark term idx d success (CKill (MBackwardChar n)) s
  = rec (removelast term) idx d success s.
Proof. exact backspace_shortens. Qed.
Print Assumptions C08_backspace_shortens.

(* Ctrl-G restores the exact line and cursor from before the search (undo side: C05_abort_is_noop) *)
Theorem C08_abort_restores :
  forall (U : UData) (cfg : config) rec (s : est) backup mark term idx d success,
  grow (e_line s) = true -> snd backup <= blen (fst backup) ->
  exists s', isearch_branch U cfg rec backup mark term idx d success CAbort s = EOk None s'
             /\ buf (e_line s') = fst backup /\ pos (e_line s') = snd backup /\ e_hist s' = e_hist s.
Proof. exact abort_restores. Qed.
Print Assumptions C08_abort_restores.

(* any other command ends the search with the shown entry as the line and is handed to the main loop *)
Theorem C08_other_command_exits :
  forall (U : UData) (cfg : config) rec (s : est) backup mark term idx d success c,
  ends_search c = true ->
  exists s', isearch_branch U cfg rec backup mark term idx d success c s = EOk (Some c) s'
             /\ e_line s' = e_line s /\ e_hist s' = e_hist s.
Proof. exact other_command_exits. Qed.
Print Assumptions C08_other_command_exits.

(* What the search REPORTS (its prompt says `(reverse-i-search)` or `(failed reverse-i-search)` and the text typed).
   [report_ok s term idx success]: if success is reported for a non-empty text, the line shown is the stored entry at idx
   and contains the text at the cursor. Every key handled inside the search (a character, Backspace, the two search keys)
   hands on to the rest of the loop -- whatever it is -- a state, text, index and flag for which the report is true. *)
Theorem C08_reported_success_is_true :
  forall (U : UData) (cfg : config) (s : est) backup mark term idx d success c,
  grow (e_line s) = true -> report_ok s term idx success -> search_key c = true ->
  exists t' i' d' su' s',
    (forall rec, isearch_branch U cfg rec backup mark term idx d success c s = rec t' i' d' su' s')
    /\ grow (e_line s') = true /\ e_hist s' = e_hist s /\ report_ok s' t' i' su'
    /\ (e_line s' = e_line s \/ In (buf (e_line s')) (e_hist s)).
Proof. exact step_keeps_report. Qed.
Print Assumptions C08_reported_success_is_true.

(* the report as a computable check *)
Theorem C08_report_check_means :
  forall (s : est) term idx success,
  report_b s term idx success = true <->
  (success = true -> term <> [] ->
   exists e, nth_error (e_hist s) idx = Some e /\ buf (e_line s) = e /\ contains_at term e (pos (e_line s))).
Proof. exact report_b_spec. Qed.
Print Assumptions C08_report_check_means.

(* the whole loop: a search loop that makes this check before EVERY prompt it draws, and aborts the program when it
   fails, is the search loop -- for all keys (drawing the prompt and reading the next command touch neither the line nor
   the history), histories, texts and any number of iterations; and a search starts inside that loop *)
Theorem C08_every_prompt_reports_the_truth :
  forall (U : UData) (cfg : config) fuel backup mark term idx d success (s : est),
  grow (e_line s) = true -> report_ok s term idx success ->
  isearch_loop_checked U cfg fuel backup mark term idx d success s
  = isearch_loop U cfg fuel backup mark term idx d success s.
Proof. exact checked_loop_is_loop. Qed.
Print Assumptions C08_every_prompt_reports_the_truth.

Theorem C08_search_starts_checked :
  forall (U : UData) (cfg : config) fuel (s : est),
  grow (e_line s) = true ->
  incremental_search U cfg fuel s
  = (if Nat.eqb (hlen_e s) 0 then eret None
     else edo mark <- changes_begin;
          isearch_loop_checked U cfg fuel (buf (e_line s), pos (e_line s)) mark [] (hlen_e s - 1) Reverse true) s.
Proof. exact search_starts_checked. Qed.
Print Assumptions C08_search_starts_checked.

(* THE WHOLE SEARCH. For every sequence of keys read inside it (any number of characters, Backspaces, repeated search keys in
   both directions, then whatever ends it), started on the line [orig] with a line shown that is [orig] or a stored entry:
   the stored history is untouched; an abort leaves exactly the line and cursor of [orig]; any other ending leaves [orig]
   or a stored history entry as the line *)
Theorem C08_whole_search :
  forall (U : UData) (cfg : config) fuel backup mark term idx d success (orig : lb) (s : est) res (s' : est),
  grow orig = true -> backup = (buf orig, pos orig) -> pos orig <= blen (buf orig) ->
  shown_ok orig s -> report_ok s term idx success ->
  isearch_loop U cfg fuel backup mark term idx d success s = EOk res s' ->
  e_hist s' = e_hist s
  /\ (res = None -> buf (e_line s') = buf orig /\ pos (e_line s') = pos orig)
  /\ (forall c, res = Some c -> e_line s' = orig \/ In (buf (e_line s')) (e_hist s)).
Proof. exact search_result. Qed.
Print Assumptions C08_whole_search.

Example C08_report_check_example :
  contains_at_b [97; 98]%N [120; 97; 98; 99; 120]%N 1 = true /\ contains_at_b [97; 98]%N [120; 97; 98; 99; 120]%N 2 = false.
Proof. vm_compute. split; reflexivity. Qed.

(* non-vacuity: history [xabcx; ab; zzz]; C-r a b finds "ab" (nearest), C-r again "xabcx", Enter *)
Example C08_example :
  let cfg := mk_config Emacs CTCircular true 80 false [] [] VKNone [] in
  let inp := mkIn [] [[Ch 18]; [Ch 97]; [Ch 98]; [Ch 18]; [Ch 13]]%N in
  fst (read_line ex_U cfg [62; 32]%N None [[120; 97; 98; 99; 120]; [97; 98]; [122; 122; 122]]%N (KillRing.kr_new 60) inp)
  = OLine [120; 97; 98; 99; 120]%N.
Proof. vm_compute. reflexivity. Qed.
