(* C13 -- Enter returns a line only if the validator accepts exactly that line.
   Property theorems only. All statements quantify over every validator (a function
   of the configuration), every editor state and text. The non-terminal path (model: Direct.v, shared with
   C18) has its own three statements at the end. *)
From RL Require Import UData LineBuffer Keys Editor EditorRun EditorProofs ValidateProofs.
From RL Require Direct DirectProofs.

(* Enter / C-j / C-m (and an application-bound AcceptLine going through the same command):
   Submit implies the verdict on the current text was Valid, and nothing between the verdict and
   the return edits the text or the cursor *)
Theorem C13_enter_valid_only :
  forall (U : UData) (cfg : config) (s : est) (aim : bool) (s' : est),
  execute U cfg (CAcceptOrInsertLine aim) s = EOk Submit s' ->
  e_line s' = e_line s
  /\ (c_has_helper cfg = true -> exists msg, c_validate cfg (buf (e_line s)) = VRValid msg).
Proof. exact enter_valid_only. Qed.
Print Assumptions C13_enter_valid_only.

(* conversely a Valid verdict does end the read, with that text *)
Theorem C13_enter_valid_submits :
  forall (U : UData) (cfg : config) (s : est) (msg : option str),
  c_has_helper cfg = true -> c_validate cfg (buf (e_line s)) = VRValid msg ->
  exists s', execute U cfg (CAcceptOrInsertLine true) s = EOk Submit s' /\ e_line s' = e_line s.
Proof. exact enter_valid_submits. Qed.
Print Assumptions C13_enter_valid_submits.

(* Incomplete (or Invalid without a message): a line break is inserted at the cursor, editing continues *)
Theorem C13_enter_incomplete :
  forall (U : UData) (cfg : config) (s : est) (aim : bool) (l r : str),
  c_has_helper cfg = true ->
  (c_validate cfg (buf (e_line s)) = VRIncomplete \/ c_validate cfg (buf (e_line s)) = VRInvalid None) ->
  buf (e_line s) = l ++ r -> pos (e_line s) = blen l -> grow (e_line s) = true ->
  exists s', execute U cfg (CAcceptOrInsertLine aim) s = EOk Proceed s'
             /\ buf (e_line s') = l ++ [10%N] ++ r /\ pos (e_line s') = blen l + 1.
Proof. exact enter_incomplete. Qed.
Print Assumptions C13_enter_incomplete.

(* Invalid with a message: text and cursor unchanged, the message is in what is written, editing continues *)
Theorem C13_enter_invalid_msg :
  forall (U : UData) (cfg : config) (s : est) (aim : bool) (m : str),
  c_has_helper cfg = true -> c_validate cfg (buf (e_line s)) = VRInvalid (Some m) ->
  exists s', execute U cfg (CAcceptOrInsertLine aim) s = EOk Proceed s'
             /\ e_line s' = e_line s
             /\ exists pre post rest, e_out s' = (pre ++ m ++ post) :: rest.
Proof. exact enter_invalid_msg. Qed.
Print Assumptions C13_enter_invalid_msg.

(* a validator error is the result of the read -- an error, never a line *)
Theorem C13_validator_error :
  forall (U : UData) (cfg : config) (s : est) (aim : bool),
  c_has_helper cfg = true -> c_validate cfg (buf (e_line s)) = VRError ->
  exists s', execute U cfg (CAcceptOrInsertLine aim) s = EErr EValidator s'.
Proof. exact validator_error_is_error. Qed.
Print Assumptions C13_validator_error.

(* over whole reads, for every input, fuel and configuration: a read that returns ended with a command
   that said Submit; only the accept commands (and vi's C-d on a non-empty line, documented as not
   validating) can; and when it was Enter / C-j / C-m the text the read ends with is the validated text *)
Theorem C13_read_returns_validated :
  forall (U : UData) (cfg : config) (fuel : nat) (s s' : est),
  main_loop U cfg fuel s = EOk tt s' ->
  exists c s1, execute U cfg c s1 = EOk Submit s'
    /\ (c = CAcceptLine \/ (exists aim, c = CAcceptOrInsertLine aim) \/ c = CEndOfFile)
    /\ (forall aim, c = CAcceptOrInsertLine aim ->
          e_line s' = e_line s1
          /\ (c_has_helper cfg = true -> exists msg, c_validate cfg (buf (e_line s')) = VRValid msg)).
Proof. exact read_returns_validated. Qed.
Print Assumptions C13_read_returns_validated.

(* NON-TERMINAL INPUT (readline_direct), for every validator function, segmentation and input stream: only strings the
   validator accepts are ever returned and nothing panics ... *)
Theorem C13_direct_only_valid_returned :
  forall (seg : Ustr.str -> list Ustr.str) (vf : Ustr.str -> Direct.vres) (input : Ustr.str),
  List.Forall (fun r => match r with Direct.DLine x => vf x = Direct.VValid | Direct.DPanic => False | _ => True end)
              (Direct.direct_all seg (Some vf) input).
Proof. intros seg vf input. exact (DirectProofs.direct_validated seg vf (Direct.dlines input) nil). Qed.
Print Assumptions C13_direct_only_valid_returned.

(* ... a validator error is what the read returns -- an error, never a line -- and the next read starts afresh ... *)
Theorem C13_direct_error_is_error :
  forall seg vf acc l t s tn tr,
  Direct.strip_terminator (acc ++ l) = (s, tn, tr) -> vf (Direct.apply_bs seg s) = Direct.VError ->
  Direct.direct_go seg (Some vf) acc (l :: t) = Direct.DErr :: Direct.direct_go seg (Some vf) nil t.
Proof. exact DirectProofs.direct_error. Qed.
Print Assumptions C13_direct_error_is_error.

(* ... and an Invalid verdict returns nothing: reading goes on with the text kept *)
Theorem C13_direct_invalid_continues :
  forall seg vf acc l t s tn tr,
  Direct.strip_terminator (acc ++ l) = (s, tn, tr) ->
  vf (Direct.apply_bs seg s) = Direct.VInvalidMsg \/ vf (Direct.apply_bs seg s) = Direct.VInvalid ->
  Direct.direct_go seg (Some vf) acc (l :: t) = Direct.direct_go seg (Some vf) (Direct.apply_bs seg s) t.
Proof. exact DirectProofs.direct_invalid. Qed.
Print Assumptions C13_direct_invalid_continues.

(* non-vacuity: "(a" Enter ")" Enter under the bracket validator returns "(a\n)" *)
Example C13_example :
  let cfg := mk_config Emacs CTCircular true 80 true [] [] VKBrackets [] in
  let inp := mkIn [] [[Ch 40; Ch 97]; [Ch 13]; [Ch 41]; [Ch 13]]%N in
  fst (read_line ex_U cfg [62; 32]%N None [] (KillRing.kr_new 60) inp) = OLine [40; 97; 10; 41]%N.
Proof. vm_compute. reflexivity. Qed.
