(* C19 -- Messages from other threads appear exactly once and never corrupt the line.
   Property theorems only. Model/ExtPrint.v is the protocol between printer threads and the editing
   thread as a transition system over ANY number of threads (todo : thread -> payloads in program order);
   `steps (initial prog) st` ranges over every interleaving. Editor.external_print is what the editing
   thread does with a message. Real schedules are sampled by the printer stream, not enumerated. *)
From Coq Require Import List Arith.
From RL Require Import UData LineBuffer ExtPrint ExtPrintProofs Editor EditorRun UndoEditor RecallProofs ExtPrintEditor PrintStream.

(* through every interleaving, for every thread: what has been shown ++ what is in the channel ++ what is
   still to do is exactly the thread's program -- no message lost, shown twice, or out of order -- and the
   wake-up pipe holds a byte exactly when an announced message is in the channel *)
Theorem C19_invariant :
  forall (prog : nat -> list nat) (st : pstate), steps (initial prog) st -> inv prog st.
Proof. exact reachable_inv. Qed.
Print Assumptions C19_invariant.

Theorem C19_per_thread_order :
  forall (prog : nat -> list nat) (st : pstate) (i : nat),
  steps (initial prog) st -> exists rest, prog i = of_thread i (shown st) ++ rest.
Proof. exact shown_is_prefix. Qed.
Print Assumptions C19_per_thread_order.

Theorem C19_exactly_once_when_done :
  forall (prog : nat -> list nat) (st : pstate) (i : nat),
  steps (initial prog) st -> todo st i = nil -> chan_of i (chan st) = nil -> of_thread i (shown st) = prog i.
Proof. exact all_shown_when_done. Qed.
Print Assumptions C19_exactly_once_when_done.

(* the editor is never woken for nothing *)
Theorem C19_wakeup_finds_message :
  forall (prog : nat -> list nat) (st : pstate) (p : nat),
  steps (initial prog) st -> pipe st = S p -> exists m, chan st = Some m.
Proof. exact wakeup_finds_message. Qed.
Print Assumptions C19_wakeup_finds_message.

(* no deadlock: while some thread still has something to print, a step is enabled; and a message in the
   channel is shown by the editor's next step, or its sender's next step announces it *)
Theorem C19_progress :
  forall (prog : nat -> list nat) (st : pstate) (i m : nat) (rest : list nat),
  steps (initial prog) st -> todo st i = m :: rest -> exists st', step st st'.
Proof. exact progress. Qed.
Print Assumptions C19_progress.

Theorem C19_message_gets_shown :
  forall (prog : nat -> list nat) (st : pstate) (m : msg),
  steps (initial prog) st -> chan st = Some m ->
  (exists st', step st st' /\ shown st' = shown st ++ (m :: nil))
  \/ (exists i st', holder st = Some (i, HSent) /\ step st st' /\ pipe st' = 1 /\ chan st' = Some m).
Proof. exact message_gets_shown. Qed.
Print Assumptions C19_message_gets_shown.

(* the editing thread: showing a message leaves the text, the cursor and the undo stack exactly as they were,
   and the history too; the message is written whole after the old rows are cleared, then prompt and line
   are redrawn (that the redraw is right is C02) *)
Theorem C19_text_unaffected :
  forall (U : UData) (cfg : config) (m : str) (s : est) (s' : est),
  external_print U cfg m s = EOk tt s' -> e_line s' = e_line s /\ e_changes s' = e_changes s.
Proof. intros U cfg m s s'. exact (external_print_keeps_edit U cfg m s tt s'). Qed.
Print Assumptions C19_text_unaffected.

(* a message is not a command: besides the screen bookkeeping (output, layout, shown hint) NOTHING of the editing state changes
   when a message is shown -- the kill ring with its memory of the last action (a kill, a message, a kill still accumulate; a
   yank, a message, a yank-pop still replace), the numeric argument, vi's last command and character search, the position in the
   history, the saved line, the input still to be read *)
Theorem C19_message_is_not_a_command :
  forall (U : UData) (cfg : config) (m : str) (s s' : est),
  external_print U cfg m s = EOk tt s' -> same_editing_state s s' /\ e_inp s' = e_inp s.
Proof. exact external_print_keeps_state. Qed.
Print Assumptions C19_message_is_not_a_command.

(* ... and so for every batch of messages the main loop's wait finds pending *)
Theorem C19_messages_are_not_commands :
  forall (U : UData) (cfg : config) (fuel : nat) (s s' : est),
  drain_prints U cfg fuel s = EOk tt s' -> same_editing_state s s'.
Proof. exact drain_prints_keeps_state. Qed.
Print Assumptions C19_messages_are_not_commands.

Theorem C19_message_written :
  forall (U : UData) (cfg : config) (m : str) (s s' : est),
  external_print U cfg m s = EOk tt s' ->
  exists redraw, e_out s' = redraw :: (if Render.ends_with_lf m then nil else (10%N :: nil) :: nil)
                                ++ m :: Render.clear_old_rows (e_layout s) :: e_out s.
Proof. exact external_print_writes_message. Qed.
Print Assumptions C19_message_written.

(* OVER WHOLE READS (the messages handed over while a read runs are items of the model's input stream, msgs = those still
   pending, in order): a raw read -- a character of a key sequence, of an incremental search, of a completion -- leaves
   every pending message where it is: a message that arrives inside a search or completion is not lost, it waits ... *)
Theorem C19_raw_read_keeps_messages :
  forall (s : est) (c : N) (s' : est), next_char s = EOk c s' -> msgs (e_inp s') = msgs (e_inp s).
Proof. exact next_char_keeps_msgs. Qed.
Print Assumptions C19_raw_read_keeps_messages.

(* ... and for EVERY input, mode, helper and binding: when the read returns, the messages still pending are a SUFFIX of
   those pending when it started -- none lost, duplicated or reordered in the stream; the others were taken off the
   front, one at a time and in order, by the main loop's wait, which is the only place that takes one and which shows
   it (C19_message_written: whole, once) *)
Theorem C19_read_takes_messages_in_order :
  forall (U : UData) (cfg : config) (fuel : nat) (s s' : est),
  main_loop U cfg fuel s = EOk tt s' -> exists shown, msgs (e_inp s) = shown ++ msgs (e_inp s').
Proof. intros U cfg fuel s s'. exact (main_loop_shows_msgs U cfg fuel s tt s'). Qed.
Print Assumptions C19_read_takes_messages_in_order.

(* non-vacuity: two threads, three messages, one interleaving *)
Example C19_example :
  let prog := fun i => match i with 0 => 1 :: 2 :: nil | 1 => 7 :: nil | _ => nil end in
  exists st, steps (initial prog) st /\ shown st = (0, 1) :: (1, 7) :: nil.
Proof.
  eexists. split.
  - eapply steps_cons; [eapply (s_lock 0); reflexivity|].
    eapply steps_cons; [eapply (s_send 0); reflexivity|].
    eapply steps_cons; [eapply (s_poke 0); reflexivity|].
    eapply steps_cons; [eapply (s_unlock 0); reflexivity|].
    eapply steps_cons; [eapply s_take_some; reflexivity|].
    eapply steps_cons; [eapply (s_lock 1); reflexivity|].
    eapply steps_cons; [eapply (s_send 1); reflexivity|].
    eapply steps_cons; [eapply (s_poke 1); reflexivity|].
    eapply steps_cons; [eapply s_take_some; reflexivity|].
    apply steps_refl.
  - reflexivity.
Qed.
