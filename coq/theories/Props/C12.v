(* C12 -- A torn or foreign history file never crashes the load and never
   invents entries. Property theorems only. *)
From RL Require Import Utf8 History HistFile Utf8Proofs HistFileProofs.

(* every prefix, of at least the four header bytes, of a file written by
   save / append, loaded into ANY history: what is offered to add is a prefix
   of the written entry list followed by at most one cut of the next entry;
   on a decoding error (cut inside a character) what was loaded is kept *)
Theorem C12_torn_load : forall (U : UData) (f : fhist) (es : list str) (k : nat),
  Forall (fun e => valid_str e = true) es -> 4 <= k ->
  exists j last,
    (last = [] \/ exists e' e, last = [e'] /\ nth_error es j = Some e /\ is_prefix e' e)
    /\ match load_from U f (firstn k (save_bytes es)) with
       | LOk f' _ => f_entries f' = f_entries (f_add_all U f (firstn j es ++ last))
       | LErr f' => f_entries f' = f_entries (f_add_all U f (firstn j es))
       end.
Proof. intros U f es k Hv Hk. exact (torn_load U f es k Hv Hk header_len). Qed.
Print Assumptions C12_torn_load.

(* ... and into a fresh history with the settings the entries were accepted
   under: the entries obtained ARE the written entries in order, the last one
   possibly cut short, nothing altered, duplicated or invented *)
Theorem C12_torn_load_wf : forall (U : UData) (max : nat) (igs igd : bool) (es : list str) (k : nat),
  Forall (fun e => valid_str e = true) es -> wf_entries U max igs igd es -> 4 <= k ->
  exists j last,
    (last = [] \/ exists e' e, last = [e'] /\ nth_error es j = Some e /\ is_prefix e' e)
    /\ match load_from U (f_new_cfg max igs igd) (firstn k (save_bytes es)) with
       | LOk f' _ | LErr f' => f_entries f' = firstn j es ++ last
       end.
Proof. exact torn_load_wf. Qed.
Print Assumptions C12_torn_load_wf.

(* the append fast path writes old ++ new lines: its prefixes are prefixes of
   one save of (old ++ new), so C12_torn_load covers them *)
Theorem C12_append_prefix : forall (a b : list str) (k : nat),
  firstn k (save_bytes a ++ entries_bytes b) = firstn k (save_bytes (a ++ b)).
Proof. intros a b k. exact (f_equal (firstn k) (save_bytes_app a b)). Qed.
Print Assumptions C12_append_prefix.

(* arbitrary bytes: the result is Ok or Err (the model function is total and
   has no other outcome); every entry comes from a complete, decodable line of
   the file, in order (V2: unescaped, or raw when the escapes are bad); an
   error happens exactly at the first undecodable line and keeps what was
   loaded before it *)
Theorem C12_load_sound : forall (U : UData) (f : fhist) (bytes : list N),
  exists n raws,
    map decode_line (firstn n (split_lines bytes)) = map Some raws
    /\ match load_from U f bytes with
       | LOk f' _ => n = length (split_lines bytes)
                     /\ f_entries f' = f_entries (f_add_all U f (offered raws))
       | LErr f' => n < length (split_lines bytes)
                    /\ nth_error (map decode_line (split_lines bytes)) n = Some None
                    /\ f_entries f' = f_entries (f_add_all U f (offered raws))
       end.
Proof. exact load_sound. Qed.
Print Assumptions C12_load_sound.

(* a cut of an escaped entry unescapes to a cut of the entry (the F13 repair) *)
Theorem C12_unesc_prefix : forall (e s' r : str),
  esc e = s' ++ r -> exists e' r', unesc s' = Some e' /\ e = e' ++ r'.
Proof. exact unesc_prefix. Qed.
Print Assumptions C12_unesc_prefix.

Example C12_example_cut :
  (* "#V2\nfirst\na\\nb\\" : the file of ["first"; "a<LF>b\"] cut before the last escaped byte *)
  let es := [[102;105;114;115;116]; [97;10;98;92]]%N in
  match load_from ex_U (f_new_cfg 10 false false) (firstn 15 (save_bytes es)) with
  | LOk f _ => f_entries f = [[102;105;114;115;116]; [97;10;98]]%N
  | LErr _ => False
  end.
Proof. vm_compute. reflexivity. Qed.
