(* C05 -- Undo walks back through real earlier states, one edit unit at a time.
   Property theorems only. `valid undos text` (Proofs/UndoProofs.v) says: undoing the changes
   of the stack, newest first, is possible on `text` and ends on the empty line; `texts` lists
   the texts that walk passes through. *)
From RL Require Import UData LineBuffer LineBufferProofs LineBufferAll Undo Editor EditorRun UndoProofs UndoEditor NoPanic ReadNoPanic MainLoop.

(* main invariant, at the level of the change listener: whatever notifications a line-buffer
   operation sends (they replay on the text, C03), the stack stays a valid script for the new text *)
Theorem C05_notifications_keep_script :
  forall (U : UData) (seg : str -> list str) (es : list event) (c : changeset) (t t' : str),
  valid (cs_undos c) t -> replay t es = Some t' -> valid (cs_undos (cs_notify_all U seg c es)) t'.
Proof. exact cs_notify_all_valid. Qed.
Print Assumptions C05_notifications_keep_script.

(* ... at the level of editor commands: for EVERY command (edits, kills, yanks, history recall,
   case changes, transpositions, indent, validation, Undo itself), configuration and state, the
   invariant is preserved -- hence through any sequence of commands from the start of a read *)
Theorem C05_execute_keeps_script :
  forall (U : UData) (cfg : config) (c : cmd) (s : est) (st : status) (s' : est),
  I s -> execute U cfg c s = EOk st s' -> I s'.
Proof. exact execute_keeps_script. Qed.
Print Assumptions C05_execute_keeps_script.

Theorem C05_commands_keep_script :
  forall (U : UData) (cfg : config) (cs : list cmd) (prompt : str) (history : list str) kr inp (s' : est),
  exec_all U cfg cs (initial_state U cfg prompt history kr inp) = EOk tt s' -> I s'.
Proof. intros U cfg cs prompt history kr inp s'. exact (commands_keep_script U cfg cs _ tt s' (initial_I U cfg prompt history kr inp)). Qed.
Print Assumptions C05_commands_keep_script.

(* Undo never panics, whatever the count, and keeps the invariant *)
Theorem C05_undo_total :
  forall (c : changeset) (b : lb) (n : nat),
  valid (cs_undos c) (buf b) ->
  exists c' b' d, cs_undo c b n = Ok (c', b', d) /\ valid (cs_undos c') (buf b').
Proof. exact undo_total. Qed.
Print Assumptions C05_undo_total.

Theorem C05_undo_command_total :
  forall (U : UData) (cfg : config) (s : est) (n : nat),
  I s -> exists s', execute U cfg (CUndo n) s = EOk Proceed s' /\ I s'.
Proof. exact undo_command_total. Qed.
Print Assumptions C05_undo_command_total.

(* (a) each Undo lands on a text of the script *)
Theorem C05_undo_lands_on_script :
  forall (undos : list change) (b : lb) (n count : nat) (waiting : Z) (undone : bool) u' b' d,
  valid undos (buf b) -> cs_undo_loop undos b n count waiting undone = Ok (u', b', d) ->
  In (buf b') (texts undos (buf b)).
Proof. exact undo_lands_on_script. Qed.
Print Assumptions C05_undo_lands_on_script.

(* (b) one Undo removes exactly one recorded change, or exactly one Begin..End group *)
Theorem C05_undo_one_change :
  forall (ch : change) (rest : list change) (b b' : lb),
  no_marker ch = true -> change_undo ch b = Ok b' ->
  cs_undo_loop (ch :: rest) b 1 0 0%Z false = Ok (rest, b', true).
Proof. exact undo_one_change. Qed.
Print Assumptions C05_undo_one_change.

Theorem C05_undo_one_group :
  forall (body rest : list change) (b : lb),
  forallb no_marker body = true -> valid (UEnd :: body ++ UBegin :: rest) (buf b) ->
  exists b' d, cs_undo_loop (UEnd :: body ++ UBegin :: rest) b 1 0 0%Z false = Ok (rest, b', d)
               /\ valid rest (buf b').
Proof. exact undo_one_group. Qed.
Print Assumptions C05_undo_one_group.

(* (c) a count beyond the stack unwinds everything: the empty line the read started from *)
Theorem C05_undo_reaches_empty :
  forall (undos : list change) (b : lb) (n count : nat) (waiting : Z) (undone : bool),
  valid undos (buf b) -> length undos + count < n ->
  exists b' d, cs_undo_loop undos b n count waiting undone = Ok ([], b', d) /\ buf b' = [].
Proof. exact undo_reaches_empty. Qed.
Print Assumptions C05_undo_reaches_empty.

(* (d) begin(); any notifications; truncate(mark) gives back the very changeset (stack AND
   group depth) -- what aborting a completion or an incremental search does *)
Theorem C05_abort_is_noop :
  forall (U : UData) (seg : str -> list str) (c : changeset) (es : list event),
  let '(c1, mark) := cs_begin c in cs_truncate (cs_notify_all U seg c1 es) mark = c.
Proof. exact abort_is_noop. Qed.
Print Assumptions C05_abort_is_noop.

(* non-vacuity: type "ab", space, "c"; kill the line backwards; undo twice *)
(* AN ABORTED INCREMENTAL SEARCH LEAVES EVERYTHING AS IF IT HAD NEVER STARTED (Emacs mode): from a state with the
   editor's invariant, whatever keys are typed inside the search (characters, Backspace, C-r / C-s, hits replacing
   the line any number of times), if the search ends without handing a command back (C-g / Esc, or an empty history),
   then the line, its cursor AND the undo stack are exactly those from before the search -- so every later Undo
   behaves as if the search had not happened. (In vi mode this is false: known finding K9.) *)
Theorem C05_search_abort_is_noop :
  forall (U : UData) (cfg : config), is_emacs cfg = true ->
  forall (f : nat) (s : est), J s -> Nv cfg s ->
  match incremental_search U cfg f s with
  | EPanic => False
  | EOk r s' => r = None -> e_changes s' = e_changes s /\ buf (e_line s') = buf (e_line s) /\ pos (e_line s') = pos (e_line s)
  | _ => True
  end.
Proof. exact search_abort_is_noop. Qed.
Print Assumptions C05_search_abort_is_noop.

(* ... and so does an aborted circular completion, for any completer that keeps its contract *)
Theorem C05_completion_abort_is_noop :
  forall (U : UData) (cfg : config), is_emacs cfg = true -> c_completion cfg = CTCircular ->
  (forall text p, bd text p -> bd text (fst (c_complete cfg text p)) /\ fst (c_complete cfg text p) <= p) ->
  forall (f : nat) (s : est), J s -> Nv cfg s ->
  match complete_line U cfg f s with
  | EPanic => False
  | EOk r s' => r = None -> e_changes s' = e_changes s /\ buf (e_line s') = buf (e_line s) /\ pos (e_line s') = pos (e_line s)
  | _ => True
  end.
Proof. exact completion_abort_is_noop. Qed.
Print Assumptions C05_completion_abort_is_noop.

Example C05_example :
  let cfg := mk_config Emacs CTCircular true 80 false [] [] VKNone [] in
  let inp := mkIn [] [[Ch 97; Ch 98; Ch 32; Ch 99]; [Ch 21]; [Ch 31]; [Ch 31]; [Ch 13]]%N in
  fst (read_line ex_U cfg [62; 32]%N None [] (KillRing.kr_new 60) inp) = OLine [97; 98]%N.
Proof. vm_compute. reflexivity. Qed.
