(* C09 -- History store: newest entries, in order, within bound; searches
   are truthful. Property theorems only. *)
From RL Require Import UData History HistoryProofs.

(* For every operation sequence from a fresh history: the entries are the
   last k lines for which add answered true since the last clear (k follows
   min(k+1,max) / min(k,n)), and never more than the limit. *)
Theorem C09_log : forall (U : UData) (max : nat) (igs igd : bool) (ops : list hop),
  let h := fst (h_run U (hist_new max igs igd) ops) in
  let g := snd (g_run U (hist_new max igs igd) (mkG [] 0) ops) in
  h_entries h = lastn (g_k g) (g_acc g) /\ g_k g <= length (g_acc g)
  /\ length (h_entries h) <= h_max h.
Proof. exact hist_log. Qed.
Print Assumptions C09_log.

(* add refuses exactly: empty line, zero limit, leading blank under
   ignore-space, equal to the newest entry under ignore-duplicates *)
Theorem C09_accept : forall (U : UData) (h : hist) (l : str),
  snd (h_add U h l) = false <-> refused U h l.
Proof. exact hist_accept. Qed.
Print Assumptions C09_accept.

Theorem C09_get : forall (h : hist) (i : nat), h_get h i = nth_error (h_entries h) i.
Proof. exact hist_get. Qed.
Print Assumptions C09_get.

(* a hit is a real match, at the nearest index in the direction, start included *)
Theorem C09_search_some : forall (h : hist) (t : str) (s : nat) (d : sdir)
                                 (test : str -> option nat) (i c : nat) (e : str),
  h_search_match h t s d test = Some (i, c, e) ->
  t <> [] /\ s < hlen h /\ nth_error (h_entries h) i = Some e /\ test e = Some c
  /\ match d with
     | Forward => s <= i /\ forall j, s <= j < i -> test_at test h j = None
     | Reverse => i <= s /\ forall j, i < j <= s -> test_at test h j = None
     end.
Proof. exact search_match_some. Qed.
Print Assumptions C09_search_some.

(* no hit only if: empty text, start out of range, or no entry matches in that direction *)
Theorem C09_search_none : forall (h : hist) (t : str) (s : nat) (d : sdir) (test : str -> option nat),
  h_search_match h t s d test = None ->
  t = [] \/ hlen h <= s
  \/ match d with
     | Forward => forall j, s <= j -> test_at test h j = None
     | Reverse => forall j, j <= s -> test_at test h j = None
     end.
Proof. exact search_match_none. Qed.
Print Assumptions C09_search_none.

(* the substring test used by search: first occurrence, byte offset *)
Theorem C09_find_some : forall (t s : str) (k : nat),
  find_sub t s = Some k ->
  exists l r, s = l ++ t ++ r /\ blen l = k
              /\ forall l' r', s = l' ++ t ++ r' -> length l <= length l'.
Proof. exact find_sub_some. Qed.
Print Assumptions C09_find_some.

Theorem C09_find_none : forall t s : str, find_sub t s = None -> forall l r, s <> l ++ t ++ r.
Proof. exact find_sub_none. Qed.
Print Assumptions C09_find_none.

(* search and starts_with are search_match with these tests (by definition) *)
Theorem C09_search_is_match : forall h t s d,
  h_search h t s d = h_search_match h t s d (fun e => find_sub t e)
  /\ h_starts_with h t s d
     = h_search_match h t s d (fun e => if prefix_b t e then Some (blen t) else None).
Proof. intros h t s d. exact (conj eq_refl eq_refl). Qed.
Print Assumptions C09_search_is_match.

Example C09_example :
  let U := Build_UData (fun c => N.eqb c 32) (fun _ => false) (fun _ => false) (fun _ => false)
              (fun _ => false) (fun _ => false) (fun c => [c]) (fun c => [c]) (fun _ => 1)
              (fun _ => GC_Any) (fun _ => false) (fun _ => false) in
  let ops := [HAdd [97]; HAdd [97]; HAdd [32; 98]; HAdd [233; 98]; HSetMax 2; HAdd [99];
              HSearch [98] 1 Reverse]%N in
  h_entries (fst (h_run U (hist_new 3 true true) ops)) = [[233; 98]; [99]]%N
  /\ snd (h_run U (hist_new 3 true true) ops)
     = [OBool true; OBool false; OBool false; OBool true; OUnit; OBool true;
        OSearch (Some (0, 2, [233; 98]%N))].
Proof. vm_compute. split; reflexivity. Qed.
