(* C10 -- Saving and loading the history file reproduces every entry byte
   for byte. Property theorems only; each is closed by [exact lemma]. *)
From RL Require Import Utf8 History HistFile Utf8Proofs HistFileProofs.

(* escaping is injective, and an escaped entry contains neither LF nor CR,
   so the line structure of the file is exactly the entry structure *)
Theorem C10_esc_roundtrip : forall s : str,
  unesc (esc s) = Some s /\ ~ In 10%N (esc s) /\ ~ In 13%N (esc s).
Proof. intros s. exact (conj (unesc_esc s) (conj (esc_no_lf s) (esc_no_cr s))). Qed.
Print Assumptions C10_esc_roundtrip.

Theorem C10_utf8_roundtrip : forall s : str,
  valid_str s = true -> decode (encode s) = Some s.
Proof. exact decode_encode. Qed.
Print Assumptions C10_utf8_roundtrip.

(* loading the bytes written by save offers exactly the saved entries, in
   order, to a history -- whatever that history's state and settings *)
Theorem C10_load_of_save : forall (U : UData) (f : fhist) (es : list str),
  Forall (fun e => valid_str e = true) es ->
  exists app, load_from U f (save_bytes es) = LOk (f_reset (f_add_all U f es)) app.
Proof. exact load_save_general. Qed.
Print Assumptions C10_load_of_save.

(* the round trip: entries that a history with these settings can hold come
   back identically *)
Theorem C10_save_load : forall (U : UData) (max : nat) (igs igd : bool) (es : list str),
  Forall (fun e => valid_str e = true) es ->
  wf_entries U max igs igd es ->
  exists f app, load_from U (f_new_cfg max igs igd) (save_bytes es) = LOk f app
                /\ f_entries f = es.
Proof. exact save_load. Qed.
Print Assumptions C10_save_load.

(* the premise is what adds produce: any history built from a fresh one by
   any sequence of adds holds a well-formed entry list *)
Theorem C10_adds_wf : forall (U : UData) (max : nat) (igs igd : bool) (ls : list str),
  wf_entries U max igs igd (f_entries (f_add_all U (f_new_cfg max igs igd) ls)).
Proof. exact adds_wf_entries. Qed.
Print Assumptions C10_adds_wf.

(* append, fast path: old bytes ++ new lines is the file one save of
   old ++ new would have written *)
Theorem C10_append_bytes : forall a b : list str,
  save_bytes a ++ entries_bytes b = save_bytes (a ++ b).
Proof. exact save_bytes_app. Qed.
Print Assumptions C10_append_bytes.

(* legacy file (first line is not "#V2"): every line is offered verbatim, in
   order, to add (which refuses only what add always refuses) *)
Theorem C10_legacy_load : forall (U : UData) (f : fhist) (bytes : list N) (ls : list str),
  map decode_line (split_lines bytes) = map Some ls ->
  hd [] ls <> header ->
  load_from U f bytes = LOk (f_reset (f_add_all U f ls)) false.
Proof. exact legacy_load. Qed.
Print Assumptions C10_legacy_load.

(* non-vacuity: a concrete entry list with LF, CR, backslash, an escape
   look-alike, the header look-alike, a blank and multi-byte characters *)
Definition ex_entries : list str :=
  [[97; 10; 98]; [99; 13]; [92; 110]; [35; 86; 50]; [32; 233]; [26085; 128512]]%N.
Example C10_example_roundtrip :
  match load_from ex_U (f_new_cfg 10 false true) (save_bytes ex_entries) with
  | LOk f _ => f_entries f = ex_entries
  | LErr _ => False
  end.
Proof. vm_compute. reflexivity. Qed.
Example C10_example_wf : wf_entries ex_U 10 false true ex_entries
                         /\ Forall (fun e => valid_str e = true) ex_entries.
Proof.
  split; [split|].
  - cbn; lia.
  - repeat constructor.
  - intros _. cbn. repeat split; discriminate.
  - repeat constructor.
Qed.
