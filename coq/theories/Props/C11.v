(* C11 -- Sessions sharing one history file never lose or reorder each
   other's entries (operation granularity). Property theorems only. *)
From RL Require Import Utf8 History HistFile HistFileProofs HistShareProofs HistBound.

(* "the file always loads": through every interleaving of any number of
   sessions running new / load / add / save / append / set_max_len / clear
   (and removal of the file), from any state in which the file is a saved
   entry list, the file stays a saved entry list of valid strings ... *)
Theorem C11_file_invariant : forall (U : UData) (ops : list fop) (w : world),
  world_ok w -> Forall op_ok ops -> world_ok (w_steps U w ops).
Proof. exact always_loads. Qed.
Print Assumptions C11_file_invariant.

(* ... and such a file loads into any history *)
Theorem C11_always_loads : forall (U : UData) (fs : fsys) (f : fhist) (c : list N),
  file_ok fs -> fs_content fs = Some c -> exists f' ap, load_from U f c = LOk f' ap.
Proof. exact ok_file_loads. Qed.
Print Assumptions C11_always_loads.

(* what one append does to the file: nothing; or (file absent / everything in
   memory is new) the session's entries; or old bytes followed by the pending
   lines; or the reload-merge: entries of the file re-added to a fresh
   history with the session's settings, then the pending lines *)
Theorem C11_append_effect : forall (U : UData) (f : fhist) (fs : fsys) (tick : bool) f' fs' r,
  f_append U f fs tick = (f', fs', r) -> append_effect U f fs fs'.
Proof. exact f_append_effect. Qed.
Print Assumptions C11_append_effect.

(* fast path in terms of entries: file of es becomes file of es ++ pending *)
Theorem C11_fast_path_entries : forall (es : list str) (f : fhist),
  save_bytes es ++ entries_bytes (pending f) = save_bytes (es ++ pending f).
Proof. intros es f. exact (save_bytes_app es (pending f)). Qed.
Print Assumptions C11_fast_path_entries.

(* merge path in terms of entries: what the file held (as re-read), then the
   pending lines that add accepts, cut from the OLD end to the limit -- no
   entry in the middle is lost or reordered *)
Theorem C11_merge_shape : forall (U : UData) (ls : list str) (f : fhist),
  length (f_entries f) <= h_max (f_mem f) ->
  f_entries (f_add_all U f ls)
  = lastn (Nat.min (length (f_entries f) + length (accepted U f ls)) (h_max (f_mem f)))
          (f_entries f ++ accepted U f ls)
  /\ length (f_entries (f_add_all U f ls)) <= h_max (f_mem f).
Proof. exact f_add_all_shape. Qed.
Print Assumptions C11_merge_shape.

Theorem C11_accepted_in_order : forall (U : UData) (ls : list str) (f : fhist),
  sublist (accepted U f ls) ls.
Proof. exact accepted_sublist. Qed.
Print Assumptions C11_accepted_in_order.

(* when nothing is refused and everything fits, the merge is exact *)
Theorem C11_merge_exact : forall (U : UData) (f : fhist) (ls : list str),
  wf_entries U (h_max (f_mem f)) (h_ign_space (f_mem f)) (h_ign_dups (f_mem f)) (f_entries f ++ ls) ->
  f_entries (f_add_all U f ls) = f_entries f ++ ls.
Proof. exact f_add_all_exact. Qed.
Print Assumptions C11_merge_exact.

(* no line is written twice by the same session: a write leaves nothing
   pending, and an append / save with nothing pending does not touch the file *)
Theorem C11_write_clears_pending : forall (U : UData) (f : fhist) (fs : fsys) (tick : bool) f' fs' r,
  f_append U f fs tick = (f', fs', r) -> fs' = fs \/ f_new f' = 0.
Proof. exact f_append_new. Qed.
Print Assumptions C11_write_clears_pending.

Theorem C11_nothing_pending_no_write : forall (U : UData) (f : fhist) (fs : fsys) (tick : bool),
  f_new f = 0 -> f_append U f fs tick = (f, fs, IoOk) /\ f_save f fs tick = (f, fs, IoOk).
Proof. intros U f fs tick H. exact (conj (f_append_nothing_pending U f fs tick H) (f_save_nothing_pending f fs tick H)). Qed.
Print Assumptions C11_nothing_pending_no_write.

(* THE SIZE-LIMIT CLAUSE ("when modification times of successive writes are distinguishable the file never exceeds the size
   limit"). A session remembers the file's modification time and how many entries it knows to be in it. If that record is right
   whenever the file still carries the remembered time -- what distinguishable modification times guarantee, every write by
   anybody changing the time -- then ONE append, down whichever of its four paths, leaves a file of at most max_len entries *)
Theorem C11_append_keeps_the_limit :
  forall (U : UData) (f : fhist) (fs : fsys) (tick : bool) f' fs' r (es : list str),
  f_append U f fs tick = (f', fs', r) ->
  fs_content fs = Some (save_bytes es) ->
  Forall (fun e => valid_str e = true) es ->
  length es <= h_max (f_mem f) ->
  length (f_entries f) <= h_max (f_mem f) ->
  f_new f <= hlen (f_mem f) ->
  (forall pm psize, f_pinfo f = Some (pm, psize) -> pm = fs_mtime fs -> psize = length es) ->
  exists es', fs_content fs' = Some (save_bytes es') /\ length es' <= h_max (f_mem f).
Proof. exact append_keeps_bound. Qed.
Print Assumptions C11_append_keeps_the_limit.

(* non-vacuity: two sessions on an existing file; B's append goes down the
   merge path after A's append, and both sessions' lines are in the file *)
Example C11_example :
  let ops := [FNew 0 10 false true; FAdd 0 [120]%N; FSave 0 true;
              FNew 1 10 false true; FLoad 1; FNew 2 10 false true; FLoad 2;
              FAdd 1 [97]%N; FAdd 2 [98]%N; FAppend 1 true; FAppend 2 true;
              FNew 3 10 false true; FLoad 3] in
  world_ok w_init /\ Forall op_ok ops /\
  match sess_get (w_sessions (w_steps ex_U w_init ops)) 3 with
  | Some f => f_entries f = [[120]; [97]; [98]]%N
  | None => False
  end.
Proof.
  split; [exact w_init_ok|]. split; [repeat constructor|]. vm_compute. reflexivity.
Qed.
