
val negb : bool -> bool

type nat =
| O
| S of nat

val fst : ('a1 * 'a2) -> 'a1

val snd : ('a1 * 'a2) -> 'a2

val length : 'a1 list -> nat

val app : 'a1 list -> 'a1 list -> 'a1 list

type comparison =
| Eq
| Lt
| Gt

val compOpp : comparison -> comparison

val add : nat -> nat -> nat

val mul : nat -> nat -> nat

val sub : nat -> nat -> nat

val eqb : bool -> bool -> bool

module Nat :
 sig
  val sub : nat -> nat -> nat

  val eqb : nat -> nat -> bool

  val leb : nat -> nat -> bool

  val ltb : nat -> nat -> bool

  val max : nat -> nat -> nat

  val min : nat -> nat -> nat

  val even : nat -> bool

  val divmod : nat -> nat -> nat -> nat -> nat * nat

  val div : nat -> nat -> nat

  val modulo : nat -> nat -> nat
 end

val tl : 'a1 list -> 'a1 list

val nth_error : 'a1 list -> nat -> 'a1 option

val removelast : 'a1 list -> 'a1 list

val rev : 'a1 list -> 'a1 list

val concat : 'a1 list list -> 'a1 list

val map : ('a1 -> 'a2) -> 'a1 list -> 'a2 list

val flat_map : ('a1 -> 'a2 list) -> 'a1 list -> 'a2 list

val fold_left : ('a1 -> 'a2 -> 'a1) -> 'a2 list -> 'a1 -> 'a1

val existsb : ('a1 -> bool) -> 'a1 list -> bool

val forallb : ('a1 -> bool) -> 'a1 list -> bool

val filter : ('a1 -> bool) -> 'a1 list -> 'a1 list

val find : ('a1 -> bool) -> 'a1 list -> 'a1 option

val combine : 'a1 list -> 'a2 list -> ('a1 * 'a2) list

val firstn : nat -> 'a1 list -> 'a1 list

val skipn : nat -> 'a1 list -> 'a1 list

val seq : nat -> nat -> nat list

val repeat : 'a1 -> nat -> 'a1 list

type positive =
| XI of positive
| XO of positive
| XH

type n =
| N0
| Npos of positive

type z =
| Z0
| Zpos of positive
| Zneg of positive

module Pos :
 sig
  type mask =
  | IsNul
  | IsPos of positive
  | IsNeg
 end

module Coq_Pos :
 sig
  val succ : positive -> positive

  val add : positive -> positive -> positive

  val add_carry : positive -> positive -> positive

  val pred_double : positive -> positive

  type mask = Pos.mask =
  | IsNul
  | IsPos of positive
  | IsNeg

  val succ_double_mask : mask -> mask

  val double_mask : mask -> mask

  val double_pred_mask : positive -> mask

  val sub_mask : positive -> positive -> mask

  val sub_mask_carry : positive -> positive -> mask

  val mul : positive -> positive -> positive

  val compare_cont : comparison -> positive -> positive -> comparison

  val compare : positive -> positive -> comparison

  val eqb : positive -> positive -> bool

  val iter_op : ('a1 -> 'a1 -> 'a1) -> positive -> 'a1 -> 'a1

  val to_nat : positive -> nat

  val of_succ_nat : nat -> positive
 end

module N :
 sig
  val succ_double : n -> n

  val double : n -> n

  val add : n -> n -> n

  val sub : n -> n -> n

  val mul : n -> n -> n

  val compare : n -> n -> comparison

  val eqb : n -> n -> bool

  val leb : n -> n -> bool

  val ltb : n -> n -> bool

  val pos_div_eucl : positive -> n -> n * n

  val div_eucl : n -> n -> n * n

  val div : n -> n -> n

  val modulo : n -> n -> n

  val to_nat : n -> nat

  val of_nat : nat -> n
 end

module Z :
 sig
  val double : z -> z

  val succ_double : z -> z

  val pred_double : z -> z

  val pos_sub : positive -> positive -> z

  val add : z -> z -> z

  val opp : z -> z

  val sub : z -> z -> z

  val mul : z -> z -> z

  val compare : z -> z -> comparison

  val leb : z -> z -> bool

  val ltb : z -> z -> bool

  val eqb : z -> z -> bool

  val max : z -> z -> z

  val min : z -> z -> z

  val abs : z -> z

  val to_nat : z -> nat

  val of_N : n -> z
 end

type 'a res =
| Ok of 'a
| Panic

val omap : ('a1 -> 'a2) -> 'a1 option -> 'a2 option

type str = n list

val clen : n -> nat

val blen : str -> nat

val valid_char : n -> bool

val bsplit : str -> nat -> (str * str) option

val is_boundary : str -> nat -> bool

val str_eqb : str -> str -> bool

val prefix_b : str -> str -> bool

val find_sub : str -> str -> nat option

type gcat =
| GC_Any
| GC_CR
| GC_Control
| GC_Extend
| GC_ExtPict
| GC_InCBConsonant
| GC_L
| GC_LF
| GC_LV
| GC_LVT
| GC_Prepend
| GC_RI
| GC_SpacingMark
| GC_T
| GC_V
| GC_ZWJ

type uData = { u_is_whitespace : (n -> bool);
               u_is_alphanumeric : (n -> bool);
               u_is_alphabetic : (n -> bool); u_is_control : (n -> bool);
               u_is_lowercase : (n -> bool); u_is_uppercase : (n -> bool);
               u_to_upper : (n -> n list); u_to_lower : (n -> n list);
               u_width : (n -> nat); u_gcat : (n -> gcat);
               u_incb_extend : (n -> bool); u_incb_linker : (n -> bool) }

val gcat_eqb : gcat -> gcat -> bool

val gcat_of : uData -> n -> gcat

type pair_result =
| PNotBreak
| PBreak
| PExtended
| PInCb
| PRegional
| PEmoji

val is_ctl : gcat -> bool

val check_pair : gcat -> gcat -> pair_result

val incb_break : uData -> n list -> bool -> bool

val ri_run : uData -> n list -> nat

val emoji_break : uData -> n list -> bool

val is_break : uData -> n list -> n -> bool

val seg_go : uData -> n list -> n list -> str -> str list

val useg : uData -> str -> str list

val encode_char : n -> n list

val encode : str -> n list

val is_cont : n -> bool

val decode1 : n list -> (n * n list) option

val decode_fuel : nat -> n list -> str option

val decode : n list -> str option

type hist = { h_entries : str list; h_max : nat; h_ign_space : bool;
              h_ign_dups : bool }

val hist_new : nat -> bool -> bool -> hist

val hlen : hist -> nat

val last_opt : 'a1 list -> 'a1 option

val h_ignore : uData -> hist -> str -> bool

val h_insert : hist -> str -> hist

val h_add : uData -> hist -> str -> hist * bool

val h_set_max_len : hist -> nat -> hist

val h_set_ign_dups : hist -> bool -> hist

val h_set_ign_space : hist -> bool -> hist

val h_clear : hist -> hist

val h_get : hist -> nat -> str option

type sdir =
| Forward
| Reverse

val find_first :
  (str -> nat option) -> str list -> nat -> ((nat * nat) * str) option

val h_search_match :
  hist -> str -> nat -> sdir -> (str -> nat option) -> ((nat * nat) * str)
  option

val h_search : hist -> str -> nat -> sdir -> ((nat * nat) * str) option

val h_starts_with : hist -> str -> nat -> sdir -> ((nat * nat) * str) option

type hop =
| HAdd of str
| HAddOwned of str
| HSetMax of nat
| HIgnDups of bool
| HIgnSpace of bool
| HClear
| HGet of nat
| HSearch of str * nat * sdir
| HStartsWith of str * nat * sdir
| HLen

type hout =
| OBool of bool
| OUnit
| OEntry of str option
| OSearch of ((nat * nat) * str) option
| ONat of nat

val h_step : uData -> hist -> hop -> hist * hout

val h_run : uData -> hist -> hop list -> hist * hout list

val file_version_v2 : n list

val max_line : n

val indent_max : nat

val default_tab_stop : nat

val default_indent_size : nat

val default_completion_prompt_limit : nat

val default_break_chars : n list

val escape_char : n

val double_quotes_special_chars : n list

val double_quotes_escape_char : n

val header : n list

val esc_char : n -> n list

val esc : str -> str

val unesc : str -> str option

val entry_bytes : str -> n list

val entries_bytes : str list -> n list

val save_bytes : str list -> n list

val split_lines_aux : n list -> n list -> (n list * bool) list

val split_lines : n list -> (n list * bool) list

val strip_cr : n list -> n list

val decode_line : (n list * bool) -> str option

type fhist = { f_mem : hist; f_new : nat; f_pinfo : (nat * nat) option }

val f_new_cfg : nat -> bool -> bool -> fhist

val f_entries : fhist -> str list

val f_add : uData -> fhist -> str -> fhist * bool

val f_set_max_len : fhist -> nat -> fhist

val f_clear : fhist -> fhist

type loadres =
| LOk of fhist * bool
| LErr of fhist

val load_rest :
  uData -> bool -> fhist -> bool -> (n list * bool) list -> loadres

val load_from : uData -> fhist -> n list -> loadres

type fsys = { fs_content : n list option; fs_mtime : nat }

val fs_write : fsys -> n list -> bool -> fsys

type ioresult =
| IoOk
| IoErr

val f_save : fhist -> fsys -> bool -> (fhist * fsys) * ioresult

val can_just_append : fhist -> fsys -> bool

val pending : fhist -> str list

val f_add_all : uData -> fhist -> str list -> fhist

val f_append : uData -> fhist -> fsys -> bool -> (fhist * fsys) * ioresult

val f_load : uData -> fhist -> fsys -> fhist * ioresult

type fop =
| FNew of nat * nat * bool * bool
| FAdd of nat * str
| FSave of nat * bool
| FAppend of nat * bool
| FLoad of nat
| FSetMax of nat * nat
| FClear of nat
| FPut of n list * bool
| FRemove

type world = { w_sessions : (nat * fhist) list; w_fs : fsys }

val w_init : world

val sess_get : (nat * fhist) list -> nat -> fhist option

val sess_set : (nat * fhist) list -> nat -> fhist -> (nat * fhist) list

type fout =
| FoUnit
| FoBool of bool
| FoIo of ioresult
| FoNoSession

val w_step : uData -> world -> fop -> world * fout

type fobs = { ob_out : fout; ob_entries : str list; ob_file : n list option }

val fop_session : fop -> nat option

val w_observe : world -> fop -> fout -> fobs

val w_run : uData -> world -> fop list -> fobs list

val str_truncate : str -> nat -> str res

val apply_bs_go : str list -> str -> nat list -> str res

val apply_bs_impl : (str -> str list) -> str -> str res

val bs_stack : str list -> str list

val apply_bs : (str -> str list) -> str -> str

type vres =
| VValid
| VInvalidMsg
| VInvalid
| VIncomplete
| VError

type dres =
| DLine of str
| DEof
| DErr
| DPanic

val dlines_aux : str -> str -> str list

val dlines : str -> str list

val ends_with : str -> n -> bool

val pop : str -> str

val strip_terminator : str -> (str * bool) * bool

val direct_go :
  (str -> str list) -> (str -> vres) option -> str -> str list -> dres list

val direct_all : (str -> str list) -> (str -> vres) option -> str -> dres list

val brackets_go : str -> n list -> vres

val bracket_validator : str -> vres

val mem_N : n -> n list -> bool

val is_break0 : n -> bool

val is_dq_special : n -> bool

type quote =
| QDouble
| QSingle
| QNone

val unescape : n -> str -> str

val escape : n -> (n -> bool) -> quote -> str -> str

val extract_go : n -> (n -> bool) -> n list -> nat option -> nat -> nat

val extract_word : n -> (n -> bool) -> str -> nat * str

type scan_mode =
| MNormal
| MDouble
| MEscape
| MEscapeInDouble
| MSingle

val scan : str -> scan_mode -> nat -> nat -> scan_mode * nat

val find_unclosed_quote : str -> (nat * quote) option

val all_adjacent_agree : nat -> n list list -> bool

val lcp_len : nat -> nat -> n list list -> nat

val backoff : str -> nat -> nat

val longest_common_prefix : str list -> str option

type dentry = { d_name : str; d_is_dir : bool; d_children : (str * bool) list }

val sep : n

val rsplit_sep : str -> str * str

val lookup_dir : dentry list -> str -> (str * bool) list option

val filename_complete :
  dentry list -> str -> n option -> (n -> bool) -> quote -> (str * str) list

val complete_path : dentry list -> str -> nat * (str * str) list

val slice_from : str -> nat -> str res

val slice_to : str -> nat -> str res

val slice : str -> nat -> nat -> str res

val str_drain : str -> nat -> nat -> (str * str) res

val str_insert : str -> nat -> str -> str res

val find_char : n -> str -> nat option

val rfind_char : n -> str -> nat option

val lF : n

type word_def =
| WBig
| WEmacs
| WVi

type at_pos =
| AtStart
| AtBeforeEnd
| AtAfterEnd

type char_search =
| CsForward of n
| CsForwardBefore of n
| CsBackward of n
| CsBackwardAfter of n

type movement =
| MWholeLine
| MBeginningOfLine
| MEndOfLine
| MBackwardWord of nat * word_def
| MForwardWord of nat * at_pos * word_def
| MViCharSearch of nat * char_search
| MViFirstPrint
| MBackwardChar of nat
| MForwardChar of nat
| MLineUp of nat
| MLineDown of nat
| MWholeBuffer
| MBeginningOfBuffer
| MEndOfBuffer

type word_action =
| Capitalize
| Lowercase
| Uppercase

type direction =
| DForward
| DBackward

type event =
| EInsertChar of nat * n
| EInsertStr of nat * str
| EDelete of nat * str * direction
| EReplace of nat * str * str
| EStartKill
| EStopKill

type lb = { buf : str; pos : nat; cap : nat; grow : bool }

val lb_len : lb -> nat

val set_buf : lb -> str -> lb

val set_pos' : lb -> nat -> lb

val must_truncate : lb -> nat -> bool

val index_from : nat -> str list -> (nat * str) list

val gindices : (str -> str list) -> str -> (nat * str) list

type 'a m = lb -> (('a * lb) * event list) res

val ret : 'a1 -> 'a1 m

val bind : 'a1 m -> ('a1 -> 'a2 m) -> 'a2 m

val get : lb m

val put_pos : nat -> unit m

val fail : 'a1 m

val lift : 'a1 res -> 'a1 m

val emit : event -> unit m

val drain : nat -> nat -> direction -> str m

val insert_str : nat -> str -> bool m

val insert_char_at : nat -> n -> unit m

val replace_range : nat -> nat -> str -> unit m

val end_of_line : lb -> nat res

val start_of_line : lb -> nat res

val last_opt0 : 'a1 list -> 'a1 option

val next_pos : (str -> str list) -> lb -> nat -> nat option res

val prev_pos : (str -> str list) -> lb -> nat -> nat option res

val all_alnum : uData -> str -> bool

val any_ws : uData -> str -> bool

val is_vi_word_char : uData -> str -> bool

val is_other_char : uData -> str -> bool

val is_word_char : uData -> word_def -> str -> bool

val is_vi : word_def -> bool

val is_emacs : word_def -> bool

val is_start_of_word : uData -> word_def -> str -> str -> bool

val is_end_of_word : uData -> word_def -> str -> str -> bool

val pw_inner :
  uData -> word_def -> (nat * str) -> (nat * str) list -> (nat * (nat * str)
  list) option

val pw_outer : uData -> word_def -> nat -> (nat * str) list -> nat -> nat

val prev_word_pos :
  uData -> (str -> str list) -> lb -> nat -> word_def -> nat -> nat option res

val at_is_start : at_pos -> bool

val at_is_after : at_pos -> bool

val at_is_before : at_pos -> bool

val nw_inner :
  uData -> at_pos -> word_def -> (nat * str) -> (nat * str) list ->
  (nat * (nat * str) list) option * (nat * str)

val nw_outer :
  uData -> at_pos -> word_def -> nat -> (nat * str) list -> nat ->
  (nat * str) option -> nat * (nat * str) option

val next_word_pos :
  uData -> (str -> str list) -> lb -> nat -> at_pos -> word_def -> nat -> nat
  option res

val char_hits : n -> str -> nat -> nat list

val search_char_pos :
  (str -> str list) -> lb -> char_search -> nat -> nat option res

val lines_up_loop : str -> nat -> nat -> nat res

val n_lines_up : lb -> nat -> (nat * nat) option res

val lines_down_loop : str -> nat -> nat -> nat -> nat res

val n_lines_down : lb -> nat -> (nat * nat) option res

val set_pos : nat -> unit m

val move_backward : (str -> str list) -> nat -> bool m

val move_forward : (str -> str list) -> nat -> bool m

val move_buffer_start : bool m

val move_buffer_end : bool m

val move_home : bool m

val move_end : bool m

val trim_end_len : uData -> str -> nat

val is_end_of_input : uData -> lb -> bool

val repeat_str : str -> nat -> str

val insert : n -> nat -> bool option m

val yank : str -> nat -> bool option m

val yank_pop : nat -> str -> bool option m

val delete : (str -> str list) -> nat -> str option m

val backspace : (str -> str list) -> nat -> bool m

val kill_line : (str -> str list) -> bool m

val kill_buffer : bool m

val discard_line : (str -> str list) -> bool m

val discard_buffer : bool m

val transpose_chars : (str -> str list) -> bool m

val move_to_prev_word :
  uData -> (str -> str list) -> word_def -> nat -> bool m

val delete_prev_word : uData -> (str -> str list) -> word_def -> nat -> bool m

val move_to_next_word :
  uData -> (str -> str list) -> at_pos -> word_def -> nat -> bool m

val delete_word :
  uData -> (str -> str list) -> at_pos -> word_def -> nat -> bool m

val move_to : (str -> str list) -> char_search -> nat -> bool m

val delete_to : (str -> str list) -> char_search -> nat -> bool m

val first_alnum : uData -> (nat * str) list -> nat option

val skip_whitespace : uData -> (str -> str list) -> lb -> nat option res

val to_upper : uData -> str -> str

val to_lower : uData -> str -> str

val edit_word : uData -> (str -> str list) -> word_action -> bool m

val transpose_words : uData -> (str -> str list) -> nat -> bool m

val replace : nat -> nat -> str -> unit m

val delete_range : nat -> nat -> unit m

val boundary_down : str -> nat -> nat -> nat

val update : str -> nat -> unit m

val vi_first_print_pos : uData -> (str -> str list) -> lb -> nat option res

val copy : uData -> (str -> str list) -> lb -> movement -> str option res

val notifies : movement -> bool

val kill : uData -> (str -> str list) -> movement -> bool m

val split_lf : str -> str -> str list

val leading_ws_bytes : uData -> str -> nat

val dedent_lines : uData -> str list -> nat -> nat -> unit m

val indent_chunks : nat -> nat -> nat -> nat -> unit m

val indent_lines : str list -> nat -> nat -> unit m

val indent : uData -> (str -> str list) -> movement -> nat -> bool -> bool m

val line_up_loop : str -> nat -> nat -> nat -> (nat * nat) res

val move_to_line_up :
  (str -> str list) -> (str -> nat) -> nat -> nat -> bool m

val line_down_loop : str -> nat -> nat -> nat -> nat -> (nat * nat) res

val move_to_line_down :
  (str -> str list) -> (str -> nat) -> nat -> nat -> bool m

type lbop =
| OpIns of n * nat
| OpYank of str * nat
| OpYankPop of nat * str
| OpMoveBackward of nat
| OpMoveForward of nat
| OpBufferStart
| OpBufferEnd
| OpHome
| OpEnd
| OpIsEndOfInput
| OpDelete of nat
| OpBackspace of nat
| OpKillLine
| OpKillBuffer
| OpDiscardLine
| OpDiscardBuffer
| OpTransposeChars
| OpPrevWord of word_def * nat
| OpDeletePrevWord of word_def * nat
| OpNextWord of at_pos * word_def * nat
| OpMoveTo of char_search * nat
| OpDeleteWord of at_pos * word_def * nat
| OpDeleteTo of char_search * nat
| OpEditWord of word_action
| OpTransposeWords of nat
| OpReplace of nat * nat * str
| OpInsertStr of nat * str
| OpDeleteRange of nat * nat
| OpCopy of movement
| OpKill of movement
| OpIndent of movement * nat * bool
| OpUpdate of str * nat
| OpSetPos of nat
| OpNextPos of nat

type lbret =
| RUnit
| RBool of bool
| ROptBool of bool option
| ROptStr of str option
| ROptNat of nat option

val mapM : ('a1 -> 'a2) -> 'a1 m -> 'a2 m

val pureM : (lb -> 'a1 res) -> 'a1 m

val lb_apply : uData -> (str -> str list) -> lbop -> lbret m

val lb_run :
  uData -> (str -> str list) -> lbop list -> lb -> ((lbret * lb) * event
  list) option list

type change =
| UBegin
| UEnd
| UInsert of nat * str
| UDelete of nat * str
| UReplace of nat * str * str

type changeset = { cs_level : nat; cs_undos : change list }

val cs_new : changeset

val cs_begin : changeset -> changeset * nat

val cs_end_loop : nat -> change list -> bool -> change list * bool

val cs_end : changeset -> changeset * bool

val cs_insert : uData -> changeset -> nat -> n -> changeset

val cs_insert_str : changeset -> nat -> str -> changeset

val single_char : uData -> (str -> str list) -> str -> bool

val cs_delete :
  uData -> (str -> str list) -> changeset -> nat -> str -> changeset

val cs_replace : changeset -> nat -> str -> str -> changeset

val cs_notify : uData -> (str -> str list) -> changeset -> event -> changeset

val cs_notify_all :
  uData -> (str -> str list) -> changeset -> event list -> changeset

val change_undo : change -> lb -> lb res

val cs_undo_loop :
  change list -> lb -> nat -> nat -> z -> bool -> ((change list * lb) * bool)
  res

val cs_undo : changeset -> lb -> nat -> ((changeset * lb) * bool) res

val trunc_level : change list -> nat -> nat

val cs_truncate : changeset -> nat -> changeset

val cs_last_insert_go : change list -> str option

val cs_last_insert : changeset -> str option

type kr_action =
| KAKill
| KAYank of nat
| KAOther

type kr_mode =
| KAppend
| KPrepend

type killring = { kr_slots : str list; kr_cap : nat; kr_index : nat;
                  kr_last : kr_action; kr_killing : bool; kr_newest : 
                  nat }

val kr_new : nat -> killring

val kr_reset : killring -> killring

val list_set : 'a1 list -> nat -> 'a1 -> 'a1 list

val kr_kill : killring -> str -> kr_mode -> killring res

val kr_repeated : killring -> nat -> killring

val kr_yank : killring -> killring * str option

val kr_yank_pop : killring -> killring * (nat * str) option

val kr_notify : killring -> event -> killring res

val kr_notify_all : killring -> event list -> killring res

type pos2 = { p_col : nat; p_row : nat }

val p0 : pos2

val pos2_eqb : pos2 -> pos2 -> bool

type layout = { l_prompt_size : pos2; l_default_prompt : bool;
                l_cursor : pos2; l_end : pos2 }

val layout0 : layout

val wcwidth : uData -> str -> nat

val gwidth : uData -> str -> nat -> nat * nat

val calc_go : uData -> nat -> nat -> str list -> pos2 -> nat -> pos2

val calculate_position :
  uData -> (str -> str list) -> nat -> nat -> str -> pos2 -> pos2

val layout_width : uData -> str -> nat

val compute_layout :
  uData -> (str -> str list) -> nat -> nat -> pos2 -> bool -> str -> str ->
  str option -> layout

val digits_fuel : nat -> nat -> str -> str

val dec : nat -> str

val eSC : n

val csi : nat -> n -> str

val clear_old_rows : layout -> str

val ends_with_lf : str -> bool

val refresh_bytes : str -> str -> str -> str option -> layout -> layout -> str

val move_one_or_n : nat -> n -> str

val move_cursor_bytes : pos2 -> pos2 -> str

type keycode =
| KChar of n
| KBackspace
| KBackTab
| KDelete
| KDown
| KEnd
| KEnter
| KEsc
| KF of nat
| KHome
| KInsert
| KLeft
| KNull
| KPageDown
| KPageUp
| KRight
| KTab
| KUp
| KUnknown
| KPasteStart
| KPasteEnd

type mods = { m_ctrl : bool; m_alt : bool; m_shift : bool }

type key = keycode * mods

val m_NONE : mods

val m_CTRL : mods

val m_ALT : mods

val m_CTRL_ALT : mods

val mods_eqb : mods -> mods -> bool

val mods_empty : mods -> bool

val with_ctrl : mods -> mods

val with_alt : mods -> mods

val no_shift : mods -> mods

val keycode_eqb : keycode -> keycode -> bool

val key_eqb : key -> key -> bool

val key_new : uData -> n -> mods -> key

val is_digit : n -> bool

val assoc_key : n list -> (n list * key) list -> key option

val k_UNKNOWN : key

val lookup_key : n list -> (n list * key) list -> key

val tab_csi_ansi : (n list * key) list

val tab_csi_linux : (n list * key) list

val tab_ext_tilde : (n list * key) list

val tab_ext_2d_tilde : (n list * key) list

val tab_ext_2d_mod_tilde : (n list * key) list

val tab_ext_3d_tilde : (n list * key) list

val tab_ext_1_mod : (n list * key) list

val tab_ext_mod_tilde : (n list * key) list

val tab_ext_rxvt : (n list * key) list

val tab_ss3 : (n list * key) list

type anchor =
| AAfter
| ABefore

type cmd =
| CAbort
| CAcceptLine
| CBeginningOfHistory
| CCapitalizeWord
| CClearScreen
| CComplete
| CCompleteBackward
| CCompleteHint
| CDedent of movement
| CDowncaseWord
| CEndOfFile
| CEndOfHistory
| CForwardSearchHistory
| CHistorySearchBackward
| CHistorySearchForward
| CIndent of movement
| CInsert of nat * str
| CInterrupt
| CKill of movement
| CMove of movement
| CNextHistory
| CNoop
| CRepaint
| COverwrite of n
| CPreviousHistory
| CQuotedInsert
| CReplaceChar of nat * n
| CReplace of movement * str option
| CReverseSearchHistory
| CSelfInsert of nat * n
| CSuspend
| CTransposeChars
| CTransposeWords of nat
| CUndo of nat
| CUnknown
| CUpcaseWord
| CViYankTo of movement
| CYank of nat * anchor
| CYankPop
| CLineUpOrPreviousHistory of nat
| CLineDownOrNextHistory of nat
| CNewline
| CAcceptOrInsertLine of bool

val is_char_motion : movement -> bool

val should_reset_kill_ring : cmd -> bool

val is_repeatable_change : cmd -> bool

val is_repeatable : cmd -> bool

val rc : nat -> nat option -> nat

val mvt_redo : movement -> nat option -> movement

val cs_opposite : char_search -> char_search

type inchar =
| Ch of n
| Bad
| Print of str

type istream = { in_cur : inchar list; in_rest : inchar list list }

type rerr =
| EEof
| EInvalidData
| EInterrupted
| EValidator
| EHangup

type edit_mode =
| Emacs
| Vi

type input_mode =
| IMCommand
| IMInsert
| IMReplace

type completion_type =
| CTCircular
| CTList

type vresult =
| VRValid of str option
| VRInvalid of str option
| VRIncomplete
| VRError

type observation = { o_line : str; o_pos : nat; o_mode : input_mode;
                     o_n : nat; o_positive : bool; o_hint : str option }

type config = { c_mode : edit_mode; c_completion : completion_type;
                c_timeout_none : bool; c_cols : nat; c_tab_stop : nat;
                c_indent_size : nat; c_prompt_limit : nat; c_show_all : 
                bool; c_bell : bool; c_has_helper : bool;
                c_complete : (str -> nat -> nat * str list);
                c_hint : (str -> nat -> str option);
                c_validate : (str -> vresult);
                c_bindings : (key list * cmd) list; c_veof : key;
                c_vintr : key; c_vquit : key; c_vsusp : key }

type est = { e_line : lb; e_changes : changeset; e_kr : killring;
             e_hist : str list; e_hidx : nat; e_saved : (str * nat);
             e_hint : str option; e_layout : layout; e_prompt : str;
             e_prompt_size : pos2; i_input_mode : input_mode; i_num_args : 
             z; i_last_cmd : cmd; i_last_cs : char_search option;
             e_inp : istream; e_out : n list list; e_obs : observation list }

type 'a eres =
| EOk of 'a * est
| EErr of rerr * est
| EPanic
| EFuel

type 'a e = est -> 'a eres

val eret : 'a1 -> 'a1 e

val ebind : 'a1 e -> ('a1 -> 'a2 e) -> 'a2 e

val eget : est e

val efail : rerr -> 'a1 e

val epanic : 'a1 e

val efuel : 'a1 e

val upd_line : (lb -> lb) -> unit e

val set_line : lb -> unit e

val set_changes : changeset -> unit e

val set_kr : killring -> unit e

val set_hidx : nat -> unit e

val set_saved : (str * nat) -> unit e

val set_hint : str option -> unit e

val set_layout : layout -> unit e

val set_input_mode : input_mode -> unit e

val set_num_args : z -> unit e

val set_last_cmd : cmd -> unit e

val set_last_cs : char_search option -> unit e

val set_inp : istream -> unit e

val write : str -> unit e

val observe : observation -> unit e

val seg : uData -> str -> str list

val cols : config -> nat

val take_in_chunk : inchar list -> (inchar * inchar list) option

val take_first : inchar list -> inchar list list -> (inchar * istream) option

val take_char : inchar list -> inchar list list -> (inchar * istream) option

val peek_first : inchar list list -> (str * istream) option

val peek_print : istream -> (str * istream) option

val next_char : n e

type ptimeout =
| TZero
| TForever
| THundred

val poll : ptimeout -> bool e

val cfg_timeout : config -> ptimeout

val add_alt : key -> key

val escape_o : key e

val extended_escape : n -> key e

val escape_csi : key e

val do_escape_sequence : uData -> config -> bool -> key e

val next_key : uData -> config -> bool -> key e

val replace_crlf : str -> str

val read_pasted : uData -> config -> nat -> str -> str e

val stream_size : istream -> nat

val calc : uData -> config -> str -> pos2 -> pos2

val line_before : lb -> str

val line_after : lb -> str

val update_hint : config -> unit e

val refresh : uData -> config -> str -> pos2 -> bool -> str option -> unit e

val refresh_line : uData -> config -> unit e

val refresh_line_with_msg : uData -> config -> str option -> unit e

val refresh_prompt_and_line : uData -> config -> str -> unit e

val move_cursor : uData -> config -> unit e

val move_cursor_to_end : unit e

val lb_changes : uData -> 'a1 m -> 'a1 e

val lb_quiet : 'a1 m -> 'a1 e

val lb_kill : uData -> 'a1 m -> 'a1 e

val changes_begin : nat e

val changes_end : bool e

val is_emacs0 : config -> bool

val cwidth : uData -> n -> nat

val edit_insert : uData -> config -> n -> nat -> unit e

val edit_replace_char : uData -> config -> n -> nat -> unit e

val edit_overwrite_char : uData -> config -> n -> unit e

val edit_yank : uData -> config -> str -> anchor -> nat -> unit e

val edit_yank_pop : uData -> config -> nat -> str -> unit e

val moved : uData -> config -> bool m -> unit e

val edit_kill : uData -> config -> movement -> unit e

val edit_insert_text : uData -> config -> str -> unit e

val grouped : uData -> config -> bool m -> unit e

val layout_w : uData -> str -> nat

val edit_move_line_up : uData -> config -> nat -> bool e

val edit_move_line_down : uData -> config -> nat -> bool e

val hlen_e : est -> nat

val backup : unit e

val restore : uData -> unit e

val edit_history_next : uData -> config -> bool -> unit e

val edit_history : uData -> config -> bool -> unit e

val beep : config -> unit e

val hist_of : est -> hist

val edit_history_search : uData -> config -> sdir -> unit e

val validate : uData -> config -> vresult e

val hint_of : est -> str option

val find_binding : key list -> (key list * cmd) list -> cmd option

val is_proper_prefix : key list -> key list -> bool

val has_descendant : config -> key list -> bool

val custom_binding : config -> key -> nat -> bool -> cmd option e

val custom_seq_binding :
  uData -> config -> nat -> key list -> (cmd option * key list) e

val term_binding : config -> key -> cmd option e

val last_insert : str option e

val cmd_redo : cmd -> nat option -> cmd e

val i16_sat : z -> z

val take_num_args : z e

val emacs_num_args : (nat * bool) e

val vi_num_args : nat e

val arg_prompt : z -> str

val digit_val : n -> z

val is_plain_or_alt : mods -> bool

val emacs_digit_loop : uData -> config -> nat -> bool -> key e

val emacs_digit_argument : uData -> config -> nat -> n -> key e

val vi_arg_digit_loop : uData -> config -> nat -> key e

val vi_arg_digit : uData -> config -> nat -> n -> key e

val has_hint_at_end : bool e

val kc : n -> mods -> key

val common : uData -> config -> nat -> key -> nat -> bool -> cmd e

val is_ctrl_or_ctrl_alt : mods -> bool

val emacs : uData -> config -> nat -> key -> cmd e

val vi_char_search : uData -> config -> n -> char_search option e

val is_fFtT : n -> bool

val sat_mul_u16 : nat -> nat -> nat

val vi_cmd_motion : uData -> config -> nat -> key -> nat -> movement option e

val doing_insert : unit e

val done_inserting : unit e

val vi_command : uData -> config -> nat -> key -> cmd e

val vi_insert : uData -> config -> nat -> key -> cmd e

val next_cmd : uData -> config -> nat -> bool -> cmd e

type status =
| Proceed
| Submit

val complete_hint_line : uData -> config -> unit e

val is_default_prompt : est -> bool

val starts_with_ws : uData -> str -> bool

val execute : uData -> config -> cmd -> status e

val lcp2 : str -> str -> str

val lcp_all : str list -> str option

val completer_update : uData -> nat -> str -> unit e

val show_candidate : uData -> nat -> str list -> (str * nat) -> nat -> unit e

val circular_branch :
  uData -> config -> (nat -> cmd option e) -> str list -> (str * nat) -> nat
  -> nat -> cmd -> cmd option e

val complete_circular :
  uData -> config -> nat -> nat -> str list -> (str * nat) -> nat -> nat ->
  cmd option e

val msg_display_all : nat -> str

val page_completions_simple : uData -> config -> str list -> cmd option e

val wait_yn : uData -> config -> nat -> cmd -> cmd e

val list_span_step : uData -> config -> nat -> str list -> unit e

val complete_line : uData -> config -> nat -> cmd option e

val search_prompt : bool -> str -> str

val isearch_branch :
  uData -> config -> (str -> nat -> sdir -> bool -> cmd option e) ->
  (str * nat) -> nat -> str -> nat -> sdir -> bool -> cmd -> cmd option e

val isearch_loop :
  uData -> config -> nat -> (str * nat) -> nat -> str -> nat -> sdir -> bool
  -> cmd option e

val incremental_search : uData -> config -> nat -> cmd option e

val ends_with_lf_str : str -> bool

val external_print : uData -> config -> str -> unit e

val drain_prints : uData -> config -> nat -> unit e

type outcome =
| OLine of str
| OEof
| OInterrupted
| OInvalidData
| OValidatorError
| OHangup
| OPanic
| OOutOfFuel

val main_loop : uData -> config -> nat -> unit e

val initial_state :
  uData -> config -> str -> str list -> killring -> istream -> est

val read_line :
  uData -> config -> str -> (str * str) option -> str list -> killring ->
  istream -> outcome * est option

val script_complete : str list -> str -> nat -> nat * str list

val script_hint : str list -> str -> nat -> str option

val contains : str -> str -> bool

val script_validate : str -> vresult

val msg_unclosed : n -> str

val msg_unpaired : n -> str

val brackets_v : str -> n list -> vresult

val script_validate_req : str -> vresult

val script_validate_inc : str -> vresult

type vkind =
| VKNone
| VKBrackets
| VKScript
| VKScriptReq
| VKScriptInc

val mk_config :
  edit_mode -> completion_type -> bool -> nat -> bool -> str list -> str list
  -> vkind -> (key list * cmd) list -> config

type read_result = { rr_outcome : outcome; rr_obs : observation list;
                     rr_out : n list list }

val run_reads :
  uData -> config -> str -> (str * str) option -> str list -> killring ->
  istream -> nat -> read_result list

type row = { r_id : nat; r_sess : nat; r_entry : str }

type sqlh = { q_rows : row list; q_nsess : nat; q_cache : nat; q_sess : 
              nat; q_max : nat; q_igs : bool; q_igd : bool; q_cfg_max : 
              nat }

val sql_new : nat -> bool -> bool -> sqlh

val max_id : row list -> nat

val sql_ignore : uData -> sqlh -> str -> bool

val same_key : nat -> str -> row -> bool

val sql_add : uData -> sqlh -> str -> sqlh * bool

val find_ge : row list -> nat -> row option

val find_le : row list -> nat -> row option

val sql_get : sqlh -> nat -> sdir -> sqlh * (nat * str) option

val sql_set_max : sqlh -> nat -> sqlh

val sql_reopen : sqlh -> sqlh

val sql_reopen_cfg : sqlh -> bool -> bool -> sqlh

val has_dup_rows : row list -> bool

val sql_set_dups : sqlh -> bool -> sqlh * bool

val sql_set_space : sqlh -> bool -> sqlh

type sop =
| SAdd of str
| SGet of nat * sdir
| SLen
| SSetMax of nat
| SReopen
| SReopenCfg of bool * bool
| SSetDups of bool
| SSetSpace of bool

type sout =
| SoBool of bool
| SoGet of (nat * str) option
| SoNat of nat
| SoUnit
| SoRefused

val sql_step : uData -> sqlh -> sop -> sqlh * sout

val sql_run : uData -> sqlh -> sop list -> sqlh * sout list

type wr =
| PasteOn
| PasteOff
| Other

type 'settings term = { t_tio : 'settings; t_out : wr list }

type exit =
| XLine
| XEof
| XInterrupted
| XInvalidData
| XHelperError
| XHelperPanic

val write0 : 'a1 term -> wr list -> 'a1 term

val try_write : 'a1 term -> wr -> bool list -> ('a1 term * bool) * bool list

val enable_raw :
  ('a1 -> 'a1) -> bool -> 'a1 term -> bool list -> (('a1
  term * 'a1) * bool) * bool list

val disable_raw :
  'a1 -> bool -> 'a1 term -> bool list -> ('a1 term * bool) * bool list

type 'settings action =
| AWrite
| ASuspend of ('settings -> 'settings)

type outcome0 =
| OExit of exit
| OIoError

val run_actions :
  ('a1 -> 'a1) -> bool -> 'a1 -> bool -> 'a1 action list -> exit -> 'a1 term
  -> bool list -> ('a1 term * outcome0) * bool list

val read_steps :
  ('a1 -> 'a1) -> bool -> 'a1 action list -> exit -> 'a1 term -> bool list ->
  ('a1 term * outcome0) * bool list

val switches : wr list -> bool list
