#!/usr/bin/env python3
"""Seed sweep: run every registered check over a range of VERIF_SEED values on the unchanged tree and
report every run that exits non-zero or prints VIOLATION (there must be none).
   tools/sweep.py <first> <last> [quick|thorough] [C01,C02,...]"""
import json
import os
import subprocess
import sys
import time

HERE = os.path.dirname(os.path.dirname(os.path.abspath(__file__)))


def main():
    a, b = int(sys.argv[1]), int(sys.argv[2])
    tier = sys.argv[3] if len(sys.argv) > 3 else "quick"
    props = sys.argv[4].split(",") if len(sys.argv) > 4 else [c["property_id"] for c in json.load(open(HERE + "/MANIFEST.json"))["checks"]]
    rc = subprocess.run(["./check", "setup"], cwd=HERE).returncode
    if rc != 0:
        print("setup failed")
        return 1
    bad = 0
    for seed in range(a, b + 1):
        for p in props:
            t0 = time.time()
            r = subprocess.run(["./check", p, tier], cwd=HERE, env=dict(os.environ, VERIF_SEED=str(seed)),
                               stdout=subprocess.PIPE, stderr=subprocess.STDOUT)
            out = r.stdout.decode("utf-8", "replace")
            viol = [l for l in out.splitlines() if l.startswith("VIOLATION")]
            if r.returncode != 0 or viol:
                bad += 1
                print("ALARM seed=%d %s exit=%d %s" % (seed, p, r.returncode, viol[:2]), flush=True)
                for l in viol[:1]:
                    path = l.split("replay=")[1].split()[0]
                    try:
                        print("   ", json.dumps(json.load(open(path)))[:1500], flush=True)
                    except Exception as e:
                        print("   (replay unreadable: %s)" % e)
            else:
                print("ok seed=%d %s %.0fs" % (seed, p, time.time() - t0), flush=True)
    print("sweep done: %d alarms" % bad)
    return 1 if bad else 0


if __name__ == "__main__":
    sys.exit(main())
