"""C10 / C11 / C12: the history file. One correspondence stream (`fhist`):
sessions (FileHistory objects) and one file; the model takes the observed
mtime ticks as input."""
import itertools
import random

from common import *

ALPHA10 = [0x0a, 0x0d, 0x5c, 0x6e, 0x72, 0x23, 0x56, 0x32, 0x20, 0xe9, 0x65e5, 0x1f600]
SMALL = [0x0a, 0x0d, 0x5c, 0x6e, 0x72, 0x23, 0x20, 0xe9, 0x61]


def enc(s):
    """list of code points -> token"""
    return ".".join("%x" % c for c in s) if s else "-"


def dec(tok):
    return [] if tok == "-" else [int(h, 16) for h in tok.split(".")]


def encb(b):
    return ".".join("%x" % c for c in b) if b else "-"


def parse_obs(line):
    """`ticks | R=.. E=.. F=.. ; ...` -> (ticks, [(R, [entries], file|None)])"""
    ticks, rest = line.split("|", 1)
    obs = []
    for o in rest.split(";"):
        f = dict(x.split("=", 1) for x in o.split())
        ents = [] if f["E"] == "_" else [dec(t) for t in f["E"].split(",")]
        fil = None if f["F"] == "none" else dec(f["F"])
        obs.append((f["R"], ents, fil))
    return ticks.strip(), obs


# entries that look like the file's own syntax: the header, escapes, lone backslashes
LOOKALIKES = [[0x23, 0x56, 0x32], [0x23, 0x56, 0x32, 0x20], [0x20, 0x23, 0x56, 0x32], [0x23, 0x56, 0x32, 0x0d],
              [0x5c, 0x6e], [0x5c, 0x72], [0x5c, 0x5c], [0x5c], [0x5c, 0x0a], [0x0d], [0x0a], [0x0d, 0x0a],
              [0x61, 0x5c], [0x5c, 0xe9], [0x23, 0x56, 0x32, 0x0a, 0x61]]


def rand_entry(rng, alpha, maxlen):
    if rng.random() < 0.12:
        return list(rng.choice(LOOKALIKES))
    if rng.random() < 0.015:
        # an entry longer than the editor's line capacity (4096 bytes), a multi-byte character across that offset
        return [0x61] * rng.choice([4093, 4094, 4095, 4096, 4100]) + [rng.choice([0xe9, 0x65e5, 0x1f600])] + [0x62] * rng.randint(0, 3)
    n = rng.choice([1, 1, 2, 2, 3, 3, 4, maxlen])
    return [rng.choice(alpha) for _ in range(rng.randint(1, max(1, n)))]


def cfg_tok(rng, maxes=(1, 2, 3, 5, 10, 100)):
    return "%d %d %d" % (rng.choice(maxes), rng.random() < 0.3, rng.random() < 0.5)


def run_fhist(res, exe, driver, cases, tmp, tag="fhist"):
    """Run cases on impl, feed the observed ticks to the model, compare.
    Returns parsed impl observations per case."""
    impl = run_impl(exe, "fhist", cases, tmp)
    parsed = []
    model_in = []
    for c, o in zip(cases, impl):
        ticks = o.split("|", 1)[0].strip()
        model_in.append(ticks + " | " + c)
        parsed.append(parse_obs(o))
    if driver:
        model = run_model(driver, "fhist", model_in, tmp)
        compare(res, tag, cases, impl, model)
    res.evaluations += len(cases)
    return impl, parsed


# ------------------------------------------------------------------ C10

def c10_cases(tier, seed):
    rng = random.Random(seed)
    cases = []  # (case, kind, meta)
    # (1) small-exhaustive: every list of <= 2 entries of <= 2 chars over SMALL, plain save
    strs = [[a] for a in SMALL] + [[a, b] for a in SMALL for b in SMALL]
    lists = [[]] + [[s] for s in strs]
    step = 1 if tier == "thorough" else 7
    pairs = [(a, b) for a in strs for b in strs]
    off = seed % step
    lists += [list(p) for p in pairs[off::step]]
    for es in lists:
        cfg = "100 0 0"
        ops = ["new 0 " + cfg] + ["add 0 " + enc(e) for e in es] + ["save 0", "new 1 " + cfg, "load 1"]
        cases.append((" ; ".join(ops), "save", {"writer_step": len(ops) - 3, "cfg": cfg}))
    # (2) random scenarios over the full alphabet, all write modes and settings
    n = 4000 if tier == "thorough" else 600
    for _ in range(n):
        cfg = cfg_tok(rng)
        kind = rng.choice(["save", "append_new", "append_existing", "append_existing", "cycles", "append_twice", "append_empty_file",
                           "append_noload", "append_removed"])
        alpha = rng.choice([ALPHA10, SMALL])
        mk = lambda: enc(rand_entry(rng, alpha, rng.choice([4, 8, 40])))
        ops = ["new 0 " + cfg] + ["add 0 " + mk() for _ in range(rng.randint(0, 6))]
        if kind == "save":
            ops += ["save 0", "new 9 " + cfg, "load 9"]
            w = len(ops) - 3
        elif kind == "append_new":
            ops += ["append 0", "new 9 " + cfg, "load 9"]
            w = len(ops) - 3
        elif kind == "append_existing":
            ops += ["save 0", "new 1 " + cfg, "load 1"]
            ops += ["add 1 " + mk() for _ in range(rng.randint(0, 5))]
            ops += ["append 1", "new 9 " + cfg, "load 9"]
            w = len(ops) - 3
        elif kind == "append_twice":
            # one session that loaded the file appends several times: each batch must be written once
            ops += ["save 0", "new 1 " + cfg, "load 1"]
            for _ in range(rng.randint(2, 3)):
                ops += ["add 1 " + mk() for _ in range(rng.randint(1, 3))]
                ops += ["append 1"]
            ops += ["new 9 " + cfg, "load 9"]
            w = len(ops) - 3
        elif kind == "append_noload":
            # a session that holds only new lines (it never loaded the file, or cleared what it loaded) appends to an
            # existing file: the file's entries stay, the new ones follow
            ops += ["save 0", "new 1 " + cfg]
            if rng.random() < 0.4:
                ops += ["load 1", "clear 1"]
            ops += ["add 1 " + mk() for _ in range(rng.randint(1, 3))]
            ops += ["append 1", "new 9 " + cfg, "load 9"]
            w = None
        elif kind == "append_removed":
            # the file a session loaded has gone (or another path is appended to) when it appends: the WHOLE history in memory
            # is written, loaded and new entries alike
            ops += ["save 0", "new 1 " + cfg, "load 1"]
            ops += ["add 1 " + mk() for _ in range(rng.randint(0, 2))] + ["add 1 " + enc([0x7a, 0x31])]
            if rng.random() < 0.3:
                ops += ["append 1"] + ["add 1 " + mk() for _ in range(rng.randint(0, 2))] + ["add 1 " + enc([0x7a, 0x32])]
            # (the last line added is one every policy accepts: an append with nothing new writes nothing)
            ops += ["rm", "append 1", "new 9 " + cfg, "load 9"]
            w = len(ops) - 3
        elif kind == "append_empty_file":
            # the file exists but is empty (or holds only blank lines) when the session loads it
            ops = ["put " + rng.choice(["-", "-", "a", "a.a"]), "new 0 " + cfg, "load 0"]
            ops += ["add 0 " + mk() for _ in range(rng.randint(1, 4))]
            ops += ["append 0", "new 9 " + cfg, "load 9"]
            w = len(ops) - 3
        else:
            ops += ["save 0"]
            for k in range(rng.randint(1, 3)):
                ops += ["new %d %s" % (k + 1, cfg), "load %d" % (k + 1), "add %d %s" % (k + 1, mk()),
                        rng.choice(["save", "append"]) + " %d" % (k + 1)]
            ops += ["new 9 " + cfg, "load 9"]
            w = len(ops) - 3
        cases.append((" ; ".join(ops), kind, {"writer_step": w, "cfg": cfg}))
    # (2b) under ignore-duplicates: adjacent DIFFERENT entries where the escaped file form of the second is the first, byte for byte
    for a, b in (([0x5c, 0x5c], [0x5c]), ([0x61, 0x5c, 0x6e, 0x62], [0x61, 0x0a, 0x62]), ([0xe9, 0x5c, 0x72, 0x7a], [0xe9, 0x0d, 0x7a]),
                 ([0x5c, 0x6e], [0x0a, 0x78][:1] + [0x78][:0] or [0x0a])):
        for cfg in ("100 0 1", "3 0 1"):
            ops = ["new 0 " + cfg, "add 0 " + enc(a), "addo 0 " + enc(b), "add 0 " + enc([0x7a]), "save 0", "new 9 " + cfg, "load 9"]
            cases.append((" ; ".join(ops), "save", {"writer_step": len(ops) - 3, "cfg": cfg}))
    # (2c) the SAME history object loads the file again (after clearing itself, or on top of what it holds)
    for k in range(6):
        cfg = "100 0 %d" % (k % 2)
        es = [enc(rand_entry(rng, ALPHA10, 6)) for _ in range(rng.randint(1, 4))] + [enc([0x7a, 0x30 + k])]
        ops = ["new 0 " + cfg] + ["add 0 " + e for e in es] + ["save 0", "new 1 " + cfg, "load 1", "clear 1", "load 1"]
        if k % 3 == 0:
            ops += ["clear 1", "load 1"]
        ops += ["new 9 " + cfg, "load 9"]
        cases.append((" ; ".join(ops), "reload", {"writer_step": None, "cfg": cfg, "reload_step": len(ops) - 3, "first_load": len(es) + 3}))
    # (3) legacy files
    for _ in range(n // 3):
        lines = []
        for _ in range(rng.randint(0, 6)):
            l = [c for c in rand_entry(rng, ALPHA10, 6) if c not in (0x0a,)]
            lines.append(l)
        if lines and lines[0] in ([0x23, 0x56, 0x32], [0x23, 0x56, 0x32, 0x0d]):  # that would be a V2 file
            lines[0] = [0x61]
        data = []
        for i, l in enumerate(lines):
            data += list("".join(map(chr, l)).encode("utf-8"))
            term = rng.choice(["\n", "\n", "\r\n", ""]) if i == len(lines) - 1 else rng.choice(["\n", "\n", "\n", "\r\n"])
            data += list(term.encode())
        ops = ["put " + encb(data), "new 0 100 0 0", "load 0"]
        cases.append((" ; ".join(ops), "legacy", {"data": data}))
    return cases


def legacy_expected(data):
    """Every non-empty line, verbatim (a line ends at LF or CRLF)."""
    b = bytes(data)
    parts = b.split(b"\n")
    term = [True] * (len(parts) - 1) + [False]
    out = []
    for p, t in zip(parts, term):
        if t and p.endswith(b"\r"):
            p = p[:-1]
        if p:
            out.append([ord(c) for c in p.decode("utf-8")])
    return out


def c10_corr(res, exe, driver, tier, seed, tmp):
    cases = c10_cases(tier, seed)
    impl, parsed = run_fhist(res, exe, driver, [c[0] for c in cases], tmp)
    kinds = {}
    for (case, kind, meta), raw, (ticks, obs) in zip(cases, impl, parsed):
        kinds[kind] = kinds.get(kind, 0) + 1
        final = obs[-1]
        why = None
        if any(o[0] == "panic" for o in obs):
            why = "panic"
        elif kind == "legacy":
            exp = legacy_expected(meta["data"])
            if final[0] != "ok":
                why = "legacy file did not load: R=%s" % final[0]
            elif final[1] != exp:
                why = "legacy load: entries %r, expected every non-empty line verbatim %r" % (final[1], exp)
        elif kind == "reload":
            a, b = obs[meta["first_load"]], obs[meta["reload_step"]]
            if b[0] != "ok" or b[1] != a[1]:
                why = "the same object loading the file again (after clear): entries %r, the first load gave %r" % (b[1], a[1])
        elif meta["writer_step"] is None:
            pass        # (the expected content is the model's: the writer's own entries are not the file's)
        else:
            w = obs[meta["writer_step"]]
            if w[2] is None and not w[1]:
                pass  # an empty history writes no file: nothing to reload
            elif final[0] != "ok":
                why = "written file did not load: R=%s" % final[0]
            elif w[0] != "ok":
                why = "write failed: R=%s" % w[0]
            elif final[1] != w[1]:
                why = "reloaded entries differ from the writer's entries: wrote %r, reloaded %r" % (w[1], final[1])
        if why:
            res.oracle_failures.append({"stream": "fhist", "case": case, "impl": raw, "why": why,
                                        "replay_cmd": "echo '<case>' | .cache/target/debug/rlharness fhist"})
        special = any(tok in case for tok in (" a.", ".a.", ".a ", ".d", " d.", "5c", "e9", "65e5", "1f600"))
        if special:
            res.nontrivial.add(case)
    res.rule = ("fhist stream: (1) every list of <=2 entries of <=2 chars over {LF,CR,\\,n,r,#,blank,e-acute,a} saved and "
                "reloaded (quick: every 7th pair, offset by seed; thorough: all); (2) random scenarios "
                "save / append-to-new / append-to-existing / several appends by one session / append after loading an empty file / "
                "append by a session holding only new lines (never loaded, or cleared) / append after the file has been removed / "
                "repeated cycles with random settings over a 12-letter alphabet "
                "incl. 3- and 4-byte characters; (3) random legacy files with LF/CRLF/unterminated last line. "
                "Non-trivial = contains LF, CR, backslash or a multi-byte character; distinct by case text. "
                "Compared with the model: result of every op, the session's entries, the file bytes.")
    res.distribution = {"kinds": kinds}
    res.samples = [{"case": c[0], "impl": r} for c, r in list(zip(cases, impl))[:: max(1, len(cases) // 5)]][:5]


# ------------------------------------------------------------------ C12

def c12_pass1(tier, seed):
    rng = random.Random(seed * 31 + 5)
    n = 1500 if tier == "thorough" else 250
    out = []
    for _ in range(n):
        cfg = cfg_tok(rng, maxes=(3, 5, 10, 100))
        alpha = rng.choice([ALPHA10, SMALL])
        mk = lambda: enc(rand_entry(rng, alpha, rng.choice([3, 6, 12])))
        kind = rng.choice(["save", "append_fast", "append_rewrite"])
        ops = ["new 0 " + cfg] + ["add 0 " + mk() for _ in range(rng.randint(1, 5))]
        if kind == "save":
            ops += ["save 0"]
            w = 0
        elif kind == "append_fast":
            ops += ["save 0", "new 1 " + cfg, "load 1"] + ["add 1 " + mk() for _ in range(rng.randint(1, 3))] + ["append 1"]
            w = 1
        else:
            # another session rewrites the file in between, so the mtime/size check sends append down the rewrite path
            ops += ["save 0", "new 1 " + cfg, "load 1", "add 0 " + mk(), "save 0"]
            ops += ["add 1 " + mk() for _ in range(rng.randint(1, 3))] + ["append 1"]
            w = 1
        out.append((" ; ".join(ops), kind, cfg))
    return out


def is_char_prefix(a, b):
    return len(a) <= len(b) and b[:len(a)] == a


def unescape_py(l):
    out, i = [], 0
    while i < len(l):
        if l[i] == 0x5c:
            if i + 1 >= len(l):
                return out
            m = {0x6e: 0x0a, 0x5c: 0x5c, 0x72: 0x0d}.get(l[i + 1])
            if m is None:
                return None
            out.append(m)
            i += 2
        else:
            out.append(l[i])
            i += 1
    return out


def c12_crash(res, exe, p1, parsed1, rng, tier, tmp):
    """What a crash really leaves: the last write of every scenario is repeated with the kernel refusing to let the
    file grow beyond K bytes (RLIMIT_FSIZE), for sampled K. The file left behind must be a prefix of the file the
    completed write produces (the premise of the property), and loading it must not panic. Implementation only."""
    cases, metas = [], []
    per = 12 if tier == "thorough" else 4
    for (case, kind, cfg), (ticks, obs) in zip(p1, parsed1):
        final = obs[-1]
        if final[2] is None or final[0] != "ok" or len(final[2]) < 2:
            continue
        F = final[2]
        ops = case.split(" ; ")
        last = ops[-1].split()
        if last[0] not in ("save", "append"):
            continue
        for K in sorted(set(rng.sample(range(0, len(F)), min(per, len(F))))):
            c = " ; ".join(ops[:-1] + ["c%s %s %d" % (last[0], last[1], K), "new 5 " + cfg, "load 5"])
            cases.append(c)
            metas.append((F, K, kind, case))
    impl = run_impl(exe, "fhist", cases, tmp)
    res.evaluations += len(cases)
    stats = {"crash_points": len(cases), "left_shorter_than_whole": 0}
    for c, (F, K, kind, case), o in zip(cases, metas, impl):
        ticks, obs = parse_obs(o)
        left = obs[-3][2]
        why = None
        if any(x[0] == "panic" for x in obs):
            why = "panic"
        elif left is None:
            why = "the file is gone after a write cut off at byte %d" % K
        elif left != F[:len(left)]:
            why = ("after a %s cut off at byte %d (%s) the file is not a prefix of the completed file: left %r, completed %r"
                   % (c.split(" ; ")[-3].split()[0][1:], K, kind, bytes(left), bytes(F)))
        elif obs[-1][0] not in ("ok", "err"):
            why = "loading the file left by the cut-off write: %s" % obs[-1][0]
        if left is not None and len(left) < len(F):
            stats["left_shorter_than_whole"] += 1
        if why:
            res.oracle_failures.append({"stream": "fhist-crash", "case": c, "impl": o, "why": why})
    return stats


def c12_corr(res, exe, driver, tier, seed, tmp):
    rng = random.Random(seed * 17 + 11)
    p1 = c12_pass1(tier, seed)
    impl1, parsed1 = run_fhist(res, exe, driver, [c[0] for c in p1], tmp, tag="fhist-write")
    cases = []
    kinds = {}
    for (case, kind, cfg), (ticks, obs) in zip(p1, parsed1):
        final = obs[-1]
        if final[2] is None or final[0] != "ok":
            continue
        F, E = final[2], final[1]
        ks = list(range(4, len(F) + 1))
        cap = 400 if tier == "thorough" else 40
        if len(ks) > cap:
            # (files with an entry beyond 4096 bytes: every cut of them is too many for the model's unary arithmetic; the cuts
            # around the 4096-byte offset are always among the sample)
            near = [k for k in ks[:-1] if 4090 <= k <= 4104][:12]
            ks = sorted(set(rng.sample(ks[:-1], cap - 1 - len(near)) + near)) + [len(F)]
        whole = {"E": None}   # the file's logical content = what loading all of it gives (tied to the writer by C10)
        for k in reversed(ks):
            c = "put %s ; new 5 %s ; load 5" % (encb(F[:k]), cfg)
            cases.append((c, "cut", {"whole": whole, "full": k == len(F), "k": k, "kind": kind, "written_by": case}))
            kinds[kind] = kinds.get(kind, 0) + 1
            if k % 5 == len(F) % 5:
                # the same history object reads the file a second time (after clear): the same entries again
                c2 = c + " ; clear 5 ; load 5"
                cases.append((c2, "again", {"k": k, "kind": kind}))
                kinds["again"] = kinds.get("again", 0) + 1
    # arbitrary / foreign bytes
    nrand = 6000 if tier == "thorough" else 1200
    good = [[0x0a], [0x0a], [0x0d], [0x5c], [0x5c], [0x6e], [0x72], [0x23, 0x56, 0x32], [0x61], [0x20],
            [0xc3, 0xa9], [0xe6, 0x97, 0xa5], [0xf0, 0x9f, 0x98, 0x80], [0x00], [0x0d, 0x0a]]
    bad = [[0xff], [0xc0, 0x80], [0xed, 0xa0, 0x80], [0xc3], [0xe6, 0x97], [0x80], [0xf4, 0x90, 0x80, 0x80]]
    for _ in range(nrand):
        toks = [rng.choice(good) for _ in range(rng.randint(0, 16))]
        if rng.random() < 0.3 and toks:
            toks.insert(rng.randrange(len(toks) + 1), rng.choice(bad))
        b = [x for t in toks for x in t]
        if rng.random() < 0.6:
            b = [0x23, 0x56, 0x32, 0x0a] + b
        cfg = cfg_tok(rng)
        c = "put %s ; new 5 %s ; load 5 ; add 5 7a ; save 5 ; new 6 %s ; load 6" % (encb(b), cfg, cfg)
        cases.append((c, "bytes", {"data": b}))
        kinds["bytes"] = kinds.get("bytes", 0) + 1
    crash_stats = c12_crash(res, exe, p1, parsed1, rng, tier, tmp)
    impl, parsed = run_fhist(res, exe, driver, [c[0] for c in cases], tmp, tag="fhist-torn")
    for (case, kind, meta), raw, (ticks, obs) in zip(cases, impl, parsed):
        why = None
        if any(o[0] == "panic" for o in obs):
            why = "panic"
        elif kind == "cut":
            if meta["full"]:
                meta["whole"]["E"] = obs[2][1]
            got, E = obs[2][1], meta["whole"]["E"]
            if E is None:
                # the complete file itself did not load (its own case reports why): nothing to compare a cut with
                E = got
                why = "the complete file (written by %s) did not load" % meta["written_by"][:200]
            j = 0
            while j < len(got) and j < len(E) and got[j] == E[j]:
                j += 1
            rest = got[j:]
            if len(rest) > 1 or (len(rest) == 1 and not (j < len(E) and is_char_prefix(rest[0], E[j]))):
                why = "torn file (cut at %d, %s): loaded %r, written entries were %r" % (meta["k"], meta["kind"], got, E)
            if obs[2][0] not in ("ok", "err"):
                why = "torn file: load result %s" % obs[2][0]
        elif kind == "again":
            if obs[2][0] == "ok" and (obs[4][0] != "ok" or obs[4][1] != obs[2][1]):
                why = ("torn file (cut at %d, %s) loaded, cleared and loaded again by the same history: first %r, then %s %r"
                       % (meta["k"], meta["kind"], obs[2][1], obs[4][0], obs[4][1]))
        else:
            if obs[2][0] not in ("ok", "err"):
                why = "arbitrary bytes: load result %s" % obs[2][0]
            else:
                # nothing invented: each entry is a complete valid line of the file, verbatim or unescaped, in order
                data = bytes(meta["data"])
                parts = data.split(b"\n")
                term = [True] * (len(parts) - 1) + [False]
                cands = []
                for p, t in zip(parts, term):
                    if t and p.endswith(b"\r"):
                        p = p[:-1]
                    try:
                        l = [ord(ch) for ch in p.decode("utf-8")]
                    except UnicodeDecodeError:
                        break
                    cands.append(l)
                i = 0
                for e in obs[2][1]:
                    while i < len(cands) and not (cands[i] == e or unescape_py(cands[i]) == e):
                        i += 1
                    if i >= len(cands):
                        why = "arbitrary bytes: entry %r does not come from a complete line of the file (in order)" % e
                        break
                    i += 1
                if not why and obs[3][0] != "true":
                    why = "history not usable after load: add answered %s" % obs[3][0]
        if why:
            res.oracle_failures.append({"stream": "fhist-torn", "case": case, "impl": raw, "why": why})
        if kind in ("cut", "again") and not meta.get("full"):
            res.nontrivial.add(case)
        elif kind == "bytes" and (0x5c in meta["data"] or any(x >= 0x80 for x in meta["data"])):
            res.nontrivial.add(case)
    res.rule = ("files written by the implementation itself in save / append-fast-path / append-rewrite-path scenarios "
                "(random settings and entries over an alphabet with LF, CR, backslash, escape look-alikes, 2/3/4-byte chars), "
                "then every cut offset >= 4 of each file (quick: at most 40 sampled cuts per file) loaded into a fresh history -- "
                "every fifth of them also cleared and loaded a second time by the same history object, the same entries expected; "
                "plus random byte strings (with and without the V2 header) containing invalid UTF-8, lone backslashes, CR/LF "
                "mixes, NUL, empty and header-only files, followed by add/save/reload to show the history stays usable. "
                "Non-trivial = a strict prefix of the file (cut) / contains a backslash or a non-ASCII byte (bytes). "
                "fhist-crash (implementation only): the last save / append of every scenario is repeated with the kernel refusing "
                "to let the file grow beyond K bytes (RLIMIT_FSIZE, sampled K): what is left on disk must be a prefix of the "
                "completed file -- the premise under which cut files are what crashes leave -- and must load without panic.")
    res.distribution = {"kinds": kinds, "crash": crash_stats}
    res.samples = [{"case": c[0], "impl": r} for c, r in list(zip(cases, impl))[:: max(1, len(cases) // 4)]][:4]


# ------------------------------------------------------------------ C11

def file_entries_py(data):
    """Independent reader of the V2 format: the file's entries, raw (no add filtering)."""
    b = bytes(data)
    parts = b.split(b"\n")
    if parts and parts[-1] == b"":
        parts.pop()
    if not parts:
        return []          # an empty file holds no entries
    if parts[0] != b"#V2":
        return None
    out = []
    for p in parts[1:]:
        l = [ord(c) for c in p.decode("utf-8")]
        if not l:
            continue
        u = unescape_py(l)
        out.append(l if u is None else u)
    return out


def dedup(l):
    out = []
    for x in l:
        if not out or out[-1] != x:
            out.append(x)
    return out


def is_subseq(a, b):
    it = iter(b)
    return all(any(x == y for y in it) for x in a)


def c11_cases(tier, seed):
    rng = random.Random(seed * 101 + 7)
    n = 6000 if tier == "thorough" else 800
    cases = []
    words = [[0x61], [0x62], [0x63], [0x61, 0x0a, 0x62], [0xe9], [0x20, 0x78], [0x5c, 0x6e], [0x64, 0x0d], [0x20, 0x20], [0x09], [0x3000]]     # (lines made only of blanks are lines)
    for _ in range(n):
        mx = rng.choice([1, 2, 3, 4, 4, 6, 10])
        igs, igd = int(rng.random() < 0.3), int(rng.random() < 0.5)
        cfg = "%d %d %d" % (mx, igs, igd)
        nsess = rng.choice([2, 2, 3])
        uniq = rng.random() < 0.5
        cnt = [0]

        def line(i):
            if uniq:
                cnt[0] += 1
                return [0x73, 0x30 + i, 0x2d] + [ord(ch) for ch in str(cnt[0])]
            return list(rng.choice(words))
        r0 = rng.random()
        if r0 < 0.12:
            ops = ["put 23.56.32.a"]        # the file exists but holds no entry yet (header only)
        elif r0 < 0.2:
            ops = ["put -"]                 # ... or is empty
        else:
            ops = ["new 9 " + cfg]
            init = rng.randint(1, min(mx, 3))
            ops += ["add 9 " + enc([0x69, 0x30 + k]) for k in range(init)] + ["save 9"]   # the file exists from the start
        started = set()
        for _ in range(rng.randint(4, 22 if tier == "thorough" else 16)):
            i = rng.randrange(nsess)
            if i not in started:
                started.add(i)
                ops += ["new %d %s" % (i, cfg), "load %d" % i]
                continue
            r = rng.random()
            if r < 0.55:
                # (both public ways of entering a line: add and add_owned)
                ops.append("%s %d %s" % ("addo" if rng.random() < 0.3 else "add", i, enc(line(i))))
            elif r < 0.92:
                ops.append("append %d" % i)
            else:
                ops.append("save %d" % i)
        ops += ["new 8 100 0 0", "load 8"]
        cases.append((" ; ".join(ops), {"max": mx, "igs": igs, "igd": igd}))
    # the existing file holds lines the loading sessions will NOT keep (consecutive duplicates, blank-led lines: written under
    # another policy): what a session knows about the file's size is then not the number of its lines
    for k in range(max(6, n // 60)):
        mx = rng.choice([3, 4, 5])
        igs = k % 2
        cfg = "%d %d 1" % (mx, igs)
        # (consecutive duplicates only: the statement allows an append to drop those, not other lines)
        lines = [[0x61], [0x61], [0x62]] if k % 3 == 0 else [[0x78], [0x61], [0x61]] if k % 3 == 1 else [[0x62], [0x62], [0x62], [0x63]][:mx]
        data = [0x23, 0x56, 0x32, 0x0a] + [c for l in lines for c in l + [0x0a]]
        ops = ["put " + ".".join("%x" % c for c in data), "new 0 " + cfg, "load 0"]
        ops += ["add 0 " + enc([0x67, 0x30 + j]) for j in range(rng.randint(1, 2))] + ["append 0"]
        if k % 2:
            ops += ["new 1 " + cfg, "load 1", "add 1 " + enc([0x68]), "append 1", "add 0 " + enc([0x69]), "append 0"]
        ops += ["new 8 100 0 0", "load 8"]
        cases.append((" ; ".join(ops), {"max": mx, "igs": igs, "igd": 1}))
    # a session whose only pending line repeats the last line ANOTHER session has written meanwhile (the merge drops it), then
    # more writes by others, then the first session appends again -- with nothing new, or after another line
    for k in range(max(6, n // 60)):
        mx = rng.choice([4, 6, 10])
        cfg = "%d 0 1" % mx
        x, y, z = [0x78, 0x30 + k % 10], [0x79], [0x7a]
        ops = ["new 9 " + cfg, "add 9 " + enc([0x69, 0x30]), "save 9", "new 0 " + cfg, "load 0", "new 1 " + cfg, "load 1",
               "add 1 " + enc(x), "append 1", "add 0 " + enc(x), "append 0"]
        if k % 3 == 1:
            ops += ["append 0"]
        ops += ["add 1 " + enc(y), "append 1"]
        if k % 2:
            ops += ["add 0 " + enc(z)]
        ops += ["append 0", "add 1 " + enc(x), "append 1", "append 0", "new 8 100 0 0", "load 8"]
        cases.append((" ; ".join(ops), {"max": mx, "igs": 0, "igd": 1}))
    return cases


def c11_oracle(case, meta, ticks, obs):
    ops = [o.strip().split() for o in case.split(";")]
    mx, igd = meta["max"], meta["igd"]
    pending = {}
    prev_file = None
    all_ticks = True
    for t, tick, (r, ents, fil) in zip(ops, ticks, obs):
        if r == "panic":
            return "panic at %s" % " ".join(t)
        fe = file_entries_py(fil) if fil is not None else None
        if fil is not None and fe is None:
            return "file is not a V2 history file after %s" % " ".join(t)
        name = t[0]
        if name in ("save", "append") and fil != prev_file_bytes(prev_file) and tick != "1":
            all_ticks = False
        if name == "new":
            pending[int(t[1])] = []
        elif name == "load":
            if r != "ok":
                return "load failed: %s" % r
            pending[int(t[1])] = []
        elif name in ("add", "addo"):
            if r == "true":
                pending[int(t[1])].append(dec(t[2]))
        elif name == "save":
            i = int(t[1])
            if r != "ok":
                return "save failed"
            pending[i] = []
        elif name == "append":
            i = int(t[1])
            if r != "ok":
                return "append failed: %s" % r
            N = pending[i]
            before = prev_file[1] if prev_file else []
            after = fe if fe is not None else []
            if not N:
                if fil != (prev_file[0] if prev_file else None):
                    return "append with nothing pending changed the file"
            else:
                cand = before + N
                D = dedup if igd else (lambda x: x)
                da, dc = D(after), D(cand)
                if not (len(da) <= len(dc) and dc[len(dc) - len(da):] == da):
                    return ("after append by session %d the file %r is not (a suffix of) what it held %r followed by the "
                            "session's new lines %r" % (i, after, before, N))
                if len(cand) <= mx and da != dc:
                    return ("append by session %d lost entries although the limit %d is not exceeded: before %r + new %r, "
                            "after %r" % (i, mx, before, N, after))
                if not is_subseq(after, cand):
                    return "after append the file %r is not a sub-sequence of %r" % (after, cand)
            pending[i] = []
        if fe is not None and all_ticks and len(fe) > mx and name in ("save", "append"):
            return "file holds %d entries, limit %d, although every write had a distinguishable mtime" % (len(fe), mx)
        prev_file = (fil, fe) if fil is not None else None
    return None


def prev_file_bytes(pf):
    return pf[0] if pf else None


def c11_race(res, exe, driver, tier, seed, tmp):
    """TRULY concurrent appends: 2-3 sessions that loaded the same file start `append` while the file's lock is held
    elsewhere, then run as the lock lets them. Whatever order the lock serves them in, the file must be what SOME serial
    order of the appends gives (the model run on every order, all mtimes distinguishable), within the limit, losing no line
    while the limit allows."""
    rng = random.Random(seed * 131 + 3)
    n = 240 if tier == "thorough" else 24
    cases = []
    for _ in range(n):
        mx = rng.choice([2, 3, 3, 4, 6, 10])
        cfg = "%d 0 %d" % (mx, int(rng.random() < 0.5))
        ns = rng.choice([2, 2, 3])
        ops = ["new 9 " + cfg] + ["add 9 " + enc([0x69, 0x30 + k]) for k in range(rng.randint(1, min(mx, 3)))] + ["save 9"]
        for i in range(ns):
            ops += ["new %d %s" % (i, cfg), "load %d" % i]
        for i in range(ns):
            ops += ["add %d %s" % (i, enc([0x73, 0x30 + i, 0x2d, 0x30 + k])) for k in range(rng.randint(1, 3))]
        cases.append((ops, ns, mx, cfg))
    tail = ["new 8 100 0 0", "load 8"]
    lines = [" ; ".join(ops + ["race " + " ".join(str(i) for i in range(ns))] + tail) for (ops, ns, mx, cfg) in cases]
    impl = run_impl(exe, "fhist", lines, tmp)
    res.evaluations += len(lines)
    # the serial orders on the model
    mlines, owner = [], []
    for k, ((ops, ns, mx, cfg), o) in enumerate(zip(cases, impl)):
        ticks = o.split("|", 1)[0].strip()
        for perm in itertools.permutations(range(ns)):
            serial = ops + ["append %d" % i for i in perm] + tail
            tk = ticks[:len(ops)] + "1" * ns + "0" * len(tail)
            mlines.append(tk + " | " + " ; ".join(serial))
            owner.append(k)
    model = run_model(driver, "fhist", mlines, tmp) if driver else []
    allowed = {}
    for k, m in zip(owner, model):
        try:
            _, mobs = parse_obs(m)
            allowed.setdefault(k, []).append(mobs[-1][1])
        except Exception:
            allowed.setdefault(k, []).append(None)
    stats = {"races": len(lines), "orders_seen": {}}
    for k, ((ops, ns, mx, cfg), line, o) in enumerate(zip(cases, lines, impl)):
        _, obs = parse_obs(o)
        why = None
        r_race, final = obs[-3], obs[-1]
        mine = [dec(t.split()[2]) for t in ops if t.startswith("add ") and not t.startswith("add 9 ")]
        if any(x[0] == "panic" for x in obs):
            why = "panic"
        elif r_race[0] != "ok":
            why = "a concurrent append failed: %s" % r_race[0]
        elif final[0] != "ok":
            why = "the file does not load after concurrent appends: %s" % final[0]
        else:
            got = final[1]
            if len(got) > mx:
                why = "file holds %d entries after concurrent appends, limit %d (every write had a distinguishable mtime)" % (len(got), mx)
            elif len(got) < min(mx, len(mine)) or (len(mine) + 1 <= mx and not all(e in got for e in mine)):
                why = "a line appended by a session is missing although the limit %d allows it: file %r, lines %r" % (mx, got, mine)
            elif len(set(map(tuple, got))) != len(got):
                why = "a line was written twice: %r" % got
            elif driver and got not in [a for a in allowed.get(k, []) if a is not None]:
                why = "the file after concurrent appends %r is not what any serial order of them gives %r" % (got, allowed.get(k))
            if driver and not why:
                idx = allowed[k].index(got)
                stats["orders_seen"][str(idx)] = stats["orders_seen"].get(str(idx), 0) + 1
        if why:
            res.oracle_failures.append({"stream": "fhist-race", "case": line, "impl": o, "why": why})
        res.nontrivial.add(line)
    return stats


def c11_corr(res, exe, driver, tier, seed, tmp):
    race_stats = c11_race(res, exe, driver, tier, seed, tmp)
    cases = c11_cases(tier, seed)
    impl, parsed = run_fhist(res, exe, driver, [c[0] for c in cases], tmp, tag="fhist-share")
    paths = {"ticks0": 0, "appends": 0}
    for (case, meta), raw, (ticks, obs) in zip(cases, impl, parsed):
        why = c11_oracle(case, meta, ticks, obs)
        if why:
            res.oracle_failures.append({"stream": "fhist-share", "case": case, "impl": raw, "why": why})
        na = case.count("append")
        paths["appends"] += na
        paths["ticks0"] += ticks.count("0")
        if na >= 2 and case.count("load") >= 3:
            res.nontrivial.add(case)
    res.rule = ("random interleavings at operation granularity of 2-3 FileHistory sessions (one process) on one temp file that "
                "exists from the start: each session loads when it starts, then add / append / save in random order; shared "
                "settings, limits 1..10, lines either unique per session or from a small pool with duplicates, LF, CR, "
                "backslash, leading blank; the observed 'mtime changed' bit of every op is fed to the model. The oracle reads "
                "the file with its own V2 reader after every op. Non-trivial = at least two appends and two concurrent sessions. "
                "fhist-race: 2-3 sessions (threads) start append while the file lock is held elsewhere and run when it is released "
                "-- real concurrency under the lock; the resulting file must be within the limit, complete, without repeats, and "
                "equal to what the model gives for SOME serial order of the appends.")
    paths["race"] = race_stats
    res.distribution = paths
    res.samples = [{"case": c[0], "impl": r} for c, r in list(zip(cases, impl))[:3]]
