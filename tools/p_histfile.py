"""C10 / C11 / C12: the history file. One correspondence stream (`fhist`):
sessions (FileHistory objects) and one file; the model takes the observed
mtime ticks as input."""
import itertools
import random

from common import *

ALPHA10 = [0x0a, 0x0d, 0x5c, 0x6e, 0x72, 0x23, 0x56, 0x32, 0x20, 0xe9, 0x65e5, 0x1f600]
SMALL = [0x0a, 0x0d, 0x5c, 0x6e, 0x72, 0x23, 0x20, 0xe9, 0x61]


def enc(s):
    """list of code points -> token"""
    return ".".join("%x" % c for c in s) if s else "-"


def dec(tok):
    return [] if tok == "-" else [int(h, 16) for h in tok.split(".")]


def encb(b):
    return ".".join("%x" % c for c in b) if b else "-"


def parse_obs(line):
    """`ticks | R=.. E=.. F=.. ; ...` -> (ticks, [(R, [entries], file|None)])"""
    ticks, rest = line.split("|", 1)
    obs = []
    for o in rest.split(";"):
        f = dict(x.split("=", 1) for x in o.split())
        ents = [] if f["E"] == "_" else [dec(t) for t in f["E"].split(",")]
        fil = None if f["F"] == "none" else dec(f["F"])
        obs.append((f["R"], ents, fil))
    return ticks.strip(), obs


def rand_entry(rng, alpha, maxlen):
    n = rng.choice([1, 1, 2, 2, 3, 3, 4, maxlen])
    return [rng.choice(alpha) for _ in range(rng.randint(1, max(1, n)))]


def cfg_tok(rng, maxes=(1, 2, 3, 5, 10, 100)):
    return "%d %d %d" % (rng.choice(maxes), rng.random() < 0.3, rng.random() < 0.5)


def run_fhist(res, exe, driver, cases, tmp, tag="fhist"):
    """Run cases on impl, feed the observed ticks to the model, compare.
    Returns parsed impl observations per case."""
    impl = run_impl(exe, "fhist", cases, tmp)
    parsed = []
    model_in = []
    for c, o in zip(cases, impl):
        ticks = o.split("|", 1)[0].strip()
        model_in.append(ticks + " | " + c)
        parsed.append(parse_obs(o))
    if driver:
        model = run_model(driver, "fhist", model_in, tmp)
        compare(res, tag, cases, impl, model)
    res.evaluations += len(cases)
    return impl, parsed


# ------------------------------------------------------------------ C10

def c10_cases(tier, seed):
    rng = random.Random(seed)
    cases = []  # (case, kind, meta)
    # (1) small-exhaustive: every list of <= 2 entries of <= 2 chars over SMALL, plain save
    strs = [[a] for a in SMALL] + [[a, b] for a in SMALL for b in SMALL]
    lists = [[]] + [[s] for s in strs]
    step = 1 if tier == "thorough" else 7
    pairs = [(a, b) for a in strs for b in strs]
    off = seed % step
    lists += [list(p) for p in pairs[off::step]]
    for es in lists:
        cfg = "100 0 0"
        ops = ["new 0 " + cfg] + ["add 0 " + enc(e) for e in es] + ["save 0", "new 1 " + cfg, "load 1"]
        cases.append((" ; ".join(ops), "save", {"writer_step": len(ops) - 3, "cfg": cfg}))
    # (2) random scenarios over the full alphabet, all write modes and settings
    n = 4000 if tier == "thorough" else 600
    for _ in range(n):
        cfg = cfg_tok(rng)
        kind = rng.choice(["save", "append_new", "append_existing", "append_existing", "cycles"])
        alpha = rng.choice([ALPHA10, SMALL])
        mk = lambda: enc(rand_entry(rng, alpha, rng.choice([4, 8, 40])))
        ops = ["new 0 " + cfg] + ["add 0 " + mk() for _ in range(rng.randint(0, 6))]
        if kind == "save":
            ops += ["save 0", "new 9 " + cfg, "load 9"]
            w = len(ops) - 3
        elif kind == "append_new":
            ops += ["append 0", "new 9 " + cfg, "load 9"]
            w = len(ops) - 3
        elif kind == "append_existing":
            ops += ["save 0", "new 1 " + cfg, "load 1"]
            ops += ["add 1 " + mk() for _ in range(rng.randint(0, 5))]
            ops += ["append 1", "new 9 " + cfg, "load 9"]
            w = len(ops) - 3
        else:
            ops += ["save 0"]
            for k in range(rng.randint(1, 3)):
                ops += ["new %d %s" % (k + 1, cfg), "load %d" % (k + 1), "add %d %s" % (k + 1, mk()),
                        rng.choice(["save", "append"]) + " %d" % (k + 1)]
            ops += ["new 9 " + cfg, "load 9"]
            w = len(ops) - 3
        cases.append((" ; ".join(ops), kind, {"writer_step": w, "cfg": cfg}))
    # (3) legacy files
    for _ in range(n // 3):
        lines = []
        for _ in range(rng.randint(0, 6)):
            l = [c for c in rand_entry(rng, ALPHA10, 6) if c not in (0x0a,)]
            lines.append(l)
        if lines and lines[0] == [0x23, 0x56, 0x32]:
            lines[0] = [0x61]
        data = []
        for i, l in enumerate(lines):
            data += list("".join(map(chr, l)).encode("utf-8"))
            term = rng.choice(["\n", "\n", "\r\n", ""]) if i == len(lines) - 1 else rng.choice(["\n", "\n", "\n", "\r\n"])
            data += list(term.encode())
        ops = ["put " + encb(data), "new 0 100 0 0", "load 0"]
        cases.append((" ; ".join(ops), "legacy", {"data": data}))
    return cases


def legacy_expected(data):
    """Every non-empty line, verbatim (a line ends at LF or CRLF)."""
    b = bytes(data)
    parts = b.split(b"\n")
    term = [True] * (len(parts) - 1) + [False]
    out = []
    for p, t in zip(parts, term):
        if t and p.endswith(b"\r"):
            p = p[:-1]
        if p:
            out.append([ord(c) for c in p.decode("utf-8")])
    return out


def c10_corr(res, exe, driver, tier, seed, tmp):
    cases = c10_cases(tier, seed)
    impl, parsed = run_fhist(res, exe, driver, [c[0] for c in cases], tmp)
    kinds = {}
    for (case, kind, meta), raw, (ticks, obs) in zip(cases, impl, parsed):
        kinds[kind] = kinds.get(kind, 0) + 1
        final = obs[-1]
        why = None
        if any(o[0] == "panic" for o in obs):
            why = "panic"
        elif kind == "legacy":
            exp = legacy_expected(meta["data"])
            if final[0] != "ok":
                why = "legacy file did not load: R=%s" % final[0]
            elif final[1] != exp:
                why = "legacy load: entries %r, expected every non-empty line verbatim %r" % (final[1], exp)
        else:
            w = obs[meta["writer_step"]]
            if w[2] is None and not w[1]:
                pass  # an empty history writes no file: nothing to reload
            elif final[0] != "ok":
                why = "written file did not load: R=%s" % final[0]
            elif w[0] != "ok":
                why = "write failed: R=%s" % w[0]
            elif final[1] != w[1]:
                why = "reloaded entries differ from the writer's entries: wrote %r, reloaded %r" % (w[1], final[1])
        if why:
            res.oracle_failures.append({"stream": "fhist", "case": case, "impl": raw, "why": why,
                                        "replay_cmd": "echo '<case>' | .cache/target/debug/rlharness fhist"})
        special = any(tok in case for tok in (" a.", ".a.", ".a ", ".d", " d.", "5c", "e9", "65e5", "1f600"))
        if special:
            res.nontrivial.add(case)
    res.rule = ("fhist stream: (1) every list of <=2 entries of <=2 chars over {LF,CR,\\,n,r,#,blank,e-acute,a} saved and "
                "reloaded (quick: every 7th pair, offset by seed; thorough: all); (2) random scenarios "
                "save / append-to-new / append-to-existing / repeated cycles with random settings over a 12-letter alphabet "
                "incl. 3- and 4-byte characters; (3) random legacy files with LF/CRLF/unterminated last line. "
                "Non-trivial = contains LF, CR, backslash or a multi-byte character; distinct by case text. "
                "Compared with the model: result of every op, the session's entries, the file bytes.")
    res.distribution = {"kinds": kinds}
    res.samples = [{"case": c[0], "impl": r} for c, r in list(zip(cases, impl))[:: max(1, len(cases) // 5)]][:5]
