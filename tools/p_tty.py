"""Interactive streams: the real Unix back end driven through a pty
(tools/ptydrive.py) against the model of a whole read (Model/Editor.v)."""
import os
import random
from concurrent.futures import ThreadPoolExecutor

from common import *
from p_histfile import enc, dec, encb
import ptydrive

# ---------------------------------------------------------------- keys -> bytes

ESC = b"\x1b"
KEYS = {
    "Enter": b"\r", "Tab": b"\t", "BackTab": ESC + b"[Z", "Backspace": b"\x7f", "Esc": ESC,
    "Up": ESC + b"[A", "Down": ESC + b"[B", "Right": ESC + b"[C", "Left": ESC + b"[D",
    "Home": ESC + b"[H", "End": ESC + b"[F", "Delete": ESC + b"[3~", "Insert": ESC + b"[2~",
    "PageUp": ESC + b"[5~", "PageDown": ESC + b"[6~", "F5": ESC + b"[15~", "F6": ESC + b"[17~", "F12": ESC + b"[24~",
    "C-Left": ESC + b"[1;5D", "C-Right": ESC + b"[1;5C", "M-Left": ESC + b"[1;3D", "M-Right": ESC + b"[1;3C",
    "S-Up": ESC + b"[1;2A", "Up2": ESC + b"OA", "Down2": ESC + b"OB", "Home2": ESC + b"[1~", "End2": ESC + b"[4~",
    "M-Backspace": ESC + b"\x7f",
    # sequences no key is assigned to (an unsupported function key, a focus report, an SS3 letter): read whole, then ignored
    "Unk1": ESC + b"[9~", "Unk2": ESC + b"Oz", "Unk3": ESC + b"[I", "Unk4": ESC + b"[29~",
    # cursor position reports (late or unsolicited answers to ESC[6n) of every digit shape: read whole, nothing after them eaten
    "Cpr1": ESC + b"[1;1R", "Cpr2": ESC + b"[12;3R", "Cpr3": ESC + b"[12;34R", "Cpr4": ESC + b"[5;10R", "Cpr5": ESC + b"[123;4R",
}


def key_bytes(k):
    """k: a name in KEYS | 'C-x' | 'M-x' | a single character"""
    if k in KEYS:
        return KEYS[k]
    if k.startswith("C-") and len(k) == 3:
        c = k[2]
        return bytes([ord(c.upper()) & 0x1f]) if c != "?" else b"\x7f"
    if k.startswith("M-") and len(k) >= 3:
        return ESC + k[2:].encode("utf-8")
    return k.encode("utf-8")


def chunks_of(keys, rng=None, typeahead=0.0):
    """One chunk per key; with probability `typeahead` a key joins the previous chunk. A lone Esc and
    Enter always end their chunk (see DESIGN 3.2)."""
    out = []
    for k in keys:
        b = key_bytes(k)
        if out and rng is not None and rng.random() < typeahead and out[-1][1] not in ("Esc", "Enter", "C-j", "C-m") \
                and not out[-1][0].endswith(ESC):
            out[-1] = (out[-1][0] + b, k)
        else:
            out.append((b, k))
    return [c for c, _ in out]


# ---------------------------------------------------------------- cases

class Case:
    def __init__(self, keys, mode="emacs", prompt="> ", history=(), initial=None, cands=None, hints=None,
                 validator="none", completion="circular", timeout="none", cols=80, reads=1, binds=(),
                 chunks=None, printer=False, helper=None, meta=None):
        self.keys = list(keys)
        # the editor's history ignores consecutive duplicates and empty lines (default settings):
        # give both sides the list it will actually hold
        h2 = []
        for h in history:
            if h and (not h2 or h2[-1] != h):
                h2.append(h)
        # a history bound smaller than the number of entries: the editor is given them all (its ring buffer rotates),
        # the model the ones that survive
        self.history_full = h2
        mh = (meta or {}).get("max_hist")
        if mh is not None:
            h2 = h2[len(h2) - mh:] if mh and len(h2) > mh else ([] if mh == 0 else h2)
        self.mode, self.prompt, self.history, self.initial = mode, prompt, h2, initial
        self.cands, self.hints, self.validator = cands, hints, validator
        self.completion, self.timeout, self.cols, self.reads = completion, timeout, cols, reads
        self.binds = list(binds)
        self.chunks = chunks
        self.printer = printer
        self.helper = helper if helper is not None else (cands is not None or hints is not None or validator != "none")
        self.meta = meta or {}

    def s(self, text):
        return enc([ord(c) for c in text]) if text else "-"

    def spec(self):
        l = ["mode " + self.mode, "completion " + self.completion, "timeout " + str(self.timeout),
             "prompt " + self.s(self.prompt), "reads %d" % self.reads]
        for h in self.history_full:
            l.append("history " + self.s(h))
        if self.initial:
            l.append("initial %s %s" % (self.s(self.initial[0]), self.s(self.initial[1])))
        if self.helper:
            l.append("helper 1")
        if self.cands is not None:
            l.append("cands " + " ".join(self.s(c) for c in self.cands) if self.cands else "cands")
        if self.hints is not None:
            l.append("hints " + " ".join(self.s(c) for c in self.hints) if self.hints else "hints")
        if self.validator != "none":
            l.append("validator " + self.validator)
        if self.printer:
            l.append("printer 1")
        if self.meta.get("key_delay_ms"):
            l.append("key_delay_ms %d" % self.meta["key_delay_ms"])
        if self.meta.get("between_us"):
            l.append("between_us %d" % self.meta["between_us"])
        for k in ("highlight", "signals", "paste", "helper_panic_at", "auto_add", "printers", "printers_late", "linger", "stdout_full", "stdin_ro", "preferterm", "stdout_relay", "stdout_close_after", "max_hist", "tab_stop", "indent_size", "prompt_limit", "show_all", "bell", "color_mode"):
            if k in self.meta:
                l.append("%s %s" % (k, self.meta[k]))
        for ks, cmd in self.binds:
            l.append("bind %s %s" % (ks, cmd))
        l += list(self.meta.get("spec_extra", []))
        return "\n".join(l) + "\n"

    def model_line(self, chunks):
        kv = ["mode=" + self.mode, "completion=" + self.completion, "timeout=" + str(self.timeout),
              "cols=%d" % self.cols, "prompt=" + self.s(self.prompt), "reads=%d" % self.reads,
              "helper=%d" % (1 if self.helper else 0), "validator=" + self.validator]
        if self.history:
            kv.append("hist=" + ",".join(self.s(h) for h in self.history))
        if self.initial:
            kv.append("initial=%s,%s" % (self.s(self.initial[0]), self.s(self.initial[1])))
        if self.cands:
            kv.append("cands=" + ",".join(self.s(c) for c in self.cands))
        if self.hints:
            kv.append("hints=" + ",".join(self.s(c) for c in self.hints))
        for ks, cmd in self.binds:
            kv.append("bind=%s %s" % (ks, cmd))
        for k in ("tab_stop", "indent_size", "prompt_limit", "show_all", "bell"):
            if k in self.meta:
                kv.append("%s=%s" % (k, self.meta[k]))
        toks = []
        prints = self.meta.get("prints") or {}
        for k, c in enumerate(chunks):
            toks.append(encb(list(c)))
            for (t, text) in prints.get(k, []):
                toks.append("P:" + enc([ord(ch) for ch in text]))
        return ";".join(kv) + " | " + " ".join(toks)


def canon_impl(r):
    """pty result -> the model's format: per read `O=.. K=.. W=..`"""
    reads, cur = [], []
    for line in r["obs"]:
        if line.startswith("K "):
            cur.append(line[2:])
        elif line.startswith("R "):
            reads.append((line[2:], cur))
            cur = []
    out = r["out"]
    # a suspend inside a read switches bracketed paste off and, on resuming, on again (nothing in between): not a read boundary
    out = out.replace(b"\x1b[?2004l\x1b[?2004h", b"")
    # per-read output: between ESC[?2004h and ESC[?2004l CR LF
    segs = []
    pos = 0
    while True:
        a = out.find(b"\x1b[?2004h", pos)
        if a < 0:
            break
        b = out.find(b"\x1b[?2004l", a)
        if b < 0:
            segs.append(out[a + 8:])
            break
        segs.append(out[a + 8:b])
        pos = b + 8
    res = []
    for i, (o, ks) in enumerate(reads):
        w = segs[i] if i < len(segs) else b""
        oc = {"eof": "eof", "int": "int", "panic": "panic"}.get(o)
        if oc is None:
            if o.startswith("line:"):
                oc = o
            elif o.startswith("err:io:InvalidData"):
                oc = "invalid"
            elif o.startswith("err:io:Other") or o.startswith("err:io:Interrupted"):
                oc = "verr"          # (the two kinds of error the scripted validator raises)
            elif o.startswith("err:"):
                oc = "hangup"
        try:
            wt = [ord(ch) for ch in w.decode("utf-8")]
        except UnicodeDecodeError:
            wt = list(w)
        res.append("O=%s K=%s W=%s" % (oc, ";".join(ks) if ks else "_", enc(wt)))
    return res


def canon_model(line):
    """LF -> CR LF as the line discipline does (OPOST|ONLCR stays on in raw mode)"""
    out = []
    for rd in line.split(" ## "):
        f = rd.split(" W=")
        w = dec(f[1]) if len(f) > 1 else []
        w2 = []
        for c in w:
            if c == 0x0a:
                w2.append(0x0d)
            w2.append(c)
        out.append(f[0] + " W=" + enc(w2))
    return out


def strip_w(reads):
    return [r.split(" W=")[0] for r in reads]


def _pty_job(job):
    exe, spec, ch, cols = job[:4]
    events = job[4] if len(job) > 4 else None
    sync_keys = job[5] if len(job) > 5 else False
    last = None
    for attempt in range(2):
        try:
            r = ptydrive.run_case(exe, spec, ch, cols=cols, events=events, sync_keys=sync_keys)
            r.pop("termios_probe", None)
            return r
        except OSError as e:      # infrastructure (fork / pty exhaustion): retry once
            last = e
    return "OSError %s" % last


def run_tty_cases(res, exe, driver, cases, tmp, tag, compare_output=True, rng=None, typeahead=0.0):
    """Runs the cases on both sides. Returns [(case, impl_reads, model_reads, raw)]."""
    prepared = []
    for c in cases:
        ch = c.chunks if c.chunks is not None else chunks_of(c.keys, rng, typeahead)
        prepared.append((c, ch))

    jobs = []
    for c, ch in prepared:
        ev = c.meta.get("events")
        if c.meta.get("prints"):
            ev = dict(ev or {})
            for k, lst in c.meta["prints"].items():
                ev[k] = list(ev.get(k, [])) + [("print", t, enc([ord(x) for x in text])) for (t, text) in lst]
        if c.meta.get("bursts"):
            ev = dict(ev or {})
            total = 0
            for k in sorted(c.meta["bursts"]):
                lst = c.meta["bursts"][k]
                total += len(lst)
                ahead = (c.meta.get("burst_keys") or {}).get(k)
                first = [("print_with_keys", lst[0][0], enc([ord(x) for x in lst[0][1]]), ahead)] if ahead else []
                ev[k] = list(ev.get(k, [])) + first + [("print_nowait", t, enc([ord(x) for x in text])) for (t, text) in (lst[1:] if ahead else lst)] + \
                    [("winch_blocked", w) for w in (c.meta.get("blocked_resizes") or {}).get(k, [])] + [("wait_acks", total)]
        if c.meta.get("flood"):
            ev = dict(ev or {})
            fl = c.meta["flood"]
            ev[fl["k"]] = list(ev.get(fl["k"], [])) + [("flood", [(t, enc([ord(x) for x in text])) for (t, text) in fl["msgs"]], fl["enters"])]
        jobs.append((exe, c.spec(), ch, c.cols, ev, bool(c.meta.get("sync_keys"))))
    # processes, not threads: the driver polls /proc and must not share a GIL
    import multiprocessing
    ctx = multiprocessing.get_context("fork")
    with ctx.Pool(NPROC) as pool:
        raws = pool.map(_pty_job, jobs, chunksize=max(1, len(jobs) // (NPROC * 8)))
    for r in raws:
        if isinstance(r, str):
            raise InfraError("pty driver: " + r)
    model_lines = [c.model_line(ch) for c, ch in prepared]
    models = run_model(driver, "tty", model_lines, tmp) if driver else [None] * len(cases)
    out = []
    for (c, ch), raw, ml, m in zip(prepared, raws, model_lines, models):
        impl = canon_impl(raw)
        model = canon_model(m) if m is not None else None
        # the hang-up that ends a script is not part of the comparison: drop the reads it ends
        if model is not None and not c.meta.get("events") and not c.meta.get("bursts") and not c.meta.get("no_model") and not c.meta.get("flood"):
            # (prints at quiescent points are part of the model's input; signals and racing bursts are not)
            # what is written around a hang-up is lost with the terminal: compare those reads without output
            nw = lambda rs: [r.split(" W=")[0] if r.startswith("O=hangup") else r for r in rs]
            a = nw(impl) if compare_output else strip_w(impl)
            b = nw(model) if compare_output else strip_w(model)
            n = min(len(a), len(b))
            # after the hang-up both sides report an error for the read in progress
            if a[:n] != b[:n] or len(a) != len(b):
                res.disagreements.append({"stream": tag, "case": ml, "keys": c.keys, "impl": " ## ".join(impl),
                                          "model": " ## ".join(model)})
            elif not compare_output and nw(impl)[:n] != nw(model)[:n]:
                # states, arguments and results agree, only the bytes written differ: what the terminal shows is C02's
                # business (its check runs these scripts with the output compared), not this property's
                d = res.extra.setdefault("output_only_differences", {})
                d[tag] = d.get(tag, 0) + 1
        elif "R panic" in raw["obs"] and "helper_panic_at" not in c.meta and not c.meta.get("long"):
            # a script that is judged by an oracle only (signals, racing messages, no model run): a read that panicked would
            # leave its trace unaligned and unjudged -- no property holds on a read that panics
            why = [l for l in raw["obs"] if l.startswith("E panic")][:1]
            res.oracle_failures.append({"stream": tag, "case": ml, "keys": c.keys, "why": "a read panicked: %s" % (why[0] if why else "R panic")})
        out.append((c, impl, model, raw))
    res.evaluations += len(cases)
    return out


def parse_read(rd):
    """`O=.. K=.. W=..` -> (outcome, [(line, pos, mode, n, positive, hint)], written)"""
    f = {}
    for part in rd.split(" "):
        pass
    o = rd[2:rd.index(" K=")]
    k = rd[rd.index(" K=") + 3:rd.index(" W=")]
    w = rd[rd.index(" W=") + 3:]
    obs = []
    if k != "_":
        for item in k.split(";"):
            t = item.split(" ")
            obs.append((dec(t[0]), int(t[1]), t[2], int(t[3]), t[4] == "1", None if t[5] == "none" else dec(t[5])))
    return o, obs, dec(w)


# ---------------------------------------------------------------- script generators

TEXT = ["a", "b", "Z", "9", "_", " ", " ", ",", ".", "(", ")", "é", "日", "😀", "́", "x", "-", "1"]
EMACS_MOVES = ["C-a", "C-b", "C-e", "C-f", "Left", "Right", "Home", "End", "M-b", "M-f", "C-Left", "C-Right",
               "M-Left", "M-Right", "Home2", "End2"]
EMACS_EDITS = ["C-h", "Backspace", "C-d", "Delete", "C-k", "C-u", "C-w", "M-d", "M-Backspace", "C-y", "M-y", "C-t", "M-t",
               "M-c", "M-l", "M-u", "C-_"]
EMACS_HIST = ["Up", "Down", "C-p", "C-n", "M-<", "M->", "Up2", "Down2"]
VI_MOTIONS = ["h", "l", "w", "b", "e", "W", "B", "E", "0", "$", "^", " ", "Backspace"]
VI_CHARSEARCH = ["f", "F", "t", "T"]


def gen_emacs(rng, n, history=False, extra=()):
    ks = []
    while len(ks) < n:
        r = rng.random()
        if r < 0.42:
            ks.append(rng.choice(TEXT))
        elif r < 0.57:
            ks.append(rng.choice(EMACS_MOVES))
        elif r < 0.80:
            ks.append(rng.choice(EMACS_EDITS))
        elif r < 0.85:
            # numeric argument, possibly negative, possibly multi-digit
            if rng.random() < 0.3:
                ks.append("M--")
            for _ in range(rng.choice([1, 1, 1, 2])):
                ks.append("M-" + rng.choice("123456789"))
            if rng.random() < 0.15:
                ks.append("M-" + rng.choice("\u00b2\u00bd\u0663\uff13"))      # numeric characters that are no ASCII digits: no argument
            if rng.random() < 0.3:
                ks.append(rng.choice("0123456789"))
            ks.append(rng.choice(TEXT[:6] + EMACS_MOVES[:6] + EMACS_EDITS))
        elif r < 0.88:
            ks += ["C-x", rng.choice(["C-u", "C-u", "Backspace", "C-g", "a"])]
        elif r < 0.91:
            ks += [rng.choice(["C-v", "C-q"]), rng.choice(["C-j", "a", "Tab", "é"])]
        elif r < 0.93:
            ks += [rng.choice(["C-]", "M-C-]"]), rng.choice(["a", " ", ",", "é"])]
        elif r < 0.945:
            # ESC typed on its own, the next key in a later write: still the Meta prefix when there is no key-sequence
            # timeout (the reader waits), an Escape key of its own when the timeout is 0
            ks += ["Esc", rng.choice(["f", "b", "d", "Backspace", "u", "l", "c", "2", "-", "<", ">", "y", "a", "Esc"])]
        elif r < 0.97 and history:
            ks.append(rng.choice(EMACS_HIST))
        elif extra:
            ks.append(rng.choice(extra))
        else:
            ks.append(rng.choice(["C-l", "F5", "Insert", "PageUp", "S-Up", "C-g", "Unk1", "Unk2", "Unk3", "Unk4",
                                  "Cpr1", "Cpr2", "Cpr3", "Cpr4", "Cpr5"]))
    return ks


def gen_vi(rng, n, history=False):
    ks = []
    insert = True
    while len(ks) < n:
        if insert:
            r = rng.random()
            if r < 0.55:
                ks.append(rng.choice(TEXT))
            elif r < 0.63:
                ks.append(rng.choice(["Backspace", "C-h", "C-w", "C-u", "C-k", "Left", "Right", "Home", "End", "C-t", "C-y",
                                      "C-_", "C-_", "Cpr2", "Unk1"]))
            elif r < 0.66 and history:
                ks.append(rng.choice(["Up", "Down"]))
            elif r < 0.70:
                ks += ["C-v", rng.choice(["C-j", "a"])]
            else:
                ks.append("Esc")
                insert = False
        else:
            r = rng.random()
            cnt = []
            if rng.random() < 0.25:
                cnt = [rng.choice("123456789")] + ([rng.choice("0123456789")] if rng.random() < 0.15 else [])
            if r < 0.30:
                ks += cnt + [rng.choice(VI_MOTIONS)]
            elif r < 0.38:
                ks += cnt + [rng.choice(VI_CHARSEARCH), rng.choice(["a", " ", ",", "é", "b"])]
            elif r < 0.42:
                ks += cnt + [rng.choice([";", ","])]
            elif r < 0.60:
                op = rng.choice(["d", "d", "c", "y", "d", "<", ">"])
                mot = rng.choice(VI_MOTIONS[:11] + [op, op, "j", "k"])
                cnt2 = [rng.choice("23")] if rng.random() < 0.2 else []
                ks += cnt + [op] + cnt2
                if rng.random() < 0.15:
                    ks += [rng.choice(VI_CHARSEARCH), rng.choice(["a", " ", ","])]
                else:
                    ks.append(mot)
                if op == "c":
                    insert = True
            elif r < 0.70:
                ks += cnt + [rng.choice(["x", "X", "p", "P", "u", ".", ".", "D"])]
            elif r < 0.75:
                ks += cnt + ["r", rng.choice(["a", "é", " ", "Esc"])]
            elif r < 0.90:
                ks += cnt + [rng.choice(["i", "a", "I", "A", "s", "S", "C", "R"])]
                insert = True
            elif r < 0.95 and history:
                ks += cnt + [rng.choice(["j", "k", "+", "-", "C-p", "C-n"])]
            else:
                ks.append(rng.choice(["Esc", "C-l", "F5", "~", "Delete", "C-u", "C-w", "C-k", "Cpr1", "Cpr2", "Cpr5", "Unk3"]))
    return ks


HIST_POOL = ["one", "two words", "é日", "a b,c", "multi\nline\nentry", "x", "two words", "  lead"]


def gen_vi_ops(rng, text=None):
    """vi operators with a count before the operator AND before the motion, on a line with enough words"""
    targets = [c for c in (text or "a e") if c != "\n"]
    ks = ["Esc", rng.choice(["0", "0", "$", "3", "w"])]
    if ks[-1] == "3":
        ks.append("w")
    for _ in range(rng.randint(1, 5)):
        c1 = [rng.choice("234")] if rng.random() < 0.6 else []
        c2 = [rng.choice("234")] if rng.random() < 0.6 else []
        if rng.random() < 0.08:
            # counts whose product is beyond the 16-bit repeat count (it saturates)
            c1, c2 = list(rng.choice(["256", "300", "999"])), list(rng.choice(["256", "300", "999"]))
        op = rng.choice(["d", "d", "c", "y", "<", ">"])
        mot = rng.choice(["w", "w", "e", "b", "l", "h", "W", "E", "B", " ", "j", "k", op])
        ks += c1 + [op] + c2
        if rng.random() < 0.3:
            ks += [rng.choice(["f", "t", "F", "T"]), rng.choice(targets)]
        elif rng.random() < 0.08:
            ks += [rng.choice([";", ","])]
        else:
            ks.append(mot)
        if op == "c":
            ks += [rng.choice(["X", "é"]), "Esc"]
        r = rng.random()
        if op == "y" and r < 0.5:
            ks.append(rng.choice(["p", "P"]))
        elif op == "y" and r < 0.8:
            # repeat the yank itself ( . after y<motion> ), with or without a new count, then put what it yanked
            ks += ([rng.choice("23")] if rng.random() < 0.3 else []) + ["."] + ([rng.choice(["p", "P"])] if rng.random() < 0.6 else [])
        elif r < 0.3:
            ks.append(rng.choice(["p", "P", "u", "."]))
        elif r < 0.5:
            ks += [rng.choice(["0", "$", "w", "b"])]
    ks.append("Enter")
    return ks


def cx_esc_cases(rng, count):
    """emacs, NO key sequence timeout: the second key of C-x (and the key read by a search / completion) is read with `a single
    ESC aborts`: a lone ESC that ends a chunk is that key at once, it is not glued to whatever arrives later"""
    cases = []
    for i in range(count):
        pre = list(rand_text(rng, 0, 3, ["a", "b", "é"]))
        sub = [["C-x", "Esc"], ["C-x", "Esc"], ["C-r", "Esc"], ["C-x", "C-g"], ["M-2", "C-x", "Esc"]][i % 5]
        post = rng.choice([["Enter"], ["z", "Enter"], ["C-a", "q", "Enter"], ["C-x", "C-u", "Enter"], ["Backspace", "Enter"]])
        keys = pre + sub + post
        chunks = [key_bytes(k) for k in pre]
        if i % 2:
            chunks.append(b"".join(key_bytes(k) for k in sub))     # prefix and ESC arrive together, nothing behind the ESC
        else:
            chunks += [key_bytes(k) for k in sub]
        chunks += [key_bytes(k) for k in post]
        cases.append(Case(keys, mode="emacs", history=["h1", "old"], timeout="none", prompt="> ", reads=2, chunks=chunks, cols=80, meta={}))
    # the built-in C-x commands (C-x C-u, C-x Backspace, C-x C-g) typed while the application has bound ANOTHER sequence that
    # starts with C-x: the second key is used once, the keys after it act normally
    for i in range(max(4, count // 2)):
        pre = list(rand_text(rng, 1, 3, ["a", "b", "é"]))
        sub = [["C-x", "C-u"], ["C-x", "Backspace"], ["C-x", "C-g"], ["C-x", "C-e"], ["C-x", "C-u", "C-x", "C-e"]][i % 5]
        post = rng.choice([["c", "Enter"], ["Enter"], ["z", "C-x", "C-u", "Enter"]])
        keys = pre + sub + post
        cases.append(Case(keys, mode="emacs", timeout=rng.choice(["none", 0]), prompt="> ", reads=2, chunks=[key_bytes(k) for k in keys],
                          binds=[("C:58,C:45", "insert 71.71")], cols=80, meta={}))
    # circular completion: Shift-Tab while the FIRST candidate is shown (and around the whole cycle)
    for i in range(max(3, count // 3)):
        keys = ["f"] + [["Tab", "BackTab"], ["Tab", "BackTab", "BackTab"], ["Tab", "Tab", "BackTab", "BackTab", "BackTab"]][i % 3] + ["x", "Enter", "Enter"]
        cases.append(Case(keys, mode=["emacs", "vi"][i % 2], timeout=0, prompt="> ", reads=2, chunks=[key_bytes(k) for k in keys],
                          cands=["foo", "fab"], cols=80, meta={}))
    return cases


def c01_cases(tier, seed):
    rng = random.Random(seed * 211 + 17)
    n = 6000 if tier == "thorough" else 320
    cases = []
    words = ["a", "bb", "c,d", "e", "ff", "é日", "g.h", "i", "x_y", "zz"]
    for _ in range(n // 8):
        t = " ".join(rng.choice(words) for _ in range(rng.randint(6, 12)))
        if rng.random() < 0.3:
            t = t.replace(" ", "\n", 2)
        k = rng.randint(0, len(t))
        cases.append(Case(gen_vi_ops(rng, t), mode="vi", initial=(t[:k], t[k:]), timeout=0, prompt="> ",
                          meta={"indent_size": rng.choice([1, 3, 4, 8, 33, 40])} if rng.random() < 0.4 else {}))
    cases += cx_esc_cases(rng, max(6, n // 40))
    # counted Up / Down (k / j / - / +) inside texts of several lines under prompts of several widths, then an edit at the place reached
    cases += line_motion_cases(rng, max(12, n // 20))
    # vi: consecutive kills by character searches in both directions, then a put (backward kills are prepended)
    for i in range(max(6, n // 50)):
        t = rng.choice(["xaybzc", "ab cd ef", "a-b-c-d"])
        tg = [c for c in t if c != " "]
        seq = [["$", "d", "F", rng.choice(tg), "d", "F", rng.choice(tg), "P"], ["0", "w", "d", "w", "d", "F", rng.choice(tg), "P"],
               ["$", "d", "T", rng.choice(tg), "d", ";", "p"], ["0", "d", "f", rng.choice(tg), "d", ",", "P"]][i % 4]
        cases.append(Case(["Esc"] + seq + ["Enter"], mode="vi", initial=(t, ""), timeout=0, prompt="> ", meta={}))
    # a line that is ONE grapheme of several bytes: transpose / case / delete commands that have nothing to do leave no trace
    for i in range(max(6, n // 50)):
        g = rng.choice(["é", "日", "e\u0301", "\U0001F600"])
        cmd = rng.choice([["C-t"], ["M-t"], ["C-t", "C-t"], ["M-u", "C-t"]])
        keys = list(g) + cmd + rng.choice([["C-_"], ["C-_", "C-_"], ["C-x", "C-u"]]) + ["Enter"]
        cases.append(Case(keys, mode="emacs", timeout="none", prompt="> ", meta={}))
    # vi overwrite sessions (R) over characters whose UTF-8 length differs from what is typed, then `.` at another place, undos
    for i in range(max(8, n // 30)):
        t = rng.choice(["éa éa éa", "日x 日x", "ab ab", "a\u0301b a\u0301b"])
        typed = rng.choice([["x", "y"], ["é", "z"], ["日"], ["a", "b", "c"]])
        keys = ["Esc", "0", "R"] + typed + rng.choice([[], ["Right", "q"]]) + ["Esc", rng.choice(["w", "W", "l", "$"]), ".", rng.choice(["u", "0", "."]),
                                                                                 rng.choice(["u", "x"]), "Enter"]
        cases.append(Case(keys, mode="vi", initial=(t, ""), timeout=0, prompt="> ", meta={}))
    # every operator with every character search (to / till, forward / backward), on characters that do occur, then put / undo
    for op in ("d", "y", "c"):
        for cs in ("f", "t", "F", "T"):
            t = rng.choice(["ab cd,ef gh", "x\u00e9y \u65e5z a,b", "one two, three", "a\u0301b c\u0301d e"])
            k = rng.randint(2, len(t) - 2)
            target = rng.choice([c for c in (t[k:] if cs in "ft" else t[:k]) if c != "\n"] or ["a"])
            keys = ["Esc"] + ([rng.choice("23")] if rng.random() < 0.3 else []) + [op, cs, target]
            if op == "c":
                keys += ["Q", "Esc"]
            keys += [rng.choice(["p", "P"]), "u", ".", "Enter"]
            cases.append(Case(keys, mode="vi", initial=(t[:k], t[k:]), timeout=0, prompt="> ", meta={}))
            # the search used as an operator's motion is the one `;` and `,` repeat afterwards (also when a plain search came first)
            keys2 = ["Esc"] + rng.choice([[], ["0", "f", rng.choice([c for c in t if c != "\n"])], ["$", "F", rng.choice([c for c in t if c != "\n"])]])
            keys2 += ([rng.choice("23")] if rng.random() < 0.3 else []) + [op, cs, target]
            if op == "c":
                keys2 += ["Q", "Esc"]
            keys2 += rng.choice([[";", "x"], [",", "x"], [";", ";", "x"], ["d", ";"], ["2", ";", "r", "#"], ["y", ",", "P"]]) + ["Enter"]
            cases.append(Case(keys2, mode="vi", initial=(t[:k], t[k:]), timeout=0, prompt="> ", meta={}))
    # words whose case mappings change the UTF-8 length (dotless i, ligature fi, I with dot, Kelvin sign, sharp s, n with
    # apostrophe, dz digraph) under M-u / M-l / M-c with counts, followed by an insertion at the resulting cursor
    cw = ["\u0131x", "\ufb01ne", "\u0130st", "\u212aelvin", "stra\u00dfe", "\u0149a", "\u01c6b", "ab", "X\u0131", "i\u0307"]
    for _ in range(n // 8):
        t = " ".join(rng.choice(cw) for _ in range(rng.randint(2, 6)))
        k = rng.randint(0, len(t))
        keys = []
        for _ in range(rng.randint(2, 8)):
            r = rng.random()
            if r < 0.3:
                keys.append(rng.choice(["M-b", "M-f", "C-a", "C-e", "C-b", "C-f"]))
            elif r < 0.8:
                if rng.random() < 0.3:
                    keys += rng.choice([["M-2"], ["M-3"], ["M--"], ["M--", "M-2"]])
                keys.append(rng.choice(["M-u", "M-l", "M-c"]))
                if rng.random() < 0.6:
                    keys.append(rng.choice(["X", "\u0131", "C-t", "C-_"]))
            else:
                keys.append(rng.choice(["\ufb01", "\u0130", "a", " "]))
        keys.append("Enter")
        cases.append(Case(keys, mode="emacs", initial=(t[:k], t[k:]), timeout=rng.choice(["none", 0]), prompt="> ", meta={}))
    # per-character commands on text made of clusters of several code points (combining marks, flags, emoji with a
    # modifier or a joiner): one keystroke = one cluster, whatever its number of code points or bytes
    clusters = ["e\u0301", "a\u0308\u0301", "\U0001F1EB\U0001F1F7", "\U0001F44D\U0001F3FD", "\U0001F468\u200D\U0001F469",
                "x", "\u65e5", "\u00e9", " ", "o\u0302"]
    for _ in range(n // 8):
        t = "".join(rng.choice(clusters) for _ in range(rng.randint(3, 9)))
        k = rng.randint(0, len(t))
        mode = rng.choice(["vi", "vi", "emacs"])
        keys = []
        if mode == "vi":
            keys.append("Esc")
            for _ in range(rng.randint(3, 9)):
                cnt = [rng.choice("234")] if rng.random() < 0.35 else []
                r = rng.random()
                if r < 0.3:
                    keys += cnt + [rng.choice(["h", "l", "0", "$", "w", "b", "e"])]
                elif r < 0.6:
                    keys += cnt + ["r", rng.choice(["z", "\u00e9", "\u65e5"])]
                elif r < 0.8:
                    keys += cnt + [rng.choice(["x", "X", "~", ".", "u", "p", "P"])]
                else:
                    keys += cnt + [rng.choice(["s", "i", "a"]), rng.choice(["q", "\u0301"]), "Esc"]
        else:
            for _ in range(rng.randint(3, 9)):
                if rng.random() < 0.3:
                    keys += rng.choice([["M-2"], ["M-3"], ["M--"]])
                keys.append(rng.choice(["C-b", "C-f", "C-d", "Backspace", "C-t", "C-a", "C-e", "M-t", "M-c", "C-_", "q", "\u0301", "C-y"]))
        keys.append("Enter")
        cases.append(Case(keys, mode=mode, initial=(t[:k], t[k:]), timeout=0 if mode == "vi" else rng.choice(["none", 0]),
                          prompt="> ", meta={}))
    for _ in range(n):
        mode = rng.choice(["emacs", "emacs", "vi"])
        hist = [rng.choice(HIST_POOL) for _ in range(rng.choice([0, 0, 1, 2, 3]))]
        ln = rng.randint(6, 40 if tier == "thorough" else 26)
        keys = gen_emacs(rng, ln, bool(hist)) if mode == "emacs" else gen_vi(rng, ln, bool(hist))
        if mode == "vi" and rng.random() < 0.5:
            keys = [k for k in keys]
        keys.append("Enter")
        initial = None
        if rng.random() < 0.25:
            t = "".join(rng.choice(TEXT) for _ in range(rng.randint(1, 8)))
            k = rng.randint(0, len(t))
            initial = (t[:k], t[k:])
        binds = []
        if rng.random() < 0.15:
            binds = [("F5", "upcase"), ("C:58,C:45", "insert 71.71")]     # F5, C-x C-e
        hints = None
        if rng.random() < 0.2:
            # a hinter: the line starts with a text some hint extends (blanks at its end included); Right / End / C-f / C-e
            # complete the hint only with the cursor at the very end
            base = rng.choice(["ab ", "a  ", "git ", "x", "é "])
            hints = [base + "cd ef", base.strip() + "zz"]
            keys = list(base) + [rng.choice(["Left", "C-b", "Left", "M-b", "C-a"]), rng.choice(["Right", "C-f", "Right", "End", "C-e", "M-f"])] + keys
            initial = None
        cases.append(Case(keys, mode=mode, history=hist, initial=initial, timeout=0 if mode == "vi" else rng.choice(["none", 0]),
                          prompt=rng.choice(["> ", "", "日> "]), binds=binds, hints=hints,
                          printer=rng.random() < 0.2,
                          meta=({"tab_stop": rng.choice([1, 2, 4, 16]), "indent_size": rng.choice([1, 4])} if rng.random() < 0.2 else {})))
    return cases


# ---------------------------------------------------------------- feature-biased generators

def rand_text(rng, lo, hi, alphabet=None):
    a = alphabet or TEXT
    return "".join(rng.choice(a) for _ in range(rng.randint(lo, hi)))


def mk_initial(rng, p=0.25, alphabet=None):
    if rng.random() >= p:
        return None
    t = rand_text(rng, 1, 8, alphabet)
    k = rng.randint(0, len(t))
    return (t[:k], t[k:])


def c13_cases(tier, seed):
    """validator: scripted verdict table (## error, !! invalid+msg, ?? invalid, trailing \\ incomplete,
    ok valid+msg) and the shipped bracket validator; Enter / C-j / C-m anywhere in the line"""
    rng = random.Random(seed * 307 + 5)
    n = 4000 if tier == "thorough" else 260
    frag = ["a", "b", " ", "!!", "??", "##", "#@", "\\", "ok", "(", ")", "[", "]", "{", "}", "é", "日", "x", "!", "?", "#", "~~", "~"]
    bad_hist = ["foo(bar", "foo)bar", "a!!b", "x??", "tail\\", "ok go", "y~~z", "plain", "[{"]
    cases = []
    for _ in range(n):
        mode = rng.choice(["emacs", "emacs", "vi"])
        vk = rng.choice(["script", "script", "brackets", "scriptreq", "scriptinc"])
        hist = [rng.choice(bad_hist) for _ in range(rng.choice([0, 0, 2, 3]))]
        keys = []
        if rng.random() < 0.3:
            # Enter on the EMPTY text (the first key of the read, or after the text was deleted again)
            keys += rng.choice([[], ["a", "Backspace"]]) + [rng.choice(["Enter", "C-j", "C-m"])]
        for _ in range(rng.randint(2, 14)):
            r = rng.random()
            if r < 0.10 and hist:
                # Enter (or another key) typed INSIDE a history search / recall: the entry found is validated like any line
                keys += rng.choice([["C-r"] + list(rng.choice(["f", "a", "o", "x", "b", "("])) + [rng.choice(["Enter", "C-j", "Enter", "Right"])],
                                    [rng.choice(["Up", "C-p"])] * rng.randint(1, 2) + [rng.choice(["Enter", "End"])]])
            elif r < 0.55:
                keys += list(rng.choice(frag))
            elif r < 0.75:
                if mode == "vi" and rng.random() < 0.4:
                    keys.append("Esc")          # Enter pressed in vi COMMAND mode asks the validator like any other Enter
                    keys.append(rng.choice(["Enter", "C-j", "C-m", "Enter"]))
                    keys.append(rng.choice(["a", "i", "A"]))
                else:
                    keys.append(rng.choice(["Enter", "C-j", "C-m", "Enter"]))
            elif r < 0.9:
                keys.append(rng.choice(["Left", "Home", "Backspace", "C-a", "End", "Right", "Up"] if mode == "emacs"
                                       else ["Left", "Home", "Backspace", "End", "Right"]))
            else:
                keys.append(rng.choice(["C-_", "C-k", "C-u"]) if mode == "emacs" else "Backspace")
        binds = []
        if rng.random() < 0.2:
            # a key bound to accept-or-insert-line that accepts only at the END of the input (nothing but blanks of any kind
            # after the cursor) and inserts a line break elsewhere
            binds = [("F6", "acceptend")]
            keys += list(rng.choice(["a", "b)", "ok"])) + [rng.choice([" ", "\u3000", "\u00a0", "\u2003", " "])] * rng.randint(1, 2)
            keys += ["Left"] * rng.randint(0, 3) + ["F6"]
        if mode == "vi" and rng.random() < 0.3:
            keys.append("Esc")
        keys.append("Enter")
        reads = rng.choice([1, 1, 2])
        if reads == 2:
            keys += list(rand_text(rng, 0, 4, ["a", "(", ")", "!"])) + ["Enter"]
        hints = ["ok then"] if rng.random() < 0.2 else None
        cases.append(Case(keys, mode=mode, validator=vk, reads=reads, hints=hints, initial=mk_initial(rng, 0.15, frag[:8]), binds=binds,
                          history=hist, timeout=0 if mode == "vi" else "none", prompt=rng.choice(["> ", ""]),
                          cols=rng.choice([80, 80, 20])))
    return cases


CAND_POOL = ["foo", "foobar", "foo bar", "fo", "f", "food", "é", "éa", "日本", "ba", "bar", "baz", "", "x y", "abc", "abd",
             "日月", "日本語", "\U0001F600a", "\U0001F601b"]      # (candidates that part INSIDE a 3- or 4-byte character)


# candidates about as wide as (or wider than) a narrow window: the listing's column arithmetic
WIDE_CANDS = ["foo_" + "x" * 28, "foo_" + "y" * 15, "b" * 19, "\u65e5" * 10, "fo" + "\u00e9" * 27, "a" * 11, "foo_" + "z" * 29]


def c14_ending_case(rng, i):
    """the key that ENDS a completion is itself a command that reads more keys (incremental search, quoted insert, C-x pair,
    numeric argument, character search): it is carried out as if typed outside; and a search ended by Tab starts a completion"""
    ct = ["circular", "list"][i % 2]
    ending = [["C-r", "c", "Enter"], ["C-r", "a", "C-r", "Right", "!"], ["C-s", "C-g", "z"], ["C-v", "C-a"], ["C-x", "C-u"], ["M-2", "x"],
              ["C-]", "f"], ["C-r", "Tab", "Tab"], ["C-r", "f", "Tab"], ["M-2", "C-r", "o"],
              # an abort while a candidate is shown (or the original has come round again), then undos: the aborted episode
              # is not in the undo list
              ["C-g", "C-_"], ["C-g", "C-_", "C-_"], ["C-g", "x", "C-_", "C-_"], ["C-g", "M-3", "C-_"],
              # the key ending the completion is a yank-pop / a kill: what it does depends on the command BEFORE the Tab
              ["M-y"], ["C-k", "C-y"]][i // 2 % 16]
    typed = rng.choice(["ls fo", "fo", "cd  f", "b"])
    tabs = ["Tab"] * rng.randint(1, 3)
    if ending in (["M-y"], ["C-k", "C-y"]):
        typed = rng.choice(["zz fo", "q fo"])
        return Case(list(typed) + ["C-w", "C-y"] + tabs + ending + ["Enter", "Enter"], mode="emacs", completion=ct,
                    cands=["foo", "foobar", "food"], history=["foo a"], timeout="none", prompt="> ", cols=80)
    return Case(list(typed) + tabs + ending + ["Enter", "Enter"], mode="emacs", completion=ct, cands=["foo", "foobar", "food", "bar", "baz"],
                history=["cargo build", "foo a", "echo fa"], timeout="none", prompt="> ", cols=80)


def c14_cases(tier, seed):
    rng = random.Random(seed * 401 + 9)
    n = 4000 if tier == "thorough" else 260
    cases = []
    # list mode over candidates that part INSIDE a character of 3 or 4 bytes after sharing two or three of its bytes: the common
    # prefix is cut back to a character boundary (more than one byte back)
    for i, cands in enumerate([["日本語", "日月"], ["東京都", "東京郊外"], ["\U0001F600a", "\U0001F601b"], ["é日本", "é日月x", "é日"],
                               ["x\U0001F600", "x\U0001F680"]]):
        for mode in ("emacs", "vi"):
            cases.append(Case([cands[0][0], "Tab", rng.choice(["Tab", "x", "C-g"]), "Enter"], mode=mode, completion="list", cands=cands,
                              timeout=0 if mode == "vi" else "none", prompt="> ", cols=80))
    for _ in range(n):
        mode = rng.choice(["emacs", "emacs", "vi"])
        ct = rng.choice(["circular", "circular", "list"])
        cands = rng.sample(CAND_POOL, rng.choice([0, 1, 2, 3, 4, 5]))
        r0 = rng.random()
        if r0 < 0.08:
            cands = ["c%02d" % i for i in range(rng.choice([101, 105]))]     # above the prompt limit
        elif r0 < 0.33:
            # unfiltered script: candidates that do not extend the word (shorter, unrelated, empty)
            cands = ["*"] + rng.sample(CAND_POOL + ["w", "ab c"], rng.choice([1, 2, 2, 3, 4]))
        wide = False
        if cands and cands[0] != "*" and len(cands) < 50 and rng.random() < 0.15:
            cands = cands + rng.sample(WIDE_CANDS, rng.choice([1, 2]))
            wide = True
        keys = []
        for _ in range(rng.randint(2, 12)):
            r = rng.random()
            if r < 0.35:
                keys.append(rng.choice(["f", "o", "b", "a", " ", "é", "x", "日"]))
            elif r < 0.65:
                keys.append(rng.choice(["Tab", "Tab", "Tab", "BackTab", "C-i"]))
            elif r < 0.75:
                keys.append(rng.choice(["Esc", "C-g", "M-\x07"]) if mode == "emacs" else rng.choice(["C-g", "Esc"]))   # (M-C-g: readline's third abort key)
            elif r < 0.85:
                keys.append(rng.choice(["C-_", "Left", "Home", "C-a", "Backspace", "C-w"]) if mode == "emacs"
                            else rng.choice(["Left", "Backspace", "Home"]))
            elif r < 0.92:
                keys.append(rng.choice(["y", "n", " ", "q"]))
            else:
                keys.append(rng.choice(["M-2", "M--"]) if mode == "emacs" else "Right")
                if mode == "emacs":
                    keys.append("Tab")
        keys.append("Enter")
        if rng.random() < 0.5:
            cases.append(c14_ending_case(rng, len(cases)))
        cases.append(Case(keys, mode=mode, completion=ct, cands=cands, initial=mk_initial(rng, 0.3, ["f", "o", " ", "b", "a", "é"]),
                          timeout=0 if mode == "vi" else rng.choice(["none", 0]), prompt=rng.choice(["> ", "日> "]),
                          cols=rng.choice([20, 12, 32, 33, 34]) if wide else rng.choice([80, 80, 30]),
                          meta=dict(({"prompt_limit": rng.choice([0, 1, 2, 3])} if rng.random() < 0.25 else {}),
                                    **({"show_all": 1} if ct == "list" and rng.random() < 0.3 else {}),
                                    **({"bell": 0} if rng.random() < 0.2 else {}))))
    return cases


def c08_cases(tier, seed):
    rng = random.Random(seed * 503 + 3)
    n = 4000 if tier == "thorough" else 260
    pool = ["abc", "xabcx", "ab", "b", "é日", "日é日", "a b,c", "foo(bar)", "ab\ncd", "zzz", "abab", "(x)", "ABC", " lead", "x"]
    cases = []
    # a kill or a yank as the command right BEFORE the search, a kill / yank / yank-pop as the command that ENDS it: the search
    # comes between them (no accumulation, no yank-pop), whether it found something, failed, or was aborted in between
    for i in range(max(12, n // 16)):
        hist = rng.sample(["hello world", "abc", "xabcx", "é日 w"], rng.randint(1, 3))
        before = [["x", "y", "z", "C-u"], ["x", "y", "C-u", "C-y"], ["b", "a", "r", "C-a", "C-k"], ["q", " ", "r", "M-Backspace"],
                  ["a", "b", "C-w", "C-y", "C-y"]][i % 5]
        inside = rng.choice([["w"], ["a", "b"], [], ["z", "z"], ["b", "C-r"], ["w", "Backspace"]])
        ending = [["M-y"], ["C-k", "C-y"], ["C-u", "C-y"], ["C-w", "C-y"], ["M-d", "C-y"], ["C-y", "M-y"], ["C-g", "M-y"], ["C-g", "C-k", "C-y"]][i % 8]
        cases.append(Case(before + ["C-r"] + inside + ending + ["Enter"], mode="emacs", history=hist, timeout="none", prompt="> ", cols=80))
    for _ in range(n):
        mode = rng.choice(["emacs", "emacs", "emacs", "vi"])
        hist = [rng.choice(pool) for _ in range(rng.choice([0, 1, 2, 3, 4, 6]))]
        meta = {}
        if rng.random() < 0.25:
            # more entries than the history holds: the ring buffer has wrapped when the search walks it
            meta["max_hist"] = rng.choice([2, 3, 4, 5])
            hist = [rng.choice(pool) + rng.choice(["", "1", "2", "b"]) for _ in range(meta["max_hist"] + rng.randint(1, 6))]
        keys = list(rand_text(rng, 0, 3, ["a", "b", "q"]))
        for _ in range(rng.randint(1, 4)):
            if rng.random() < 0.35:
                # the search starts while an older entry is being browsed: it still starts from the newest entry
                keys += [rng.choice(["Up", "C-p"])] * rng.randint(1, 3) + ([rng.choice(["Down", "C-n"])] if rng.random() < 0.3 else [])
            keys.append(rng.choice(["C-r", "C-r", "C-s"]))
            for _ in range(rng.randint(0, 8)):
                r = rng.random()
                if r < 0.45:
                    keys.append(rng.choice(["a", "b", "c", "x", "é", "日", "(", " ", "z", ","]))
                elif r < 0.66:
                    keys.append(rng.choice(["C-r", "C-r", "C-s"]))
                elif r < 0.70:
                    # a numeric argument (negative too) typed inside the search, then the search key: the direction is the key's
                    keys += [rng.choice(["M--", "M-2", "M--"]), rng.choice(["C-r", "C-s"])]
                elif r < 0.82:
                    keys.append(rng.choice(["Backspace", "C-h"]))
                elif r < 0.90:
                    keys.append(rng.choice(["C-g", "Esc"]))
                    break
                else:
                    k2 = rng.choice(["Left", "C-a", "C-k", "Up", "C-_", "M-b", "C-e", "Down", "C-t", "Tab", "F5", "C-v", "C-q", "C-v"])
                    keys.append(k2)
                    if k2 in ("C-v", "C-q"):
                        keys.append(rng.choice(["q", "C-a", "é", "Tab"]))     # quoted insert ends the search and is then carried out
                    break
            keys += list(rand_text(rng, 0, 2, ["a", "Z"]))
            if rng.random() < 0.3:
                keys.append(rng.choice(["C-_", "C-_", "Up", "Down"]))
        keys.append("Enter")
        cases.append(Case(keys, mode=mode, history=hist, initial=mk_initial(rng, 0.3, ["a", "b", " ", "é"]),
                          timeout=0 if mode == "vi" else rng.choice(["none", 0]), prompt=rng.choice(["> ", ""]),
                          cols=rng.choice([80, 80, 24]), meta=meta))
    return cases


def line_motion_cases(rng, count):
    """Up / Down with a count inside a text of several lines: the target column on the FIRST line allows for the prompt"""
    cases = []
    for _ in range(count):
        lines = [rand_text(rng, 0, 7, ["a", "b", "c", "d", " ", "é"]) for _ in range(rng.randint(3, 5))]
        t = "\n".join(lines)
        k = len(t) - rng.randint(0, len(lines[-1]))
        mode = rng.choice(["emacs", "vi"])
        cnt = rng.choice([2, 2, 3, 4, 9])
        if mode == "emacs":
            keys = ["M-%d" % cnt, rng.choice(["Up", "Up", "Down"]), "X", "M-%d" % rng.choice([2, 3]), rng.choice(["Down", "Up"]), "Y", "Enter"]
        else:
            keys = ["Esc", str(cnt), rng.choice(["k", "k", "-", "j"]), "i", "X", "Esc", str(rng.choice([2, 3])), rng.choice(["j", "k", "+"]), "i", "Y", "Enter"]
        cases.append(Case(keys, mode=mode, history=["h1", "h2"], initial=(t[:k], t[k:]), timeout=0 if mode == "vi" else rng.choice(["none", 0]),
                          prompt=rng.choice(["> ", "日> ", "prompt> ", ""]), cols=80))
    # counted moves whose last steps reach (or are clamped at) an EMPTY first / last line, from every line of the text
    for i in range(max(4, count // 4)):
        body = [rand_text(rng, 0 if i % 3 == 0 else 1, 5, ["a", "b", " ", "é"]) for _ in range(rng.randint(2, 4))]
        lines = body + [""] if i % 2 == 0 else [""] + body + ([""] if i % 4 == 1 else [])
        t = "\n".join(lines)
        up = i % 2 == 1
        # at least two lines away from the edge line the counted move ends on
        line = (len(lines) - 1 - i // 2 % (len(lines) - 2)) if up else i // 2 % (len(lines) - 2)
        start = sum(len(x) + 1 for x in lines[:line])
        k = start + rng.randint(0, len(lines[line]))
        exact = line if up else len(lines) - 1 - line
        cnt = [exact, exact, exact + 3, 9][i // 4 % 4]
        mode = "emacs" if i % 3 else "vi"
        if mode == "emacs":
            keys = ["M-%d" % cnt, "Up" if up else "Down", "X", "M-%d" % rng.choice([2, 3, 4]), "Down" if up else "Up", "Y", "Enter"]
        else:
            keys = ["Esc", str(cnt), rng.choice(["k", "-"]) if up else rng.choice(["j", "+"]), "i", "X", "Esc", str(rng.choice([2, 3, 4])),
                    rng.choice(["j", "+"]) if up else rng.choice(["k", "-"]), "i", "Y", "Enter"]
        cases.append(Case(keys, mode=mode, history=["h1"], initial=(t[:k], t[k:]), timeout=0 if mode == "vi" else "none",
                          prompt=rng.choice(["> ", "日> ", ""]), cols=80))
    return cases


def c07_cases(tier, seed):
    rng = random.Random(seed * 601 + 11)
    n = 4000 if tier == "thorough" else 260
    pool = ["one", "two words", "é日", "a b,c", "l1\nl2\nl3", "x", "ab\ncd", "  lead", "tail\n", "\nhead", "w" * 30, "q"]
    cases = []
    cases += line_motion_cases(rng, max(8, n // 20))
    # a sub-loop (incremental search, circular completion, aborted or accepted) entered WHILE browsing: the line being typed
    # must still come back below the newest entry
    for i in range(max(12, n // 20)):
        hist = rng.sample(["one", "two one", "onto", "none", "é日 on"], rng.randint(2, 4))
        typed = rng.choice(["", "ty", "t é", "on"])
        ups = rng.randint(1, len(hist))
        sub = [["C-r", "o", "C-g"], ["C-r", "C-g"], ["C-r", "o", "n", "C-r", "C-g"], ["C-s", "n", "C-g"], ["C-r", "o", "Right"],
               ["Tab", "C-g"], ["Tab", "Tab", "C-g"], ["Tab", "Tab", "Tab", "Esc"], ["Tab", "x"]][i % 9]
        downs = rng.choice([["Down"] * (ups + 1), ["M->"], ["C-n"] * ups, ["Down"] * ups + ["Up", "Down", "Down"]])
        keys = list(typed) + ["Up"] * ups + sub + downs + rng.choice([[], ["z"], ["C-_"]]) + ["Enter"]
        cases.append(Case(keys, mode="emacs", history=hist, cands=["one", "onto", "on2"] if sub[0] == "Tab" else None,
                          timeout=0 if "Esc" in sub else "none", prompt="> ", cols=80))
    for _ in range(n):
        mode = rng.choice(["emacs", "emacs", "vi"])
        hist = [rng.choice(pool) for _ in range(rng.choice([0, 1, 2, 3, 5]))]
        keys = []
        insert = True
        for _ in range(rng.randint(3, 22)):
            r = rng.random()
            if mode == "emacs":
                if r < 0.5:
                    keys.append(rng.choice(EMACS_HIST + ["Up", "Down", "Up", "Down"]))
                elif r < 0.7:
                    keys.append(rng.choice(TEXT[:8]))
                elif r < 0.8:
                    keys += ["C-v", "C-j"]
                elif r < 0.9:
                    keys.append(rng.choice(["C-a", "C-e", "Left", "Right", "C-k", "Backspace", "C-_", "M-b"]))
                else:
                    keys += ["M-" + rng.choice("23"), rng.choice(["Up", "Down", "C-p", "C-n"])]
            else:
                if insert:
                    if r < 0.4:
                        keys.append(rng.choice(TEXT[:8]))
                    elif r < 0.55:
                        keys.append(rng.choice(["Up", "Down"]))
                    elif r < 0.65:
                        keys += ["C-v", "C-j"]
                    else:
                        keys.append("Esc")
                        insert = False
                else:
                    if r < 0.6:
                        keys += ([rng.choice("23")] if rng.random() < 0.25 else []) + [rng.choice(["j", "k", "+", "-", "C-p", "C-n", "Up", "Down"])]
                    elif r < 0.75:
                        keys.append(rng.choice(["h", "l", "0", "$", "x", "u", "w"]))
                    else:
                        keys.append(rng.choice(["i", "a", "A"]))
                        insert = True
        keys.append("Enter")
        cases.append(Case(keys, mode=mode, history=hist, initial=mk_initial(rng, 0.3, ["a", "b", "\n", "é", " "]),
                          timeout=0 if mode == "vi" else rng.choice(["none", 0]), prompt=rng.choice(["> ", "", "日> "]),
                          cols=rng.choice([80, 80, 12])))
    return cases


def gen_vi_replace(rng):
    """vi overwrite sessions (R) over characters of different UTF-8 lengths, with cursor moves inside the
    session, then undo"""
    ks = ["Esc", "0"] + ["l"] * rng.randint(0, 3)
    for _ in range(rng.randint(1, 3)):
        ks.append("R")
        for _ in range(rng.randint(1, 6)):
            r = rng.random()
            ks.append(rng.choice(["e", "X", "é", "日", "a"]) if r < 0.7 else rng.choice(["Right", "Left", "Right"]))
        ks.append("Esc")
        ks += rng.choice([["u"], ["u", "u"], [], ["u", "l"], ["2", "u"]])
    ks += rng.choice([[], ["u"], ["u", "u", "u"]])
    ks.append("Enter")
    return ks


def gen_vi_alt(rng, n, cands=False):
    """vi with NO key-sequence timeout: ESC is a prefix, so Alt-<char> in insert mode runs a vi command (and leaves insert
    mode) -- also inside an incremental search or a completion. No lone Esc is generated (it would fuse with the next key)."""
    ks, insert = [], True
    search_keys = ["o", "n", "e", "t", "a", "C-r", "C-s", "Backspace", "M-X", "M-x", "M-l", "M-u", "w"]
    while len(ks) < n:
        r = rng.random()
        if insert:
            if r < 0.40:
                ks.append(rng.choice(["a", "b", "o", "n", " ", "é", "1", ","]))
            elif r < 0.50:
                ks.append(rng.choice(["Backspace", "C-h", "C-w", "C-u", "Left", "Right"]))
            elif r < 0.68:
                ks.append("C-r")
                ks += [rng.choice(search_keys) for _ in range(rng.randint(0, 5))]
                ks.append(rng.choice(["C-g", "M-X", "M-u", "Left", "C-g", "M-x"]))
                insert = False if ks[-1].startswith("M-") else insert
                # an Alt key inside the search switched to command mode: C-g there aborts, C-r there searches again
                if any(k.startswith("M-") for k in ks[-7:]):
                    insert = False
            elif r < 0.76 and cands:
                ks += ["Tab"] * rng.randint(1, 3) + [rng.choice(["M-u", "M-x", "C-g", "a", "M-X"])]
                if ks[-1].startswith("M-"):
                    insert = False
            else:
                c = rng.choice("xXhlbw0$.pPuiaAIu")
                ks.append("M-" + c)
                insert = c in "iaAI"
        else:
            if r < 0.30:
                ks.append(rng.choice(["u", "u", "2", "."]))
                if ks[-1] == "2":
                    ks.append("u")
            elif r < 0.50:
                ks.append(rng.choice(["h", "l", "0", "$", "w", "b"]))
            elif r < 0.62:
                ks.append(rng.choice(["x", "X", "D", "p", "P"]))
            elif r < 0.82:
                ks.append(rng.choice(["i", "a", "A", "I"]))
                insert = True
            elif r < 0.92:
                ks.append("C-r")              # sets insert mode, then searches
                insert = True
                ks += [rng.choice(search_keys) for _ in range(rng.randint(0, 4))]
                if any(k.startswith("M-") for k in ks[-4:]):
                    insert = False
                ks.append(rng.choice(["C-g", "Left", "M-X"]))
                if ks[-1].startswith("M-"):
                    insert = False
            else:
                ks.append("C-g")
    return ks


def c05_cases(tier, seed):
    """undo-biased scripts: C-_ / C-x C-u / vi u at every kind of position, with counts; searches and
    completions started and aborted or accepted in between"""
    rng = random.Random(seed * 701 + 13)
    n = 4000 if tier == "thorough" else 260
    cases = []
    for _ in range(n // 8):
        t = "".join(rng.choice(["a", "b", "é", "日", "c", " ", "ü"]) for _ in range(rng.randint(3, 9)))
        cases.append(Case(gen_vi_replace(rng), mode="vi", initial=(t, ""), timeout=0, prompt="> "))
    for _ in range(n // 5):
        hist = [rng.choice(["one", "a", "an", "note", "b", "é1", "o"]) for _ in range(rng.choice([1, 2, 3]))]
        cands = rng.sample(["one", "on", "a", "ab", "b", "note"], rng.choice([0, 2, 3])) or None
        keys = gen_vi_alt(rng, rng.randint(6, 28), bool(cands))
        keys += [rng.choice(["M-u", "M-u", "M-x", "Left"])] + ["u"] * rng.randint(0, 4) if rng.random() < 0.7 else []
        keys.append("Enter")
        cases.append(Case(keys, mode="vi", history=hist, cands=cands, initial=mk_initial(rng, 0.3, ["a", "b", "o", " "]),
                          completion=rng.choice(["circular", "list"]), timeout="none", prompt="> "))
    # vi: separate replace-char / overwrite / x commands on NEIGHBOURING characters with only motions in between, then undos: each
    # command is its own undo unit
    for i in range(max(8, n // 20)):
        t = rng.choice(["abcdef", "aébc日d", "ab cd ef"])
        cmd = lambda: rng.choice([["r", rng.choice("-+é")], ["r", rng.choice("-+é")], [rng.choice("23"), "r", "x"], ["x"], ["~"], ["R", "z", "Esc"]])
        keys = ["Esc", "0"] + ["l"] * rng.randint(0, 2)
        for _ in range(rng.randint(2, 4)):
            keys += cmd() + rng.choice([["l"], ["l"], [], ["h"], ["l", "l"]])
        keys += rng.choice([["u"], ["u", "u"], ["u", "u", "u"], ["C-_"], ["u", "l", "u"]]) + ["Enter"]
        cases.append(Case(keys, mode="vi", initial=(t, ""), timeout=0, prompt="> "))
    # a line that is ONE grapheme of several bytes, a transpose that has nothing to transpose, then undo: back to the empty line
    for i in range(max(6, n // 40)):
        g = rng.choice(["é", "日", "e\u0301", "\U0001F600"])
        keys = list(g) + rng.choice([["C-t"], ["C-t", "C-t"], ["M-t"]]) + ["C-_"] * rng.randint(1, 2) + ["Enter"]
        cases.append(Case(keys, mode="emacs", timeout="none", prompt="> "))
    # vi: a change (c + motion, C, s, S) made once by hand, then REPEATED with `.` elsewhere, then undos: the repeated change is one
    # undo unit like the first
    for i in range(max(8, n // 25)):
        t = rng.choice(["hello world again", "a b c d", "é日 x yz w"])
        chg = [["c", "w"], ["c", "e"], ["C"], ["s"], ["c", "l"], ["2", "s"], ["c", "b"]][i % 7]
        nu = rng.randint(1, 4)
        keys = ["Esc", "0"] + chg + list(rng.choice(["foo", "é", "Q"])) + ["Esc", rng.choice(["w", "W", "l"]), "."] + ["u"] * nu + ["Enter"]
        # (undo_tail: the script ends with that many single-key undos in command mode, then Enter -- what C05's oracle looks at)
        cases.append(Case(keys, mode="vi", initial=(t, ""), timeout=0, prompt="> ", meta={"undo_tail": nu}))
    # vi: an insert session whose FIRST action, before any character is typed, is itself a grouped command (transpose, history
    # move, completion, search): a group opened right inside a still-empty group; then Esc and undos
    for i in range(max(10, n // 20)):
        typed = rng.choice(["echo", "ab cd", "é日x"])
        first = [["C-t"], ["Up"], ["Up", "Down"], ["Tab"], ["Tab", "Tab", "x"], ["C-r", "l", "C-g"], ["C-r", "l", "Right"], ["C-w"], ["C-y"]][i % 9]
        keys = list(typed) + ["Esc", rng.choice(["A", "a", "i", "I"])] + first + rng.choice([[], ["z"]]) + ["Esc"] + ["u"] * rng.randint(1, 3) + ["Enter"]
        cases.append(Case(keys, mode="vi", history=["ls -l", "old"], cands=["echo", "echoes", "é日xy"] if "Tab" in first else None,
                          timeout=0, prompt="> "))
    # a word / line kill, then only cursor motions, then ONE character deleted at every small distance from where the kill was made
    # (before it, after it), then undos: the single deletion is its own step, the killed text comes back where it was
    combos = [(kill, k, mv, dl) for kill in ("M-d", "C-k", "C-w", "M-Backspace", "C-u") for k in range(0, 6)
              for mv in ("Left", "Right") for dl in ("C-d", "Backspace")]
    for i, (kill, k, mv, dl) in enumerate(combos):
        if tier != "thorough" and i % 3 != seed % 3:
            continue
        ini = [("abcdef ", "ghi jkl"), ("ab cdefg", "hi jklmn"), ("xé日abc ", "défg hi")][i % 3]
        keys = [kill] + [mv] * k + [dl] + ["C-_"] * (1 + i % 3) + ["Enter"]
        cases.append(Case(keys, mode="emacs", initial=ini, timeout="none", prompt="> "))
    # a sub-loop (search / completion) that showed SHORTER texts and was aborted or accepted, then more undos than it made changes
    for i in range(max(8, n // 20)):
        typed = rng.choice(["abcdef", "long text", "日本語 text", "on a b c d"])
        hist = rng.sample(["ls", "a", "e", "t x", "日", "on"], 3)
        sub = [[rng.choice(["C-r", "C-s"])] + list(rng.choice(["l", "a", "e", "t", "日", "t x", "ls"])) + rng.choice([[], ["C-r"], ["Backspace"]]),
               ["C-a", "Right", "Right", "Tab"] + ["Tab"] * rng.randint(0, 2)][i % 2]
        end = rng.choice([["C-g"], ["Esc"], ["Left"], ["C-g"]])
        undo = rng.choice([["C-_"] * rng.randint(1, 5), ["M-3", "C-_"], ["M-9", "C-_"], ["C-x", "C-u", "C-_", "C-_"]])
        cases.append(Case(list(typed) + sub + end + undo + ["Enter"], mode="emacs", history=hist, cands=["on", "o", "onward"] if i % 2 else None,
                          timeout=0, prompt="> "))
    for _ in range(n):
        mode = rng.choice(["emacs", "emacs", "vi"])
        hist = [rng.choice(HIST_POOL) for _ in range(rng.choice([0, 1, 2, 3]))]
        cands = rng.sample(CAND_POOL, rng.choice([0, 2, 3])) or None
        if cands and rng.random() < 0.3:
            cands = ["*"] + cands             # unfiltered script: candidates offered whatever the word is
        ln = rng.randint(5, 30)
        base = gen_emacs(rng, ln, bool(hist), extra=("Tab", "C-r", "C-g", "Esc")) if mode == "emacs" else gen_vi(rng, ln, bool(hist))
        keys = []
        for k in base:
            keys.append(k)
            if rng.random() < 0.22:
                if mode == "emacs":
                    keys += rng.choice([["C-_"], ["C-_"], ["C-x", "C-u"], ["M-2", "C-_"], ["C-_", "C-_"]])
                else:
                    keys += rng.choice([["Esc", "u"], ["Esc", "u", "u"], ["Esc", "2", "u"], ["Esc", "u", "i"],
                                        # undo asked for INSIDE an insert session opened from command mode (its group still open)
                                        ["Esc", "a", "x", "C-_"], ["Esc", "i", "y", "C-_", "C-_"], ["Esc", "A", "z", "C-_", "C-_", "C-_"],
                                        ["C-_"], ["C-_", "C-_"]])
        keys += ["C-_"] * rng.randint(0, 6) if mode == "emacs" else ["Esc"] + ["u"] * rng.randint(0, 6)
        keys.append("Enter")
        cases.append(Case(keys, mode=mode, history=hist, cands=cands, initial=mk_initial(rng, 0.3),
                          completion=rng.choice(["circular", "list"]),
                          timeout=0 if mode == "vi" else rng.choice(["none", 0]), prompt="> "))
    return cases


def c06_cases(tier, seed):
    rng = random.Random(seed * 809 + 7)
    n = 4000 if tier == "thorough" else 260
    cases = []
    EK = ["C-k", "C-u", "C-w", "M-d", "M-Backspace", "C-k", "C-w"]
    # vi: consecutive kills by character searches in both directions (d f / d F / d t / d T / d ; / d ,), a change-type kill right
    # after another kill, then puts: forward kills append, backward kills prepend, whatever the operator
    for i in range(max(10, n // 20)):
        t = rng.choice(["abc def ghi", "abc déf ghi", "a-b-c-d-e", "one two three"])
        target = rng.choice([c for c in t if c not in " "])
        seq = [["$", "d", "F", target, "d", "F", rng.choice(t), "P"], ["0", "d", "f", target, "d", "f", rng.choice(t), "p"],
               ["$", "d", "T", target, "d", ";", "P"], ["0", "d", "t", target, "d", ",", "P"],
               ["0", "d", "w", "c", "w", "Esc", "P"], ["$", "d", "b", "c", "b", "Esc", "p"], ["0", "d", "w", ".", "C", "Esc", "P"],
               ["$", "d", "F", target, "c", "F", rng.choice(t), "Esc", "P"]][i % 8]
        cases.append(Case(["Esc"] + seq + ["Enter"], mode="vi", initial=(t, ""), timeout=0, prompt="> "))
    # vi: a kill that removes NOTHING (d T c / y T c with the cursor right after c) in front of, between and after real kills,
    # also as the very first kill of the read, then puts
    for i in range(max(6, n // 40)):
        t = "foo bar xbaz"
        empty = [["f", "x", "l", "d", "T", "x"], ["f", "x", "l", "y", "T", "x"], ["f", "x", "l", "c", "T", "x", "Esc"]][i % 3]
        seq = [["0", "d", "w"] + empty + ["D", "P"], ["0"] + empty + ["D", "P"], ["0"] + empty + ["d", "d", "P"],
               ["0", "d", "w"] + empty + ["0", "d", "w", "P", "0", "p"]][i % 4]
        cases.append(Case(["Esc"] + seq + ["Enter"], mode="vi", initial=(t, ""), timeout=0, prompt="> "))
    # emacs: a kill / a yank, then a completion or a search, then the command that depends on what came before
    for i in range(max(6, n // 40)):
        keys = [["h", "e", "C-w", "C-y", "Tab", "M-y"], ["h", "e", " ", "x", "C-w", "C-w", "C-y", "Tab", "Tab", "M-y"],
                ["a", "b", "C-u", "Tab", "C-k", "C-y"], ["h", "e", "C-k", "Tab", "C-g", "C-w", "C-y"]][i % 4] + ["Enter"]
        cases.append(Case(keys, mode="emacs", cands=["hello", "help", "abc"], timeout="none", prompt="> "))
    for _ in range(n):
        mode = rng.choice(["emacs", "emacs", "emacs", "vi"])
        keys = list(rand_text(rng, 3, 14, ["a", "b", " ", " ", ",", "é", "日", "x", "(", "_"]))
        insert = True
        for _ in range(rng.randint(4, 24)):
            r = rng.random()
            if mode == "emacs":
                if r < 0.35:
                    keys.append(rng.choice(EK))
                elif r < 0.5:
                    keys += rng.choice([["C-y"], ["C-y", "M-y"], ["C-y", "M-y", "M-y"], ["M-y"], ["M-2", "C-y"], ["M-3", "C-y", "M-y"]])
                elif r < 0.6:
                    if rng.random() < 0.4:
                        keys.append(rng.choice(["M-2", "M-3", "M--"]))      # a counted character delete is still no kill
                    keys.append(rng.choice(["C-d", "Backspace", "C-h", "Delete"]))
                elif r < 0.68:
                    # commands the main loop handles itself (quoted insert, a search that is aborted or finds nothing)
                    keys += rng.choice([["C-v", "x"], ["C-q", "é"], ["C-r", "C-g"], ["C-r", "q", "C-g"], ["C-r", "o", "C-g"], ["C-s", "C-g"],
                                        ["Unk1"], ["Unk2"], ["Unk3"], ["Unk4"], ["Unk1"], ["Unk3"]])
                elif r < 0.75:
                    keys.append(rng.choice(EMACS_MOVES))
                elif r < 0.9:
                    keys.append(rng.choice(["a", "b", " ", ",", "é"]))
                else:
                    keys += [rng.choice(["M-2", "M--", "M-3"]), rng.choice(EK)]
            else:
                if insert:
                    if r < 0.4:
                        keys.append(rng.choice(["a", " ", ",", "é"]))
                    elif r < 0.6:
                        keys.append(rng.choice(["C-w", "C-u", "C-k", "C-y"]))
                    else:
                        keys.append("Esc")
                        insert = False
                else:
                    if r < 0.4:
                        op = rng.choice(["d", "d", "c", "y"])
                        keys += ([rng.choice("23")] if rng.random() < 0.2 else []) + [op, rng.choice(["w", "b", "e", "$", "0", "h", "l", op, "W", "B", "^", "j", "k", "+", "-"])]
                        insert = op == "c"
                        if op != "c" and rng.random() < 0.3:
                            keys += [rng.choice(["x", "X", "x"]), rng.choice(["p", "P"])]
                    elif r < 0.6:
                        if rng.random() < 0.3:
                            keys.append(rng.choice("23"))
                        keys.append(rng.choice(["p", "P", "p", "P", "x", "X", "D"]))
                    elif r < 0.8:
                        keys.append(rng.choice(["h", "l", "w", "b", "0", "$"]))
                    else:
                        keys.append(rng.choice(["i", "a", "C"]))
                        insert = True
        keys.append("Enter")
        reads = rng.choice([1, 1, 2])
        if reads == 2:
            keys += rng.choice([["C-y"], ["C-y", "M-y"], ["a", "C-k", "C-y"]]) + ["Enter"] if mode == "emacs" else ["Esc", "p", "Enter"]
        binds = []
        if rng.random() < 0.3:
            # commands that do not end a kill / yank run, reachable in BOTH modes only through custom bindings:
            # yank-pop, yank, Replace(EndOfLine / WholeLine, text), Kill(WholeLine), Noop
            binds = [("F5", "yankpop"), ("F6", "yank"), ("PageUp", rng.choice(["replaceeol 78", "replacewl 79.e9"])),
                     ("PageDown", rng.choice(["killwl", "noop"])), ("C:58,C:45", "yank0")]      # C-x C-e: Yank with count 0
            extra = [rng.choice(["F6", "F6", "F5", "PageUp", "PageDown", "p" if mode == "vi" else "C-y", "P" if mode == "vi" else "C-y",
                                 "C-x C-e" if mode == "emacs" else "F5"])
                     for _ in range(rng.randint(2, 8))]
            extra = [x for k in extra for x in k.split(" ")]
            cut = [i for i, k in enumerate(keys) if k == "Enter"]
            at = cut[0] if cut else len(keys)
            for k in extra:
                keys.insert(rng.randint(min(3, at), at), k)
                at += 1
        cases.append(Case(keys, mode=mode, reads=reads, binds=binds, initial=mk_initial(rng, 0.2),
                          history=rng.choice([[], ["one", "two"]]),
                          timeout=0 if mode == "vi" else rng.choice(["none", 0]), prompt="> "))
    # more separate kills than the ring has slots (60), then a yank and yank-pops all the way round and beyond
    for _ in range(max(6, n // 45)):
        keys = []
        nk = rng.choice([58, 59, 60, 60, 61, 61, 62, 64, 67])
        for i in range(nk):
            keys += ["abcdefghijklmnopqrstuvwxyz"[i % 26], "0123456789"[(i // 26) % 10], "C-w"]
        keys += ["C-y"] + ["M-y"] * rng.choice([1, 2, 5, nk - 60 if nk > 60 else 3, 59, 60, 61, 64])
        if rng.random() < 0.6:
            # a kill after the pointer has been rotated in a full ring: it replaces the OLDEST kill; then all the way round
            keys += ["z", "z", "C-w", "C-y"] + ["M-y"] * rng.choice([2, 59, 60, 60, 61, 62])
        keys.append("Enter")
        cases.append(Case(keys, mode="emacs", timeout=rng.choice(["none", 0]), prompt="> "))
    return cases


STREAMS = {"keys": c01_cases, "validate": c13_cases, "complete": c14_cases, "isearch": c08_cases,
           "recall": c07_cases, "undo": c05_cases, "kill": c06_cases}


# ---------------------------------------------------------------- C17: junk

JUNK_BYTES = ([0x1b] * 6 + [0x5b] * 5 + [0x4f] * 2 + list(b"0123456789") + [0x3b] * 3 + [0x7e] * 3 + list(b"ABCDHFZRabcd~")
              + list(range(0, 32)) + [0x7f] + list(b"abc xyz(){}[]\"'\\,.") + [0x80, 0xbf, 0xc0, 0xc3, 0xa9, 0xe6, 0x97, 0xa5, 0xf0, 0x9f, 0x98, 0x80, 0xff, 0xfe, 0xed, 0xa0])


def junk_chunk(rng):
    r = rng.random()
    if r < 0.35:
        return bytes(rng.choice(JUNK_BYTES) for _ in range(rng.randint(1, 8)))
    if r < 0.5:       # truncated / over-long CSI and SS3 sequences
        body = bytes(rng.choice(b"0123456789;") for _ in range(rng.randint(0, 6)))
        return ESC + rng.choice([b"[", b"O", b"[["]) + body + rng.choice([b"", b"~", b"A", b"R", b"u", b"\x1b"])
    if r < 0.58:      # paste start, text, maybe no terminator
        return ESC + b"[200~" + bytes(rng.choice(b"ab\r\n\x1b[ ") for _ in range(rng.randint(0, 8))) + rng.choice([b"", ESC + b"[201~", ESC + b"[201"])
    if r < 0.66:      # huge numeric arguments
        return b"".join(ESC + bytes([rng.choice(b"0123456789-")]) for _ in range(rng.randint(2, 8))) + rng.choice([b"a", b"\x06", b"\x0b", b"x"])
    if r < 0.72:
        return bytes([rng.choice([0x00, 0x1c, 0x1d, 0x1e, 0x1f, 0x1a])])
    if r < 0.78:
        return rng.choice(["é", "日", "😀", "́", "\u009b", "‍"]).encode("utf-8")
    if r < 0.82:
        return ESC * rng.randint(2, 5) + rng.choice([b"", b"a", b"[A"])
    return rng.choice([b"\r", b"\t", b"\x12ab", b"\x07", b"abc", b"(", b")", b"\x7f", b"\x17", b"\x19", b"\x1b."])


def fix_tail(chunk):
    """a chunk must not end inside a UTF-8 sequence: the implementation would wait for the next chunk to
    finish the character, the model decodes chunk by chunk (cut the dangling lead/continuation bytes)"""
    b = bytearray(chunk)
    again = True
    while again and b:
        again = False
        for back in range(1, 4):
            if len(b) < back:
                break
            c = b[-back]
            if c >= 0xc0:
                need = 2 if c < 0xe0 else 3 if c < 0xf0 else 4
                if back < need:
                    del b[-back:]
                    again = True
                break
            if c < 0x80:
                break
    return bytes(b) if b else b"a"


def c17_cases(tier, seed):
    rng = random.Random(seed * 1601 + 23)
    n = 6000 if tier == "thorough" else 400
    cases = []
    for k in range(n):
        mode = rng.choice(["emacs", "emacs", "vi"])
        r = rng.random()
        if r < 0.6:
            chunks = [junk_chunk(rng) for _ in range(rng.randint(2, 14))]
            keys = ["<%s>" % c.hex() for c in chunks]
        else:
            base = gen_emacs(rng, rng.randint(4, 20), True, extra=("Tab", "C-r", "C-g", "Esc", "C-z", "C-l", "Cpr1", "Cpr2", "Cpr2", "Cpr3",
                                                                   "Cpr5", "Unk1", "Unk3")) if mode == "emacs" \
                else gen_vi(rng, rng.randint(4, 20), True)
            if mode == "vi" and rng.random() < 0.5:
                # operator scripts (counts on both sides, char searches, put / undo / repeat after each operator) on typed text
                t = " ".join(rng.choice(["a", "bb", "c,d", "é日", "x_y"]) for _ in range(rng.randint(3, 7)))
                base = list(t) + gen_vi_ops(rng, t)[:-1]
            chunks, keys = [], []
            for kk in base:
                chunks.append(key_bytes(kk))
                keys.append(kk)
                if rng.random() < 0.15:
                    j = junk_chunk(rng)
                    chunks.append(j)
                    keys.append("<%s>" % j.hex())
            chunks.append(b"\r")
            keys.append("Enter")
        chunks = [fix_tail(c) for c in chunks]
        hist = [rng.choice(HIST_POOL) for _ in range(rng.choice([0, 1, 3]))]
        helper = rng.random() < 0.5
        meta = {}
        if helper and rng.random() < 0.5:
            meta["highlight"] = 1
        events = {}
        if rng.random() < 0.25:
            for _ in range(rng.randint(1, 3)):
                events.setdefault(rng.randrange(len(chunks)), []).append(
                    ("winch", rng.choice([20, 40, 80, 10])) if rng.random() < 0.7 else ("tstp",))
            meta["events"] = events
        c = Case(keys, mode=mode, history=hist, timeout=0 if mode == "vi" else rng.choice(["none", 0]),
                 prompt=rng.choice(["> ", ""]), reads=rng.choice([3, 6]), chunks=chunks, printer=rng.random() < 0.3,
                 helper=helper, cands=(rng.sample(CAND_POOL, 3) if helper and rng.random() < 0.5 else None),
                 hints=(["abc def", "x"] if helper and rng.random() < 0.3 else None),
                 validator=("brackets" if helper and rng.random() < 0.3 else "none"),
                 completion=rng.choice(["circular", "list"]), cols=rng.choice([80, 80, 20]), meta=meta)
        cases.append(c)
    cases += cx_esc_cases(rng, max(6, n // 50))
    # an incremental search that found a SHORTER entry, aborted, then more undos than the search made changes (also with a count)
    for k in range(max(6, n // 40)):
        typed = rng.choice(["abcdef", "long text", "日本語 text", "abcdefgh ij"])
        hist = rng.sample(["ls", "a", "e", "t x", "日"], 3)
        keys = list(typed) + [rng.choice(["C-r", "C-s", "C-r"])] + list(rng.choice(["l", "a", "e", "t", "日", "t x", "ls"])) + \
            rng.choice([[], ["C-r"], ["Backspace"]]) + [rng.choice(["C-g", "Esc"])] + \
            rng.choice([["C-_"] * rng.randint(1, 5), ["M-3", "C-_"], ["M-9", "C-_"], ["C-x", "C-u", "C-_", "C-_"]]) + ["Enter", "Enter"]
        chunks = [key_bytes(kk) for kk in keys]
        cases.append(Case(keys, mode="emacs", history=hist, timeout=0, prompt="> ", reads=2, chunks=chunks, cols=80, meta={}))
    # list-mode completion over candidates that part INSIDE a multi-byte character (the common prefix is cut back to a boundary)
    for k in range(max(3, n // 60)):
        cands = rng.choice([["日本語", "日月"], ["\U0001F600a", "\U0001F601b", "\U0001F600"], ["é日本", "é日月x", "é日"]])
        keys = [cands[0][0], "Tab", rng.choice(["Tab", "x", "Enter"]), "Enter", "Enter"]
        chunks = [key_bytes(kk) for kk in keys]
        mode = rng.choice(["emacs", "vi"])
        cases.append(Case(keys, mode=mode, timeout=0 if mode == "vi" else rng.choice(["none", 0]), prompt="> ", reads=2, chunks=chunks,
                          helper=True, cands=cands, completion="list", cols=80, meta={}))
    # vi operators with counts on both sides whose product is beyond the 16-bit repeat count (it saturates)
    for k in range(max(4, n // 25)):
        t = " ".join(rng.choice(["a", "bb", "c,d", "x_y"]) for _ in range(rng.randint(2, 6)))
        op = rng.choice(["d", "c", "y", "<", ">"])
        keys = list(t) + ["Esc", rng.choice(["0", "$", "b"])] + list(rng.choice(["256", "300", "999"])) + [op] + \
            list(rng.choice(["256", "300", "999"])) + [rng.choice(["l", "h", "w", "b", "e", " ", "j", "k"])]
        if op == "c":
            keys += ["q", "Esc"]
        keys += [rng.choice([".", "u", "p", "x"]), "Enter", "Enter"]
        chunks = [key_bytes(kk) for kk in keys]
        cases.append(Case(keys, mode="vi", timeout=0, prompt="> ", reads=2, chunks=chunks, cols=80, meta={}))
    # a character of several bytes arriving in TWO writes with a window resize (SIGWINCH interrupts the blocked read) in between:
    # the decoder carries on where it was
    for i, ch in enumerate(["é", "日", "\U0001F600", "é"]):
        b = ch.encode("utf-8")
        cut = 1 + i % (len(b) - 1)
        chunks = [b"a", b[:cut], b[cut:], b"z", b"\r", b"\r"]
        keys = ["a", "<%s>" % b[:cut].hex(), "<%s>" % b[cut:].hex(), "z", "Enter", "Enter"]
        mode = ["emacs", "vi"][i % 2]
        cases.append(Case(keys, mode=mode, timeout=0 if mode == "vi" else "none", prompt="> ", reads=2, chunks=chunks, cols=80,
                          meta={"events": {1: [("winch", 70)] + ([("winch", 60)] if i % 2 else [])},
                                "expect_first": "R line:" + enc([0x61, ord(ch), 0x7a])}))
    # vi operators whose motion is a character search for a character of 2-4 bytes (typed text, then the operator)
    for op in ("d", "y", "c"):
        for cs in ("f", "t", "F", "T"):
            t = rng.choice(["na\u00efve \u65e5\u672c x", "a\U0001F600b \u00e9\u00e9 c", "\u65e5a\u65e5b\u65e5"])
            target = rng.choice([ch for ch in t if ord(ch) > 127])
            # (from the start for forward searches, from the end for backward ones: the target is there to be found)
            target = rng.choice([ch for ch in (t[1:] if cs in "ft" else t[:-1]) if ord(ch) > 127])
            keys = list(t) + ["Esc", "0" if cs in "ft" else "$"] + [op, cs, target]
            if op == "c":
                keys += ["q", "Esc"]
            keys += [rng.choice([";", ",", "p", "u"]), "Enter", "Enter"]
            chunks = [key_bytes(kk) for kk in keys]
            cases.append(Case(keys, mode="vi", timeout=0, prompt="> ", reads=2, chunks=chunks, cols=80, meta={}))
    # vi operators with a LINE motion whose count reaches beyond the first / last line of a text of several lines
    for k in range(max(6, n // 30)):
        lines = [rand_text(rng, 1, 4, ["a", "b", " ", "é"]) for _ in range(rng.randint(2, 4))]
        keys = []
        for i, ln in enumerate(lines):
            keys += list(ln) + (["C-v", "C-j"] if i + 1 < len(lines) else [])
        keys += ["Esc"] + [rng.choice(["k", "j", "0", "$"]) for _ in range(rng.randint(0, 2))]
        op = rng.choice(["d", "c", "y", "<", ">"])
        keys += list(rng.choice(["", "2", "3", "9"])) + [op] + list(rng.choice(["", "2", "5", "99"])) + [rng.choice(["k", "-", "j", "+", "k", "-"])]
        if op == "c":
            keys += ["q", "Esc"]
        keys += [rng.choice([".", "u", "p", "x"]), "Enter", "Enter"]
        chunks = [key_bytes(kk) for kk in keys]
        cases.append(Case(keys, mode="vi", timeout=0, prompt="> ", reads=2, chunks=chunks, cols=80, meta={}))
    # the candidate listing in a window about as narrow as the widest candidate (also narrowed by a resize while listing)
    for k in range(n // 10):
        mode = rng.choice(["emacs", "emacs", "vi"])
        cands = rng.sample(WIDE_CANDS, rng.choice([1, 2, 3])) + rng.sample(["foo", "foobar", "fo", "ba", "bar"], 2)
        keys = [rng.choice(["f", "b", "a", "fo"])]
        keys = list(keys[0]) + ["Tab", "Tab"] + [rng.choice(["y", "n", " ", "Tab", "x"])] + ["Tab"] * rng.randint(0, 2) + ["Enter", "Enter"]
        chunks = [key_bytes(kk) for kk in keys]
        cols = rng.choice([80, 40, 34, 33, 32, 31, 20, 19, 12, 5])
        meta = {}
        if rng.random() < 0.4:
            meta["events"] = {rng.randrange(1, len(chunks) - 2): [("winch", rng.choice([33, 32, 20, 10, 3]))]}
        cases.append(Case(keys, mode=mode, timeout=0 if mode == "vi" else rng.choice(["none", 0]), prompt="> ", reads=2,
                          chunks=chunks, helper=True, cands=cands, completion="list", cols=cols, meta=meta))
    for k in range(n // 8):
        mode = rng.choice(["emacs", "emacs", "vi"])
        prompt = rng.choice(["> ", "", "ab> "])
        body = [rng.choice(["a", "b", " ", "x", "é", "日"]) for _ in range(rng.randint(1, 30))]
        width = len(prompt) + sum(2 if ch == "日" else 1 for ch in body)
        tail = [rng.choice(["C-b", "C-f", "C-a", "C-e", "Left", "Right", "x", "Backspace", "C-l", "C-k", "C-y"] if mode == "emacs" else
                           ["Left", "Right", "Home", "End", "x", "Backspace", "Esc", "h", "l", "0", "$", "i", "a"])
                for _ in range(rng.randint(2, 8))] + ["Enter"]
        keys = body + tail
        chunks = [key_bytes(kk) for kk in keys]
        events = {}
        for _ in range(rng.randint(1, 3)):
            at = rng.randrange(max(1, len(body) - 2), len(keys))
            events.setdefault(at, []).append(("winch", max(2, (width % 60 if rng.random() < 0.3 and width > 60 else width) + rng.choice([0, 0, 0, -1, 1, 2]))))
        cases.append(Case(keys, mode=mode, history=[], timeout=0 if mode == "vi" else rng.choice(["none", 0]), prompt=prompt,
                          reads=2, chunks=chunks, printer=rng.random() < 0.2, helper=False, cols=rng.choice([80, 40]),
                          meta={"events": events}))
    return cases


def c17_highlight_cases(tier, seed):
    """helpers with state: the bracket highlighter remembers (bracket, offset) across keys; searches, recalls,
    completions and undo replace the line under it"""
    rng = random.Random(seed * 1801 + 31)
    n = 800 if tier == "thorough" else 80
    cases = []
    pool = ["ls", "x", "(a)", "fn(b[1])", "é(", "print(1)", "a", "{[(", ")]}"]
    for _ in range(n):
        mode = rng.choice(["emacs", "emacs", "vi"])
        keys = list(rng.choice(["print(1)", "f(a[1]){", "((x))", "a)b(", "é(日)", "[]", "x(", "(", "fo(o)"]))
        for _ in range(rng.randint(2, 10)):
            r = rng.random()
            if r < 0.25:
                keys.append(rng.choice(["Left", "Right", "Home", "End"]))
            elif r < 0.45:
                keys += ["C-r"] + [rng.choice(["l", "s", "x", "(", "a", "f", "C-r", "Backspace"]) for _ in range(rng.randint(1, 3))] + \
                    [rng.choice(["C-g", "Left", "Esc", "End"])]
            elif r < 0.6:
                keys.append(rng.choice(["Up", "Down", "C-p", "C-n", "M-<", "M->"]) if mode == "emacs" else rng.choice(["Up", "Down"]))
            elif r < 0.7:
                keys += ["Tab", rng.choice(["Tab", "Esc", "Left"])]
            elif r < 0.8:
                keys.append(rng.choice(["C-_", "C-k", "C-u", "C-w", "Backspace"]))
            else:
                keys.append(rng.choice(["(", ")", "[", "]", "a", "é"]))
        keys.append("Enter")
        hist = [rng.choice(pool) for _ in range(rng.choice([1, 2, 4]))]
        cases.append(Case(keys, mode=mode, history=hist, timeout=0, prompt="> ", helper=True, reads=2,
                          cands=rng.sample(["(a)", "fo(o)", "print(", "x"], 2), completion=rng.choice(["circular", "list"]),
                          validator=rng.choice(["none", "brackets"]), meta={"highlight": 1}, cols=rng.choice([80, 20])))
    return cases


STREAMS["junk"] = c17_cases
