"""Interactive streams: the real Unix back end driven through a pty
(tools/ptydrive.py) against the model of a whole read (Model/Editor.v)."""
import os
import random
from concurrent.futures import ThreadPoolExecutor

from common import *
from p_histfile import enc, dec, encb
import ptydrive

# ---------------------------------------------------------------- keys -> bytes

ESC = b"\x1b"
KEYS = {
    "Enter": b"\r", "Tab": b"\t", "BackTab": ESC + b"[Z", "Backspace": b"\x7f", "Esc": ESC,
    "Up": ESC + b"[A", "Down": ESC + b"[B", "Right": ESC + b"[C", "Left": ESC + b"[D",
    "Home": ESC + b"[H", "End": ESC + b"[F", "Delete": ESC + b"[3~", "Insert": ESC + b"[2~",
    "PageUp": ESC + b"[5~", "PageDown": ESC + b"[6~", "F5": ESC + b"[15~", "F6": ESC + b"[17~", "F12": ESC + b"[24~",
    "C-Left": ESC + b"[1;5D", "C-Right": ESC + b"[1;5C", "M-Left": ESC + b"[1;3D", "M-Right": ESC + b"[1;3C",
    "S-Up": ESC + b"[1;2A", "Up2": ESC + b"OA", "Down2": ESC + b"OB", "Home2": ESC + b"[1~", "End2": ESC + b"[4~",
    "M-Backspace": ESC + b"\x7f",
}


def key_bytes(k):
    """k: a name in KEYS | 'C-x' | 'M-x' | a single character"""
    if k in KEYS:
        return KEYS[k]
    if k.startswith("C-") and len(k) == 3:
        c = k[2]
        return bytes([ord(c.upper()) & 0x1f]) if c != "?" else b"\x7f"
    if k.startswith("M-") and len(k) >= 3:
        return ESC + k[2:].encode("utf-8")
    return k.encode("utf-8")


def chunks_of(keys, rng=None, typeahead=0.0):
    """One chunk per key; with probability `typeahead` a key joins the previous chunk. A lone Esc and
    Enter always end their chunk (see DESIGN 3.2)."""
    out = []
    for k in keys:
        b = key_bytes(k)
        if out and rng is not None and rng.random() < typeahead and out[-1][1] not in ("Esc", "Enter") \
                and not out[-1][0].endswith(ESC):
            out[-1] = (out[-1][0] + b, k)
        else:
            out.append((b, k))
    return [c for c, _ in out]


# ---------------------------------------------------------------- cases

class Case:
    def __init__(self, keys, mode="emacs", prompt="> ", history=(), initial=None, cands=None, hints=None,
                 validator="none", completion="circular", timeout="none", cols=80, reads=1, binds=(),
                 chunks=None, printer=False, helper=None, meta=None):
        self.keys = list(keys)
        self.mode, self.prompt, self.history, self.initial = mode, prompt, list(history), initial
        self.cands, self.hints, self.validator = cands, hints, validator
        self.completion, self.timeout, self.cols, self.reads = completion, timeout, cols, reads
        self.binds = list(binds)
        self.chunks = chunks
        self.printer = printer
        self.helper = helper if helper is not None else (cands is not None or hints is not None or validator != "none")
        self.meta = meta or {}

    def s(self, text):
        return enc([ord(c) for c in text]) if text else "-"

    def spec(self):
        l = ["mode " + self.mode, "completion " + self.completion, "timeout " + str(self.timeout),
             "prompt " + self.s(self.prompt), "reads %d" % self.reads]
        for h in self.history:
            l.append("history " + self.s(h))
        if self.initial:
            l.append("initial %s %s" % (self.s(self.initial[0]), self.s(self.initial[1])))
        if self.helper:
            l.append("helper 1")
        if self.cands is not None:
            l.append("cands " + " ".join(self.s(c) for c in self.cands) if self.cands else "cands")
        if self.hints is not None:
            l.append("hints " + " ".join(self.s(c) for c in self.hints) if self.hints else "hints")
        if self.validator != "none":
            l.append("validator " + self.validator)
        if self.printer:
            l.append("printer 1")
        for ks, cmd in self.binds:
            l.append("bind %s %s" % (ks, cmd))
        return "\n".join(l) + "\n"

    def model_line(self, chunks):
        kv = ["mode=" + self.mode, "completion=" + self.completion, "timeout=" + str(self.timeout),
              "cols=%d" % self.cols, "prompt=" + self.s(self.prompt), "reads=%d" % self.reads,
              "helper=%d" % (1 if self.helper else 0), "validator=" + self.validator]
        if self.history:
            kv.append("hist=" + ",".join(self.s(h) for h in self.history))
        if self.initial:
            kv.append("initial=%s,%s" % (self.s(self.initial[0]), self.s(self.initial[1])))
        if self.cands:
            kv.append("cands=" + ",".join(self.s(c) for c in self.cands))
        if self.hints:
            kv.append("hints=" + ",".join(self.s(c) for c in self.hints))
        for ks, cmd in self.binds:
            kv.append("bind=%s %s" % (ks, cmd))
        return ";".join(kv) + " | " + " ".join(encb(list(c)) for c in chunks)


def canon_impl(r):
    """pty result -> the model's format: per read `O=.. K=.. W=..`"""
    reads, cur = [], []
    for line in r["obs"]:
        if line.startswith("K "):
            cur.append(line[2:])
        elif line.startswith("R "):
            reads.append((line[2:], cur))
            cur = []
    out = r["out"]
    # per-read output: between ESC[?2004h and ESC[?2004l CR LF
    segs = []
    pos = 0
    while True:
        a = out.find(b"\x1b[?2004h", pos)
        if a < 0:
            break
        b = out.find(b"\x1b[?2004l", a)
        if b < 0:
            segs.append(out[a + 8:])
            break
        segs.append(out[a + 8:b])
        pos = b + 8
    res = []
    for i, (o, ks) in enumerate(reads):
        w = segs[i] if i < len(segs) else b""
        oc = {"eof": "eof", "int": "int", "panic": "panic"}.get(o)
        if oc is None:
            if o.startswith("line:"):
                oc = o
            elif o.startswith("err:io:InvalidData"):
                oc = "invalid"
            elif o.startswith("err:io:Other"):
                oc = "verr"
            elif o.startswith("err:"):
                oc = "hangup"
        try:
            wt = [ord(ch) for ch in w.decode("utf-8")]
        except UnicodeDecodeError:
            wt = list(w)
        res.append("O=%s K=%s W=%s" % (oc, ";".join(ks) if ks else "_", enc(wt)))
    return res


def canon_model(line):
    """LF -> CR LF as the line discipline does (OPOST|ONLCR stays on in raw mode)"""
    out = []
    for rd in line.split(" ## "):
        f = rd.split(" W=")
        w = dec(f[1]) if len(f) > 1 else []
        w2 = []
        for c in w:
            if c == 0x0a:
                w2.append(0x0d)
            w2.append(c)
        out.append(f[0] + " W=" + enc(w2))
    return out


def strip_w(reads):
    return [r.split(" W=")[0] for r in reads]


def run_tty_cases(res, exe, driver, cases, tmp, tag, compare_output=True, rng=None, typeahead=0.0):
    """Runs the cases on both sides. Returns [(case, impl_reads, model_reads, raw)]."""
    prepared = []
    for c in cases:
        ch = c.chunks if c.chunks is not None else chunks_of(c.keys, rng, typeahead)
        prepared.append((c, ch))

    def one(pc):
        c, ch = pc
        last = None
        for attempt in range(2):
            try:
                return ptydrive.run_case(exe, c.spec(), ch, cols=c.cols)
            except OSError as e:      # infrastructure (fork / pty exhaustion): retry once
                last = e
        raise InfraError("pty driver: %s" % last)

    with ThreadPoolExecutor(NPROC) as ex:
        raws = list(ex.map(one, prepared))
    model_lines = [c.model_line(ch) for c, ch in prepared]
    models = run_model(driver, "tty", model_lines, tmp) if driver else [None] * len(cases)
    out = []
    for (c, ch), raw, ml, m in zip(prepared, raws, model_lines, models):
        impl = canon_impl(raw)
        model = canon_model(m) if m is not None else None
        # the hang-up that ends a script is not part of the comparison: drop the reads it ends
        if model is not None:
            # what is written around a hang-up is lost with the terminal: compare those reads without output
            nw = lambda rs: [r.split(" W=")[0] if r.startswith("O=hangup") else r for r in rs]
            a = nw(impl) if compare_output else strip_w(impl)
            b = nw(model) if compare_output else strip_w(model)
            n = min(len(a), len(b))
            # after the hang-up both sides report an error for the read in progress
            if a[:n] != b[:n] or len(a) != len(b):
                res.disagreements.append({"stream": tag, "case": ml, "keys": c.keys, "impl": " ## ".join(impl),
                                          "model": " ## ".join(model)})
        out.append((c, impl, model, raw))
    res.evaluations += len(cases)
    return out


def parse_read(rd):
    """`O=.. K=.. W=..` -> (outcome, [(line, pos, mode, n, positive, hint)], written)"""
    f = {}
    for part in rd.split(" "):
        pass
    o = rd[2:rd.index(" K=")]
    k = rd[rd.index(" K=") + 3:rd.index(" W=")]
    w = rd[rd.index(" W=") + 3:]
    obs = []
    if k != "_":
        for item in k.split(";"):
            t = item.split(" ")
            obs.append((dec(t[0]), int(t[1]), t[2], int(t[3]), t[4] == "1", None if t[5] == "none" else dec(t[5])))
    return o, obs, dec(w)
