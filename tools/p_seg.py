"""Support stream `seg`: the model's grapheme segmentation (Base/Uax29.v)
against unicode-segmentation as linked into the implementation."""
import random

from common import *
from p_histfile import enc

# one representative (or more) of every Grapheme_Cluster_Break class and InCB class
SEG_ALPHA = [
    0x61, 0x20, 0x0a, 0x0d, 0x09, 0x00, 0x7f, 0x9b,           # Any, LF, CR, Control
    0x301, 0x308, 0x332, 0x200d, 0x200c,                      # Extend, ZWJ, ZWNJ(Extend)
    0x903, 0x93e, 0xe33,                                      # SpacingMark
    0x600, 0x6dd, 0x110bd,                                    # Prepend
    0x1100, 0x1161, 0x11a8, 0xac00, 0xac01,                   # L V T LV LVT
    0x1f1e6, 0x1f1e7, 0x1f1e8,                                # RI
    0x1f600, 0x1f469, 0x2764, 0xfe0f, 0x1f3fb, 0xa9,          # ExtPict, VS16(Extend), skin tone(Extend), (c)
    0x915, 0x937, 0x94d, 0x93c, 0x9cd, 0x995,                 # InCB consonant / linker / extend
    0xe9, 0x65e5, 0x3000, 0xa0,
]


def seg_cases(tier, seed):
    rng = random.Random(seed * 13 + 1)
    n = 60000 if tier == "thorough" else 6000
    cases = []
    # all pairs and a sample of triples
    for a in SEG_ALPHA:
        for b in SEG_ALPHA:
            cases.append(enc([a, b]))
    for _ in range(n):
        k = rng.choice([3, 3, 4, 5, 6, 8, 12])
        cases.append(enc([rng.choice(SEG_ALPHA) for _ in range(k)]))
    # random scalar values (tables outside the hand-picked alphabet)
    for _ in range(n // 3):
        k = rng.randint(2, 5)
        s = []
        for _ in range(k):
            c = rng.choice([rng.randrange(0x80, 0x3000), rng.randrange(0xa000, 0xd7ff), rng.randrange(0x10000, 0x1fbff),
                            rng.randrange(0xe0000, 0xe01ff)])
            s.append(c)
        cases.append(enc(s))
    return cases


def seg_corr(res, exe, driver, tier, seed, tmp):
    cases = seg_cases(tier, seed)
    impl = run_impl(exe, "seg", cases, tmp)
    for c, o in zip(cases, impl):
        if "BACKWARD-DIFFERS" in o:
            res.disagreements.append({"stream": "seg", "case": c, "impl": o, "model": "forward/backward iteration disagree"})
    if driver:
        model = run_model(driver, "seg", cases, tmp)
        compare(res, "seg", cases, impl, model)
    res.evaluations += len(cases)
    res.extra["seg_cases"] = len(cases)
    return len(cases)
