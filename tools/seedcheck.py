#!/usr/bin/env python3
"""Re-run the quick checks against the confirmed seeded changes of /verif/seeded (patch only: the
confirmation of a seed -- applies, suite passes, demonstration fails -- was done by seedrun.py when it was stored).

   tools/seedcheck.py [-j N] [name ...]        (no names: every seed)

Each worker has its own scratch worktree of /repo and its own copy of /verif under /tmp/seedcheck-<k>; a seed is
checked with its own property's check and, when that does not report it, with the checks recorded as having
detected it before. Results: `recheck` in seeded/<name>/meta.json and a summary on stdout. Scratch directories are
removed at the end."""
import json
import os
import shutil
import subprocess
import sys
import time
from concurrent.futures import ThreadPoolExecutor

SEEDED = "/verif/seeded"


def sh(cmd, cwd=None, env=None, timeout=3600):
    e = dict(os.environ)
    e["CARGO_NET_OFFLINE"] = "true"
    if env:
        e.update(env)
    try:
        p = subprocess.run(["bash", "-o", "pipefail", "-c", cmd], cwd=cwd, env=e, stdout=subprocess.PIPE,
                           stderr=subprocess.STDOUT, timeout=timeout)
        return p.returncode, p.stdout.decode("utf-8", "replace")
    except subprocess.TimeoutExpired as ex:
        return 124, "TIMEOUT " + (ex.stdout or b"").decode("utf-8", "replace")[-500:]


def worker(k, names):
    root = "/tmp/seedcheck-%s%d" % (os.environ.get("SEEDCHECK_TAG", ""), k)
    wt, vcopy = root + "/wt", root + "/verif"
    os.makedirs(root, exist_ok=True)
    sh("git -C /repo worktree remove --force %s" % wt)
    sh("git -C /repo worktree prune")
    rc, out = sh("git -C /repo worktree add --detach %s HEAD" % wt)
    if rc != 0:
        return [(n, "worktree: " + out[-200:]) for n in names]
    shutil.copy("/repo/Cargo.lock", wt + "/Cargo.lock")
    sh("rsync -a --delete --exclude replay --exclude .git --exclude seeded /verif/ %s/" % vcopy)
    res = []
    for name in names:
        d = os.path.join(SEEDED, name)
        meta = json.load(open(d + "/meta.json"))
        prop = meta["property"]
        sh("git checkout -- . && git clean -fdq -e Cargo.lock", cwd=wt)
        rc, out = sh("git apply %s/patch.diff" % d, cwd=wt)
        if rc != 0:
            res.append((name, "STALE: patch does not apply to the current tree"))
            print(name, "STALE: patch does not apply to the current tree", flush=True)
            continue
        others = [p for p, v in (meta.get("detected_by") or {}).items() if v and p != prop]
        got = {}
        for p in [prop] + others:
            rc, out = sh("./check %s quick 2>&1 | tail -6" % p, cwd=vcopy, env={"VERIF_REPO": wt})
            viol = [l for l in out.splitlines() if l.startswith("VIOLATION")]
            got[p] = bool(rc == 1 and viol)
            if got[p] and p == prop:
                break
        meta["recheck"] = {"when": time.strftime("%Y-%m-%d %H:%M"), "detected_by": got}
        json.dump(meta, open(d + "/meta.json", "w"), indent=1)
        res.append((name, got))
        print(name, got, flush=True)
    sh("git -C /repo worktree remove --force %s" % wt)
    shutil.rmtree(root, ignore_errors=True)
    return res


def main():
    args = sys.argv[1:]
    j = 4
    if args and args[0] == "-j":
        j = int(args[1])
        args = args[2:]
    names = args or sorted(n for n in os.listdir(SEEDED) if os.path.exists(os.path.join(SEEDED, n, "patch.diff")))
    parts = [names[i::j] for i in range(j)]
    with ThreadPoolExecutor(j) as ex:
        allres = [r for part in ex.map(lambda a: worker(*a), list(enumerate(parts))) for r in part]
    missed = [n for n, g in allres if not (isinstance(g, dict) and any(g.values()))]
    own = [n for n, g in allres if isinstance(g, dict) and g.get(json.load(open(os.path.join(SEEDED, n, "meta.json")))["property"])]
    print("seeds %d, detected by the property's own check %d, by a neighbour only %d, not detected %d %s" % (
        len(allres), len(own), len(allres) - len(own) - len(missed), len(missed), missed))
    return 1 if missed else 0


if __name__ == "__main__":
    sys.exit(main())
