#!/usr/bin/env python3
"""Confirm seeded changes produced by sub-agents and run the checks against them,
in isolation from /verif and /repo (scratch worktree + scratch copy of /verif).

   tools/seedrun.py <name>=<seed_dir>[:<Cxx,Cyy>] ...

seed_dir holds patch.diff, a demo (demo.rs) and meta.json {"property": "Cxx", ...}.
Results: /tmp/seedrun/results/<name>.json. Confirmed seeds are copied to
/verif/seeded/<name>/ with the meta extended by what was run here."""
import json
import os
import shutil
import subprocess
import sys
import time

ROOT = "/tmp/seedrun"
WT = ROOT + "/wt"
VCOPY = ROOT + "/verif"
TARGET = ROOT + "/target"


def sh(cmd, cwd=None, env=None, timeout=3600):
    e = dict(os.environ)
    e["CARGO_NET_OFFLINE"] = "true"
    if env:
        e.update(env)
    p = subprocess.run(["bash", "-o", "pipefail", "-c", cmd], cwd=cwd, env=e, stdout=subprocess.PIPE, stderr=subprocess.STDOUT, timeout=timeout)
    return p.returncode, p.stdout.decode("utf-8", "replace")


def main():
    os.makedirs(ROOT + "/results", exist_ok=True)
    sh("git -C /repo worktree remove --force %s" % WT)
    rc, out = sh("git -C /repo worktree add --detach %s HEAD" % WT)
    if rc != 0:
        print(out)
        return 1
    shutil.copy("/repo/Cargo.lock", WT + "/Cargo.lock")
    sh("rsync -a --delete --exclude replay --exclude .git /verif/ %s/" % VCOPY)
    for arg in sys.argv[1:]:
        name, rest = arg.split("=", 1)
        sdir, _, props = rest.partition(":")
        meta = json.load(open(sdir + "/meta.json"))
        props = props.split(",") if props else [meta["property"]]
        r = {"name": name, "seed_dir": sdir, "property": meta["property"], "ran": []}
        t0 = time.time()
        sh("git checkout -- . && git clean -fdq -e Cargo.lock", cwd=WT)
        env = {"CARGO_TARGET_DIR": TARGET}
        demo = sdir + "/demo.rs"
        have_demo = os.path.exists(demo)
        if have_demo:
            os.makedirs(WT + "/tests", exist_ok=True)
            shutil.copy(demo, WT + "/tests/demo.rs")
            rc, out = sh("cargo test --offline --test demo 2>&1 | tail -15", cwd=WT, env=env)
            r["demo_clean_pass"] = ("test result: ok" in out) and ("FAILED" not in out)
            r["ran"].append("clean tree: cargo test --offline --test demo -> %s" % ("pass" if r["demo_clean_pass"] else "FAIL"))
            os.remove(WT + "/tests/demo.rs")
        rc, out = sh("git apply %s/patch.diff" % sdir, cwd=WT)
        r["patch_applies"] = rc == 0
        rc, out = sh("cargo test --workspace --offline 2>&1 | grep -E '^test result|FAILED|error' | head", cwd=WT, env=env)
        r["suite_pass_with_patch"] = ("182 passed" in out) and ("FAILED" not in out) and ("error" not in out)
        r["ran"].append("patched tree: cargo test --workspace --offline -> %s" % out.strip().replace("\n", " | ")[:300])
        if have_demo:
            shutil.copy(demo, WT + "/tests/demo.rs")
            rc, out = sh("cargo test --offline --test demo 2>&1 | tail -15", cwd=WT, env=env)
            r["demo_patched_fails"] = ("FAILED" in out) or ("panicked" in out)
            r["ran"].append("patched tree: cargo test --offline --test demo -> %s" % ("fails (as intended)" if r["demo_patched_fails"] else "passes?!"))
            os.remove(WT + "/tests/demo.rs")
            if not os.listdir(WT + "/tests"):
                os.rmdir(WT + "/tests")
        r["checks"] = {}
        for p in props:
            rc, out = sh("./check %s quick 2>&1 | tail -12" % p, cwd=VCOPY, env={"VERIF_REPO": WT})
            viol = [l for l in out.splitlines() if l.startswith("VIOLATION")]
            r["checks"][p] = {"exit": rc, "violations": viol, "tail": out[-600:]}
            r["ran"].append("VERIF_REPO=<patched tree> ./check %s quick -> exit %d, %d VIOLATION line(s)" % (p, rc, len(viol)))
            # keep one replay for the record
            for v in viol[:1]:
                path = v.split("replay=")[1].split()[0]
                try:
                    r["checks"][p]["replay"] = json.load(open(path.replace("/verif/", VCOPY + "/")))
                except Exception:
                    pass
        r["wall_s"] = round(time.time() - t0, 1)
        r["confirmed"] = bool(r.get("patch_applies") and r.get("suite_pass_with_patch") and
                              (not have_demo or (r.get("demo_clean_pass") and r.get("demo_patched_fails"))))
        json.dump(r, open("%s/results/%s.json" % (ROOT, name), "w"), indent=1)
        print(name, "confirmed" if r["confirmed"] else "NOT-confirmed",
              {p: (c["exit"], len(c["violations"])) for p, c in r["checks"].items()}, flush=True)
        if r["confirmed"]:
            dst = "/verif/seeded/" + name
            os.makedirs(dst, exist_ok=True)
            shutil.copy(sdir + "/patch.diff", dst + "/patch.diff")
            if have_demo:
                shutil.copy(demo, dst + "/demo.rs")
            m = dict(meta)
            m["confirmed_by_seedrun"] = r["ran"]
            m["detected_by"] = {p: (c["exit"] == 1 and len(c["violations"]) > 0) for p, c in r["checks"].items()}
            m["violation_lines"] = {p: c["violations"] for p, c in r["checks"].items()}
            json.dump(m, open(dst + "/meta.json", "w"), indent=1)
    sh("git -C /repo worktree remove --force %s" % WT)
    return 0


if __name__ == "__main__":
    sys.exit(main())
