#!/usr/bin/env python3
"""Confirm seeded changes produced by sub-agents and run the checks against them,
in isolation from /verif and /repo (scratch worktree + scratch copy of /verif).

   tools/seedrun.py <name>=<seed_dir>[:<Cxx,Cyy>] ...

seed_dir holds patch.diff, meta.json {"property": "Cxx", ...} and a demonstration in one of the forms
   demo.rs                      integration test (tests/demo.rs; `cargo test --test demo`)
   demo_unit.diff               patch adding src/test/demo.rs (`cargo test --lib test::demo`)
   demo.py + demo_example.rs    pty script driving examples/<name>.rs (argv[1] = binary)
   demo.py + demo.rs            pty script that builds examples/demo.rs itself (env WT, CARGO_TARGET_DIR)
Results: /tmp/seedrun/results/<name>.json. Confirmed seeds are copied to /verif/seeded/<name>/ with the
meta extended by what was run here. Nothing is left under /tmp/seedrun afterwards except results/."""
import glob
import json
import os
import re
import shutil
import subprocess
import sys
import time

ROOT = "/tmp/seedrun"
WT = ROOT + "/wt"
VCOPY = ROOT + "/verif"
TARGET = ROOT + "/target"


def sh(cmd, cwd=None, env=None, timeout=3600):
    e = dict(os.environ)
    e["CARGO_NET_OFFLINE"] = "true"
    if env:
        e.update(env)
    try:
        p = subprocess.run(["bash", "-o", "pipefail", "-c", cmd], cwd=cwd, env=e, stdout=subprocess.PIPE,
                           stderr=subprocess.STDOUT, timeout=timeout)
        return p.returncode, p.stdout.decode("utf-8", "replace")
    except subprocess.TimeoutExpired as ex:
        return 124, "TIMEOUT " + (ex.stdout or b"").decode("utf-8", "replace")[-500:]


class Demo:
    """how to run the demonstration in the worktree: returns (passed, description)"""

    def __init__(self, sdir, prop):
        self.sdir, self.prop = sdir, prop
        f = lambda n: os.path.exists(os.path.join(sdir, n))
        self.features = " --features with-sqlite-history" if prop == "C20" else ""
        if f("demo_unit.diff"):
            self.kind = "unit"
        elif f("demo.py") and f("demo_example.rs"):
            self.kind = "pty_example"
            src = open(os.path.join(sdir, "demo.py")).read()
            m = re.search(r"examples/(\w+)['\"\s]", src)
            self.example = "demo_example"
            m2 = re.search(r"target/debug/examples/(\w+)", src)
            if m2:
                self.example = m2.group(1)
        elif f("demo.py") and f("demo.rs"):
            self.kind = "pty_selfbuild"
        elif f("demo.rs"):
            self.kind = "test"
        else:
            self.kind = "none"

    def files(self):
        return [n for n in ("demo.rs", "demo.py", "demo_example.rs", "demo_unit.diff") if os.path.exists(os.path.join(self.sdir, n))]

    def run(self, env):
        s = self.sdir
        if self.kind == "unit":
            rc, out = sh("git apply %s/demo_unit.diff && cargo test --offline%s --lib test::demo 2>&1 | tail -25" % (s, self.features), cwd=WT, env=env)
            sh("git apply -R %s/demo_unit.diff" % s, cwd=WT)
            ok = "test result: ok" in out and "FAILED" not in out and "error" not in out and " 0 passed" not in out
            return ok, "git apply demo_unit.diff; cargo test --offline%s --lib test::demo" % self.features, out
        if self.kind == "test":
            os.makedirs(WT + "/tests", exist_ok=True)
            shutil.copy(s + "/demo.rs", WT + "/tests/demo.rs")
            rc, out = sh("cargo test --offline%s --test demo 2>&1 | tail -25" % self.features, cwd=WT, env=env)
            os.remove(WT + "/tests/demo.rs")
            if not os.listdir(WT + "/tests"):
                os.rmdir(WT + "/tests")
            ok = "test result: ok" in out and "FAILED" not in out and "error[" not in out
            return ok, "tests/demo.rs; cargo test --offline%s --test demo" % self.features, out
        if self.kind == "pty_example":
            shutil.copy(s + "/demo_example.rs", WT + "/examples/%s.rs" % self.example)
            rc, out = sh("cargo build --offline --example %s 2>&1 | tail -5" % self.example, cwd=WT, env=env)
            binp = "%s/debug/examples/%s" % (TARGET, self.example)
            if rc != 0 or not os.path.exists(binp):
                os.remove(WT + "/examples/%s.rs" % self.example)
                return None, "build of the example failed", out
            rc, out = sh("python3 %s/demo.py %s 2>&1 | tail -25" % (s, binp), cwd=WT, env=env, timeout=900)
            os.remove(WT + "/examples/%s.rs" % self.example)
            return rc == 0, "examples/%s.rs; python3 demo.py <binary> (exit %d)" % (self.example, rc), out
        if self.kind == "pty_selfbuild":
            shutil.copy(s + "/demo.rs", WT + "/examples/demo.rs")
            e = dict(env)
            e["WT"] = WT
            rc, out = sh("python3 %s/demo.py %s 2>&1 | tail -25" % (s, WT), cwd=WT, env=e, timeout=900)
            os.remove(WT + "/examples/demo.rs")
            return rc == 0, "examples/demo.rs; WT=<worktree> python3 demo.py (exit %d)" % rc, out
        return None, "no demonstration", ""


def main():
    os.makedirs(ROOT + "/results", exist_ok=True)
    sh("git -C /repo worktree remove --force %s" % WT)
    sh("git -C /repo worktree prune")
    rc, out = sh("git -C /repo worktree add --detach %s HEAD" % WT)
    if rc != 0:
        print(out)
        return 1
    shutil.copy("/repo/Cargo.lock", WT + "/Cargo.lock")
    sh("rsync -a --delete --exclude replay --exclude .git --exclude seeded /verif/ %s/" % VCOPY)
    env = {"CARGO_TARGET_DIR": TARGET}
    for arg in sys.argv[1:]:
        name, rest = arg.split("=", 1)
        sdir, _, props = rest.partition(":")
        sdir = os.path.abspath(sdir)
        meta = json.load(open(sdir + "/meta.json"))
        prop = meta["property"]
        props = props.split(",") if props else [prop]
        r = {"name": name, "seed_dir": sdir, "property": prop, "ran": []}
        t0 = time.time()
        sh("git checkout -- . && git clean -fdq -e Cargo.lock", cwd=WT)
        demo = Demo(sdir, prop)
        ok, how, out = demo.run(env)
        r["demo_kind"] = demo.kind
        r["demo_clean_pass"] = ok
        r["ran"].append("clean tree: %s -> %s" % (how, "pass" if ok else "FAIL" if ok is False else "n/a"))
        if ok is False:
            r["demo_clean_tail"] = out[-800:]
        rc, out = sh("git apply %s/patch.diff" % sdir, cwd=WT)
        r["patch_applies"] = rc == 0
        suite = "cargo test --workspace --offline 2>&1 | grep -E '^test result|FAILED|^error' | head"
        rc, out = sh(suite, cwd=WT, env=env)
        r["suite_pass_with_patch"] = ("182 passed" in out) and ("FAILED" not in out) and ("error" not in out)
        r["ran"].append("patched tree: cargo test --workspace --offline -> %s" % out.strip().replace("\n", " | ")[:300])
        if prop == "C20":
            rc, out = sh(suite.replace("--offline", "--offline --features with-sqlite-history"), cwd=WT, env=env)
            r["suite_pass_with_patch"] = r["suite_pass_with_patch"] and ("FAILED" not in out) and ("error" not in out) and "passed" in out
            r["ran"].append("patched tree: cargo test --workspace --offline --features with-sqlite-history -> %s" % out.strip().replace("\n", " | ")[:300])
        ok2, how, out = demo.run(env)
        r["demo_patched_fails"] = (ok2 is False)
        r["ran"].append("patched tree: %s -> %s" % (how, "fails (as intended)" if ok2 is False else "passes?!" if ok2 else "n/a"))
        r["demo_patched_tail"] = out[-600:]
        r["checks"] = {}
        for p in props:
            if not os.path.exists(VCOPY + "/coq/theories/Props/%s.v" % p):
                r["checks"][p] = {"exit": None, "violations": [], "tail": "no check for this property yet"}
                continue
            rc, out = sh("./check %s quick 2>&1 | tail -14" % p, cwd=VCOPY, env={"VERIF_REPO": WT})
            viol = [l for l in out.splitlines() if l.startswith("VIOLATION")]
            r["checks"][p] = {"exit": rc, "violations": viol, "tail": out[-800:]}
            r["ran"].append("VERIF_REPO=<patched tree> ./check %s quick -> exit %d, %d VIOLATION line(s)" % (p, rc, len(viol)))
            for v in viol[:1]:
                path = v.split("replay=")[1].split()[0]
                try:
                    rp = json.load(open(path.replace("/verif/", VCOPY + "/")))
                    r["checks"][p]["replay"] = {k: (v2 if len(json.dumps(v2)) < 1500 else json.dumps(v2)[:1500]) for k, v2 in rp.items()}
                except Exception:
                    pass
        r["wall_s"] = round(time.time() - t0, 1)
        r["confirmed"] = bool(r.get("patch_applies") and r.get("suite_pass_with_patch") and
                              r.get("demo_clean_pass") and r.get("demo_patched_fails"))
        json.dump(r, open("%s/results/%s.json" % (ROOT, name), "w"), indent=1)
        print(name, "confirmed" if r["confirmed"] else "NOT-confirmed(%s,%s,%s,%s)" % (
            r.get("patch_applies"), r.get("suite_pass_with_patch"), r.get("demo_clean_pass"), r.get("demo_patched_fails")),
            {p: (c["exit"], len(c["violations"])) for p, c in r["checks"].items()}, flush=True)
        if r["confirmed"]:
            dst = "/verif/seeded/" + name
            os.makedirs(dst, exist_ok=True)
            shutil.copy(sdir + "/patch.diff", dst + "/patch.diff")
            for fn in demo.files():
                shutil.copy(os.path.join(sdir, fn), os.path.join(dst, fn))
            m = dict(meta)
            m["confirmed_by_seedrun"] = r["ran"]
            m["detected_by"] = {p: (c["exit"] == 1 and len(c["violations"]) > 0) for p, c in r["checks"].items()}
            m["violation_lines"] = {p: c["violations"] for p, c in r["checks"].items()}
            json.dump(m, open(dst + "/meta.json", "w"), indent=1)
    sh("git -C /repo worktree remove --force %s" % WT)
    shutil.rmtree(TARGET, ignore_errors=True)
    shutil.rmtree(VCOPY, ignore_errors=True)
    return 0


if __name__ == "__main__":
    sys.exit(main())
