"""C18: non-terminal input. Stream `direct` (child process with stdin a pipe)."""
import random

from common import *
from p_histfile import enc, dec, encb
import p_seg

ALPHA = [0x61, 0x62, 0x28, 0x29, 0x5b, 0x5d, 0x7b, 0x7d, 0x0a, 0x0a, 0x0d, 0x08, 0x08, 0xe9, 0x301, 0x65e5,
         0x1f600, 0x200d, 0x1f1e6, 0x915, 0x93e, 0x20]


def utf8(cps):
    return list("".join(map(chr, cps)).encode("utf-8"))


def direct_cases(tier, seed):
    rng = random.Random(seed * 23 + 9)
    n = 6000 if tier == "thorough" else 700
    cases = []
    for k in range(n):
        v = rng.random() < 0.4
        s = []
        for _ in range(rng.randint(0, 14)):
            r = rng.random()
            if r < 0.06:
                # a grapheme cluster of any byte length, > 255 bytes included
                s += [0x61] + [0x301] * rng.choice([1, 3, 100, 127, 128, 130, 200])
                if rng.random() < 0.7:
                    s.append(0x08)
            elif r < 0.12:
                s += [0x0d, 0x0a]
            else:
                s.append(rng.choice(ALPHA))
        cases.append(("%d %s" % (v, encb(utf8(s))), s, v))
    # a bracket kept open over several lines whose terminators are MIXED (LF, CR LF), with backspaces reaching back
    # over a kept line break: what is accumulated must keep every terminator as it was typed
    for k in range(n // 6):
        s = [rng.choice([0x28, 0x5b, 0x7b])]
        closer = {0x28: 0x29, 0x5b: 0x5d, 0x7b: 0x7d}[s[0]]
        for _ in range(rng.randint(1, 4)):
            s += [rng.choice([0x61, 0x62, 0xe9, 0x65e5, 0x20]) for _ in range(rng.randint(0, 3))]
            s += rng.choice([[0x0a], [0x0d, 0x0a], [0x0a], [0x0d, 0x0a], [0x0d]])
            if rng.random() < 0.25:
                s += [0x08] * rng.randint(1, 3)
        s += [rng.choice([0x61, 0x62])] * rng.randint(0, 2) + [closer] + rng.choice([[0x0a], [0x0d, 0x0a]])
        if rng.random() < 0.5:
            s += [0x61, 0x0a]
        cases.append(("1 %s" % encb(utf8(s)), s, True))
    # a CR inside the line whose followers are all erased by backspaces, so that it ends up right before the LF: it was not
    # part of the terminator when the line was read and stays in the text
    for k in range(n // 10):
        s = []
        for _ in range(rng.randint(1, 3)):
            s += [rng.choice([0x61, 0x62, 0xe9, 0x65e5]) for _ in range(rng.randint(0, 3))]
            s.append(0x0d)
            m = rng.randint(1, 3)
            s += [rng.choice([0x61, 0x78, 0xe9]) for _ in range(m)] + [0x08] * (m + rng.choice([0, 0, 0, 1, -1]) if m > 1 else m)
            s += rng.choice([[0x0a], [0x0a], [0x0d, 0x0a]])
        v = rng.random() < 0.3
        cases.append(("%d %s" % (v, encb(utf8(s))), s, v))
    # a closer that does not match while SEVERAL brackets are open (rejected: the text stays), then a line whose backspaces
    # erase the offending part and which closes properly: every verdict starts from a clean slate
    for k in range(n // 10):
        opens = [rng.choice([0x28, 0x5b, 0x7b]) for _ in range(rng.randint(2, 4))]
        closer = {0x28: 0x29, 0x5b: 0x5d, 0x7b: 0x7d}
        wrong = rng.choice([c for c in (0x29, 0x5d, 0x7d) if c != closer[opens[-1]]])
        s = opens + [wrong]
        if rng.random() < 0.4:
            # a character typed and erased, then a combining mark that joins the cluster before it -- all inside the rejected
            # line; sometimes a blank line follows it
            s += [0x78, 0x08, 0x301]
        s += rng.choice([[0x0a], [0x0d, 0x0a]])
        if rng.random() < 0.3:
            s += rng.choice([[0x0a], [0x0d, 0x0a]])
        keep = rng.randint(1, len(opens))
        s += [0x08] * (len(opens) - keep + 1) + [closer[c] for c in reversed(opens[:keep])] + [0x0a]
        s += [rng.choice([0x78, 0x79])] + [0x0a] + ([0x28, 0x29, 0x0a] if rng.random() < 0.5 else [])
        cases.append(("1 %s" % encb(utf8(s)), s, True))
    # the scripted validator (every verdict, errors included): ## error, !! invalid with a message, ~~ invalid with an
    # empty message, ?? invalid without message, trailing backslash incomplete, ok valid with a message
    frag = [[0x23, 0x23], [0x21, 0x21], [0x7e, 0x7e], [0x3f, 0x3f], [0x5c], [0x6f, 0x6b], [0x61], [0x62], [0x20], [0xe9],
            [0x23], [0x21], [0x08], [0x61], [0x78]]
    for k in range(n // 4):
        s = []
        for _ in range(rng.randint(1, 6)):
            for _ in range(rng.randint(0, 4)):
                s += rng.choice(frag)
            s += rng.choice([[0x0a], [0x0a], [0x0d, 0x0a]])
        if rng.random() < 0.3:
            s += rng.choice(frag)                 # a last line without terminator
        cases.append(("2 %s" % encb(utf8(s)), s, 2))
    # the same streams with TERM=dumb: the unsupported-terminal test sends the read down the same non-interactive path
    extra = []
    for (line, s, v) in rng.sample(cases, min(len(cases), n // 5)):
        kind, rest = line.split(" ", 1)
        extra.append(("%sd %s" % (kind, rest), s, v))
    # brackets nested deeper than a machine word has bit pairs, closed over several lines; characters whose code point ends in the
    # byte of an ASCII bracket (U+017B ends in 7B, U+015B in 5B, U+0129 in 29, U+597D in 7D, U+0228 in 28, U+025D in 5D): not brackets
    for k in range(max(4, n // 80)):
        depth = rng.choice([31, 32, 33, 34, 40, 64, 65, 70])
        opens = [rng.choice([0x28, 0x5b, 0x7b]) for _ in range(depth)]
        closer = {0x28: 0x29, 0x5b: 0x5d, 0x7b: 0x7d}
        cl = [closer[c] for c in reversed(opens)]
        cut = rng.randint(1, depth - 1)
        s = opens + [0x0a] + cl[:cut] + [0x0a] + cl[cut:] + [0x0a, 0x78, 0x0a]
        cases.append(("1 %s" % encb(utf8(s)), s, True))
    for k in range(max(6, n // 60)):
        odd = [0x17b, 0x15b, 0x129, 0x597d, 0x228, 0x25d]
        s = []
        for _ in range(rng.randint(1, 3)):
            s += [rng.choice(odd + [0x61, 0x20]) for _ in range(rng.randint(1, 5))] + rng.choice([[0x0a], [0x0d, 0x0a]])
        s += [0x61, 0x62, 0x63, 0x0a]
        v = rng.random() < 0.8
        cases.append(("%d %s" % (v, encb(utf8(s))), s, v))
    # input longer than the reader's buffer (8 KiB at a time): characters of 2-4 bytes lying ACROSS the 8192 / 16384 byte
    # marks, in one long line and in many short lines
    for d in range(4):
        s = [0x61] * (8189 + d) + [0xe9, 0x65e5, 0x1f600, 0x62, 0x0a, 0x78, 0x0a]
        cases.append(("0 %s" % encb(utf8(s)), s, False))
        if tier == "thorough":       # (the model is quadratic in the length of a line: 10 s each)
            s = [0x61] * (16381 + d) + [0x1f600, 0xe9, 0x0a]
            cases.append(("0 %s" % encb(utf8(s)), s, False))
    for d in range(3 if tier == "thorough" else 1):
        s = [0x62] * d
        for k in range(300):          # (the child of the harness reads at most 400 lines)
            s += [0x65e5, 0x672c, 0xe9, 0x1f600] * 5 + [0x30 + k % 10, 0x0a]
        cases.append(("0 %s" % encb(utf8(s)), s, False))
    return cases + extra


def script_verdict(s):
    def has(t):
        return any(s[i:i + len(t)] == t for i in range(len(s) - len(t) + 1))
    if has([0x23, 0x23]) or has([0x23, 0x40]):
        return "error"
    if has([0x21, 0x21]) or has([0x7e, 0x7e]) or has([0x3f, 0x3f]):
        return "invalid"
    if s and s[-1] == 0x5c:
        return "incomplete"
    return "valid"


def graphemes_impl(exe, strs, tmp):
    out = run_impl(exe, "seg", [enc(s) if s else "-" for s in strs], tmp)
    res = []
    for o in out:
        o = o.split(" BACKWARD")[0]
        res.append([] if o == "_" else [dec(t) for t in o.split(",")])
    return res


def split_lines(s):
    parts, cur = [], []
    for c in s:
        cur.append(c)
        if c == 0x0a:
            parts.append(cur)
            cur = []
    if cur:
        parts.append(cur)
    return parts


def brackets(s):
    st = []
    pairs = {0x29: 0x28, 0x5d: 0x5b, 0x7d: 0x7b}
    for c in s:
        if c in (0x28, 0x5b, 0x7b):
            st.append(c)
        elif c in pairs:
            if not st or st.pop() != pairs[c]:
                return "invalid"
    return "valid" if not st else "incomplete"


def c13_direct(res, exe, driver, tier, seed, tmp):
    """C13, non-terminal input: the validator cases of the direct stream (bracket matcher and scripted verdicts)"""
    cases = [c for c in direct_cases(tier, seed) if c[2]]
    run_direct_cases(res, exe, driver, cases, tmp, "direct-validate")
    return len(cases)


def c18_corr(res, exe, driver, tier, seed, tmp):
    p_seg.seg_corr(res, exe, driver, "quick", seed, tmp)
    run_direct_cases(res, exe, driver, direct_cases(tier, seed), tmp, "direct")


def run_direct_cases(res, exe, driver, cases, tmp, stream):
    lines = [c[0] for c in cases]
    impl = run_impl(exe, "direct", lines, tmp)
    if driver:
        model = run_model(driver, "direct", lines, tmp)
        compare(res, stream, lines, impl, model)
    res.evaluations += len(cases)
    # oracle (no validator): the property statement evaluated with the implementation's own segmentation
    exp_lines = []
    idx = []
    for k, (line, s, v) in enumerate(cases):
        if v:
            continue
        txt = s
        parts, cur = [], []
        for c in txt:
            cur.append(c)
            if c == 0x0a:
                parts.append(cur)
                cur = []
        if cur:
            parts.append(cur)
        for p in parts:
            if p and p[-1] == 0x0a:
                p = p[:-1]
                if p and p[-1] == 0x0d:
                    p = p[:-1]
            exp_lines.append(p)
            idx.append(k)
    gs = graphemes_impl(exe, exp_lines, tmp)
    expected = {}
    for k, g in zip(idx, gs):
        st = []
        for cl in g:
            if cl == [0x08]:
                if st:
                    st.pop()
            else:
                st.append(cl)
        expected.setdefault(k, []).append([c for cl in st for c in cl])
    big = 0
    for k, ((line, s, v), o) in enumerate(zip(cases, impl)):
        why = None
        toks = o.split()
        if "PANIC" in toks or "CHILD-DIED" in toks:
            why = "panic / child died"
        elif not v:
            exp = ["L:" + enc(l) for l in expected.get(k, [])] + ["EOF"]
            if toks != exp:
                why = "lines returned %s, expected %s" % (" ".join(toks)[:300], " ".join(exp)[:300])
        elif v == 2:
            # every line returned is accepted by the validator; a validator error is reported to the caller exactly where
            # the text read so far makes the validator fail (reference: lines without backspaces only)
            for t in toks:
                if t.startswith("L:") and script_verdict(dec(t[2:])) != "valid":
                    why = "returned a line the validator does not accept: %s" % t[:200]
            if toks and toks[-1] != "EOF":
                why = "did not end with EOF"
            if not why and 0x08 not in s:
                exp, acc = [], []
                for part in split_lines(s):
                    body = part[:-1] if part and part[-1] == 0x0a else part
                    cr = bool(body) and body[-1] == 0x0d and part[-1:] == [0x0a]
                    if cr:
                        body = body[:-1]
                    cur = acc + body
                    vd = script_verdict(cur)
                    if vd == "valid":
                        exp.append("L:" + enc(cur)); acc = []
                    elif vd == "error":
                        exp.append("ERR"); acc = []
                    elif vd == "invalid":
                        acc = cur
                    else:
                        acc = cur + ([0x0d] if cr else []) + ([0x0a] if part[-1:] == [0x0a] else [])
                exp.append("EOF")
                if toks != exp:
                    why = "scripted validator: returned %s, expected %s" % (" ".join(toks)[:300], " ".join(exp)[:300])
        else:
            for t in toks:
                if t.startswith("L:") and brackets(dec(t[2:])) != "valid":
                    why = "returned a line the validator does not accept: %s" % t[:200]
            if toks and toks[-1] != "EOF":
                why = "did not end with EOF"
        if why:
            res.oracle_failures.append({"stream": stream, "case": line, "impl": o, "why": why})
        if 0x08 in s and (0x0a in s):
            res.nontrivial.add(line)
        if s.count(0x301) >= 128:
            big += 1
    if stream != "direct":
        return
    res.rule = ("direct stream: one child process per case with stdin a pipe; valid UTF-8 streams over {a,b,brackets,LF,CR,"
                "CRLF,backspace,2/3/4-byte chars,combining marks,ZWJ,RI,Indic} with clusters of up to 400 bytes followed by "
                "backspace; with (40%) and without the bracket validator, and with a scripted validator giving every verdict "
                "(error, invalid with / without / with empty message, incomplete, valid with message); reads repeated until "
                "end-of-file. Oracle without "
                "validator: lines split at LF, LF/CRLF removed, backspaces applied over the crate's own grapheme segmentation. "
                "Non-trivial = the stream has both a backspace and a line break. Also runs the seg stream (model segmentation "
                "vs unicode-segmentation).")
    res.distribution = {"with_validator": sum(1 for c in cases if c[2]), "scripted_validator": sum(1 for c in cases if c[2] == 2),
                        "clusters_over_255_bytes": big}
    res.samples = [{"case": c[0][:200], "impl": o[:200]} for c, o in list(zip(cases, impl))[:3]]
